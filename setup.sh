#!/bin/sh
# Offline setup after a fresh restore: build the harness from /repo's working tree.
set -e
cd "$(dirname "$0")"
export CARGO_NET_OFFLINE=true
[ -f harness/Cargo.lock ] || cp /repo/Cargo.lock harness/Cargo.lock
(cd harness && cargo build --release --offline --quiet >/dev/null 2>&1 || cargo build --release --offline)
test -x harness/target/release/vh
echo "setup ok"
