"""Driver library for the texcraft TLA+ verification machinery.

Conventions (DESIGN.md section 9):
  exit 0  property held on everything explored (KNOWN-FINDING lines allowed)
  exit 1  only together with `VIOLATION property=<id> replay=<path>` and a replay file
  exit 2  tool trouble (cargo, TLC, timeout, vacuous coverage) -- never a violation
"""
import concurrent.futures as cf
import hashlib
import json
import os
import re
import shutil
import subprocess
import sys
import time
from pathlib import Path

VERIF = Path(__file__).resolve().parent.parent
SPECS = VERIF / "specs"
HARNESS = VERIF / "harness"
VH = HARNESS / "target" / "release" / "vh"
TLA_CP = "/opt/veriftools/tla/tla2tools.jar:/opt/veriftools/tla/CommunityModules-deps.jar"
NCPU = os.cpu_count() or 4


class ToolError(Exception):
    pass


def log(*a):
    print(*a, file=sys.stderr, flush=True)


# --------------------------------------------------------------------------------------
# context / evidence / findings
# --------------------------------------------------------------------------------------
class Ctx:
    def __init__(self, pid, tier, level="model_checking"):
        self.id = pid
        self.tier = tier
        self.quick = tier == "quick"
        self.seed = int(os.environ.get("VERIF_SEED", "20260925") or 0)
        self.level = level
        self.t0 = time.time()
        self.work = VERIF / "work" / f"{pid}-{os.getpid()}"
        if self.work.exists():
            shutil.rmtree(self.work)
        self.work.mkdir(parents=True)
        self.cov = {
            "states": 0,
            "transitions": 0,
            "traces_validated_against_impl": 0,
            "evaluations": 0,
            "distinct_nontrivial": 0,
            "samples": [],
            "rule": "",
            "parts": {},
        }
        self.assumptions = []
        self.violations = []  # (desc, replay path)
        self.known = {}  # finding key -> count
        self.findings = load_findings(pid)
        self._nrep = 0
        for old in (VERIF / "replays" / pid).glob(f"{tier}-*.json"):
            old.unlink()

    # ---- accounting --------------------------------------------------------------------
    def add_model(self, name, res):
        self.cov["states"] += res.distinct
        self.cov["transitions"] += res.generated
        self.cov["parts"][name] = {
            "tlc_distinct_states": res.distinct,
            "tlc_states_generated": res.generated,
            "wall_s": round(res.wall, 1),
        }
        if res.actions:
            self.cov["parts"][name]["actions_taken"] = res.actions

    def add_bound(self, name, n, nontrivial=None, **extra):
        """n behaviours / traces / call events of the real code decided by the spec."""
        self.cov["traces_validated_against_impl"] += n
        self.cov["evaluations"] += n
        self.cov["distinct_nontrivial"] += n if nontrivial is None else nontrivial
        d = self.cov["parts"].setdefault(name, {})
        d["bound_to_impl"] = d.get("bound_to_impl", 0) + n
        if nontrivial is not None:
            d["nontrivial"] = d.get("nontrivial", 0) + nontrivial
        d.update(extra)

    def sample(self, obj, cap=6):
        if len(self.cov["samples"]) < cap:
            self.cov["samples"].append(obj)

    # ---- verdicts ----------------------------------------------------------------------
    def violation(self, desc, replay_obj):
        """Report a violation unless a known finding explains it (key match)."""
        self._nrep += 1
        d = VERIF / "replays" / self.id
        d.mkdir(parents=True, exist_ok=True)
        p = d / f"{self.tier}-{self._nrep:03d}.json"
        replay_obj = dict(replay_obj)
        replay_obj.setdefault("property", self.id)
        replay_obj.setdefault("desc", desc)
        p.write_text(json.dumps(replay_obj, indent=1, sort_keys=True))
        self.violations.append((desc, str(p)))
        if len(self.violations) <= 20:
            print(f"VIOLATION property={self.id} replay={p}", flush=True)
            log(f"  -> {desc}")

    def known_finding(self, key, what=None):
        self.known[key] = self.known.get(key, 0) + 1

    def finding_for(self, key):
        for f in self.findings:
            if f.get("status", "open") == "open" and f["key"] == key:
                return f
        return None

    def judge(self, key, desc, replay_obj):
        """A deviation named `key` was observed.  Known finding -> KNOWN-FINDING, else VIOLATION."""
        if key and self.finding_for(key):
            self.known_finding(key)
        else:
            self.violation(desc, replay_obj)

    def finish(self):
        wall = time.time() - self.t0
        for key, n in sorted(self.known.items()):
            f = self.finding_for(key)
            print(f"KNOWN-FINDING: property={self.id} {key}: {f['what']} ({n} cases this run)", flush=True)
        cov = self.cov
        if not cov["samples"]:
            cov["samples"] = ["(no sample recorded)"]
        ev = {
            "property_id": self.id,
            "tier": self.tier,
            "seed": self.seed,
            "level": self.level,
            "coverage": cov,
            "assumptions": self.assumptions,
            "wall_s": round(wall, 1),
            "violations": len(self.violations),
            "known_findings": {k: v for k, v in sorted(self.known.items())},
        }
        (VERIF / "evidence").mkdir(exist_ok=True)
        (VERIF / "evidence" / f"{self.id}.json").write_text(json.dumps(ev, indent=1))
        shutil.rmtree(self.work, ignore_errors=True)
        log(
            f"[{self.id} {self.tier}] states={cov['states']} transitions={cov['transitions']} "
            f"bound={cov['traces_validated_against_impl']} violations={len(self.violations)} "
            f"known={sum(self.known.values())} wall={wall:.1f}s"
        )
        return 1 if self.violations else 0


def load_findings(pid):
    """known_findings/<ID>.json: {"findings": [{"property", "key", "status": "open"|"fixed", "what", ...}]}.
    Only entries with status "open" ever suppress anything; the file is never written at run time."""
    p = VERIF / "known_findings" / f"{pid}.json"
    if not p.exists():
        return []
    data = json.loads(p.read_text())
    return [f for f in data.get("findings", []) if f["property"] == pid]


# --------------------------------------------------------------------------------------
# harness
# --------------------------------------------------------------------------------------
_built = False


def build_harness():
    """cargo build of the harness; path deps => recompiles whatever changed under /repo."""
    global _built
    if _built:
        return VH
    lock = HARNESS / "Cargo.lock"
    if not lock.exists():
        shutil.copy("/repo/Cargo.lock", lock)
    env = dict(os.environ, CARGO_NET_OFFLINE="true")
    t = time.time()
    p = subprocess.run(
        ["cargo", "build", "--release", "--offline", "--quiet"],
        cwd=HARNESS, env=env, stdout=subprocess.PIPE, stderr=subprocess.STDOUT, text=True,
    )
    if p.returncode != 0:
        log(p.stdout[-6000:])
        raise ToolError("cargo build of the harness failed (API change in /repo or toolchain problem)")
    log(f"[build] harness built in {time.time()-t:.1f}s")
    _built = True
    return VH


class HangDetected(Exception):
    """The harness was ended by the code under test: a call that does not return (watchdog) or a panic outside
    the calls the harness brackets.  Both are data about the code, not tool errors."""
    def __init__(self, msg, args, kind="hang"):
        super().__init__(msg)
        self.vh_args = args
        self.kind = kind


def vh(args, stdin_path=None, stdout_path=None, timeout=3600, check=True, env=None):
    """Run the harness binary.  Returns CompletedProcess.  A crash (signal / abort) of the harness
    is reported to the caller through returncode; callers treat it as data when the code under
    test caused it."""
    build_harness()
    t0 = time.time()
    fin = open(stdin_path, "rb") if stdin_path else subprocess.DEVNULL
    fout = open(stdout_path, "wb") if stdout_path else subprocess.PIPE
    e = dict(os.environ)
    e.setdefault("RUST_BACKTRACE", "0")
    if env:
        e.update(env)
    try:
        p = subprocess.run([str(VH)] + [str(a) for a in args], stdin=fin, stdout=fout,
                           stderr=subprocess.PIPE, timeout=timeout, env=e)
    except subprocess.TimeoutExpired:
        raise ToolError(f"harness timed out: vh {' '.join(map(str,args))}")
    finally:
        if stdin_path:
            fin.close()
        if stdout_path:
            fout.close()
    if p.returncode == 3 and b"VH-HANG" in (p.stderr or b""):
        # the harness's watchdog: a call of the code under test did not return (util.rs).  Data, not a tool error.
        msg = [l for l in p.stderr.decode(errors="replace").splitlines() if l.startswith("VH-HANG")][-1]
        raise HangDetected(f"vh {' '.join(map(str, args))}: {msg}", [str(a) for a in args])
    if p.returncode == 101:
        # a panic of the code under test at a place where the harness did not expect one (it ended the harness):
        # the harness's own hook names it, or Rust's default hook does ("panicked at <repo>/crates/...")
        lines = (p.stderr or b"").decode(errors="replace").splitlines()
        mine = [l for l in lines if l.startswith("VH-UNCAUGHT-PANIC at crates/")
                or ("panicked at " in l and "/crates/" in l.split("panicked at ", 1)[1] and "/harness/" not in l)]
        if mine:
            raise HangDetected(f"vh {' '.join(map(str, args))}: {mine[0]}", [str(a) for a in args], kind="panic")
    if check and p.returncode != 0:
        log(p.stderr.decode(errors="replace")[-4000:])
        raise ToolError(f"harness failed rc={p.returncode}: vh {' '.join(map(str,args))}")
    log(f"[vh] {args[0]} {time.time()-t0:.1f}s")
    return p


# --------------------------------------------------------------------------------------
# TLC
# --------------------------------------------------------------------------------------
class TlcResult:
    def __init__(self):
        self.rc = None
        self.out = ""
        self.generated = 0
        self.distinct = 0
        self.wall = 0.0
        self.ok = False
        self.violated = None  # name of violated invariant / property / "deadlock"
        self.actions = {}  # action name -> states generated (coverage)
        self.error = None  # tool-level problem text


_COV_RE = re.compile(r"^<(\w+) line (\d+), col \d+ to line \d+, col \d+ of module (\w+)(?: \([\d ]+\))?>: (\d+):(\d+)")


def tlc_run(module, cfg=None, workers=4, env=None, args=(), timeout=1800, cwd=None,
            xmx="4g", xss=None, deque=False, coverage=True, work=None, simulate=None):
    """Run TLC on specs/<module>.tla with specs/<cfg>.  Returns TlcResult (never raises on a
    property violation; raises ToolError on tool trouble)."""
    cwd = Path(cwd or SPECS)
    cfg = cfg or (module + ".cfg")
    work = Path(work or (VERIF / "work" / f"tlc-{os.getpid()}-{time.time_ns()}"))
    work.mkdir(parents=True, exist_ok=True)
    java = ["java", "-XX:+UseParallelGC", f"-Xmx{xmx}"]
    if xss:
        java.append(f"-Xss{xss}")
    if deque:
        java.append("-Dtlc2.tool.queue.IStateQueue=StateDeque")
    cmd = java + ["-cp", TLA_CP, "tlc2.TLC", "-workers", str(workers), "-metadir", str(work / "meta"),
                  "-cleanup", "-noGenerateSpecTE", "-config", str(cfg)]
    if coverage and not simulate:
        cmd += ["-coverage", "1"]
    if simulate:
        cmd += ["-simulate", simulate]
    cmd += list(args) + [module + ".tla"]
    e = dict(os.environ)
    e.pop("JAVA_TOOL_OPTIONS", None)
    if env:
        e.update({k: str(v) for k, v in env.items()})
    t = time.time()
    r = TlcResult()
    try:
        p = subprocess.run(cmd, cwd=cwd, env=e, stdout=subprocess.PIPE, stderr=subprocess.STDOUT,
                           text=True, timeout=timeout, errors="replace")
    except subprocess.TimeoutExpired:
        shutil.rmtree(work, ignore_errors=True)
        raise ToolError(f"TLC timed out after {timeout}s on {module}/{cfg}")
    r.wall = time.time() - t
    r.rc = p.returncode
    r.out = p.stdout
    shutil.rmtree(work, ignore_errors=True)
    for line in r.out.splitlines():
        m = re.match(r"^(\d+) states generated, (\d+) distinct states found", line)
        if m:
            r.generated, r.distinct = int(m.group(1)), int(m.group(2))
        m = _COV_RE.match(line)
        if m:
            r.actions[m.group(1)] = max(r.actions.get(m.group(1), 0), int(m.group(5)))
        m = re.match(r"^Error: Invariant (\S+) is violated", line)
        if m:
            r.violated = m.group(1)
        if line.startswith("Error: Action property") or line.startswith("Error: Temporal properties were violated"):
            r.violated = r.violated or line
        if line.startswith("Error: Deadlock reached"):
            r.violated = "deadlock"
        if "Error: The postcondition" in line or "POSTCONDITION" in line and "violated" in line:
            r.violated = r.violated or "postcondition"
    r.ok = ("Model checking completed. No error has been found." in r.out) or (
        simulate is not None and r.rc == 0)
    if not r.ok and r.violated is None:
        r.error = r.out[-3000:]
    return r


def tlc_model(ctx, name, module, cfg=None, expect_actions=(), **kw):
    """Model step: exhaustive TLC run that must complete without error; vacuity guard on actions."""
    res = tlc_run(module, cfg, work=ctx.work / f"tlc-{name}", **kw)
    if res.violated:
        log(res.out[-5000:])
        raise ToolError(f"design-level error: TLC reports {res.violated} in {module}/{cfg or module+'.cfg'} "
                        f"(the specification itself is inconsistent; not a verdict about the code)")
    if not res.ok:
        log(res.out[-5000:])
        raise ToolError(f"TLC did not complete on {module}")
    for a in expect_actions:
        if res.actions.get(a, 0) == 0:
            raise ToolError(f"vacuous model: action {a} never taken in {module} (coverage {res.actions})")
    ctx.add_model(name, res)
    log(f"[tlc] {name}: {res.distinct} distinct / {res.generated} generated in {res.wall:.1f}s")
    return res


def tlc_expect_refuted(module, cfg, what, **kw):
    """Negative control: a spec-level mutant must be refuted by TLC."""
    res = tlc_run(module, cfg, coverage=False, **kw)
    if not res.violated:
        raise ToolError(f"negative control not refuted: {module}/{cfg} ({what})")
    return res


def unescape_tla(s):
    out = []
    i = 0
    while i < len(s):
        c = s[i]
        if c == "\\" and i + 1 < len(s):
            n = s[i + 1]
            out.append({"n": "\n", "t": "\t", "r": "\r", "f": "\f"}.get(n, n))
            i += 2
        else:
            out.append(c)
            i += 1
    return "".join(out)


def printed(out, tag):
    """Yield the JSON payloads of lines `<<"TAG", "<json>">>` printed by PrintT."""
    pre = f'<<"{tag}", "'
    for line in out.splitlines():
        if line.startswith(pre) and line.endswith('">>'):
            yield json.loads(unescape_tla(line[len(pre):-3]))


def printed_raw(out, tag):
    pre = f'<<"{tag}"'
    for line in out.splitlines():
        if line.startswith(pre):
            yield line


def spec_hash(*files):
    h = hashlib.sha256()
    for f in files:
        h.update(Path(f).read_bytes())
    return h.hexdigest()[:16]


def spec_closure(module):
    """Files of specs/ that `module` transitively EXTENDS / INSTANCEs."""
    seen, todo = [], [module]
    while todo:
        m = todo.pop()
        f = SPECS / f"{m}.tla"
        if not f.exists() or f in seen:
            continue
        seen.append(f)
        txt = f.read_text()
        for mm in re.finditer(r"^\s*EXTENDS\s+(.*)$", txt, re.M):
            todo += [x.strip() for x in mm.group(1).split(",")]
        for mm in re.finditer(r"INSTANCE\s+(\w+)", txt):
            todo.append(mm.group(1))
    return sorted(seen)


def tlc_dump(ctx, name, module, cfg, tag="LTS", cache=True, **kw):
    """Run TLC with a config that prints one JSON line per transition (ACTION_CONSTRAINT Emit),
    single worker.  Result is cached under cache/ keyed by the hash of every spec file."""
    cdir = VERIF / "cache"
    cdir.mkdir(exist_ok=True)
    key = spec_hash(*(spec_closure(module) + [SPECS / cfg]))
    for old in cdir.glob(f"{name}-*"):
        if key not in old.name:
            old.unlink()
    path = cdir / f"{name}-{key}.ndjson"
    meta = cdir / f"{name}-{key}.meta.json"
    if cache and path.exists() and meta.exists():
        m = json.loads(meta.read_text())
        res = TlcResult()
        res.distinct, res.generated, res.wall, res.actions = m["distinct"], m["generated"], 0.0, m.get("actions", {})
        ctx.add_model(name, res)
        ctx.cov["parts"][name]["cached"] = True
        return path, m["edges"]
    res = tlc_run(module, cfg, workers=1, work=ctx.work / f"tlc-{name}", **kw)
    if res.violated or not res.ok:
        log(res.out[-5000:])
        raise ToolError(f"TLC LTS dump failed for {module}/{cfg}: {res.violated}")
    tmp = ctx.work / f"{name}.ndjson"
    n = 0
    with open(tmp, "w") as f:
        for obj in printed(res.out, tag):
            f.write(json.dumps(obj, separators=(",", ":")) + "\n")
            n += 1
    if n == 0:
        raise ToolError(f"LTS dump of {module} is empty")
    os.replace(tmp, path)
    meta.write_text(json.dumps({"distinct": res.distinct, "generated": res.generated, "edges": n,
                                "actions": res.actions}))
    ctx.add_model(name, res)
    log(f"[tlc] {name}: LTS with {n} edges, {res.distinct} states, {res.wall:.1f}s")
    return path, n


# ---- trace / call-event validation ------------------------------------------------------
class TraceVerdict:
    def __init__(self, path):
        self.path = path
        self.n = 0  # events in file
        self.matched = 0  # longest matched prefix
        self.accepted = False
        self.verdicts = []  # payloads printed with tag VERDICT
        self.out = ""
        self.wall = 0


def count_lines(p):
    n = 0
    with open(p, "rb") as f:
        for _ in f:
            n += 1
    return n


def tlc_validate_one(module, cfg, trace_path, work, env=None, timeout=3600, xmx="3g"):
    v = TraceVerdict(trace_path)
    v.n = count_lines(trace_path)
    e = {"TRACE": str(trace_path)}
    if env:
        e.update(env)
    res = tlc_run(module, cfg, workers=1, env=e, timeout=timeout, xmx=xmx, xss="1g", deque=True,
                  coverage=False, work=work)
    v.out = res.out
    v.wall = res.wall
    v.verdicts = list(printed(res.out, "VERDICT"))
    m = None
    for line in res.out.splitlines():
        mm = re.match(r'^<<"MATCHED", (\d+)', line)
        if mm:
            m = int(mm.group(1))
    if res.ok and res.violated is None:
        v.accepted = True
        v.matched = v.n
    else:
        if m is None:
            raise ToolError(f"trace validation of {trace_path} with {module} failed without verdict:\n{res.out[-3000:]}")
        v.matched = m
    return v


def tlc_validate(ctx, module, cfg, trace_paths, par=None, env=None, timeout=3600, xmx="3g"):
    """Validate several ndjson traces in parallel (one single-worker JVM each)."""
    par = par or min(len(trace_paths), max(1, NCPU - 2))
    out = []
    with cf.ThreadPoolExecutor(max_workers=par) as ex:
        futs = [ex.submit(tlc_validate_one, module, cfg, p, ctx.work / f"tv-{i}", env, timeout, xmx)
                for i, p in enumerate(trace_paths)]
        for f in futs:
            out.append(f.result())
    return out


def split_file(path, parts, outdir, stem):
    """Split an ndjson file into `parts` files of contiguous lines."""
    lines = Path(path).read_bytes().splitlines(keepends=True)
    n = len(lines)
    parts = max(1, min(parts, n))
    res = []
    for i in range(parts):
        lo, hi = i * n // parts, (i + 1) * n // parts
        p = Path(outdir) / f"{stem}-{i:02d}.ndjson"
        with open(p, "wb") as f:
            f.writelines(lines[lo:hi])
        res.append((p, lo))
    return res


def read_ndjson(path):
    with open(path) as f:
        return [json.loads(l) for l in f if l.strip()]


def main_wrapper(fn, pid, tier, level="model_checking"):
    ctx = Ctx(pid, tier, level)
    try:
        fn(ctx)
        return ctx.finish()
    except HangDetected as e:
        # total functions that do not return break every property they are anchored in; the replay is the harness
        # command (deterministic in its arguments) - run it again to watch the same call hang
        what = "a call of the code under test did not return" if e.kind == "hang" else "the code under test panicked"
        ctx.violation(f"{what}: {e}",
                      {"kind": e.kind, "harness_command": e.vh_args, "seed": ctx.seed,
                       "how": "harness/target/release/vh <harness_command>  (VH_CALL_LIMIT_S sets the patience)"})
        return ctx.finish()
    except ToolError as e:
        log(f"TOOL-ERROR [{pid}]: {e}")
        shutil.rmtree(ctx.work, ignore_errors=True)
        return 2


# ---- higher-level bindings --------------------------------------------------------------
def validate_calls(ctx, module, cfg, path, parts=None, env=None, timeout=3600, xmx="3g"):
    """Binding F.  `path` holds independent call events, one per line.  The trace spec consumes
    every line and prints <<"VERDICT", json>> with field l (1-based line within its chunk) for each
    event it does not accept.  Returns (n_events, [(event, verdict), ...])."""
    t0 = time.time()
    n = count_lines(path)
    if n == 0:
        raise ToolError(f"no events recorded in {path}")
    parts = parts or max(1, min(NCPU - 2, n // 2000 + 1))
    chunks = split_file(path, parts, ctx.work, Path(path).stem + "-c")
    vs = tlc_validate(ctx, module, cfg, [c[0] for c in chunks], env=env, timeout=timeout, xmx=xmx)
    bad = []
    for (cpath, lo), v in zip(chunks, vs):
        if not v.accepted:
            raise ToolError(f"call-event validation stopped early in {cpath} at line {v.matched + 1}: "
                            f"{v.out[-2000:]}")
        if v.verdicts:
            lines = Path(cpath).read_text().splitlines()
            for verdict in v.verdicts:
                bad.append((json.loads(lines[verdict["l"] - 1]), verdict))
    log(f"[tlc] {module}: {n} call events validated in {time.time()-t0:.1f}s, {len(bad)} not accepted")
    return n, bad


def validate_traces(ctx, module, cfg, path, parts=None, env=None, max_reject=12, timeout=3600, xmx="3g"):
    """Binding T.  `path` holds traces separated by {"ev":"reset"} events (each trace starts with
    one).  Returns (n_traces, n_events, rejections) where a rejection is
    {"events": [...the whole trace...], "at": index of the first unmatched event in it}."""
    t0 = time.time()
    lines = Path(path).read_bytes().split(b"\n")
    lines = [ln + b"\n" for ln in lines if ln]
    if not lines:
        raise ToolError(f"no events recorded in {path}")
    starts = [i for i, ln in enumerate(lines) if ln.startswith(b'{"ev":"reset"')]
    if not starts or starts[0] != 0:
        raise ToolError(f"{path} does not start with a reset event")
    ntr = len(starts)
    parts = parts or max(1, min(NCPU - 2, ntr, len(lines) // 1500 + 1))
    bounds = starts + [len(lines)]
    # chunk = consecutive traces
    chunks = []
    for i in range(parts):
        a, b = i * ntr // parts, (i + 1) * ntr // parts
        if a < b:
            chunks.append((bounds[a], bounds[b]))
    rejections = []
    rnd = 0
    while chunks:
        files = []
        for j, (a, b) in enumerate(chunks):
            p = ctx.work / f"{Path(path).stem}-r{rnd}-{j:02d}.ndjson"
            with open(p, "wb") as f:
                f.writelines(lines[a:b])
            files.append(p)
        vs = tlc_validate(ctx, module, cfg, files, env=env, timeout=timeout, xmx=xmx)
        nxt = []
        for (a, b), v in zip(chunks, vs):
            if v.accepted:
                # specs with a skip-to-next-reset step report unmatched lines as VERDICTs
                for verdict in v.verdicts:
                    bad_line = a + verdict["l"] - 1
                    ti = max(i for i, s in enumerate(starts) if s <= bad_line)
                    ta, tb = bounds[ti], bounds[ti + 1]
                    rejections.append({"events": [json.loads(x) for x in lines[ta:tb]],
                                       "at": bad_line - ta, "unmatched": json.loads(lines[bad_line])})
                continue
            bad_line = a + v.matched  # 0-based index of first unmatched line
            # enclosing trace
            ti = max(i for i, s in enumerate(starts) if s <= bad_line)
            ta, tb = bounds[ti], bounds[ti + 1]
            rejections.append({
                "events": [json.loads(x) for x in lines[ta:tb]],
                "at": bad_line - ta,
                "unmatched": json.loads(lines[bad_line]),
            })
            if tb < b and len(rejections) < max_reject:
                nxt.append((tb, b))
        chunks = nxt
        rnd += 1
    log(f"[tlc] {module}: {ntr} traces / {len(lines)} events validated in {time.time()-t0:.1f}s, "
        f"{len(rejections)} rejected")
    return ntr, len(lines), rejections


def judge_rejections(ctx, rejections, module, dev_cfgs, describe, cap=5):
    """Traces rejected by the strict spec are re-validated with each recorded deviation enabled.
    Accepted with a deviation -> KNOWN-FINDING under that key; rejected by all -> VIOLATION."""
    left = list(rejections)
    for k, cfg in dev_cfgs.items():
        if not left or not ctx.finding_for(k):
            continue
        p = ctx.work / f"rejected-{k}.ndjson"
        with open(p, "w") as f:
            for r in left:
                for e in r["events"]:
                    f.write(json.dumps(e, separators=(",", ":")) + "\n")
        _, _, still = validate_traces(ctx, module, cfg, p)
        bad_programs = {json.dumps(r["events"][0], sort_keys=True) for r in still}
        nxt = []
        for r in left:
            if json.dumps(r["events"][0], sort_keys=True) in bad_programs:
                nxt.append(r)
            else:
                ctx.known_finding(k)
        left = nxt
    for r in left[:cap]:
        ctx.violation(describe(r), {"part": "trace", "at": r["at"], "unmatched": r["unmatched"],
                                    "events": r["events"][:400], "program": r["events"][0].get("program")})
    for r in left[cap:]:
        ctx.violations.append((describe(r), ""))


def judge_calls(ctx, bad, module, dev_cfgs, describe, cap=5, skip_prefix="skip-"):
    """Binding F verdicts.  `bad` = [(event, verdict)] from the strict spec.  Verdict keys starting with
    `skip_prefix` are instances outside the property's quantifier (counted, returned).  The others are
    re-validated with each recorded deviation enabled: accepted there -> KNOWN-FINDING, else VIOLATION."""
    skipped = [(e, v) for e, v in bad if v.get("key", "").startswith(skip_prefix)]
    left = [(e, v) for e, v in bad if not v.get("key", "").startswith(skip_prefix)]
    for k, cfg in dev_cfgs.items():
        if not left or not ctx.finding_for(k):
            continue
        p = ctx.work / f"judge-{k}.ndjson"
        with open(p, "w") as f:
            for e, _ in left:
                f.write(json.dumps(e, separators=(",", ":")) + "\n")
        _, still = validate_calls(ctx, module, cfg, p)
        still_keys = {json.dumps(e, sort_keys=True) for e, v in still if not v.get("key", "").startswith(skip_prefix)}
        nxt = []
        for e, v in left:
            if json.dumps(e, sort_keys=True) in still_keys:
                nxt.append((e, v))
            else:
                ctx.known_finding(k)
        left = nxt
    for e, v in left[:cap]:
        ctx.violation(describe(e, v), {"event": e, "verdict": v})
    for e, v in left[cap:]:
        ctx.violations.append((describe(e, v), ""))
    return len(skipped)


def tlc_replay_cases(ctx, name, module, cfg, tag="REPLAY", **kw):
    """Spec -> impl: run TLC with a config whose invariant prints one JSON case per behaviour
    (<<"REPLAY", json>>); cached like LTS dumps.  Returns (path, count)."""
    return tlc_dump(ctx, name, module, cfg, tag=tag, **kw)


# ---- selftest helpers: demonstrate that the binding rejects corrupted recordings ----------------
def selftest_calls(ctx, name, module, cfg, path, corrupt, take=40):
    """Take `take` accepted call events from `path`, corrupt each with `corrupt(event) -> event|None`
    and require that TLC flags every corrupted one (and none of the originals)."""
    evs = read_ndjson(path)[:4000]
    orig = ctx.work / f"st-{name}-orig.ndjson"
    bad = ctx.work / f"st-{name}-bad.ndjson"
    chosen = []
    for e in evs:
        c = corrupt(json.loads(json.dumps(e)))
        if c is not None and c != e:
            chosen.append((e, c))
        if len(chosen) >= take:
            break
    if not chosen:
        raise ToolError(f"selftest {name}: no event could be corrupted")
    with open(orig, "w") as f:
        for e, _ in chosen:
            f.write(json.dumps(e, separators=(",", ":")) + "\n")
    with open(bad, "w") as f:
        for _, c in chosen:
            f.write(json.dumps(c, separators=(",", ":")) + "\n")
    _, b0 = validate_calls(ctx, module, cfg, orig, parts=1)
    _, b1 = validate_calls(ctx, module, cfg, bad, parts=1)
    # events outside the property's quantifier (skip-*) cannot be expected to be flagged
    skipped = {v["l"] for _, v in b0 if v.get("key", "").startswith("skip-")}
    skipped |= {v["l"] for _, v in b1 if v.get("key", "").startswith("skip-")}
    b0 = [x for x in b0 if not x[1].get("key", "").startswith("skip-")]
    flagged = {v["l"] for _, v in b1 if not v.get("key", "").startswith("skip-")}
    chosen = [c for i, c in enumerate(chosen) if (i + 1) not in skipped]
    ok = not b0 and len(flagged) == len(chosen)
    ctx.cov["parts"][f"selftest.{name}"] = {"corrupted_events": len(chosen), "flagged": len(flagged),
                                            "originals_flagged": len(b0)}
    ctx.add_bound(f"selftest.{name}", len(chosen), len(chosen))
    if not ok:
        raise ToolError(f"selftest {name}: {len(flagged)}/{len(chosen)} corrupted events flagged, "
                        f"{len(b0)} originals flagged")
    log(f"[selftest] {name}: {len(flagged)}/{len(chosen)} corrupted call events rejected, originals accepted")


def selftest_traces(ctx, name, module, cfg, path, corrupt, take=12, tail=False):
    """Same for stateful traces: corrupt one event of each trace (or delete it when corrupt returns
    "drop") and require that every corrupted trace is rejected and every original accepted."""
    lines = [json.loads(l) for l in open(path) if l.strip()]
    traces, cur = [], []
    for e in lines:
        if e.get("ev") == "reset" and cur:
            traces.append(cur)
            cur = []
        cur.append(e)
    if cur:
        traces.append(cur)
    good, bad = [], []
    for t in traces:
        if len(good) >= take:
            break
        for i in (range(len(t) - 1, 0, -1) if tail else range(1, len(t) - 3)):
            c = corrupt(json.loads(json.dumps(t[i])))
            if c is None:
                continue
            good.append(t)
            bad.append(t[:i] + ([] if c == "drop" else [c]) + t[i + 1:])
            break
    if not good:
        raise ToolError(f"selftest {name}: nothing to corrupt")
    pg, pb = ctx.work / f"st-{name}-good.ndjson", ctx.work / f"st-{name}-bad.ndjson"
    for p, ts in ((pg, good), (pb, bad)):
        with open(p, "w") as f:
            for t in ts:
                for e in t:
                    f.write(json.dumps(e, separators=(",", ":")) + "\n")
    _, _, r0 = validate_traces(ctx, module, cfg, pg, parts=1, max_reject=10 ** 6)
    _, _, r1 = validate_traces(ctx, module, cfg, pb, parts=1, max_reject=10 ** 6)
    ctx.cov["parts"][f"selftest.{name}"] = {"corrupted_traces": len(bad), "rejected": len(r1), "originals_rejected": len(r0)}
    ctx.add_bound(f"selftest.{name}", len(bad), len(bad))
    if r0 or len(r1) != len(bad):
        raise ToolError(f"selftest {name}: {len(r1)}/{len(bad)} corrupted traces rejected, {len(r0)} originals rejected")
    log(f"[selftest] {name}: {len(r1)}/{len(bad)} corrupted traces rejected, originals accepted")
