"""C05 -- compiled lig/kern programs equal direct interpretation; loops detected exactly.

Model step: MC_LigKern (TeX's main loop as the reference machine; the compiled replacement table and
RunIter as the implementation-shaped layer; TFtoPL's f(x,y) as the definition of a looping pair),
LigKernCompile (the work-list algorithm of compiler.rs in every processing order), negative controls.
Binding F: harness/src/c05.rs records (raw program, reported loop errors, run items for a batch of
words); Trace_LigKern.tla re-interprets the raw instructions and decides every event.
"""
import concurrent.futures as cf
import json
import re
import threading
from pathlib import Path

from vlib import *

LEVEL = "model_checking"

NEGS = ["MoveTooFar", "BoundaryMidWord", "IsLigNotPropagated", "DropOriginal", "ClassOfOp7"]
NEGS_COMPILE = ["IgnoreBlocked", "ForgetParents"]
FINDING_PHANTOM = "redirect-phantom-ligature"
FINDING_STALE = "pack-entrypoints-stale-left-boundary"

_SKIP_RE = re.compile(r'^<<"SKIP", (\d+), (\d+)>>', re.M)


def corpus_dir():
    """The corpus of the repository the harness is built against (path taken from harness/Cargo.toml)."""
    txt = (HARNESS / "Cargo.toml").read_text()
    m = re.search(r'tfm\s*=\s*\{\s*path\s*=\s*"([^"]+)"', txt)
    base = Path(m.group(1)) if m else Path("/repo/crates/tfm")
    return base / "corpus"


# ------------------------------------------------------------------------------------------
# call-event validation with round-robin chunks (heavy fonts are spread over the JVMs) and
# SKIP accounting; built from vlib's public pieces (tlc_validate_one, printed)
# ------------------------------------------------------------------------------------------
class Batch:
    def __init__(self, name, path, cfg="Trace_LigKern.cfg"):
        self.name = name
        self.path = Path(path)
        self.cfg = cfg
        self.lines = self.path.read_bytes().splitlines(keepends=True)
        self.chunks = []  # (chunk path, [original line indices])
        self.verdicts = []  # (line index, verdict)
        self.skipped_runs = 0

    def split(self, work, parts):
        n = len(self.lines)
        if n == 0:
            raise ToolError(f"no events recorded in {self.path}")
        parts = max(1, min(parts, n))
        for c in range(parts):
            idx = list(range(c, n, parts))
            p = Path(work) / f"{self.name}-c{c:02d}.ndjson"
            with open(p, "wb") as f:
                f.writelines(self.lines[i] for i in idx)
            self.chunks.append((p, idx))

    def event(self, i):
        return json.loads(self.lines[i])

    def absorb(self, chunk_no, v):
        cpath, idx = self.chunks[chunk_no]
        if not v.accepted:
            raise ToolError(f"call-event validation stopped early in {cpath} at line {v.matched + 1}:\n{v.out[-2500:]}")
        for verdict in v.verdicts:
            self.verdicts.append((idx[verdict["l"] - 1], verdict))
        for m in _SKIP_RE.finditer(v.out):
            self.skipped_runs += int(m.group(2))


def run_jobs(ctx, jobs, par):
    """jobs: list of (label, callable).  Runs them on a thread pool, re-raises the first ToolError."""
    out = {}
    with cf.ThreadPoolExecutor(max_workers=par) as ex:
        futs = {ex.submit(fn): label for label, fn in jobs}
        err = None
        for f in cf.as_completed(futs):
            try:
                out[futs[f]] = f.result()
            except ToolError as e:  # keep the first, let the others finish
                err = err or e
        if err:
            raise err
    return out


def validation_jobs(ctx, batch, parts):
    batch.split(ctx.work, parts)
    jobs = []
    for c, (cpath, _) in enumerate(batch.chunks):
        def job(c=c, cpath=cpath):
            v = tlc_validate_one("Trace_LigKern", batch.cfg, cpath, ctx.work / f"tv-{batch.name}-{c}", xmx="3g")
            batch.absorb(c, v)
            return v.wall
        jobs.append((f"validate:{batch.name}:{c}", job))
    return jobs


# ------------------------------------------------------------------------------------------
def stats(batch):
    """(programs, runs, nontrivial runs) of a batch, from the recorded events themselves."""
    progs, runs, nontrivial, loops = set(), 0, 0, 0
    for ln in batch.lines:
        e = json.loads(ln)
        key = json.dumps(e["p"], sort_keys=True) + e.get("tag", "")
        if key not in progs:
            progs.add(key)
            if e["errs"]:
                loops += 1
        for r in e["runs"]:
            runs += 1
            if any(it[0] != 0 for it in r.get("out", [])):
                nontrivial += 1
    return len(progs), runs, nontrivial, loops


def describe(e, v):
    p = e["p"]
    if len(p["ins"]) <= 12:
        prog = f"lig/kern program {json.dumps(p['ins'])} ep={p['ep']} lbe={p['lbe']} rbc={p['rbc']}"
    else:
        prog = f"lig/kern program of {e.get('tag')} ({len(p['ins'])} instructions, lbe={p['lbe']} rbc={p['rbc']})"
    if v["key"].startswith("loop") or v["r"] == 0:
        return (f"{prog}: {v['key']}: compile reported loops at {e['errs']}, "
                f"pairs with undefined f(x,y): {v.get('want')}; {e.get('panic', '')}")
    r = e["runs"][v["r"] - 1]
    got = r.get("out", r.get("panic"))
    return (f"{prog} on word {r['w']} (no_left_boundary={r['nl']}, right_boundary_override={r['ro']}): {v['key']}: "
            f"got {json.dumps(got)}, TeX's main loop gives {json.dumps(v.get('want'))}")


def deviation_applies(finding, e):
    """A recorded deviation can explain an event only if the event contains what the deviation is about."""
    p = e["p"]
    if finding["deviation"] == "PhantomLigature":
        return any(ins[2] == 255 for ins in p["ins"])
    if finding["deviation"] == "StaleLeftBoundaryEntry":
        return "lbf" in p and p["lbf"] != p["lbe"]
    return False


def judge_batches(ctx, batches):
    """Strictly rejected events are decided again, once per recorded deviation, with exactly that named
    deviation of the specification enabled (Trace_LigKern_dev_<Deviation>.cfg).  An event the deviation
    fully explains is a KNOWN-FINDING; everything else stays a VIOLATION."""
    rejected = []  # (batch, line index, [verdicts])
    for b in batches:
        per = {}
        for i, v in b.verdicts:
            per.setdefault(i, []).append(v)
        for i in sorted(per):
            rejected.append((b, i, per[i]))
    if not rejected:
        return
    explained = {}  # index into rejected -> finding key
    for fnd in ctx.findings:
        if fnd.get("status", "open") != "open" or not fnd.get("deviation"):
            continue
        cand = [k for k, (b, i, _) in enumerate(rejected) if k not in explained and deviation_applies(fnd, b.event(i))]
        if not cand:
            continue
        dev = ctx.work / f"rejected-{fnd['deviation']}.ndjson"
        with open(dev, "wb") as f:
            for k in cand:
                b, i, _ = rejected[k]
                f.write(b.lines[i])
        db = Batch(f"dev-{fnd['deviation']}", dev, cfg=f"Trace_LigKern_dev_{fnd['deviation']}.cfg")
        run_jobs(ctx, validation_jobs(ctx, db, min(8, len(cand) // 200 + 1)), 8)
        still = {i for i, _ in db.verdicts}
        for n, k in enumerate(cand):
            if n not in still:
                explained[k] = fnd["key"]
    shown = 0
    for k, (b, i, vs) in enumerate(rejected):
        e = b.event(i)
        if k in explained:
            ctx.judge(explained[k], describe(e, vs[0]), {"part": b.name, "event": e, "verdict": vs[0]})
            continue
        shown += 1
        if shown <= 12:
            v = vs[0]
            key = None
            if v["key"] == "panic":
                pan = e.get("panic") or e["runs"][v["r"] - 1].get("panic")
                key = f"panic:{pan[0]}:{pan[1]}"
            ev = e if len(b.lines[i]) < 200000 else {"tag": e.get("tag"), "errs": e["errs"], "runs": e["runs"]}
            ctx.judge(key, describe(e, v), {"part": b.name, "event": ev, "verdict": v})
        else:
            ctx.violations.append((describe(e, vs[0]), "(not stored)"))


# ------------------------------------------------------------------------------------------
def long_words(ctx):
    """Words of 300 000 characters (absorbed into one ligature, kerned, plain) in a child process: the run must
    return, and the originals must spell the word.  A process that dies (stack overflow) is a violation."""
    out = ctx.work / "long.ndjson"
    p = vh(["c05-long", "n=300000", f"out={out}"], check=False, timeout=600)
    evs = read_ndjson(out) if out.exists() else []
    done = {e["program"]: e for e in evs}
    for name in ("absorbed", "kerned", "plain"):
        e = done.get(name)
        if e is None:
            ctx.violation(f"running the compiled program '{name}' on a word of 300000 characters killed the process "
                          f"(exit status {p.returncode}; a stack overflow cannot be caught)", {"part": "long", "program": name})
            break
        if e["originals"] != e["n"]:
            ctx.violation(f"long word under '{name}': the originals spell {e['originals']} characters, the word has {e['n']}", e)
    ctx.add_bound("LigKern.long_words", len(done), len(done), characters=300000)


def run(ctx):
    q = ctx.quick
    build_harness()
    w = ctx.work
    seed = ctx.seed
    ctx.cov["rule"] = (
        "one bound case = one run of CompiledProgram::run_with_options on (raw program, word, left-boundary flag, "
        "right boundary) whose item sequence (characters, ligature character + originals, kern amounts) was decided "
        "by Trace_LigKern.tla against TeX's main loop re-interpreting the raw instructions, plus the 'originals "
        "spell the word' check; runs on which TeX itself never terminates are skipped and counted separately; "
        "non-trivial = runs whose output contains at least one ligature or kern.  Per program one further decision: "
        "loop errors reported iff some pair has an undefined f(x,y) (and every reported pair is one)."
    )
    # ---------------- record the real code -------------------------------------------------
    files = {}
    if q:
        plan = [
            # every second program of the small space (which half depends on the seed); thorough takes all
            ("small22", ["c05-small", "letters=2", "rules=2", "maxlen=3", "stride=2", f"offset={seed % 2}"]),
            ("random", ["c05-random", f"seed={seed}", "n=1200", "words=10"]),
            ("corpus", ["c05-corpus", f"dir={corpus_dir()}", f"seed={seed}", "pairs=25", "walks=25", "batch=60"]),
            ("redirect", ["c05-redirect", f"seed={seed}", "n=120"]),
            ("text", ["c05-text", f"seed={seed}", "fonts=80"]),
            ("convert", ["c05-convert", f"dir={corpus_dir()}", f"seed={seed}", "pairs=15", "walks=20", "batch=60"]),
        ]
    else:
        plan = [
            ("small22", ["c05-small", "letters=2", "rules=2", "maxlen=4"]),
            ("small32", ["c05-small", "letters=3", "rules=2", "maxlen=3", "stride=12", f"offset={seed % 12}"]),
            ("small23", ["c05-small", "letters=2", "rules=3", "maxlen=3", "stride=24", f"offset={seed % 24}"]),
            ("random", ["c05-random", f"seed={seed}", "n=10000", "words=12"]),
            ("corpus", ["c05-corpus", f"dir={corpus_dir()}", f"seed={seed}", "pairs=500", "walks=500", "batch=100"]),
            ("redirect", ["c05-redirect", f"seed={seed}", "n=1500"]),
            ("text", ["c05-text", f"seed={seed}", "fonts=2500"]),
            ("convert", ["c05-convert", f"dir={corpus_dir()}", f"seed={seed}", "pairs=300", "walks=300", "batch=100"]),
        ]
    for name, cmd in plan:
        files[name] = w / f"{name}.ndjson"
        vh(cmd + [f"out={files[name]}"])
    batches = [Batch(name, files[name]) for name, _ in plan]

    # ---------------- model step + binding, run side by side -------------------------------
    jobs = []
    mcw = 4

    def model(name, module, cfg, actions, workers, xmx="6g"):
        # TLC's -coverage doubles the run time of these models: the large configurations run without
        # it, the vacuity guard (every action taken) runs on the same modules with MaxRules one smaller
        return lambda: tlc_model(ctx, name, module, cfg, expect_actions=actions, workers=workers, xmx=xmx,
                                 coverage=bool(actions))

    def neg(module, cfg, what):
        return lambda: tlc_expect_refuted(module, cfg, what, workers=2)

    if not q:
        # the large spaces first: they are the critical path of the thorough tier
        jobs.append(("mc-3letters", model("LigKern.refinement.3letters", "MC_LigKern", "MC_LigKern_thorough.cfg", (), 8, "10g")))
        jobs.append(("mc-3rules", model("LigKern.refinement.3rules", "MC_LigKern", "MC_LigKern_rules3.cfg", (), 8, "10g")))
        jobs.append(("mc-full", model("LigKern.refinement.divergent-runs-to-bound", "MC_LigKern", "MC_LigKern_full.cfg",
                                      (), mcw)))
    jobs.append(("mc", model("LigKern.refinement", "MC_LigKern", "MC_LigKern.cfg", (), 6 if q else mcw)))
    jobs.append(("mc-compile", model("LigKernCompile.confluence", "LigKernCompile",
                                     "MC_LigKernCompile.cfg" if q else "MC_LigKernCompile_thorough.cfg", (), 4)))
    jobs.append(("mc-cov", model("LigKern.actions", "MC_LigKern", "MC_LigKern_cov.cfg",
                                 ["Setup", "StepCursor", "StopDiverging"], 2)))
    jobs.append(("mc-compile-cov", model("LigKernCompile.actions", "LigKernCompile", "MC_LigKernCompile_cov.cfg",
                                         ["Park", "Continue", "Complete"], 2)))
    for b in NEGS:
        jobs.append((f"neg:{b}", neg("MC_LigKern", f"NEG_LigKern_{b}.cfg", b)))
    for b in NEGS_COMPILE:
        jobs.append((f"neg:{b}", neg("LigKernCompile", f"NEG_LigKernCompile_{b}.cfg", b)))
    per_chunk = ({"small": 800, "random": 400, "corpus": 17, "redirect": 200, "convert": 11, "text": 20} if q else
                 {"small": 2500, "random": 1500, "corpus": 40, "redirect": 800, "convert": 30, "text": 200})
    for b in batches:
        size = per_chunk[re.sub(r"\d+$", "", b.name)]
        jobs += validation_jobs(ctx, b, len(b.lines) // size + 1)
    run_jobs(ctx, jobs, par=max(4, NCPU - 4))
    ctx.cov["parts"]["negative_controls_refuted"] = len(NEGS) + len(NEGS_COMPILE)

    # ---------------- verdicts ---------------------------------------------------------------
    for b in batches:
        nprog, nruns, nontrivial, nloops = stats(b)
        decided = nruns - b.skipped_runs
        ctx.add_bound(f"bind.{b.name}", decided, min(nontrivial, decided), programs=nprog,
                      programs_with_reported_loop=nloops, runs_skipped_reference_diverges=b.skipped_runs,
                      events=len(b.lines))
        ctx.cov["parts"][f"bind.{b.name}"]["loop_report_decisions"] = nprog
        if b.lines:
            e = b.event(len(b.lines) // 2)
            ctx.sample({"driver": b.name, "program": e["p"] if len(e["p"]["ins"]) < 12 else e.get("tag"),
                        "errs": e["errs"], "run": e["runs"][0] if e["runs"] else None})
    judge_batches(ctx, batches)
    long_words(ctx)
    ctx.assumptions += [
        "words are non-empty and consist of characters that exist in the font (TeX drops characters a font lacks "
        "before the lig/kern loop; texcraft's run has no notion of existence)",
        "ligature boundary flags (includes_left_boundary / includes_right_boundary, TeX's lft_hit / rt_hit subtype) "
        "are not compared in the binding: the property speaks of characters, ligature glyphs, kerns and originals only "
        "(the model step does carry them: MC_LigKern with CheckFlags)",
        "kern amounts are compared as the Scaled value FixWord::to_scaled yields for the selected instruction's kern "
        "(the conversion itself belongs to C17); generated kerns are pairwise distinct per program",
        "RunOptions.right_boundary_override=c is read as 'the right boundary character in effect is c' "
        "(TeX 903/909: hyf_bchar)",
        "a run on which TeX's main loop never terminates (the cursor reaches a pair with undefined f) has no reference "
        "output: skipped and counted (runs_skipped_reference_diverges); programs with loops are still run on all "
        "other words",
        "corpus: every .tfm/.plst file under crates/tfm/corpus (computer-modern, ctan, originals, fuzz) that loads "
        "without any deserialisation/parse warning and whose validate_and_fix warnings are at most infinite-loop "
        "warnings, i.e. the fonts TeX itself would load (TeX does not look for loops); the other files are "
        "deliberately broken inputs and belong to C10",
        "instructions with skip_byte > 128 reachable through a chain are exercised only by the separate `redirect` "
        "driver and one corpus font (known finding " + FINDING_PHANTOM + ")",
        "driver `convert`: property-list fonts converted in memory (pl::File -> tfm::File, i.e. through "
        "Program::pack_entrypoints / unpack_kerns) and compiled with compile_from_tfm_file; the reference interprets "
        "the font file that conversion serialises to (known finding " + FINDING_STALE + ")",
        "the identity of the reported starting pair among several looping pairs (Knuth's traversal order) is not "
        "checked, only that every reported pair does loop",
    ]


# ------------------------------------------------------------------------------------------
def replay(path):
    """Re-run the recorded event's program and words on the current code and decide it again."""
    ctx = Ctx("C05", "replay")
    try:
        build_harness()
        ev = ctx.work / "replay.ndjson"
        p = vh(["c05-one", f"event={path}", f"out={ev}"], check=False)
        if p.returncode != 0:
            print(json.dumps(json.load(open(path)), indent=1)[:3000])
            print("corpus event: re-run ./check C05 quick (the font is named in the event's tag)")
            return 2
        b = Batch("replay", ev)
        run_jobs(ctx, validation_jobs(ctx, b, 1), 1)
        e = b.event(0)
        if not b.verdicts:
            print("replay: the current code is accepted by the specification on this event")
            return 0
        for _, v in b.verdicts:
            print("replay: REJECTED --", describe(e, v))
        return 1
    finally:
        shutil.rmtree(ctx.work, ignore_errors=True)


# ------------------------------------------------------------------------------------------
def selftest(ctx):
    """Demonstrate the binding: corrupted events must be rejected, spec mutants must be refuted."""
    build_harness()
    w = ctx.work
    src = w / "st.ndjson"
    vh(["c05-random", f"seed={ctx.seed}", "n=60", "words=6", f"out={src}"])
    events = read_ndjson(src)
    muts = []

    def first(pred):
        for i, e in enumerate(events):
            for j, r in enumerate(e["runs"]):
                if pred(e, r):
                    return i, j
        raise ToolError("selftest: no suitable event")

    # 1. drop one original character of a ligature
    i, j = first(lambda e, r: any(it[0] == 1 and len(it[2]) > 0 for it in r.get("out", [])))
    e = json.loads(json.dumps(events[i]))
    for it in e["runs"][j]["out"]:
        if it[0] == 1 and it[2]:
            it[2] = it[2][:-1]
            break
    muts.append(("ligature original dropped", e))
    # 2. swap a kern for its neighbour
    i, j = first(lambda e, r: any(it[0] == 2 for it in r.get("out", [])) and len(r["out"]) >= 2)
    e = json.loads(json.dumps(events[i]))
    out = e["runs"][j]["out"]
    k = next(n for n, it in enumerate(out) if it[0] == 2)
    m = k - 1 if k > 0 else k + 1
    out[k], out[m] = out[m], out[k]
    muts.append(("kern moved by one position", e))
    # 3. loop report removed / invented
    i = next(n for n, e in enumerate(events) if e["errs"])
    e = json.loads(json.dumps(events[i]))
    e["errs"] = []
    muts.append(("loop report dropped", e))
    i = next(n for n, e in enumerate(events) if not e["errs"])
    e = json.loads(json.dumps(events[i]))
    e["errs"] = [[e["p"]["ins"][0][1], e["p"]["ins"][0][1]]]
    muts.append(("loop report invented", e))
    # 4. drop an item
    i, j = first(lambda e, r: len(r.get("out", [])) >= 3)
    e = json.loads(json.dumps(events[i]))
    del e["runs"][j]["out"][1]
    muts.append(("one item dropped", e))
    bad = w / "st-bad.ndjson"
    with open(bad, "w") as f:
        for _, e in muts:
            f.write(json.dumps(e) + "\n")
    b0 = Batch("st-ok", src)
    b1 = Batch("st-bad", bad)
    run_jobs(ctx, validation_jobs(ctx, b0, 2) + validation_jobs(ctx, b1, 1), 4)
    if b0.verdicts:
        raise ToolError(f"selftest: unmodified events rejected: {b0.verdicts[:2]}")
    hit = {i for i, _ in b1.verdicts}
    for n, (what, _) in enumerate(muts):
        if n not in hit:
            raise ToolError(f"selftest: corrupted event not rejected ({what})")
        log(f"[selftest] rejected as expected: {what}")
    for bname in NEGS:
        tlc_expect_refuted("MC_LigKern", f"NEG_LigKern_{bname}.cfg", bname, workers=2)
        log(f"[selftest] spec mutant refuted: {bname}")
    for bname in NEGS_COMPILE:
        tlc_expect_refuted("LigKernCompile", f"NEG_LigKernCompile_{bname}.cfg", bname, workers=2)
        log(f"[selftest] spec mutant refuted: {bname}")
    ctx.add_bound("selftest", len(muts), len(muts))
