"""C16 -- DVI encoding round-trips; variable removal preserves every position.

Specs: Dvi.tla (register machine + VarRemover, three machines in lock step), DviEnc.tla (opcode /
width table, encoder, decoder with the two documented errors).
Bindings: R  table walk of transforms::VarRemover against the TLC-dumped transition table;
          T  long random op streams through VarRemover and dvi::Values validated by Trace_Dvi;
          F  serialize / deserialize call events (Trace_DviEnc), whole-stream events with
             unrestricted operands and the dvitools normalize pipeline (Trace_DviPipe).
"""
import concurrent.futures as cf
import json
import re
import subprocess
from vlib import *

LEVEL = "model_checking"

DVI_NEGS = ["PopKeepsVars", "NoBopReset", "SwapWX", "MoveBeforeSet", "PopEmptyResets"]
ENC_NEGS = ["I24Boundary", "FntNum64", "NoSignExtend", "No223Run", "IgnoreSeparability"]
DVI_ACTIONS = ["TypesetChar", "TypesetRule", "BeginPage", "EndPage", "Push", "Pop", "PopEmpty", "Right", "Down",
               "SetVar", "Move", "EnableFont", "Other"]

# verdict keys of the trace specs that are not deviations of the code
SKIP_KEYS = {"skipped-lossy-string"}


def _short(e, n=700):
    s = json.dumps(e)
    return s if len(s) <= n else s[:n] + "..."


_ACT_RE = re.compile(r"^<(\w+) line \d+, col \d+ to line \d+, col \d+ of module \w+(?: \([\d ]+\))?>: (\d+):(\d+)", re.M)


def _model(ctx, name, module, cfg, actions, **kw):
    """tlc_model plus a vacuity guard that also understands TLC's coverage lines for actions with a
    bound variable (`<Name line .. of module M (l c l c)>: d:g`), which vlib's pattern skips."""
    res = tlc_model(ctx, name, module, cfg, **kw)
    taken = {}
    for m in _ACT_RE.finditer(res.out):
        taken[m.group(1)] = max(taken.get(m.group(1), 0), int(m.group(3)))
    for a in actions:
        if taken.get(a, 0) == 0:
            raise ToolError(f"vacuous model: action {a} never taken in {module} (coverage {taken})")
    ctx.cov["parts"][name]["actions_taken"] = {a: taken[a] for a in actions}
    return res


def _models(ctx):
    q = ctx.quick
    jobs = {}
    with cf.ThreadPoolExecutor(max_workers=4 if q else 5) as ex:
        jobs["dvi"] = ex.submit(_model, ctx, "Dvi.preservation", "MC_Dvi",
                                "MC_Dvi.cfg" if q else "MC_Dvi_thorough.cfg", DVI_ACTIONS,
                                workers=4 if q else 8, xmx="4g" if q else "8g")
        jobs["enc"] = ex.submit(_model, ctx, "DviEnc.roundtrip", "MC_DviEnc",
                                "MC_DviEnc.cfg" if q else "MC_DviEnc_thorough.cfg", ["Emit"],
                                workers=2 if q else 4)
        jobs["wide"] = ex.submit(tlc_dump, ctx, "Dvi.lts-wide", "MC_Dvi", "LTS_Dvi_wide.cfg")
        jobs["deep"] = ex.submit(tlc_dump, ctx, "Dvi.lts-deep", "MC_Dvi", "LTS_Dvi_deep.cfg")
        for b in DVI_NEGS:
            jobs["n" + b] = ex.submit(tlc_expect_refuted, "MC_Dvi", f"NEG_Dvi_{b}.cfg", b, workers=2)
        for b in ENC_NEGS:
            jobs["e" + b] = ex.submit(tlc_expect_refuted, "MC_DviEnc", f"NEG_DviEnc_{b}.cfg", b, workers=2)
        res = {k: f.result() for k, f in jobs.items()}
    ctx.cov["parts"]["Dvi.negative_controls_refuted"] = len(DVI_NEGS)
    ctx.cov["parts"]["DviEnc.negative_controls_refuted"] = len(ENC_NEGS)
    return res["wide"][0], res["deep"][0]


def _walk(ctx, name, lts, maxlen, threads):
    out = ctx.work / f"walk-{name}.ndjson"
    vh(["c16-walk", f"lts={lts}", f"maxlen={maxlen}", f"threads={threads}", f"out={out}"])
    nv = 0
    for r in read_ndjson(out):
        if r["kind"] == "violation":
            nv += 1
            if nv <= 3:
                ctx.violation(f"VarRemover ({name} table): {r['error']}; input {_short(r['history'], 400)}",
                              {"part": "walk", "table": name, **r})
        else:
            ctx.add_bound(f"VarRemover.walk-{name}", r["histories"], r["with_var_op"], maxlen=r["maxlen"],
                          history_nodes=r["nodes"], lts_states=r["lts_states"], lts_edges=r["lts_edges"],
                          alphabet=r["alphabet"])
            if r.get("sample"):
                ctx.sample({"walk_history": r["sample"]})


def _verdicts(ctx, part, bad):
    """Turn the verdicts of a call-event validation into known findings / violations."""
    skipped = 0
    shown = {}
    for e, v in bad:
        key = v.get("key", "mismatch")
        if key in SKIP_KEYS:
            skipped += 1
            continue
        shown[key] = shown.get(key, 0) + 1
        if shown[key] > 3 and not ctx.finding_for(key):
            continue
        ctx.judge(key, f"{part}: {key}: event {_short(e, 500)}; the specification says {_short(v.get('want'), 400)}",
                  {"part": part, "key": key, "event": e, "verdict": v})
    return skipped


def run(ctx):
    q = ctx.quick
    build_harness()
    ctx.cov["rule"] = (
        "walk: every maximal op history up to the stated length over the alphabet of the TLC table, re-executed on "
        "transforms::VarRemover, each output op looked up in the table (non-trivial = histories containing a w/x/y/z "
        "command); trace: random op streams (one trace each, all distinct) through VarRemover and dvi::Values, accepted "
        "by Trace_Dvi; codec: one call event per generated op sequence / byte string (fn=rt: serialize+deserialize, "
        "fn=dec: deserialize of arbitrary bytes), non-trivial = all (generated distinct with overwhelming probability; "
        "the directed part is distinct by construction); pipe: fn=rv whole-stream VarRemover with full-range "
        "operands, fn=pipe dvitools-normalize pipeline.")
    lts_wide, lts_deep = _models(ctx)

    # ---------------- R: table walk ------------------------------------------------------------
    _walk(ctx, "wide", lts_wide, 5 if q else 6, 4 if q else 10)
    _walk(ctx, "deep", lts_deep, 5 if q else 6, 4 if q else 10)

    # ---------------- T: VarRemover + Values traces --------------------------------------------
    tr = ctx.work / "trace.ndjson"
    vh(["c16-trace", f"seed={ctx.seed}", f"n={60 if q else 1500}", f"len={200 if q else 300}", f"out={tr}"])
    ntr, nev, rej = validate_traces(ctx, "Trace_Dvi", "Trace_Dvi.cfg", tr)
    ctx.add_bound("VarRemover.trace", ntr, ntr, events=nev)
    for r in rej[:5]:
        um = r["unmatched"]
        what = f"panic at {um.get('site')}: {um.get('msg')}" if um.get("ev") == "panic" else _short(um, 600)
        ctx.violation(f"VarRemover/Values trace rejected at event {r['at']}: {what}",
                      {"part": "trace", "at": r["at"], "unmatched": um, "events": r["events"]})
    evs = read_ndjson(tr)
    ctx.sample({"trace_event": next(e for e in evs if e.get("ev") == "op" and e["in"]["k"] == "move")})

    # ---------------- F: codec -----------------------------------------------------------------
    ev = ctx.work / "codec.ndjson"
    p = vh(["c16-codec", f"seed={ctx.seed}", f"n={1500 if q else 30000}", f"reps={1 if q else 16}", f"out={ev}"])
    info = json.loads(p.stderr.decode().strip().splitlines()[-1])
    n, bad = validate_calls(ctx, "Trace_DviEnc", "Trace_DviEnc.cfg", ev)
    ctx.add_bound("Codec.calls", n, n, directed_single_ops=info["directed"],
                  dec_events_with_non_ascii_string=info["lossy_strings"])
    _verdicts(ctx, "codec", bad)
    first = read_ndjson(ev)[600]
    ctx.sample({"codec_event": first})

    # ---------------- F: whole streams, full-range operands, pipeline --------------------------
    ev = ctx.work / "pipe.ndjson"
    vh(["c16-pipe", f"seed={ctx.seed}", f"n={1500 if q else 40000}", f"out={ev}"])
    n, bad = validate_calls(ctx, "Trace_DviPipe", "Trace_DviPipe.cfg", ev)
    skipped = _verdicts(ctx, "pipe", bad)
    ctx.add_bound("Pipe.calls", n - skipped, n - skipped, skipped_lossy_string=skipped)

    ctx.assumptions += [
        "op streams of the register-machine traces keep every distance below 2^30/len so that no position leaves "
        "the 32-bit range (TLC integers are 32-bit); streams with full-range operands are decided by the rv/pipe "
        "events, whose expected output RemoveVars(in) involves no addition",
        "strings of DefineFont/Preamble are compared byte-exactly on the round trip (valid UTF-8, <= 255 bytes); when "
        "decoding arbitrary bytes a string whose raw bytes are not ASCII is not compared (the code converts with "
        "from_utf8_lossy, which the property does not describe); such events are counted "
        "(dec_events_with_non_ascii_string, skipped_lossy_string)",
        "the minimal operand width is treated as an obligation of dvi::serialize because the repository's serde tests "
        "(op_code_128..160, 171..238) pin it; an encoding that round-trips but is not minimal is reported with key "
        "encoding-not-minimal",
        "strings longer than 255 bytes and xxx payloads longer than 2^32-1 bytes are outside the quantifier (the "
        "serializer truncates them)",
        "f is undefined after bop (TeX.2021.585); dvi::Values keeps the previous font there, which is not compared",
    ]


def replay(path):
    """Re-run the recorded input on the current code and let the specification decide it again."""
    import shutil
    build_harness()
    r = json.load(open(path))
    print(f"recorded: {r.get('desc', '')[:1500]}")
    ctx = Ctx("C16", "replay")
    try:
        out = ctx.work / "replay.ndjson"
        vh(["c16-replay", f"in={path}"], stdout_path=out)
        lines = read_ndjson(out)
        print("the real code now gives:")
        for e in lines[:40]:
            print("  " + _short(e, 1200))
        if "ev" in lines[0]:
            _, _, rej = validate_traces(ctx, "Trace_Dvi", "Trace_Dvi.cfg", out)
            bad = [f"trace rejected at event {x['at']}: {_short(x['unmatched'], 600)}" for x in rej]
        else:
            spec = "Trace_DviEnc" if lines[0]["fn"] in ("rt", "dec") else "Trace_DviPipe"
            _, vs = validate_calls(ctx, spec, spec + ".cfg", out, parts=1)
            bad = []
            for e, v in vs:
                if v["key"] in SKIP_KEYS:
                    continue
                if ctx.finding_for(v["key"]):
                    print(f"KNOWN-FINDING: property=C16 {v['key']}")
                    continue
                bad.append(f"{v['key']}: the specification says {_short(v.get('want'), 600)}")
        for b in bad:
            print("STILL REJECTED by the specification: " + b)
        if not bad:
            print("accepted by the specification now")
        return 1 if bad else 0
    finally:
        shutil.rmtree(ctx.work, ignore_errors=True)


def selftest(ctx):
    """Demonstrate the binding: corrupted records are rejected, negative controls are refuted."""
    build_harness()
    import copy
    # 1. spec-level mutants
    for b in DVI_NEGS:
        tlc_expect_refuted("MC_Dvi", f"NEG_Dvi_{b}.cfg", b, workers=2)
    for b in ENC_NEGS:
        tlc_expect_refuted("MC_DviEnc", f"NEG_DviEnc_{b}.cfg", b, workers=2)
    log(f"[selftest] {len(DVI_NEGS) + len(ENC_NEGS)} negative controls refuted")
    # 2. a recorded VarRemover trace with one output distance changed / one event dropped
    tr = ctx.work / "st-trace.ndjson"
    vh(["c16-trace", f"seed={ctx.seed}", "n=3", "len=60", f"out={tr}"])
    evs = read_ndjson(tr)
    _, _, rej = validate_traces(ctx, "Trace_Dvi", "Trace_Dvi.cfg", tr)
    if rej:
        raise ToolError("selftest: pristine trace rejected")
    idx = next(i for i, e in enumerate(evs) if e.get("ev") == "op" and e["in"]["k"] in ("move", "setvar"))
    for what in ("corrupt-out", "drop-event", "corrupt-val"):
        m = copy.deepcopy(evs)
        if what == "corrupt-out":
            m[idx]["out"]["d"] += 1
        elif what == "drop-event":
            del m[idx]
        else:
            m[idx]["val"]["vars"][0] += 1
        pth = ctx.work / f"st-{what}.ndjson"
        with open(pth, "w") as f:
            for e in m:
                f.write(json.dumps(e, separators=(",", ":"), sort_keys=True) + "\n")
        _, _, rej = validate_traces(ctx, "Trace_Dvi", "Trace_Dvi.cfg", pth)
        if not rej:
            raise ToolError(f"selftest: {what} was not rejected")
        log(f"[selftest] {what}: rejected at event {rej[0]['at']}")
    # 3. codec events: one byte flipped, one decoded operand changed
    ev = ctx.work / "st-codec.ndjson"
    vh(["c16-codec", f"seed={ctx.seed}", "n=40", "reps=0", f"out={ev}"])
    evs = read_ndjson(ev)
    m = copy.deepcopy(evs)
    i = next(i for i, e in enumerate(m) if e["fn"] == "rt" and e["ops"][0]["k"] == "right" and len(e["bytes"]) == 3)
    m[i]["bytes"][1] ^= 1
    j = next(i for i, e in enumerate(m) if e["fn"] == "dec" and e.get("ops"))
    m[j]["rest"] += 1
    pth = ctx.work / "st-codec-bad.ndjson"
    with open(pth, "w") as f:
        for e in m:
            f.write(json.dumps(e, separators=(",", ":")) + "\n")
    _, bad = validate_calls(ctx, "Trace_DviEnc", "Trace_DviEnc.cfg", pth, parts=1)
    keys = sorted(v["key"] for e, v in bad if v["key"] not in ("roundtrip-postpost-223",))
    if keys != ["decode", "encoding"]:
        raise ToolError(f"selftest: corrupted codec events gave verdicts {keys}")
    log("[selftest] corrupted codec events rejected: " + ", ".join(keys))
    ctx.add_bound("selftest", 5, 5)
