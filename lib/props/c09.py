"""C09 -- interpreter totality: every run ends in success or a located error (VmProtocol.tla)."""
import json
import re
from vlib import *

LEVEL = "model_checking"


def panic_key(site, msg):
    site = re.sub(r"^/rustc/[0-9a-f]+/", "rust:", site)
    msg = re.sub(r"\d+", "N", msg)[:100]
    return f"panic:{site}:{msg}"


def run(ctx):
    q = ctx.quick
    build_harness()
    ctx.cov["rule"] = (
        "programs from a grammar over every installed built-in, user macros with 0..3 parameters, braces, "
        "numbers at and beyond every limit (register indices, character codes incl. surrogates, 2^30/2^31 "
        "boundaries, radix/alphabetic constants), all units, odd characters (NUL, DEL, ^^ notation, non-ASCII), "
        "file names with separators, value flows through registers holding extreme values; each program is "
        "also truncated at every chunk boundary and at two random characters, and run in errorstop, scroll, "
        "nonstop and batch mode with TeX's strict undefined-command handling (even programs) or a lenient "
        "handler (odd programs).  One trace per (program, mode); non-trivial = all of them (>= 1 token)."
    )
    tlc_model(ctx, "VmProtocol.design", "MC_VmProtocol", "MC_VmProtocol.cfg", workers=2,
              expect_actions=["Start", "Rec", "Return", "Cutoff"])
    tr = ctx.work / "runs.ndjson"
    vh(["c09-traces", f"seed={ctx.seed}", f"n={4000 if q else 120000}", f"out={tr}"], stdout_path="/dev/null",
       timeout=7200)
    ntr, nev, rej = validate_traces(ctx, "Trace_VmProtocol", "Trace_VmProtocol.cfg", tr, timeout=7200)
    cut = 0
    with open(tr) as f:
        for line in f:
            if line.startswith('{"ev":"cutoff"'):
                cut += 1
    ctx.add_bound("VmProtocol.runs", ntr - cut, ntr - cut, events=nev, cut_off_by_step_budget=cut)
    nv = 0
    for r in rej:
        u = r["unmatched"]
        prog = r["events"][0]
        if u.get("ev") == "panic":
            key = panic_key(u["site"], u["msg"])
            desc = f"panic in {prog.get('mode')}: {prog.get('program')!r}: {u['site']}: {u['msg']}"
        else:
            key = None
            desc = f"protocol violation in {prog.get('mode')}: {prog.get('program')!r}: {json.dumps(u)} after {json.dumps(r['events'][1:r['at']])[:300]}"
        if key and ctx.finding_for(key):
            ctx.known_finding(key)
        else:
            nv += 1
            if nv <= 6:
                ctx.violation(desc, {"program": prog.get("program"), "mode": prog.get("mode"), "events": r["events"],
                                     "key": key})
            else:
                ctx.violations.append((desc, ""))
    evs = []
    with open(tr) as f:
        for i, line in enumerate(f):
            if i < 12:
                evs.append(json.loads(line))
    ctx.sample(evs)
    ctx.assumptions += [
        "\\sleep, \\dumpFormat/\\dumpValidate and the time primitives are not installed in the harness VM (they block, "
        "write files or read the clock)",
        "\\newIntArray is generated only with small lengths (a texcraft extension that allocates what it is asked for)",
        "file system and terminal are in-memory; the terminal has three lines",
        "known panics are keyed by (source file, message with numbers normalised); any other panic is a violation",
    ]


def selftest(ctx):
    build_harness()
    tr = ctx.work / "st-runs.ndjson"
    vh(["c09-traces", "seed=5", "n=30", f"out={tr}"], stdout_path="/dev/null")
    selftest_traces(ctx, "return-dropped", "Trace_VmProtocol", "Trace_VmProtocol.cfg", tr,
                    lambda e: {"ev": "panic", "site": "x", "msg": "y"} if e.get("ev") == "return" else None, take=40, tail=True)
    selftest_traces(ctx, "unlocated-error", "Trace_VmProtocol", "Trace_VmProtocol.cfg", tr,
                    lambda e: dict(e, located=False) if e.get("ev") == "return" and e.get("kind") == "err" else None, take=40, tail=True)
    selftest_traces(ctx, "errorstop-continues", "Trace_VmProtocol", "Trace_VmProtocol.cfg", tr,
                    lambda e: dict(e, cont=not e["cont"]) if e.get("ev") == "rec" else None, take=40, tail=True)
    ctx.cov["rule"] = "selftest: corrupted recordings must be rejected, originals accepted"


def replay(path):
    r = json.load(open(path))
    build_harness()
    if r.get("program") is not None:
        import tempfile
        (VERIF / "work").mkdir(exist_ok=True)
        with tempfile.NamedTemporaryFile("w", suffix=".tex", delete=False, dir=VERIF / "work") as f:
            f.write(r["program"])
        p = vh(["c09-run", f"src={f.name}", f"mode={r.get('mode', 'errorstopmode')}"])
        print(p.stdout.decode())
        os.unlink(f.name)
    return 0
