"""C18 -- the Box language (crates/boxworks/src/lang): printing and parsing are inverse on every
expressible list, formatting is an idempotent no-op on meaning, the parser is total.

Model step: specs/BoxLang.tla (+ BoxLangLex.tla) specifies the language in the layers of the
implementation -- text <-> tokens (Lex, print_scaled / round_decimals / units, string escapes),
tokens <-> call programs (CstOf, Render), call programs -> lists (FromProg: the argument binding
rule, casts, defaults, list modes) and lists -> call programs (ToCalls: what the printer emits).
TLC checks on small domains: FromProg(ToCalls(l)) = l for every list over a node alphabet with
nesting depth 0..2 (also through Render and Lex), print-after-parse is a normal form, the binding
rule is a function of the assignment (keyword permutations, positional <-> keyword, defaults left
out), every call program has errors or denotes a well-formed list, scan(print(d)) = d on every
16-bit fraction x boundary integer parts, every string over awkward characters survives the three
escape styles, the tokenizer is total on every text over a 22-character alphabet.  Seeded spec
mutants (NEG_BoxLang_*.cfg) are refuted.

Binding R: TLC prints the lists and call programs of the model's domain (REPLAY_BoxLang_*.cfg;
programs already rendered to text by the specification in one of four layouts, with the expected
result).  The harness prints the lists with the real printers / parses the texts with the real
parser; parse results are compared with what TLC printed (equality), printed texts go to the judge.
Binding F: random lists over every node kind and value range of the quantifier, token-level
mutations of printed programs, arbitrary text.  Every real print / parse / format call is one event;
specs/Trace_BoxLang.tla reads the recorded TEXT with the specification's own lexer and judges it.
"""
import concurrent.futures as cf
import json
import re
import signal
from pathlib import Path

from vlib import *

LEVEL = "model_checking"

NEGS = [
    ("NEG_BoxLang_MergeAcrossFonts.cfg", "printer merges characters of different fonts into one chars()"),
    ("NEG_BoxLang_NoFlushAtEnd.cfg", "printer forgets the characters collected at the end of the list"),
    ("NEG_BoxLang_StretchOrderDropped.cfg", "printer writes a fil/fill/filll component as a dimension"),
    ("NEG_BoxLang_RunningPrintedAsDimension.cfg", "printer writes a running rule dimension as a number"),
    ("NEG_BoxLang_DevRatioSign.cfg", "the recorded deviation glue_ratio_sign_dropped breaks the round trip"),
    ("NEG_BoxLang_KeywordDoesNotEndPositional.cfg", "a positional argument is accepted behind a keyword argument"),
    ("NEG_BoxLang_DuplicateOverwrites.cfg", "a second value for a parameter silently replaces the first"),
    ("NEG_BoxLang_PrintStopEarly.cfg", "print_scaled stops one digit early"),
    ("NEG_BoxLang_RoundHalfDown.cfg", "round_decimals rounds half down"),
    ("NEG_BoxLang_InfPrintedAsPt.cfg", "an infinite glue component is printed with unit pt"),
    ("NEG_BoxLang_NoEscapeBackslash.cfg", "the backslash is not escaped inside strings"),
    ("NEG_BoxLang_EscapeNIsLetter.cfg", "the escape \\n is read as the letter n"),
    ("NEG_BoxLang_DimPrintedWithoutUnit.cfg", "a dimension is printed without unit"),
    ("NEG_BoxLang_FormatDropsCommas.cfg", "the reference formatter drops the separators between arguments"),
]

QUICK_NEGS = {"NEG_BoxLang_NoFlushAtEnd.cfg", "NEG_BoxLang_DevRatioSign.cfg", "NEG_BoxLang_DuplicateOverwrites.cfg",
              "NEG_BoxLang_PrintStopEarly.cfg", "NEG_BoxLang_NoEscapeBackslash.cfg", "NEG_BoxLang_DimPrintedWithoutUnit.cfg",
              "NEG_BoxLang_FormatDropsCommas.cfg"}

MODELS = [  # (evidence name, cfg stem, what)
    ("BoxLang.lists_roundtrip", "MC_BoxLang_lists"),
    ("BoxLang.lists_text_roundtrip", "MC_BoxLang_listtext"),
    ("BoxLang.calls_binding", "MC_BoxLang_calls"),
    ("BoxLang.lexer_total", "MC_BoxLang_text"),
    ("BoxLang.scan_print_numbers", "MC_BoxLang_nums"),
    ("BoxLang.strings_escapes", "MC_BoxLang_strs"),
]

CLASSES = ["rt", "parse.exact", "parse.errors_demanded", "parse.protocol_only",
           "format.exact", "format.errors_demanded", "format.protocol_only",
           # observed, not demanded (see Trace_BoxLang.tla)
           "rt.printed_program_is_exactly_ToCalls", "parse.exact.with_errors", "parse.exact.same_error_sequence"]


def text_of(cps):
    return "".join(chr(c) for c in cps)


def describe(e, v):
    key = v.get("key")
    if e["ev"] == "rt":
        if "panic" in e["out"]:
            return f"[{key}] printing ({e['how']}) the {e['m']}-list {json.dumps(e['list'])[:300]} panicked: {e['out']['panic']}"
        return (f"[{key}] printing ({e['how']}) the {e['m']}-list {json.dumps(e['list'])[:300]} gave "
                f"{text_of(e['out']['text'])[:300]!r}; parsed back: {json.dumps(e.get('back'))[:300]}; "
                f"the specification's calls: {json.dumps(v.get('want', {}).get('calls'))[:300]}")
    src = text_of(e["text"])
    if e["ev"] == "parse":
        return (f"[{key}] parsing ({e['m']}) {src[:300]!r} gave {json.dumps(e['res'])[:400]}; specification: "
                f"{json.dumps(v.get('want'))[:500]}")
    r = e["res"]
    got = {"ok": text_of(r["ok"])[:300], "again": (r["again"].get("ok") == r["ok"]) if "again" in r else None} if "ok" in r else r
    return f"[{key}] format of {src[:300]!r} gave {json.dumps(got)[:400]}; specification: {json.dumps(v.get('want'))[:400]}"


def validate(ctx, path, parts, name):
    """Binding F through Trace_BoxLang: returns (n, [(event, verdict)], class counts)."""
    t0 = time.time()
    n = count_lines(path)
    if n == 0:
        raise ToolError(f"no events recorded in {path}")
    chunks = split_file(path, parts, ctx.work, Path(path).stem + "-c")
    vs = tlc_validate(ctx, "Trace_BoxLang", "Trace_BoxLang.cfg", [c[0] for c in chunks], par=len(chunks))
    bad, counts = [], [0] * 10
    for (cpath, lo), v in zip(chunks, vs):
        if not v.accepted:
            raise ToolError(f"event validation stopped early in {cpath} at line {v.matched + 1}: {v.out[-2000:]}")
        for st in printed(v.out, "STATS"):
            counts = [a + b for a, b in zip(counts, st)]
        if v.verdicts:
            lines = Path(cpath).read_text().splitlines()
            for verdict in v.verdicts:
                bad.append((json.loads(lines[verdict["l"] - 1]), verdict))
    log(f"[tlc] Trace_BoxLang {name}: {n} events judged in {time.time()-t0:.1f}s, {len(bad)} not accepted by the strict spec")
    return n, bad, dict(zip(CLASSES, counts))


def judge(ctx, part, bad):
    """Verdict keys: skip-*, the name of a deviation (KNOWN-FINDING if recorded and open), or mismatch."""
    skipped, reported, known = 0, {}, {}
    for e, v in bad:
        key = v.get("key", "mismatch")
        if key.startswith("skip-"):
            skipped += 1
            continue
        if key != "mismatch" and ctx.finding_for(key):
            ctx.known_finding(key)
            known[key] = known.get(key, 0) + 1
            continue
        reported[key] = reported.get(key, 0) + 1
        if reported[key] <= 3:
            ctx.violation(describe(e, v), {"part": part, "event": e, "verdict": {k: x for k, x in v.items() if k != "l"}})
        else:
            ctx.violations.append((describe(e, v), ""))
    d = ctx.cov["parts"].setdefault(part, {})
    d["explained_by_recorded_deviation"] = known
    d["outside_quantifier_skipped"] = skipped
    return skipped


def bind(ctx, part, events, stats_path, parts):
    n, bad, classes = validate(ctx, events, parts, part)
    st = json.loads(Path(stats_path).read_text()) if stats_path and Path(stats_path).exists() else {}
    skipped = judge(ctx, part, bad)
    # non-trivial: decided by an exact prediction of the specification (not only by the protocol obligation)
    exact = classes["rt"] + classes["parse.exact"] + classes["format.exact"]
    prints = classes["rt"] - st.get("counts", {}).get("rt.print_panic", 0)
    if classes["rt.printed_program_is_exactly_ToCalls"] < prints:
        log(f"NOTE [{part}]: {prints - classes['rt.printed_program_is_exactly_ToCalls']} of {prints} printed programs denote "
            f"their list but are not presented as ToCalls describes (or carry a recorded deviation); not demanded by the property")
    if classes["parse.exact.same_error_sequence"] < classes["parse.exact.with_errors"]:
        log(f"NOTE [{part}]: {classes['parse.exact.with_errors'] - classes['parse.exact.same_error_sequence']} of "
            f"{classes['parse.exact.with_errors']} rejected call-level programs report other errors than FromProg lists; "
            f"not demanded by the property")
    ctx.add_bound(part, n - skipped, exact, decided_as=classes, generator=st.get("gen"),
                  counts={k: v for k, v in st.get("counts", {}).items() if not k.startswith("err.")},
                  error_classes_seen={k[4:]: v for k, v in st.get("counts", {}).items() if k.startswith("err.")},
                  longest_text_bytes=st.get("longest_text"), deepest_list=st.get("deepest_list"),
                  panics_observed=st.get("panics"))
    return n


MODELS_THOROUGH_ONLY = [
    ("BoxLang.lists_roundtrip_wide", "MC_BoxLang_listswide"),   # content lists of two nodes inside nested lists
    ("BoxLang.calls_binding_rich", "MC_BoxLang_callsrich"),     # all functions, two arguments, the larger value alphabet
]


def run_models(ctx):
    sfx = "" if ctx.quick else "_thorough"
    w = 3 if ctx.quick else 4
    models = MODELS if ctx.quick else MODELS + MODELS_THOROUGH_ONLY

    def one(name, stem):
        return tlc_model(ctx, name, "MC_BoxLang", f"{stem}{sfx}.cfg", workers=w, coverage=False, xss="256m",
                         xmx="3g" if ctx.quick else "6g", timeout=2400)

    def neg(cfg, what):
        tlc_expect_refuted("MC_BoxLang", cfg, what, workers=2, xss="256m", xmx="2g")
        return cfg

    # quick: one negative control per model (all of them in the thorough tier and in --selftest)
    negs = [x for x in NEGS if x[0] in QUICK_NEGS] if ctx.quick else NEGS
    with cf.ThreadPoolExecutor(max_workers=3) as ex:
        futs = [ex.submit(one, n, s) for n, s in models] + [ex.submit(neg, c, wh) for c, wh in negs]
        for f in futs:
            f.result()
    ctx.cov["parts"]["BoxLang.negative_controls_refuted"] = len(negs)


def replay_binding(ctx):
    """Binding R: the model's own lists and programs on the real code."""
    sfx = "" if ctx.quick else "_thorough"
    parts = 3 if ctx.quick else 8
    for what in ("lists", "calls"):
        cases, n = tlc_replay_cases(ctx, f"BoxLang.replay_{what}", "MC_BoxLang", f"REPLAY_BoxLang_{what}{sfx}.cfg",
                                    coverage=False, xss="256m", xmx="4g", timeout=2400)
        ev = ctx.work / f"replay-{what}.ndjson"
        diff = ctx.work / f"replay-{what}.diff.ndjson"
        st = ctx.work / f"replay-{what}.stats.json"
        vh(["c18-replay", f"in={cases}", f"out={ev}", f"diff={diff}", f"stats={st}"])
        # parse results that differ from what TLC printed for the program (trivial equality)
        nd = 0
        for d in read_ndjson(diff) if diff.stat().st_size else []:
            nd += 1
            if nd <= 3:
                ctx.violation(f"[replay] parsing ({d['m']}) {d['src'][:300]!r} gave {json.dumps(d['got'])[:400]}, the "
                              f"specification's FromProg gives {json.dumps(d['want'])[:400]}",
                              {"part": f"BoxLang.replay_{what}", "event": {"ev": "parse", "m": d["m"], "text": d["text"],
                                                                             "blen": len(d["src"].encode()), "res": d["got"]}})
            else:
                ctx.violations.append(("replay mismatch", ""))
        ctx.cov["parts"].setdefault(f"BoxLang.replay_{what}", {})["cases_from_model"] = n
        ctx.cov["parts"][f"BoxLang.replay_{what}"]["parse_results_equal_to_model"] = (
            json.loads(st.read_text())["counts"].get("case.prog", 0) - nd)
        bind(ctx, f"BoxLang.replay_{what}.events", ev, st, parts)
        if what == "calls":
            for r in read_ndjson(cases)[1234:1236]:
                ctx.sample({"replay_case_text": text_of(tuples(r["text"])), "want": r["want"]})


def tuples(v):
    """TLC's ToJson writes functions with domain 1..n as objects; make them lists again."""
    if isinstance(v, list):
        return [tuples(x) for x in v]
    if isinstance(v, dict):
        n = len(v)
        if n and all(str(i) in v for i in range(1, n + 1)):
            return [tuples(v[str(i)]) for i in range(1, n + 1)]
        return {k: tuples(x) for k, x in v.items()}
    return v


def random_binding(ctx):
    q = ctx.quick
    lists = ctx.work / "lists.ndjson"
    texts = ctx.work / "printed.ndjson"
    st1 = ctx.work / "lists.stats.json"
    vh(["c18-lists", f"seed={ctx.seed}", f"n={700 if q else 12000}", f"depth={5 if q else 7}", f"out={lists}",
        f"stats={st1}", f"texts={texts}"])
    bind(ctx, "BoxLang.random_lists", lists, st1, 4 if q else 10)
    ev = ctx.work / "texts.ndjson"
    st2 = ctx.work / "texts.stats.json"
    vh(["c18-texts", f"seed={ctx.seed + 1}", f"n={2500 if q else 40000}", f"base={texts}", f"out={ev}", f"stats={st2}"])
    bind(ctx, "BoxLang.random_texts", ev, st2, 4 if q else 10)
    for line in open(lists):
        e = json.loads(line)
        if e["ev"] == "rt" and "text" in e["out"] and 200 < len(e["out"]["text"]) < 500:
            ctx.sample({"printed": text_of(e["out"]["text"]), "list": e["list"]})
            break
    for i, line in enumerate(open(ev)):
        if i % 211 == 17:
            e = json.loads(line)
            ctx.sample({"ev": e["ev"], "source": text_of(e["text"]), "res": e["res"] if e["ev"] == "parse" else list(e["res"].keys())})


def deep_nesting(ctx):
    """Totality on deep and on long inputs: a process-level crash (stack overflow) of the real parser /
    formatter / printer is data as well.  The harness runs as a child per input; death by signal is the
    observation."""
    depths = [200, 2000] if ctx.quick else [200, 2000, 20000, 100000]
    res = {}

    def child(name, key, desc, args):
        p = vh(["c18-deep"] + args, check=False, timeout=600)
        died = p.returncode < 0 or p.returncode in (134, 139)
        res[name] = "crashed" if died else "returned"
        if died:
            ctx.judge(key, f"{desc} killed the process (rc={p.returncode}): {p.stderr.decode(errors='replace')[-200:]}",
                      {"part": "BoxLang.deep_nesting", "key": key, "args": args, "rc": p.returncode})
        elif p.returncode != 0:
            raise ToolError(f"c18-deep failed rc={p.returncode}: {p.stderr.decode(errors='replace')[-500:]}")
        return died

    for what in ("parse", "format", "print"):
        for d in depths:
            if child(f"{what}@depth{d}", "stack_overflow_on_deep_nesting",
                     f"{what} of {d} nested hbox(content=[vbox(content=[...]])) calls", [f"depth={d}", f"what={what}"]):
                break
    # long, flat inputs: error recovery must not recurse per token
    n = 100000 if ctx.quick else 1000000
    for frag in ["$", "\u00e9 ", "chars ", ")", ",,", "\"\\a", "1.2.", "#c\n", "kern(1pt)", "f(a=,", "[", "chars(1,"]:
        for what in ("parse", "format"):
            child(f"{what}@{n}x{frag!r}", "stack_overflow_on_invalid_character_run",
                  f"{what} of {n} copies of {frag!r}", [f"depth={n}", f"what={what}", f"repeat={frag}"])
    ctx.cov["parts"]["BoxLang.deep_nesting"] = res
    ctx.add_bound("BoxLang.deep_nesting", len(res), len(res))


def run(ctx):
    try:
        run_checked(ctx)
    except ToolError:
        raise
    except Exception as x:  # a defect of this driver is tool trouble, never a verdict
        import traceback
        log(traceback.format_exc())
        raise ToolError(f"driver error: {x!r}")


def run_checked(ctx):
    build_harness()
    ctx.cov["rule"] = (
        "bound = real calls of the printer / parser / formatter judged by Trace_BoxLang, which reads the recorded TEXT "
        "with the specification's own lexer and grammar (plus parse results compared with the results TLC printed for "
        "the model's programs).  rt: a ds list printed (whole-list conversion or Display per element) and parsed back -- "
        "the printed text must lex into the call level and denote the list (FromProg(Read(text)) = list), the real parse "
        "must give exactly that, and the list must come back; parse: text at the call level -- the list FromProg gives, "
        "or errors when FromProg has errors; text with a lexical error the implementation reports, or breaking the "
        "grammar -- errors; otherwise a list or errors; errors non-empty with every span inside the source on character "
        "boundaries; never a panic; format: Ok, Read(formatted) = Read(source), second pass identical -- or errors for a "
        "malformed source.  Counted but not demanded: the printed program is literally ToCalls(list); the error sequence "
        "is literally FromProg's.  non-trivial = events decided by an exact prediction (rt, parse.exact, format.exact), "
        "counted by TLC itself (STATS line of the trace spec)."
    )
    with cf.ThreadPoolExecutor(max_workers=2) as ex:
        fm = ex.submit(run_models, ctx)
        replay_binding(ctx)
        random_binding(ctx)
        deep_nesting(ctx)
        fm.result()
    ctx.assumptions += [
        "quantifier as stated: characters are any Unicode scalar except the double quote; kerns and glue of the normal "
        "kind only (ToBoxworks always builds KernKind::Normal / GlueKind::Normal); marks are ds::Mark with an empty "
        "list (the only mark the language writes); vboxes have the default glue setting (vbox() has no glue_ratio / "
        "glue_order parameters); Whatsit nodes are not in the language (to_box_lang is todo!())",
        "scaled values are |v| <= 2^30-1 (TeX's range), integers are in (-2^31, 2^31) as mod.rs says; fonts, replace "
        "counts and float penalties are 32-bit fields written as integers: the abstract value is the two's complement "
        "reading, which convert.rs implements with `as` in both directions (fonts above 2^31-1 are generated as a small, "
        "separate share of the lists: the whole-list printer panics on them -- recorded finding)",
        "glue ratios are k/65536 with |k| < 2^24, the ratios the language writes exactly; beyond that ds.rs formats "
        "through f32 and documents the loss as accepted (GlueRatio's PartialEq compares printed forms).  The ratio is "
        "compared WITH its sign (boxworks keeps the glue sign in the ratio) -- the printer drops it: recorded finding",
        "parameter names are those of ast.rs (includes_left_boundary / includes_right_boundary, mark(dummy=0)); mod.rs "
        "documents includes_left_char / includes_right_char and no parameter for mark -- a documentation discrepancy "
        "outside the property (printer and parser agree with each other)",
        "glue_ratio strings starting with '+' are read by u32::from_str's leniency; the language does not define them: "
        "such events are skipped and counted",
        "the harness is built with overflow checks (profile of the verification harness, as `cargo test` builds are): "
        "three of the recorded panics (coef_overflow, u_overflow, ratio_fraction) are silent wrap-arounds in an "
        "unchecked release build",
        "the vertical parser is assembled from the public pieces exactly as ast::parse_hbox is written "
        "(cst::parse, ast::parse_vbox_using_cst, ErrorAccumulator::check, ToBoxworks)",
    ]


# ---------------------------------------------------------------------------------------------
def replay(path):
    """Perform the recorded call again on the real code and have TLC judge it again."""
    r = json.load(open(path))
    ctx = Ctx("C18", "replay")
    try:
        build_harness()
        if r.get("part") == "BoxLang.deep_nesting":
            p = vh(["c18-deep"] + r["args"], check=False, timeout=600)
            print(f"c18-deep {r['args']}: rc={p.returncode}")
            if p.returncode == 0:
                print("returned normally")
                return 0
            if ctx.finding_for(r["key"]):
                print("KNOWN-FINDING:", r["key"])
                return 0
            print(f"VIOLATION property=C18 replay={path}")
            return 1
        e = r.get("event", r)
        src = ctx.work / "in.ndjson"
        src.write_text(json.dumps(e) + "\n")
        out = ctx.work / "replay.ndjson"
        p = vh(["c18-one", f"in={src}", f"out={out}"])
        print(p.stderr.decode(errors="replace").strip())
        n, bad, _ = validate(ctx, out, 1, "replay")
        if not bad:
            print("accepted by the strict specification")
            return 0
        v = bad[0][1]
        print("verdict:", json.dumps({k: x for k, x in v.items() if k != "want"}))
        print(describe(bad[0][0], v)[:3000])
        key = v.get("key", "mismatch")
        if key.startswith("skip-"):
            print("outside the property's quantifier")
            return 0
        if key != "mismatch" and ctx.finding_for(key):
            print("KNOWN-FINDING:", key)
            return 0
        print(f"VIOLATION property=C18 replay={path}")
        return 1
    except ToolError as x:
        log(f"TOOL-ERROR [C18]: {x}")
        return 2
    finally:
        shutil.rmtree(ctx.work, ignore_errors=True)


def selftest(ctx):
    """Corrupted recordings must be rejected (as mismatch), the originals accepted; every NEG cfg refuted."""
    build_harness()
    lists = ctx.work / "st-lists.ndjson"
    texts = ctx.work / "st-printed.ndjson"
    vh(["c18-lists", "seed=11", "n=260", "depth=3", f"out={lists}", f"texts={texts}"])
    ev = ctx.work / "st-texts.ndjson"
    vh(["c18-texts", "seed=12", "n=700", f"base={texts}", f"out={ev}"])
    n0, bad0, _ = validate(ctx, lists, 2, "selftest originals (lists)")
    n1, bad1, cls = validate(ctx, ev, 2, "selftest originals (texts)")
    rejected = {json.dumps(e, sort_keys=True) for e, _ in bad0 + bad1}
    good = [json.loads(l) for l in open(lists)] + [json.loads(l) for l in open(ev)]
    good = [e for e in good if json.dumps(e, sort_keys=True) not in rejected]
    muts = []

    def add(e, what, f):
        c = json.loads(json.dumps(e))
        if f(c) is not False:
            muts.append((what, c))

    def digit_edit(t):  # change one digit of the printed text
        for i, c in enumerate(t):
            if 49 <= c <= 56 and i > 0:
                t[i] = c + 1
                return True
        return False

    rts = [e for e in good if e["ev"] == "rt" and "text" in e["out"] and e["list"]]
    for e in rts[:12]:
        add(e, "rt: a digit of the printed text changed", lambda c: digit_edit(c["out"]["text"]))
        add(e, "rt: a node dropped from the list read back", lambda c: c["back"]["ok"].pop() if c["back"].get("ok") else False)
        add(e, "rt: a node dropped from the printed list", lambda c: c["list"].pop())
    with_chars = [e for e in rts if sum(1 for n in e["list"] if n["k"] == "char") >= 2][:6]
    for e in with_chars:
        def refont(c):
            for n in c["list"]:
                if n["k"] == "char":
                    n["f"] = n["f"] + 1 if n["f"] < 2147483647 else 0
                    return True
            return False
        add(e, "rt: the font of one character changed", refont)
    exact = [e for e in good if e["ev"] == "parse" and "ok" in e["res"] and e["res"]["ok"]]
    for e in exact[:10]:
        add(e, "parse: a node dropped from the result", lambda c: c["res"]["ok"].pop())
        add(e, "parse: the result replaced by an error without span",
            lambda c: c.__setitem__("res", {"errs": [{"c": "NoSuchFunction", "fn": [], "arg": [], "got": "", "spans": []}]}))
    errs = [e for e in good if e["ev"] == "parse" and "errs" in e["res"]]
    for e in errs[:10]:
        add(e, "parse: a span moved outside the source", lambda c: c["res"]["errs"][0]["spans"].__setitem__(0, [0, c["blen"] + 1]))
        add(e, "parse: errors replaced by an empty list of errors", lambda c: c["res"].__setitem__("errs", []))
        add(e, "parse: a panic instead of errors",
            lambda c: c.__setitem__("res", {"panic": ["crates/boxworks/src/lang/cst.rs", "explicit panic"]}))
    fmts = [e for e in good if e["ev"] == "format" and "ok" in e["res"] and "ok" in e["res"].get("again", {})
            and any(49 <= c <= 56 for c in e["res"]["ok"][1:])]
    for e in fmts[:10]:
        add(e, "format: second pass differs (not idempotent)", lambda c: c["res"]["again"]["ok"].append(32))
        add(e, "format: a digit of the formatted text changed", lambda c: digit_edit(c["res"]["ok"]) and c["res"]["again"].__setitem__("ok", list(c["res"]["ok"])))
    if not (rts and with_chars and exact and errs and fmts):
        raise ToolError("selftest: not every kind of event present in the sample")
    mf = ctx.work / "st-mut.ndjson"
    mf.write_text("".join(json.dumps(c) + "\n" for _, c in muts))
    n2, bad2, _ = validate(ctx, mf, 2, "selftest corrupted")
    flagged = {json.dumps(e, sort_keys=True): v["key"] for e, v in bad2}
    missed = [(w, c) for w, c in muts if json.dumps(c, sort_keys=True) not in flagged]
    wrong_key = [k for k in flagged.values() if k != "mismatch" and not k.startswith("skip-")]
    log(f"[selftest] {len(muts)} corrupted events, {len(flagged)} rejected, {len(wrong_key)} of them explained by a deviation")
    for w, c in missed[:5]:
        log(f"  NOT rejected: {w}: {json.dumps(c)[:300]}")
    # a corrupted event may coincide with a recorded deviation only for the format events of malformed sources
    if missed or len(wrong_key) > len(muts) // 10:
        raise ToolError(f"selftest: {len(missed)} corrupted events were accepted, {len(wrong_key)} explained by deviations")
    for cfg, what in NEGS:
        tlc_expect_refuted("MC_BoxLang", cfg, what, workers=2, xss="256m", xmx="2g")
    log(f"[selftest] {len(NEGS)} negative controls refuted")
    ctx.add_bound("BoxLang.selftest", n2, n2)
    ctx.cov["parts"]["BoxLang.selftest"].update(corrupted=len(muts), rejected=len(flagged), originals=n0 + n1,
                                                originals_rejected_by_strict_spec=len(bad0) + len(bad1))
    ctx.cov["rule"] = "selftest: corrupted recordings must be rejected, originals accepted or explained, negative controls refuted"
