"""C04 -- line breaking finds a solution iff one exists, and it is demerit-optimal
(boxworks_knuthplass::LineBreaker::break_line_single_attempt against TeX's line_break, tex.web 813-890).

Model step: specs/KnuthPlass.tla checked by TLC (MC_KnuthPlass) over every well-formed list of <= MaxLen
items of a small alphabet x line-width sequences x parameter sets: the machine layer (active / passive
nodes, line classes, candidates per fitness class, deactivation, looseness) refines the reference layer
(all feasible break sequences enumerated one by one) on every monotone instance; every active node is
witnessed by a feasible path with its totals; seeded mutants of the machine, the property without its
monotonicity precondition and each recorded deviation alone are refuted.

Binding F + T: the harness calls the real breaker on generated paragraphs with a recording debug::Logger;
specs/Trace_KnuthPlass.tla judges the outcome with the reference layer (feasible <=> solution, solution
feasible and optimal, looseness objective) and every logged feasible break / new active node with the
reference layer's definition of that line.  Events the strict specification (TeX) rejects are re-validated
with recorded deviations switched on, smallest set first.

The specification itself is validated against real TeX: every feasible break of the repository's golden
\\tracingparagraphs logs (badness, penalty, demerits, fitness class, totals printed by TeX) is recomputed
by the reference layer.
"""
import concurrent.futures as cf
import json
import re
from pathlib import Path

from vlib import *

LEVEL = "model_checking"

NEGS = [
    # seeded design mutants of the machine layer
    ("NEG_KnuthPlass_NoAdjSlack.cfg", "new nodes only for the overall minimum (no adj_demerits slack, 836)"),
    ("NEG_KnuthPlass_DeactivateAboveThreshold.cfg", "active node dropped when badness > tolerance instead of overfull"),
    ("NEG_KnuthPlass_OneLineClass.cfg", "all line numbers in one class although line widths differ"),
    ("NEG_KnuthPlass_KeepFirstCandidateOnly.cfg", "first candidate of a fitness class kept instead of the best"),
    ("NEG_KnuthPlass_IgnoreLooseness.cfg", "looseness ignored in the final choice"),
    ("NEG_KnuthPlass_NoLookahead.cfg", "break width drops the break item only (no look-ahead over discardables)"),
    # the per-instance precondition of the property is needed
    ("NEG_KnuthPlass_NeedsMonotone.cfg", "optimality claimed on lists where overfull is not upward closed"),
    # each recorded deviation, switched on in the machine, is not TeX
    ("NEG_KnuthPlass_DevKernSign.cfg", "deviation break_width_kern_sign refines TeX"),
    ("NEG_KnuthPlass_DevNoDiscard.cfg", "deviation break_width_keeps_discardables refines TeX"),
    ("NEG_KnuthPlass_DevNoCap.cfg", "deviation threshold_not_capped_at_inf_bad refines TeX"),
    ("NEG_KnuthPlass_DevScanRun.cfg", "deviation replacement_run_scanned_for_breaks refines TeX"),
]

ACTIONS = ["Pass", "TryBreak", "Finish"]

# short TLC runs: C1-only JIT and few GC threads cut the CPU of a JVM start from ~6 s to ~2 s
LEAN = {"JAVA_TOOL_OPTIONS": "-XX:TieredStopAtLevel=1 -XX:ParallelGCThreads=2"}

SKIPS = {"skip-demerits-range", "skip-nonmonotone", "skip-final-pass-without-feasible-sequence"}
SPEC_ERRORS = {"spec_disagrees_with_tex_golden", "spec_machine_disagrees_with_reference"}


def _short(e, n=900):
    s = json.dumps(e, sort_keys=True)
    return s if len(s) <= n else s[:n] + "..."


def describe(e, v):
    if "panic" in e:
        return f"break_line_single_attempt panicked at {e['panic'][0]}: {e['panic'][1]}; instance {_short(_inputs(e), 600)}"
    if v.get("devs"):
        return (f"[{v.get('key')}] rejected by TeX's definition, accepted under the deviations {v['devs']} which are not "
                f"all recorded as open findings; instance {_short(_inputs(e), 900)} returned {json.dumps(e['res'])}")
    w = v.get("want", {})
    return (f"[{v.get('key')}] break_line_single_attempt(tol={e['tol']}, es={e['es']}, final={e['final']}) on "
            f"{len(e['items'])} items, widths {e['lw']}, looseness {e['loose']} returned {json.dumps(e['res'])}; "
            f"specification: legal breaks {w.get('legal')}, feasible sequence exists: {w.get('feasible')}, "
            f"acceptable <<lines, demerits>>: {w.get('want')}, the returned sequence evaluates to {w.get('got')}; "
            f"first logger record not as defined: {_short(w.get('log'), 500)}"
            + (f"; read under recorded deviations: {_short(v.get('under'), 700)}" if v.get("under") else ""))


def _inputs(e):
    return {k: x for k, x in e.items() if k not in ("res", "log", "sel", "panic", "fn")}


def _spec_error(bad):
    for e, v in bad:
        if v.get("key") in SPEC_ERRORS:
            raise ToolError(f"the specification is inconsistent ({v['key']}): event {_short(e, 1500)} verdict {_short(v, 600)}")


def judge_events(ctx, part, bad, cap=3):
    """bad: [(event, verdict)].  A verdict carries `devs` = the smallest set of named deviations ("a+b") under
    which the specification accepts the event; it counts only if every name is an open recorded finding.
    Returns (#skipped by key, #violations)."""
    _spec_error(bad)
    skipped, shown = {}, {}
    rejected = nviol = 0
    for e, v in bad:
        key = v.get("key", "mismatch")
        if key in SKIPS:
            skipped[key] = skipped.get(key, 0) + 1
            continue
        rejected += 1
        names = v["devs"].split("+") if v.get("devs") else []
        if names and all(ctx.finding_for(n) for n in names):
            for n in names:
                ctx.known_finding(n)
            continue
        nviol += 1
        shown[key] = shown.get(key, 0) + 1
        if names:
            v = dict(v, note="explained only by deviations that are not recorded as open findings")
        if shown[key] <= cap:
            ctx.violation(describe(e, v), {"part": part, "event": e, "verdict": v})
        else:
            ctx.violations.append((describe(e, v), ""))
    d = ctx.cov["parts"].setdefault(part, {})
    d["rejected_by_strict_spec"] = rejected
    d["explained_by_recorded_deviations"] = rejected - nviol
    for k, n in skipped.items():
        d[k.replace("-", "_")] = n
    return skipped, nviol


class _Work:
    """validate_calls only needs a scratch directory; concurrent validations each get their own."""

    def __init__(self, ctx, name):
        self.work = ctx.work / name
        self.work.mkdir(parents=True, exist_ok=True)


def bind(ctx, part, cmd, parts):
    w = _Work(ctx, part)
    ev = w.work / f"{part}.ndjson"
    stats = w.work / f"{part}.stats.json"
    vh(cmd + [f"out={ev}", f"stats={stats}"])
    st = json.loads(stats.read_text())
    n, bad = validate_calls(w, "Trace_KnuthPlass", "Trace_KnuthPlass.cfg", ev, parts=parts,
                            env=LEAN if ctx.quick else None)
    skipped, _ = judge_events(ctx, part, bad)
    nskip = sum(skipped.values())
    ctx.add_bound(part, n - nskip, min(st["nontrivial"], n - nskip), events=n, distinct_instances=st["distinct"],
                  solved=st["solved"], no_solution=st["none"], panics=st["panics"], most_active_nodes_logged=st["most_nodes"],
                  longest_list=st["longest_list"], item_kinds=st["item_kinds"], generator=st["gen"])
    with open(ev) as f:
        for i, line in enumerate(f):
            if i % 211 == 5 and '"brk"' in line and len(line) < 2500:
                e = json.loads(line)
                ctx.sample({"items": e["items"], "lw": e["lw"], "tol": e["tol"], "loose": e["loose"], "res": e["res"]}, cap=4)
                break
    return n


def goldens(ctx):
    """The specification against real TeX (the repository's \\tracingparagraphs goldens)."""
    w = _Work(ctx, "goldens")
    ev = w.work / "goldens.ndjson"
    stats = w.work / "goldens.stats.json"
    vh(["c04-goldens", f"out={ev}", f"stats={stats}"] + (["stride=3"] if ctx.quick else []))
    st = json.loads(stats.read_text())
    for m in st["misaligned"]:
        log(f"  [goldens] not paired with TeX's log, skipped: {m}")
    part = {"golden_files": st["golden_files"], "feasible_breaks_in_tex_logs": st["tex_lines"],
            "files_not_aligned": len(st["misaligned"]), "lines_of_real_tex_recomputed_by_the_reference_layer": 0}
    ctx.cov["parts"]["KnuthPlass.tex_goldens"] = part
    if st["emitted"] == 0:
        # the breaker's logger no longer follows TeX's logs (its behaviour changed): the specification cannot be
        # put on trial against TeX in this run; the binding below still decides the property
        log("  [goldens] WARNING: no golden line could be paired with TeX's log; specification-vs-TeX validation skipped")
        return
    n, bad = validate_calls(w, "Trace_KnuthPlass", "Trace_KnuthPlass.cfg", ev, parts=2 if ctx.quick else 6,
                            env=LEAN if ctx.quick else None)
    _spec_error(bad)
    if bad:
        raise ToolError(f"unexpected verdicts on golden lines: {_short(bad[0][1])}")
    part["lines_of_real_tex_recomputed_by_the_reference_layer"] = n
    ctx.cov["evaluations"] += n


def _model(ctx, name, cfg, **kw):
    # TLC's -coverage mode runs out of memory on this specification (nested LET RECURSIVE); the vacuity
    # guard on the actions is taken from a labelled dump of the small model's state graph instead
    return tlc_model(ctx, name, "MC_KnuthPlass", cfg, coverage=False, env=LEAN if ctx.quick else None, **kw)


def actions_taken(ctx):
    dot = ctx.work / "actions.dot"
    res = tlc_model(ctx, "KnuthPlass.actions", "MC_KnuthPlass", "MC_KnuthPlass_actions.cfg", coverage=False, workers=1, env=LEAN,
                    args=["-dump", "dot,actionlabels", str(dot)])
    taken = {a: 0 for a in ACTIONS}
    for m in re.finditer(r'label="(\w+)"', dot.read_text()):
        if m.group(1) in taken:
            taken[m.group(1)] += 1
    for a, n in taken.items():
        if n == 0:
            raise ToolError(f"vacuous model: action {a} never taken in MC_KnuthPlass")
    ctx.cov["parts"]["KnuthPlass.actions"]["actions_taken"] = taken


def models(ctx):
    actions_taken(ctx)
    if ctx.quick:
        _model(ctx, "KnuthPlass.refinement", "MC_KnuthPlass.cfg", workers=4)
    else:
        _model(ctx, "KnuthPlass.refinement", "MC_KnuthPlass_thorough.cfg", workers=6, xmx="6g")
        _model(ctx, "KnuthPlass.refinement_len5", "MC_KnuthPlass_len5.cfg", workers=6, xmx="6g")


def negs(ctx):
    with cf.ThreadPoolExecutor(max_workers=2 if ctx.quick else 4) as ex:
        list(ex.map(lambda c: tlc_expect_refuted("MC_KnuthPlass", c[0], c[1], workers=1, env=LEAN), NEGS))
    ctx.cov["parts"]["KnuthPlass.negative_controls_refuted"] = len(NEGS)


def run(ctx):
    q = ctx.quick
    build_harness()
    ctx.cov["rule"] = (
        "bound = calls of the real break_line_single_attempt decided by Trace_KnuthPlass (outcome judged by the "
        "reference layer, every debug::Logger record checked against the reference layer's definition of that line); "
        "instances outside the quantifier (skip-nonmonotone, skip-demerits-range, final pass without a feasible "
        "sequence) are counted separately and not included.  exhaustive = every instance of the TLC model's domain; "
        "random = seeded paragraphs (words of boxes, discretionaries, font kerns; separators of glue, penalties, "
        "explicit kerns and runs of them; scales 1sp .. 300000sp; parameter pools with the boundary values).  "
        "non-trivial = the breaker returned a solution after logging feasible breaks at >= 3 places and >= 3 active "
        "nodes (counted by the harness from the logger, no specification logic).  tex_goldens (not counted as bound): "
        "lines of real TeX recomputed by the reference layer."
    )
    if q:
        jobs = [
            ("KnuthPlass.badness_sweep", ["c04-sweep", "step=1"], 1),
            ("KnuthPlass.exhaustive", ["c04-exh", "maxlen=3", "level=0"], 3),
            ("KnuthPlass.random", ["c04-rand", f"seed={ctx.seed}", "n=6000", "breaks=8"], 5),
        ]
    else:
        jobs = [
            ("KnuthPlass.badness_sweep", ["c04-sweep", "step=1"], 2),
            ("KnuthPlass.exhaustive", ["c04-exh", "maxlen=5", "level=0"], 10),
            ("KnuthPlass.exhaustive_full_alphabet", ["c04-exh", "maxlen=3", "level=1"], 8),
            ("KnuthPlass.random", ["c04-rand", f"seed={ctx.seed}", "n=250000", "breaks=8"], 10),
            ("KnuthPlass.random_long", ["c04-rand", f"seed={ctx.seed + 1}", "n=80000", "breaks=12"], 10),
        ]
    def chain(*fs):
        for f in fs:
            f()

    with cf.ThreadPoolExecutor(max_workers=4) as ex:
        if q:
            futs = [ex.submit(chain, lambda: models(ctx), lambda: negs(ctx)),
                    ex.submit(chain, lambda: goldens(ctx), lambda: bind(ctx, *jobs[0])),
                    ex.submit(bind, ctx, *jobs[1]), ex.submit(bind, ctx, *jobs[2])]
        else:
            futs = [ex.submit(models, ctx), ex.submit(negs, ctx), ex.submit(goldens, ctx)]
            # the big validations one after the other (each already spreads over many JVMs)
            for j in jobs:
                bind(ctx, *j)
        for f in futs:
            f.result()
    ctx.assumptions += [
        "monotonicity (the property's per-instance restriction) is evaluated by the specification: for every legal "
        "break a, every line width a line starting at a can have, 'the line from a to b is overfull' is upward closed "
        "in b up to the next forced break; other instances are counted as skip-nonmonotone (their logger records are "
        "still checked)",
        "demerits stay below awful_bad = 2^30-1 (TeX's own assumption, 833/836): instances whose a priori bound "
        "(lines x (capped (line_penalty+badness)^2 + largest penalty^2 + |hyphen demerits| + |adj_demerits|)) exceeds it "
        "are counted as skip-demerits-range",
        "with final = true (force_solution) and no feasible sequence TeX invents artificial demerits (854); the property "
        "says nothing about that case: counted as skip-final-pass-without-feasible-sequence; with a feasible sequence the "
        "final pass must return the looseness-optimal one",
        "the line material is TeX's break_width computation (837-842) literally, including its look-ahead over "
        "discardable items beyond the next breakpoint; glue shrink of any order counts as finite (825-826)",
        "lists contain characters, ligatures, rules, boxes, kerns (explicit, font, accent, math), glue of all stretch "
        "orders, penalties and discretionaries whose replacement run holds boxes and font kerns; math nodes, marks, "
        "insertions, adjusts and whatsits are not generated (math has no width in ds::Math, whatsit is todo!()); "
        "replacement runs may end in an explicit kern (TeX 1121 admits kerns in discretionary lists)",
        "dimensions are kept below 2^28 so that every sum fits 32 bits; a panic of the breaker is an event no "
        "specification accepts",
        "ties: any sequence with the optimal <<lines, demerits>> is accepted; with looseness the base line count may "
        "be that of any demerit-optimal sequence",
    ]


def replay(path):
    """Re-run the recorded instance on the real breaker and have TLC judge it again."""
    r = json.load(open(path))
    e = r.get("event", r)
    ctx = Ctx("C04", "replay")
    try:
        build_harness()
        src = ctx.work / "in.ndjson"
        src.write_text(json.dumps(e) + "\n")
        out = ctx.work / "replay.ndjson"
        p = vh(["c04-replay", f"in={src}", f"out={out}"])
        print(p.stderr.decode(errors="replace").strip())
        n, res = validate_calls(ctx, "Trace_KnuthPlass", "Trace_KnuthPlass.cfg", out, parts=1)
        _spec_error(res)
        if not res:
            print("accepted by the strict specification (TeX)")
            return 0
        rc = 0
        for ev, v in res:
            print("verdict:", _short(v, 3000))
            expl = v["devs"].split("+") if v.get("devs") else []
            if v.get("key") in SKIPS:
                print(f"outside the property's quantifier: {v['key']}")
            elif expl and all(ctx.finding_for(x) for x in expl):
                print("KNOWN-FINDING:", " + ".join(expl))
            else:
                if expl:
                    print("explained by deviations that are not recorded as open findings:", " + ".join(expl))
                print(f"VIOLATION property=C04 replay={path}")
                rc = 1
        return rc
    except ToolError as x:
        log(f"TOOL-ERROR [C04]: {x}")
        return 2
    finally:
        shutil.rmtree(ctx.work, ignore_errors=True)


def selftest(ctx):
    """The binding notices corrupted results and logger records; every negative control is refuted."""
    build_harness()
    ev = ctx.work / "self.ndjson"
    vh(["c04-rand", f"seed={ctx.seed}", "n=400", f"out={ev}"])
    n, bad = validate_calls(ctx, "Trace_KnuthPlass", "Trace_KnuthPlass.cfg", ev, parts=2)
    badset = {json.dumps(e, sort_keys=True) for e, _ in bad}
    good = [e for e in read_ndjson(ev) if json.dumps(e, sort_keys=True) not in badset]
    # not the final pass: its artificial-demerits records (854) are exempt from the record check
    solved = [e for e in good if e["res"]["k"] == "brk" and len(e["res"]["brk"]) >= 2 and len(e["log"]) >= 4
              and not e["final"]]
    failed = [e for e in good if e["res"]["k"] == "none" and not e["final"]]
    if len(solved) < 10 or len(failed) < 5:
        raise ToolError("selftest: too few accepted events to corrupt")
    muts, kinds = [], []

    def mut(e, f, kind="?"):
        e = json.loads(json.dumps(e))
        f(e)
        muts.append(e)
        kinds.append(kind)

    for e in solved[:10]:
        mut(e, lambda x: x["res"]["brk"].pop(0), "drop-first-break")
        mut(e, lambda x: x.__setitem__("res", {"k": "none"}), "claim-failure")
        mut(e, lambda x: x["log"][0].__setitem__("b", x["log"][0]["b"] + 1), "log-badness+1")
        mut(e, lambda x: x["log"][0].__setitem__("d", x["log"][0]["d"] + 1), "log-demerits+1")
        mut(e, lambda x: [r for r in x["log"] if r["t"] == "an"][0].__setitem__("fc", ([r for r in x["log"] if r["t"] == "an"][0]["fc"] + 1) % 4), "log-fitness")
        mut(e, lambda x: [r for r in x["log"] if r["t"] == "an"][-1].__setitem__("td", [r for r in x["log"] if r["t"] == "an"][-1]["td"] - 1), "log-total-1")
    for e in failed[:5]:
        mut(e, lambda x: x.__setitem__("res", {"k": "brk", "brk": [len(x["items"])]}), "claim-one-line-solution")
    mf = ctx.work / "mut.ndjson"
    mf.write_text("".join(json.dumps(e) + "\n" for e in muts))
    n2, bad2 = validate_calls(ctx, "Trace_KnuthPlass", "Trace_KnuthPlass.cfg", mf, parts=1)
    rejected = [v for _, v in bad2 if v["key"] not in SKIPS]
    log(f"[selftest] {len(muts)} corrupted events, {len(rejected)} rejected")
    if len(rejected) != len(muts):
        hit = {v["l"] for v in rejected}
        missed = [kinds[i] for i in range(len(muts)) if i + 1 not in hit]
        raise ToolError(f"selftest: {len(muts) - len(rejected)} corrupted events were accepted: {missed}")
    for cfg, what in NEGS:
        tlc_expect_refuted("MC_KnuthPlass", cfg, what, workers=1, env=LEAN)
    log(f"[selftest] {len(NEGS)} negative controls refuted")
    ctx.add_bound("KnuthPlass.selftest", n2, n2)
    ctx.cov["rule"] = "selftest: corrupted call events must be rejected, negative controls refuted"
