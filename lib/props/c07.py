"""C07 -- conditionals (TexCond.tla) and \\expandafter / \\noexpand (TexExpand.tla)."""
import json
from vlib import *
from texvm import texvm_part, texvm_selftest, texvm_consistency, texvm_suite, C07_CFG, C07_DEVS

LEVEL = "model_checking"
EXP_DEVS = {"noexpand-lost-under-expandafter": "Trace_TexExpand_dev.cfg"}
COND_DEVS = {"ifodd-negative": "Trace_TexCond_dev.cfg"}


def run(ctx):
    q = ctx.quick
    build_harness()
    sfx = "" if q else "_thorough"
    ctx.cov["rule"] = (
        "cond-replay: every well-formed token list (<= N tokens over iftrue/iffalse/ifcase -1..2/or/else/fi/"
        "plain/braces) that TLC prints with its expected delivery is run four ways (primitives, \\let-aliases on control sequences, on active characters, "
        "mixed); cond-events: random trees of depth 0..6 with \\ifnum/\\ifodd on boundary integers, unbalanced "
        "braces in bodies, decided by TLC (instances whose delivered text is brace-unbalanced are outside the "
        "property and counted as skipped); exp-replay / exp-events: token streams over 4 macros, \\expandafter, "
        "\\noexpand run on two VMs (simple / optimized built-in), both compared with the TeX reference layer.  "
        "All cases are distinct token lists; non-trivial = contains a conditional resp. an \\expandafter/\\noexpand."
    )
    # ---------------- conditionals ------------------------------------------------------
    tlc_model(ctx, "TexCond.machine_refines_tree", "MC_TexCond", f"MC_TexCond{sfx}.cfg", workers=6 if q else 14,
              coverage=False, timeout=3000)
    for bug in ["ElseAnyDepth", "OrAnyDepth"]:
        tlc_expect_refuted("MC_TexCond", f"NEG_TexCond_{bug}.cfg", bug, workers=3)
    cases, n = tlc_replay_cases(ctx, "TexCond.replay", "MC_TexCond", f"REPLAY_TexCond{sfx}.cfg", coverage=False,
                                timeout=3000)
    out = ctx.work / "condreplay.ndjson"
    vh(["c07-cond-replay", f"in={cases}", f"seed={ctx.seed}", f"out={out}"])
    nv = 0
    for r in read_ndjson(out):
        if r["kind"] == "violation":
            nv += 1
            if nv <= 5:
                ctx.violation(f"conditional: {r['program'][430:]!r} delivered {r['got']} {r['err']!r}, "
                              f"TexCond says {r['want']}", r)
        else:
            ctx.add_bound("TexCond.replay", r["runs"], r["cases"])
            ctx.sample({"cond_program": r["sample"]})
    ev = ctx.work / "condevents.ndjson"
    vh(["c07-cond-events", f"seed={ctx.seed}", f"n={6000 if q else 120000}", "depth=6", f"out={ev}"])
    n, bad = validate_calls(ctx, "Trace_TexCond", "Trace_TexCond.cfg", ev)
    for e, v in bad:
        if v["key"] in ("illformed", "design-disagreement"):
            raise ToolError(f"generator/spec problem: {v['key']} on {e['program']}")
    nskip = judge_calls(ctx, bad, "Trace_TexCond", COND_DEVS,
                        lambda e, v: f"conditional: {e['program'][430:]!r} delivered {e['out']} {e['err']!r}, "
                                     f"TexCond says {v.get('want')}")
    ctx.add_bound("TexCond.events", n - nskip, n - nskip, skipped_unbalanced_delivery=nskip)
    # ---------------- \expandafter / \noexpand -----------------------------------------
    tlc_model(ctx, "TexExpand.builtins_equal_and_refine", "MC_TexExpand", f"MC_TexExpand{sfx}.cfg",
              workers=6 if q else 14, coverage=False, timeout=3000)
    tlc_expect_refuted("MC_TexExpand", "NEG_TexExpand_ChainReversed.cfg", "optimized chain reversed", workers=3)
    tlc_expect_refuted("MC_TexExpand", "NEG_TexExpand_Strict.cfg",
                       "texlang's flag-less \\noexpand differs from TeX (the recorded deviation is real)", workers=3)
    cases, n = tlc_replay_cases(ctx, "TexExpand.replay", "MC_TexExpand", f"REPLAY_TexExpand{sfx}.cfg",
                                coverage=False, timeout=3000)
    out = ctx.work / "expreplay.ndjson"
    vh(["c07-exp-replay", f"in={cases}", f"out={out}"])
    # mismatching replay cases are judged like events (strict failed; deviation?)
    bad_cases = read_ndjson(out) if out.stat().st_size else []
    ctx.add_bound("TexExpand.replay", 2 * n, n)
    evs = ctx.work / "expevents.ndjson"
    vh(["c07-exp-events", f"seed={ctx.seed}", f"n={5000 if q else 100000}", "len=14", f"out={evs}"])
    # replay mismatches are appended to the events so that TLC (not Python) classifies them
    with open(evs, "a") as f:
        for r in bad_cases:
            f.write(json.dumps({"toks": r["toks"], "program": r["program"], "simple": r["simple"],
                                "optimized": r["optimized"]}, separators=(",", ":")) + "\n")
    n2, bad = validate_calls(ctx, "Trace_TexExpand", "Trace_TexExpand.cfg", evs)
    nskip = judge_calls(ctx, bad, "Trace_TexExpand", EXP_DEVS,
                        lambda e, v: f"expansion ({v['key']}): {e['program'][67:]!r} delivered simple={e['simple']} "
                                     f"optimized={e['optimized']}, TeX delivers {v.get('want')}")
    ctx.add_bound("TexExpand.events", n2 - nskip, n2 - nskip, skipped_eof=nskip)
    ctx.sample({"expand_event": read_ndjson(evs)[7]})
    ctx.assumptions += [
        "macros in expansion streams are a fixed table of four (arity 0/1, single-token arguments)",
        "a token protected by \\noexpand is observed through the VM's unexpanded_expansion_command handler",
        "streams on which TeX itself hits end of input after \\expandafter/\\noexpand are skipped (C09's domain)",
    ]
    # ---- the composed model: whole programs over the full primitive set (TexVM.tla) ------------
    texvm_consistency(ctx, "cond")
    texvm_suite(ctx, cfg=C07_CFG, devs=C07_DEVS)
    texvm_part(ctx, 6000 if ctx.quick else 80000, 707, cfg=C07_CFG, devs=C07_DEVS)


def selftest(ctx):
    build_harness()
    ev = ctx.work / "st-cond.ndjson"
    vh(["c07-cond-events", "seed=5", "n=400", "depth=4", f"out={ev}"])
    selftest_calls(ctx, "delivery-corrupted", "Trace_TexCond", "Trace_TexCond.cfg", ev,
                   lambda e: dict(e, out=e["out"] + [1]) if not e["err"] else None)
    ex = ctx.work / "st-exp.ndjson"
    vh(["c07-exp-events", "seed=5", "n=600", "len=8", f"out={ex}"])
    def swap(e):
        if e["optimized"]["err"] or not e["optimized"]["out"]: return None
        e["optimized"]["out"] = e["optimized"]["out"][:-1]
        return e
    selftest_calls(ctx, "optimized-delivery-corrupted", "Trace_TexExpand", "Trace_TexExpand_dev.cfg", ex, swap)
    for c in ["NEG_TexCond_ElseAnyDepth.cfg", "NEG_TexCond_OrAnyDepth.cfg"]:
        tlc_expect_refuted("MC_TexCond", c, c, workers=3)
    tlc_expect_refuted("MC_TexExpand", "NEG_TexExpand_ChainReversed.cfg", "chain reversed", workers=3)
    texvm_selftest(ctx)
    ctx.cov["rule"] = "selftest: corrupted recordings must be rejected, originals accepted, spec mutants refuted"


def replay(path):
    r = json.load(open(path))
    print(json.dumps(r, indent=1)[:3000])
    return 0
