"""C11 -- TFM <-> PL conversion is an idempotent normalisation that preserves the font.

Model step: MC_TfmCanon (specs/TfmCanon.tla: TFtoPL followed by PLtoTF as a design, in the shape of the code;
sub-domains lk / dims / tags / hdr; small redirect threshold) -- Canon(Canon(f)) = Canon(f), Same(f, Canon(f))
with the lig/kern pair function of LigKern.tla on every pair and TeX's main loop on every short word, chains
preserved, 8/16-bit fields fit, the written font converts silently again; 13 negative controls.
Binding R: TLC prints (font, Canon(font)) for the model's domains -- at the real threshold of 255, the small
programs sitting behind 253/254 padding steps -- and the harness compares the real tfm_to_pl / pl_to_tfm.
Binding F: harness/src/c11.rs records corpus fonts, fonts from random property lists and from a raw table
synthesiser (b0, b1, b2, warnings, byte equality, pairs, compiled programs); Trace_TfmCanon.tla judges them.
"""
import concurrent.futures as cf
import json
import re
from pathlib import Path

from vlib import *

LEVEL = "model_checking"

ACTIONS = ["Pick", "Emit", "Build", "Again"]
NEGS = ["NoShift", "BoundaryNotShifted", "BoundaryEntryLost", "ThresholdOffByOne", "KernIndexBeforeDedupe",
        "ZeroNotFirst", "DedupeUnstableIndex", "TagLostOnZeroWidth", "LabelsMerged",
        "DevOffsetSaturates", "DevOrphanLigLabelKept", "DevStopInChainLost", "DevHeaderWordsDropped"]
# finding key -> named deviation of the specification
DEVIATIONS = {
    "pack-entrypoints-256-redirects": "OffsetSaturates",
    "orphan-lig-label-outside-range": "OrphanLigLabelKept",
    "unconditional-stop-in-chain": "StopInChainLost",
    "header-words-beyond-255-dropped": "HeaderWordsBeyond255Dropped",
}
TRACE = "Trace_TfmCanon"


# ------------------------------------------------------------------------------------------
def run_jobs(jobs, par):
    """jobs: list of (label, callable).  Thread pool; the first ToolError is re-raised at the end."""
    out, err = {}, None
    with cf.ThreadPoolExecutor(max_workers=par) as ex:
        futs = {ex.submit(fn): label for label, fn in jobs}
        for f in cf.as_completed(futs):
            try:
                out[futs[f]] = f.result()
            except ToolError as e:
                err = err or e
    if err:
        raise err
    return out


def dump_cases(ctx, name, cfg, workers=3):
    """TLC prints one REPLAY case per font of the domain (several workers; the order does not matter).
    Cached under cache/ keyed by the hash of every spec file involved."""
    cdir = VERIF / "cache"
    cdir.mkdir(exist_ok=True)
    key = spec_hash(*(spec_closure("MC_TfmCanon") + [SPECS / cfg]))
    for old in cdir.glob(f"{name}-*"):
        if key not in old.name:
            old.unlink()
    path = cdir / f"{name}-{key}.ndjson"
    meta = cdir / f"{name}-{key}.meta.json"
    if path.exists() and meta.exists():
        m = json.loads(meta.read_text())
        res = TlcResult()
        res.distinct, res.generated, res.wall = m["distinct"], m["generated"], 0.0
        ctx.add_model(name, res)
        ctx.cov["parts"][name]["cached"] = True
        return path, m["cases"]
    res = tlc_run("MC_TfmCanon", cfg, workers=workers, xss="1g", xmx="6g", coverage=False, work=ctx.work / f"tlc-{name}",
                  timeout=3000)
    if res.violated or not res.ok:
        log(res.out[-4000:])
        raise ToolError(f"TLC case dump failed for MC_TfmCanon/{cfg}: {res.violated}")
    tmp = ctx.work / f"{name}.ndjson"
    n = 0
    with open(tmp, "w") as f:
        for obj in printed(res.out, "REPLAY"):
            f.write(json.dumps(obj, separators=(",", ":")) + "\n")
            n += 1
    if n == 0:
        raise ToolError(f"case dump of {cfg} is empty")
    os.replace(tmp, path)
    meta.write_text(json.dumps({"distinct": res.distinct, "generated": res.generated, "cases": n}))
    ctx.add_model(name, res)
    log(f"[tlc] {name}: {n} replay cases in {res.wall:.1f}s")
    return path, n


class Batch:
    """Events of one recorder, validated in round-robin chunks (big fonts are spread over the JVMs)."""

    def __init__(self, name, path):
        self.name = name
        self.path = Path(path)
        self.lines = self.path.read_bytes().splitlines(keepends=True)
        self.verdicts = {}  # line index -> verdict

    def event(self, i):
        return json.loads(self.lines[i])


def validate(ctx, name, lines, cfg, parts):
    """-> {index into lines: verdict} for the events the spec does not accept under `cfg`."""
    if not lines:
        return {}
    parts = max(1, min(parts, len(lines)))
    chunks = []
    for c in range(parts):
        idx = list(range(c, len(lines), parts))
        p = ctx.work / f"{name}-c{c:02d}.ndjson"
        with open(p, "wb") as f:
            f.writelines(lines[i] for i in idx)
        chunks.append((p, idx))
    res = {}

    def one(c):
        p, idx = chunks[c]
        v = tlc_validate_one(TRACE, cfg, p, ctx.work / f"tv-{name}-{c}", xmx="3g")
        if not v.accepted:
            raise ToolError(f"event validation stopped early in {p} at line {v.matched + 1}:\n{v.out[-2500:]}")
        return [(idx[x["l"] - 1], x) for x in v.verdicts]

    for r in run_jobs([(f"{name}:{c}", (lambda c=c: one(c))) for c in range(parts)], par=min(parts, 12)).values():
        for i, v in r:
            res[i] = v
    return res


def size_of(e):
    f0 = e.get("f0") or {}
    return len(f0.get("ci", [])), len(f0.get("lk", []))


def describe(e, v):
    nch, nlk = size_of(e)
    s = f"{e.get('src')} ({nch} char_info words, {nlk} lig/kern words): {v['key']} {json.dumps(v.get('info'))}"
    if v["key"] == "not-idempotent":
        s += f"; b1 ({e.get('len1')} bytes) vs b2 ({e.get('len2')} bytes) first differ at {e.get('diff')}; second trip warnings {e.get('w2')}"
    if v["key"] == "panic":
        s += f"; {e.get('panic')}"
    return s


def slim(e):
    """The event without the bulky pair/run lists (the replay re-records them)."""
    return {k: v for k, v in e.items() if k not in ("pairs", "runs", "f1", "f2")}


# ------------------------------------------------------------------------------------------
def run(ctx):
    q = ctx.quick
    build_harness()
    w = ctx.work
    seed = ctx.seed
    ctx.cov["rule"] = (
        "one bound case = one font b0 taken through the real tfm_to_pl / pl_to_tfm twice whose recorded files, "
        "warnings, byte comparison and compiled lig/kern runs were judged by Trace_TfmCanon.tla (idempotence, Same(f0, f1) "
        "with the pair function of LigKern.tla on the recorded pairs, f1 = Canon(f0), Canon(f1) = f1), or one font "
        "of the exhaustive model's domain whose real conversion was compared with the Canon(f) TLC printed (binding R); "
        "fonts whose first trip raises a warning are outside the quantifier: counted as skipped, not bound; "
        "non-trivial = fonts with a lig/kern program or with b1 != b0 (the conversion changed the file)")
    # ---------------- record the real code --------------------------------------------------
    corpus = w / "corpus.ndjson"
    rnd = w / "random.ndjson"
    vh(["c11-corpus", f"seed={seed}", f"out={corpus}", "small=24", "cap=3000", "extra=150", "runs=150"])
    if q:
        p = vh(["c11-random", f"seed={seed}", "small_fonts=420", "mid_fonts=50", "big_fonts=14", "twists=2",
                "small=16", "cap=1500", "extra=120", "runs=100", f"out={rnd}"])
    else:
        p = vh(["c11-random", f"seed={seed}", "small_fonts=6000", "mid_fonts=700", "big_fonts=220", "twists=6",
                "small=24", "cap=4000", "extra=300", "runs=300", f"out={rnd}"])
    gen_stats = json.loads(p.stderr.decode().strip().splitlines()[-1])
    batches = [Batch("corpus", corpus), Batch("random", rnd)]
    # one pinned font per recorded open finding (known_findings/repro/C11-<key>.json), so that a finding shows
    # in every run whatever the seed draws
    pinned = w / "pinned.ndjson"
    with open(pinned, "w") as pf:
        for rp in sorted((VERIF / "known_findings" / "repro").glob("C11-*.json")):
            key = rp.stem[len("C11-"):]
            if not ctx.finding_for(key):
                continue
            one = w / f"pinned-{key}.ndjson"
            vh(["c11-one", f"font={rp}", "seed=1", "small=16", "cap=1500", "extra=120", "runs=100", f"out={one}"])
            pf.write(one.read_text())
    if pinned.stat().st_size > 0:
        batches.append(Batch("pinned", pinned))

    # ---------------- models, negative controls, replay dumps, validation: side by side -----
    jobs = []

    def model(name, cfg, workers):
        # TLC's -coverage multiplies the run time of these operator-heavy models by ten and more.  The vacuity
        # guard is the depth of the state graph instead: a behaviour is Pick, Emit, Build, Again, Emit, Build and
        # nothing else, so depth 7 (with the initial state) means every action was taken and both trips completed.
        def go():
            res = tlc_model(ctx, name, "MC_TfmCanon", cfg, workers=workers, xmx="5g", coverage=False)
            m = re.search(r"The depth of the complete state graph search is (\d+)", res.out)
            if not m or int(m.group(1)) != 7:
                raise ToolError(f"vacuous model {cfg}: state graph depth {m.group(1) if m else '?'} instead of 7")
            ctx.cov["parts"][name]["actions_taken"] = {a: "yes (depth 7)" for a in ACTIONS}
            return res
        return go

    if q:
        jobs += [("mc-lk", model("TfmCanon.ligkern.T1", "MC_TfmCanon_lk.cfg", 4)),
                 ("mc-lk2", model("TfmCanon.ligkern.T2", "MC_TfmCanon_lk_t2.cfg", 4)),
                 ("mc-dims", model("TfmCanon.dims", "MC_TfmCanon_dims.cfg", 2)),
                 ("mc-tags", model("TfmCanon.tags", "MC_TfmCanon_tags.cfg", 3)),
                 ("mc-hdr", model("TfmCanon.header", "MC_TfmCanon_hdr.cfg", 1))]
    else:
        jobs += [("mc-lk", model("TfmCanon.ligkern.T1", "MC_TfmCanon_lk_thorough.cfg", 6)),
                 ("mc-lk2", model("TfmCanon.ligkern.T2", "MC_TfmCanon_lk_t2_thorough.cfg", 6)),
                 ("mc-lk3", model("TfmCanon.ligkern.3chars", "MC_TfmCanon_lk_nc3_thorough.cfg", 6)),
                 ("mc-dims", model("TfmCanon.dims", "MC_TfmCanon_dims_thorough.cfg", 6)),
                 ("mc-tags", model("TfmCanon.tags", "MC_TfmCanon_tags_thorough.cfg", 4)),
                 ("mc-hdr", model("TfmCanon.header", "MC_TfmCanon_hdr.cfg", 1))]
    # quick: the four controls that are the recorded deviations + two of the nine seeded defects (which two
    # depends on the seed); thorough and --selftest: all thirteen
    negs = NEGS if not q else NEGS[9:] + [NEGS[seed % 9], NEGS[(seed + 4) % 9]]
    for b in negs:
        jobs.append((f"neg:{b}", (lambda b=b: tlc_expect_refuted("MC_TfmCanon", f"NEG_TfmCanon_{b}.cfg", b, workers=2))))

    replay_out = {}

    def replay_job(name, cfg):
        def go():
            path, n = dump_cases(ctx, name, cfg)
            out = w / f"{name}.out.ndjson"
            vh(["c11-replay", f"in={path}", f"out={out}"])
            replay_out[name] = (n, read_ndjson(out))
        return go

    dumps = [("TfmCanon.replay.lk", "REPLAY_TfmCanon_lk.cfg"), ("TfmCanon.replay.dims", "REPLAY_TfmCanon_dims.cfg"),
             ("TfmCanon.replay.tags", "REPLAY_TfmCanon_tags.cfg"), ("TfmCanon.replay.hdr", "REPLAY_TfmCanon_hdr.cfg"),
             ("TfmCanon.replay.padded", "REPLAY_TfmCanon_pad.cfg" if q else "REPLAY_TfmCanon_pad_thorough.cfg")]
    for name, cfg in dumps:
        jobs.append((f"replay:{name}", replay_job(name, cfg)))

    strict = {}

    def validate_job(b):
        def go():
            per = 45 if b.name == "corpus" else (70 if q else 120)
            strict[b.name] = validate(ctx, b.name, b.lines, "Trace_TfmCanon.cfg", len(b.lines) // per + 1)
        return go

    for b in batches:
        jobs.append((f"validate:{b.name}", validate_job(b)))
    run_jobs(jobs, par=8 if q else 6)
    ctx.cov["parts"]["negative_controls_refuted"] = len(negs)

    # ---------------- binding R verdicts -----------------------------------------------------
    for name, (n, lines) in sorted(replay_out.items()):
        summ = [x for x in lines if "summary" in x][0]["summary"]
        bad = [x for x in lines if "why" in x]
        ctx.add_bound(name, summ["cases"], summ["cases"], with_redirect_words=summ["with_redirects"],
                      longest_program=summ["longest_program"])
        if summ["cases"] != n:
            raise ToolError(f"{name}: {n} cases printed, {summ['cases']} replayed")
        for x in bad[:5]:
            ctx.violation(f"{name} case {x['case']}: the real conversion {'; '.join(x['why'])}",
                          {"part": name, "f0": x["f"], "want": x["want"], "got": x.get("got"), "why": x["why"]})
        for x in bad[5:]:
            ctx.violations.append((f"{name} case {x['case']}", "(not stored)"))
        if summ["mismatches"] > len(bad):
            for _ in range(summ["mismatches"] - len(bad)):
                ctx.violations.append((f"{name}: further mismatch", "(not stored)"))

    # ---------------- binding F verdicts -----------------------------------------------------
    rejected = []  # (batch, index, verdict)
    for b in batches:
        vs = strict[b.name]
        skipped = {}
        for i, v in vs.items():
            if v["key"].startswith("skip-"):
                skipped[v["key"]] = skipped.get(v["key"], 0) + 1
            else:
                rejected.append((b, i, v))
        decided = len(b.lines) - sum(skipped.values())
        nontrivial, pairs, with_ins, runs, maxlk, maxch = 0, 0, 0, 0, 0, 0
        for i, ln in enumerate(b.lines):
            if i in vs and vs[i]["key"].startswith("skip-"):
                continue
            e = json.loads(ln)
            nch, nlk = size_of(e)
            maxlk, maxch = max(maxlk, nlk), max(maxch, sum(1 for x in (e.get("f0") or {}).get("ci", []) if x[0]))
            if nlk > 0 or e.get("len0") != e.get("len1") or e.get("f0") != e.get("f1"):
                nontrivial += 1
            pairs += len(e.get("pairs", []))
            runs += len(e.get("runs", []))
            how = e.get("how", {})
            with_ins += how.get("with_instruction", how.get("with_instruction_taken", 0))
        ctx.add_bound(f"bind.{b.name}", decided, nontrivial, events=len(b.lines), skipped=skipped,
                      pairs_judged=pairs, pairs_with_instruction=with_ins, compiled_runs_compared=runs,
                      longest_program=maxlk, most_characters=maxch)
        if b.lines:
            e = b.event(len(b.lines) // 3)
            ctx.sample({"driver": b.name, "src": e.get("src"), "len0": e.get("len0"), "len1": e.get("len1"),
                        "eq": e.get("eq"), "w1": e.get("w1"), "how": e.get("how")})
    ctx.cov["parts"]["bind.random"]["generator"] = gen_stats
    # rejected events once more, with exactly one recorded deviation enabled at a time
    explained = {}
    for key, dev in DEVIATIONS.items():
        if not ctx.finding_for(key):
            continue
        cand = [k for k in range(len(rejected)) if k not in explained]
        if not cand:
            break
        lines = [rejected[k][0].lines[rejected[k][1]] for k in cand]
        still = validate(ctx, f"dev-{dev}", lines, f"Trace_TfmCanon_dev_{dev}.cfg", len(lines) // 20 + 1)
        for n, k in enumerate(cand):
            if n not in still:
                explained[k] = key
    shown = 0
    for k, (b, i, v) in enumerate(rejected):
        e = b.event(i)
        if k in explained:
            if explained[k] not in ctx.known:
                # one reproduction per recorded finding: ./check C11 --replay replays/C11/<tier>-known-<key>.json
                d = VERIF / "replays" / ctx.id
                d.mkdir(parents=True, exist_ok=True)
                (d / f"{ctx.tier}-known-{explained[k]}.json").write_text(json.dumps(
                    {"property": ctx.id, "known_finding": explained[k], "desc": describe(e, v), "part": b.name,
                     "event": slim(e), "verdict": {x: v[x] for x in v if x != "want"}}, indent=1, sort_keys=True))
            ctx.known_finding(explained[k])
            continue
        shown += 1
        if shown <= 10:
            key = None
            if v["key"] == "panic":
                pan = e.get("panic") or [0, "?", "?"]
                key = f"panic:{pan[1]}:{pan[2]}"
            ctx.judge(key, describe(e, v), {"part": b.name, "event": slim(e), "verdict": {x: v[x] for x in v if x != "want"}})
        else:
            ctx.violations.append((describe(e, v), "(not stored)"))
    # vacuity guard: the fonts the generators build to convert silently must mostly do so (a font with a warning
    # is outside the quantifier and nothing is decided about it).  Only when nothing else was found: a violation
    # is a violation, tool trouble never accompanies one.
    clean, clean_w = gen_stats.get("clean", 0), gen_stats.get("clean_with_warnings", 0)
    if not ctx.violations and (clean == 0 or clean_w * 5 > clean):
        raise ToolError(f"vacuous: {clean_w} of {clean} fonts generated to convert silently raised warnings "
                        f"(they are outside the quantifier; nothing is decided about them)")
    ctx.assumptions += [
        "quantifier: a font is 'warning-free' when neither tfm_to_pl nor pl_to_tfm reports anything on the first trip; "
        "other fonts are recorded, counted (skip-warnings) and not judged",
        "header: check sum, design size, face and header words 18.. must be identical; CODINGSCHEME / FAMILY are compared "
        "as a property list can say them (capitals, no leading blanks, PLtoTF's UNSPECIFIED default for a header too short "
        "to hold them); bytes 1-2 of header word 17 and the bytes behind a string inside its field carry no information; "
        "the seven-bit-safe flag of the written file is the converter's own finding (PLtoTF 110-112): required only that a "
        "claim is kept, and left out of the literal comparison f1 = Canon(f0)",
        "characters: a character exists iff its width index is not 0; tags of codes without a character are not part of the "
        "font (lig tags of such codes inside the range of existing characters take part in the conversion, as in TFtoPL/PLtoTF)",
        "lig/kern behaviour is compared at three levels: the instruction TeX selects for a pair (LigKern.tla Lookup, TeX 1039) "
        "with its operand (kern amount, not kern index), TFtoPL's f(x,y), and the output of the real compiled programs of "
        "b0 and b1 on the one- and two-character words of existing characters; small fonts (<= 16/24 characters): every pair "
        "incl. both boundaries; big fonts: every pair that has an instruction in b0 or b1 (capped, then a seeded subset) plus "
        "a seeded sample of other pairs (counts in the evidence: pairs_judged, pairs_with_instruction)",
        "f1 = Canon(f0) is claimed where the design covers f0 (InScope of TfmCanon.tla: indices valid, tags resolvable, no "
        "unconditional stop word inside a chain, no lig tag on a missing character outside the range of existing ones, header "
        "<= 256 words); other warning-free fonts are judged on idempotence and Same only (skip-uncovered is counted)",
        "property-list fonts: pl_to_tfm output is taken as b0 whatever warnings the generation step raised; more than "
        "15/15/63 distinct heights/depths/italics in a property list are merged by pl_to_tfm before b0 exists (C17's subject)",
        "byte-level clauses (b1 = b2, first differing offset and section) are decided at the protocol level: the recorded "
        "comparison is judged by the trace spec; everything the sections say is decided by the model (Canon(f1) = f1)",
    ]


# ------------------------------------------------------------------------------------------
def replay(path):
    """Re-run the recorded font on the current code and decide it again."""
    ctx = Ctx("C11", "replay")
    try:
        build_harness()
        rec = json.load(open(path))
        if "want" in rec:  # binding R case
            p = ctx.work / "case.ndjson"
            p.write_text(json.dumps({"f": rec["f0"], "want": rec["want"]}) + "\n")
            out = ctx.work / "case.out"
            vh(["c11-replay", f"in={p}", f"out={out}"])
            bad = [x for x in read_ndjson(out) if "why" in x]
            if not bad:
                print("replay: the current code produces the file the design predicts")
                return 0
            print("replay: REJECTED --", "; ".join(bad[0]["why"]))
            return 1
        ev = ctx.work / "replay.ndjson"
        fj = ctx.work / "font.json"
        fj.write_text(json.dumps(rec["event"]["f0"]))
        vh(["c11-one", f"font={fj}", f"out={ev}", "small=24", "cap=4000", "extra=300", "runs=300"])
        lines = Path(ev).read_bytes().splitlines(keepends=True)
        vs = validate(ctx, "replay", lines, "Trace_TfmCanon.cfg", 1)
        e = json.loads(lines[0])
        e["src"] = rec["event"].get("src")
        if not vs or vs[0]["key"].startswith("skip-"):
            print("replay: the current code is accepted by the specification on this font", vs.get(0, {}).get("key", ""))
            return 0
        print("replay: REJECTED --", describe(e, vs[0]))
        return 1
    finally:
        shutil.rmtree(ctx.work, ignore_errors=True)


# ------------------------------------------------------------------------------------------
def selftest(ctx):
    """Corrupted recordings must be rejected, every spec-level mutant refuted, a corrupted expectation of
    binding R noticed."""
    build_harness()
    w = ctx.work
    src = w / "st.ndjson"
    vh(["c11-random", f"seed={ctx.seed}", "small_fonts=60", "mid_fonts=6", "big_fonts=0", "twists=0", f"out={src}"])
    events = [e for e in read_ndjson(src) if e.get("eq") == 1 and not e["w1"][0] and not e["w1"][1]]
    muts = []

    def first(pred):
        for e in events:
            if pred(e):
                return json.loads(json.dumps(e))
        raise ToolError("selftest: no suitable event")

    e = first(lambda e: len(e["f1"]["lk"]) > 2)
    e["eq"] = 0
    e["diff"] = {"off": 100, "section": "lig_kern"}
    muts.append(("b1 != b2 recorded", e))
    e = first(lambda e: True)
    e["w2"] = [[], ["A warning"]]
    muts.append(("warning on the second trip", e))
    e = first(lambda e: len(e["f1"]["w"]) > 2)
    e["f1"]["w"][1], e["f1"]["w"][2] = e["f1"]["w"][2], e["f1"]["w"][1]
    muts.append(("two widths of b1 swapped (table no longer sorted, characters get the other width)", e))
    e = first(lambda e: any(x[2] % 4 == 1 and x[0] for x in e["f1"]["ci"]) and len(e["f1"]["lk"]) > 3)
    for x in e["f1"]["ci"]:
        if x[2] % 4 == 1 and x[0]:
            x[3] = (x[3] + 1) % len(e["f1"]["lk"])
            break
    muts.append(("entry point of one character moved by one", e))
    e = first(lambda e: len(e["f1"]["k"]) > 1)
    e["f1"]["k"][0] += 1
    muts.append(("one kern amount of b1 changed", e))
    e = first(lambda e: len(e["f1"]["p"]) > 0)
    e["f1"]["p"][-1] += 1
    muts.append(("last parameter of b1 changed", e))
    e = first(lambda e: len(e["f1"]["hd"]) >= 18)
    e["f1"]["hd"][17][3] = (e["f1"]["hd"][17][3] + 1) % 256
    muts.append(("face byte of b1 changed", e))
    e = first(lambda e: any(x[2] % 4 == 2 and x[0] for x in e["f1"]["ci"]))
    for x in e["f1"]["ci"]:
        if x[2] % 4 == 2 and x[0]:
            x[2] -= 2
            break
    muts.append(("NEXTLARGER tag of one character lost", e))
    e = first(lambda e: len(e["runs"]) > 0)
    e["runs"][0]["o1"] = e["runs"][0]["o1"] + [[0, 1]]
    muts.append(("compiled program of b1 behaves differently on one word", e))
    e = first(lambda e: len(e["f1"]["lk"]) > 1 and len(e["f1"]["e"]) == 0 and e["f1"]["lk"][-1][0] != 255)
    e["f1"]["lk"] = e["f1"]["lk"] + [[128, e["f1"]["lk"][0][1], 0, e["f1"]["lk"][0][1]]]
    muts.append(("an unused step appended to b1's program (same font, not canonical)", e))
    bad = w / "st-bad.ndjson"
    with open(bad, "w") as f:
        for _, e in muts:
            f.write(json.dumps(e) + "\n")
    lines0 = Path(src).read_bytes().splitlines(keepends=True)
    v0 = validate(ctx, "st-ok", lines0, "Trace_TfmCanon.cfg", 3)
    real = {i: v for i, v in v0.items() if not v["key"].startswith("skip-")}
    if real:
        raise ToolError(f"selftest: unmodified events rejected: {list(real.items())[:2]}")
    v1 = validate(ctx, "st-bad", Path(bad).read_bytes().splitlines(keepends=True), "Trace_TfmCanon.cfg", 2)
    for n, (what, _) in enumerate(muts):
        if n not in v1 or v1[n]["key"].startswith("skip-"):
            raise ToolError(f"selftest: corrupted event not rejected ({what})")
        log(f"[selftest] rejected as expected: {what} -> {v1[n]['key']} {v1[n].get('info')}")
    # binding R: a corrupted expectation is noticed
    path, n = dump_cases(ctx, "TfmCanon.replay.tags", "REPLAY_TfmCanon_tags.cfg")
    cases = read_ndjson(path)[:200]
    k = next(i for i, c in enumerate(cases) if len(c["want"]["ci"]) > 0)
    cases[k]["want"]["ci"][0][0] += 1
    p = w / "st-cases.ndjson"
    with open(p, "w") as f:
        for c in cases:
            f.write(json.dumps(c) + "\n")
    out = w / "st-cases.out"
    vh(["c11-replay", f"in={p}", f"out={out}"])
    badc = [x for x in read_ndjson(out) if "why" in x]
    if len(badc) != 1 or badc[0]["case"] != k + 1:
        raise ToolError(f"selftest: corrupted replay expectation not singled out ({len(badc)} mismatches)")
    log("[selftest] binding R: the one corrupted expectation was noticed, the other 199 cases agree")
    for bname in NEGS:
        tlc_expect_refuted("MC_TfmCanon", f"NEG_TfmCanon_{bname}.cfg", bname, workers=3)
        log(f"[selftest] spec mutant refuted: {bname}")
    ctx.add_bound("selftest", len(muts) + 1, len(muts) + 1)
    ctx.cov["parts"]["negative_controls_refuted"] = len(NEGS)
