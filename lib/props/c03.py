"""C03 -- lexing follows TeX's scanner; every token traces to its source position (TexLexer.tla)."""
import json
from vlib import *
from texvm import texvm_source_part, texvm_source_selftest

LEVEL = "model_checking"
DEVS = {"caret-hex-form": "Trace_TexLexer_dev.cfg"}


def run(ctx):
    q = ctx.quick
    build_harness()
    sfx = "" if q else "_thorough"
    ctx.cov["rule"] = (
        "every text up to the stated length over a role alphabet (escape, letters incl. hex digits, space, ^, "
        "comment, non-ASCII, DEL=invalid, newline) x \\endlinechar in {none, CR, a, ^} under a plain-like table, "
        "plus random texts (CR, NUL, DEL, TAB, non-ASCII, doubled ^^/~~/MM, trailing blanks, with/without final "
        "newline) where every occurring character gets a random category code (all 16 codes) and \\endlinechar "
        "ranges over 13 values; each event is the complete token list with (line, column, line text) from the "
        "real Tracer, decided by TLC against Lex().  All events are distinct inputs; non-trivial = non-empty text."
    )
    tlc_model(ctx, "TexLexer.scanner_invariants", "MC_TexLexer", f"MC_TexLexer{sfx}.cfg", workers=6 if q else 14,
              coverage=False, timeout=3000)
    tlc_expect_refuted("MC_TexLexer", "NEG_TexLexer_NoSkipBlanks.cfg", "space does not enter skip_blanks", workers=3)
    ev = ctx.work / "lex.ndjson"
    vh(["c03-events", f"seed={ctx.seed}", f"exhaustive={4 if q else 5}", f"random={15000 if q else 300000}", f"out={ev}"])
    n, bad = validate_calls(ctx, "Trace_TexLexer", "Trace_TexLexer.cfg", ev, timeout=7200)
    judge_calls(ctx, bad, "Trace_TexLexer", DEVS,
                lambda e, v: f"lexer ({v['key']}) on {e['text']!r} endlinechar={e['elc']} table={e['table']}: got "
                             f"{[(t['cat'], t['ch'], t['name'], t['ln'], t['col']) for t in e['toks']]} {e['panic']!r}; "
                             f"TeX: {[(t['cat'], t['ch'], t['name'], t['ln'], t['col']) for t in v.get('want', [])]}")
    ctx.add_bound("TexLexer.events", n, n - 4)
    evs = read_ndjson(ev)
    ctx.sample({k: evs[len(evs) - 3][k] for k in ("text", "table", "elc", "toks")})
    # the lexer inside the interpreter: category codes and the line end change while the file is being read
    tlc_model(ctx, "TexVM.stepwise_lexer_is_TexLexer", "MC_TexVM_Lex", f"MC_TexVM_Lex{sfx}.cfg", workers=6 if q else 14,
              coverage=False, timeout=3000)
    tlc_expect_refuted("MC_TexVM_Lex", "NEG_TexVM_Lex_vacuity.cfg", "no text has three tokens", workers=3)
    texvm_source_part(ctx, 2400 if q else 40000, 303)
    ctx.assumptions += [
        "position of a ^^-reduced character = the character that was rewritten (third character), as the repository's tests pin it",
        "position of the space/\\par made from the end-line character = the column just after the right-trimmed line",
        "\\endlinechar values are restricted to 0..127 and none (texlang appends any char; TeX only 0..255)",
    ]


def selftest(ctx):
    build_harness()
    ev = ctx.work / "st-lex.ndjson"
    vh(["c03-events", "seed=3", "exhaustive=2", "random=300", f"out={ev}"])
    def shift(e):
        if not e["toks"] or e["panic"]: return None
        e["toks"][-1]["col"] += 1
        return e
    selftest_calls(ctx, "column-shifted", "Trace_TexLexer", "Trace_TexLexer_dev.cfg", ev, shift)
    selftest_calls(ctx, "token-dropped", "Trace_TexLexer", "Trace_TexLexer_dev.cfg", ev,
                   lambda e: dict(e, toks=e["toks"][1:]) if e["toks"] and not e["panic"] else None)
    tlc_expect_refuted("MC_TexLexer", "NEG_TexLexer_NoSkipBlanks.cfg", "NoSkipBlanks", workers=3)
    texvm_source_selftest(ctx)
    ctx.cov["rule"] = "selftest: corrupted recordings must be rejected, originals accepted, spec mutant refuted"


def replay(path):
    r = json.load(open(path))
    print(json.dumps(r, indent=1)[:3000])
    return 0
