"""C12 -- typesetting a paragraph conserves its content and honours the geometry.

Model steps (TLC, exhaustive within small constants):
  specs/SpaceFactor.tla    the space-factor machine (tex.web 1034, 1041-1044, xn_over_d of 107): laws over the
                           token history, machine = function, code layer (boxworks-text) = TeX + the recorded deviation
  specs/PostLineBreak.tla  816 + post_line_break (877-890) as a machine with one action per kind of breakpoint and
                           one step per pruned node; conservation / discardables / geometry / skips / penalties as
                           laws over the finished vertical list; code layer (boxworks-knuthplass) = TeX + deviation
  negative controls: each recorded deviation and each seeded mutant is refuted by the law it breaks.

Binding F on the real code (harness/src/c12.rs):
  text events   boxworks_text's add_text on generated texts (cmr10 and a synthetic PL font; ligatures, kerns,
                explicit hyphens, modified \\sfcode tables, \\spaceskip / \\xspaceskip) -> Trace_SpaceFactor
  para events   LineBreaker::break_line on lists from add_text (hyphenation on / off) and on hand-built lists
                (runs of glue / penalty / kern, discretionaries with pre-/post-break material and replacement
                counts), width and indent sequences, skip and penalty settings -> Trace_PostLineBreak
  goldens       the repository's own golden paragraphs (vertical lists written from real TeX's log): the
                specification itself is compared with real TeX there.
"""
import concurrent.futures as cf
import json
import time
from pathlib import Path

from vlib import *

LEVEL = "model_checking"

SF_DEVS = {"spaceskip_not_scaled_by_space_factor": "Trace_SpaceFactor_dev.cfg"}
PLB_DEVS = {"discardables_after_break_not_pruned": "Trace_PostLineBreak_dev.cfg"}

SF_NEGS = [
    ("NEG_SpaceFactor_DevSpaceSkip.cfg", "deviation spaceskip_not_scaled_by_space_factor breaks the glue law"),
    ("NEG_SpaceFactor_CodeIsTex.cfg", "code layer (add_space) equals TeX"),
    ("NEG_SpaceFactor_NoCapitalRule.cfg", "a code above 1000 taken over although the factor is below 1000"),
    ("NEG_SpaceFactor_ExtraAbove2000.cfg", "extra space only above 2000 instead of from 2000"),
    ("NEG_SpaceFactor_ShrinkLikeStretch.cfg", "shrink multiplied by f/1000 instead of 1000/f"),
]
PLB_NEGS = [
    ("NEG_PostLineBreak_DevNoPrune.cfg", "deviation discardables_after_break_not_pruned lets a line begin with a discardable item"),
    ("NEG_PostLineBreak_CodeIsTex.cfg", "code layer (post_line_break) equals TeX"),
    ("NEG_PostLineBreak_PostOnSameLine.cfg", "post-break material attached to the line that was broken"),
    ("NEG_PostLineBreak_ReplacedNodesKept.cfg", "the nodes a discretionary replaces survive the break"),
    ("NEG_PostLineBreak_WidowAfterLastLine.cfg", "widow penalty after the last line"),
    ("NEG_PostLineBreak_IndentIndexFromWidths.cfg", "indent index clamped with the wrong length"),
    ("NEG_PostLineBreak_PruneAnyKern.cfg", "font kerns pruned after a break"),
]
SF_ACTIONS = ["CharNormal", "CharLow", "CharHigh", "CharZero", "Space"]
PLB_ACTIONS = ["AppendChar", "AppendGlue", "AppendPenalty", "AppendKern", "AppendDisc", "ParEndAndChoose",
               "JustifyAtGlue", "JustifyAtKern", "JustifyAtPenalty", "JustifyAtDisc", "JustifyLast",
               "PruneNode", "PruneStop"]


def chars(codes):
    return "".join(chr(c) if 32 <= c < 127 else f"\\x{c:02x}" for c in codes)


def show_nodes(ns, cap=14):
    out = []
    for n in ns[:cap]:
        k = n["k"]
        if k == "char":
            out.append(chars([n["c"]]))
        elif k == "lig":
            out.append("lig(" + chars(n["o"]) + ")")
        elif k == "glue":
            out.append(f"glue({n['w']}+{n['st']}-{n['sh']})")
        elif k == "kern":
            out.append(f"kern{'!' if n['kk'] == 1 else ''}({n['w']})")
        elif k == "penalty":
            out.append(f"pen({n['p']})")
        elif k == "disc":
            out.append(f"disc({len(n['pre'])},{len(n['post'])},{n['rc']})")
        else:
            out.append(k)
    return " ".join(out) + (" ..." if len(ns) > cap else "")


def describe_text(e, v):
    got = [n for n in e.get("nodes", []) if n["k"] == "glue"]
    return (f"add_text({e['text']!r}, font {e['font']}, \\spaceskip={e['S']['ss']}, \\xspaceskip={e['S']['xs']}, "
            f"sf codes {e['sfc']}): clause {v['key']} fails; "
            + (f"panic {e['panic']}" if "panic" in e else
               f"glue nodes {[(g['w'], g['st'], g['sh']) for g in got]}, TeX (1041-1044) appends "
               f"{[(g['w'], g['st'], g['sh']) for g in v.get('want_glue', [])]}"))


def describe_para(e, v):
    if "panic" in e:
        return f"break_line panicked: {e['panic']} on {show_nodes(e['orig'])}"
    d = v.get("diag", {})
    if v["key"] == "differs_from_tex_golden":
        return (f"golden paragraph {d.get('file')}: every clause holds for the list the code built, but the vertical list "
                f"differs from the one real TeX made of the same text (the horizontal list itself is not TeX's)")
    return (f"break_line on [{show_nodes(e['orig'])}] widths {e['P']['widths']} indents {e['P']['indents']} "
            f"breakpoints {e.get('bps')}: clause {v['key']} fails; vertical item {d.get('at')}: "
            f"TeX{' with the recorded deviations' if d.get('with_recorded_deviations') else ''} "
            f"{json.dumps(d.get('tex'))[:600]} / code {json.dumps(d.get('got'))[:600]}")


def slim(e):
    """An event small enough for the evidence file."""
    e = dict(e)
    for k in ("orig", "list"):
        if k in e and len(e[k]) > 12:
            e[k] = e[k][:12] + [f"... {len(e[k]) - 12} more nodes"]
    if "v" in e:
        e["v"] = [({**x, "list": show_nodes(x["list"], 30)} if x.get("k") == "hbox" else x) for x in e["v"][:8]]
    e.pop("tex", None)
    e.pop("K", None)
    return e


def record(ctx, part, cmd, module, parts):
    """Run the harness and let TLC judge every event with the strict specification (thread-safe part)."""
    class Own:  # vlib's validators keep their scratch files under ctx.work: one directory per recording
        work = ctx.work / part
    Own.work.mkdir(parents=True, exist_ok=True)
    ev = Own.work / f"{part}.ndjson"
    stats = Own.work / f"{part}.stats.json"
    vh(cmd + [f"out={ev}", f"stats={stats}"])
    st = json.loads(stats.read_text())
    n, bad = validate_calls(Own, module, module + ".cfg", ev, parts=parts)
    return part, module, ev, st, n, bad


def judge(ctx, rec, devs, describe):
    part, module, ev, st, n, bad = rec
    for e, v in bad:
        if v.get("key") == "spec_disagrees_with_tex_golden":
            # the specification, not the code, is on trial against a paragraph set by real TeX
            raise ToolError("specification disagrees with a golden paragraph of the repository set by real TeX: "
                            + json.dumps(v.get("diag")))
    judge_calls(ctx, bad, module, devs, describe)
    ctx.add_bound(part, n, st["nontrivial"], distinct_events=st["distinct"], panics=st["panics"],
                  rejected_by_strict_spec=len(bad), measured=st["counts"], longest_list=st["longest_list"],
                  generator=st["gen"])
    took = 0
    with open(ev) as f:
        for i, line in enumerate(f):
            if took < 1 and i % 97 == 13 and len(line) < 6000:
                ctx.sample({part: slim(json.loads(line))})
                took += 1
    return n


def model_sf(ctx):
    # vacuity guard on the small model (coverage run), then the laws on the larger one
    # (the machine's state is the factor alone: <= 4 tokens reach every transition; the longer runs of the
    # thorough tier only lengthen the histories the laws are read from)
    tlc_model(ctx, "SpaceFactor.laws_with_action_coverage", "MC_SpaceFactor", "MC_SpaceFactor_actions.cfg",
              expect_actions=SF_ACTIONS, workers=2, coverage=True)
    if not ctx.quick:
        tlc_model(ctx, "SpaceFactor.laws", "MC_SpaceFactor", "MC_SpaceFactor_thorough.cfg", workers=6, coverage=False)


def model_plb_actions(ctx):
    # vacuity guard on the smallest model (coverage run): every Append / Justify / Prune action is taken;
    # then every setting on lists of <= 2 nodes
    tlc_model(ctx, "PostLineBreak.actions", "MC_PostLineBreak", "MC_PostLineBreak_actions.cfg",
              expect_actions=PLB_ACTIONS, workers=2, coverage=True)
    tlc_model(ctx, "PostLineBreak.laws_len2_all_settings", "MC_PostLineBreak", "MC_PostLineBreak_len2.cfg",
              workers=2, coverage=False)


def model_plb(ctx):
    if ctx.quick:
        tlc_model(ctx, "PostLineBreak.laws", "MC_PostLineBreak", "MC_PostLineBreak.cfg", workers=4, coverage=False)
    else:
        tlc_model(ctx, "PostLineBreak.laws", "MC_PostLineBreak", "MC_PostLineBreak_thorough.cfg", workers=6,
                  coverage=False, xmx="6g", timeout=3000)


def model_plb_deep(ctx):
    if not ctx.quick:
        tlc_model(ctx, "PostLineBreak.laws_len5", "MC_PostLineBreak", "MC_PostLineBreak_len5.cfg", workers=5,
                  coverage=False, xmx="6g", timeout=3000)
        tlc_model(ctx, "PostLineBreak.laws_len3_all_settings", "MC_PostLineBreak", "MC_PostLineBreak_len3.cfg",
                  workers=5, coverage=False, xmx="6g", timeout=3000)


def negs(ctx, module, lst, name):
    t = time.time()
    for cfg, what in lst:
        tlc_expect_refuted(module, cfg, what, workers=1)
    ctx.cov["parts"][name] = ctx.cov["parts"].get(name, 0) + len(lst)
    log(f"[tlc] {name}: {len(lst)} refuted in {time.time() - t:.1f}s")


def run(ctx):
    q = ctx.quick
    build_harness()
    ctx.cov["rule"] = (
        "bound = call events of the real code decided by TLC.  text.*: one add_text call each (19 pinned examples of "
        "boxworks-text's spacing tests, then seeded random texts of 1..9 words over cmr10 / a synthetic PL font, half of "
        "them with a modified \\sfcode table, 5/8 with a non-zero \\spaceskip, \\xspaceskip); non-trivial = distinct "
        "events with >= 2 words and a character whose code is not 1000 or a non-zero skip.  para.*: one break_line call "
        "each (goldens: the 29 cases of boxworks-knuthplass's test table, also compared with real TeX's vertical list; "
        "exhaustive: every list of <= maxlen nodes over char, glue, penalty, forced break, explicit kern, font kern, "
        "empty discretionary, discretionary with pre/post/replacement under two settings; random: 40% add_text lists "
        "with plain TeX's hyphenator on half of the cmr10 ones, 60% hand-built lists of <= 30 nodes); non-trivial = "
        "distinct events with >= 2 lines.  Counts of breaks by kind, breaks followed by a discardable item, breaks with "
        "post-break material are measured by the harness (parts.*.measured)."
    )
    with cf.ThreadPoolExecutor(max_workers=5) as ex:
        futs = [ex.submit(model_plb, ctx), ex.submit(model_sf, ctx), ex.submit(model_plb_actions, ctx),
                ex.submit(negs, ctx, "MC_PostLineBreak", PLB_NEGS, "PostLineBreak.negative_controls_refuted"),
                ex.submit(negs, ctx, "MC_SpaceFactor", SF_NEGS, "SpaceFactor.negative_controls_refuted"),
                ex.submit(model_plb_deep, ctx)]
        # ---------------- binding F --------------------------------------------------------------
        seed = ctx.seed
        if q:
            plan = [("text.random", ["c12-text", f"seed={seed}", "n=2500"], "Trace_SpaceFactor", 2),
                    ("para.tex_goldens", ["c12-goldens"], "Trace_PostLineBreak", 1),
                    ("para.exhaustive", ["c12-exh", "maxlen=3"], "Trace_PostLineBreak", 1),
                    ("para.random", ["c12-para", f"seed={seed}", "n=2500"], "Trace_PostLineBreak", 3)]
        else:
            plan = [("text.random", ["c12-text", f"seed={seed}", "n=150000"], "Trace_SpaceFactor", 10),
                    ("para.tex_goldens", ["c12-goldens"], "Trace_PostLineBreak", 1),
                    ("para.exhaustive", ["c12-exh", "maxlen=5"], "Trace_PostLineBreak", 10),
                    ("para.random", ["c12-para", f"seed={seed}", "n=120000"], "Trace_PostLineBreak", 10),
                    ("para.random_text", ["c12-para", f"seed={seed + 1}", "n=30000", "text=100"],
                     "Trace_PostLineBreak", 10)]
        # two at a time when quick (the events are few, JVM start-up dominates), one after the other when thorough
        with cf.ThreadPoolExecutor(max_workers=2 if q else 1) as bx:
            recs = [bx.submit(record, ctx, part, cmd, module, parts) for part, cmd, module, parts in plan]
            for r in recs:
                rec = r.result()
                if rec[1] == "Trace_SpaceFactor":
                    judge(ctx, rec, SF_DEVS, describe_text)
                else:
                    judge(ctx, rec, PLB_DEVS, describe_para)
        for f in futs:
            f.result()
    ctx.assumptions += [
        "texts have no leading or trailing blank (add_text's treatment of those is boxworks' own convention, not TeX's); "
        "runs of blanks and newlines between words are generated; characters exist in the font",
        "space-factor codes are 0..32767 and glue components stay far below 2^30 / 33, so that xn_over_d (107) never "
        "sets arith_error (boxworks-text unwraps there; TeX carries on with a garbage value)",
        "paragraphs whose summed |width|, |stretch| or |shrink| (per order, skips counted once per node) reach 2^30 sp "
        "are generated but not run (counted as skipped_totals_beyond_max_dimen): TeX adds these totals in 32-bit "
        "integers without a check (TeX.2021.104), so such a paragraph has no defined meaning; reachable because a "
        "space factor of 1 multiplies the shrink of \\spaceskip / \\xspaceskip by 1000 (TeX.2021.1044)",
        "the hyphen character of every font is '-' (plain TeX's \\defaulthyphenchar; boxworks-text hard-codes it)",
        "kern amounts and the lig/kern programs' semantics are C05's property: here only 'characters and ligature "
        "originals spell the word', node kinds, fonts and the discretionary after a hyphen are decided",
        "breakpoints are observed through the public debug::Logger callbacks of the line breaker (the chain of "
        "previous-node links from the selected node); their optimality is C04's property, here they only have to be "
        "glue / kern / penalty / discretionary nodes post_line_break can work with",
        "with a hyphenator installed the broken list is compared with 816 applied to the input once ligatures are "
        "spelled out and font kerns / discretionaries are left aside (what hyphenation may rebuild is C14's property)",
        "line boxes are compared on width, shift and node list; height, depth and glue setting are C15's property; "
        "the baseline-skip glue post_line_break pushes (679, marked TODO in the code) is outside the property and ignored",
        "math, mark, insertion, adjust and whatsit nodes are `todo!()` in HBox::pack / break_line and are not generated; "
        "the nodes a discretionary replaces are characters, ligatures and font kerns; glue/kern subtypes of TeX that "
        "ds::GlueKind cannot express (\\leftskip, \\rightskip, \\parfillskip codes) are not compared; paragraphs start on "
        "an empty vertical list with prev_graf = 0; line_widths is non-empty",
    ]


# ------------------------------------------------------------------------------------------------
def replay(path):
    """Re-run the recorded call on the real code and have TLC judge it again."""
    r = json.load(open(path))
    e = r.get("event", r)
    ctx = Ctx("C12", "replay")
    try:
        build_harness()
        src = ctx.work / "in.ndjson"
        src.write_text(json.dumps(e) + "\n")
        out = ctx.work / "replay.ndjson"
        vh(["c12-replay", f"in={src}", f"out={out}"])
        module, devs = (("Trace_SpaceFactor", SF_DEVS) if e.get("fn") == "text" else ("Trace_PostLineBreak", PLB_DEVS))
        ev = read_ndjson(out)[0]
        print("event:", json.dumps(slim(ev))[:3000])
        n, bad = validate_calls(ctx, module, module + ".cfg", out, parts=1)
        if not bad:
            print("accepted by the strict specification (TeX)")
            return 0
        print("verdict:", json.dumps(bad[0][1])[:3000])
        for key, cfg in devs.items():
            if ctx.finding_for(key):
                n, still = validate_calls(ctx, module, cfg, out, parts=1)
                if not still:
                    print(f"KNOWN-FINDING: property=C12 {key}: {ctx.finding_for(key)['what']}")
                    return 0
        print(f"VIOLATION property=C12 replay={path}")
        return 1
    except ToolError as x:
        log(f"TOOL-ERROR [C12]: {x}")
        return 2
    finally:
        shutil.rmtree(ctx.work, ignore_errors=True)


# ------------------------------------------------------------------------------------------------
def selftest(ctx):
    """The binding notices corrupted results (also with the recorded deviations enabled); every negative
    control is refuted."""
    import copy
    build_harness()
    # ---- para events
    ev = ctx.work / "self-para.ndjson"
    vh(["c12-para", f"seed={ctx.seed}", "n=400", f"out={ev}"])
    n, bad = validate_calls(ctx, "Trace_PostLineBreak", "Trace_PostLineBreak_dev.cfg", ev, parts=2)
    if bad:
        raise ToolError("selftest: events not accepted even with the recorded deviation; run the check first")
    good = [e for e in read_ndjson(ev) if len(e["bps"]) >= 3]
    muts = []

    def mut(e, f):
        e = copy.deepcopy(e)
        if f(e) is not False:
            muts.append(e)

    def boxes(e):
        return [x for x in e["v"] if x["k"] == "hbox"]

    def swap(e):
        for b in boxes(e):
            l = b["list"]
            for j in range(len(l) - 1):
                if l[j] != l[j + 1]:
                    l[j], l[j + 1] = l[j + 1], l[j]
                    return
        return False

    def drop_node(e):
        b = boxes(e)[1]
        if len(b["list"]) < 2:
            return False
        del b["list"][0]

    def dup_node(e):
        b = boxes(e)[0]
        b["list"].insert(0, b["list"][0])

    def move_to_next_line(e):
        b = boxes(e)
        if len(b[0]["list"]) < 3:
            return False
        x = b[0]["list"].pop(-2)
        b[1]["list"].insert(0, x)

    def drop_penalty(e):
        for j, x in enumerate(e["v"]):
            if x["k"] == "penalty":
                del e["v"][j]
                return
        return False

    def add_penalty_at_end(e):
        e["v"].append({"k": "penalty", "p": e["P"]["widow"] or 150})

    for e in good[:12]:
        mut(e, swap)
        mut(e, drop_node)
        mut(e, dup_node)
        mut(e, move_to_next_line)
        mut(e, drop_penalty)
        mut(e, add_penalty_at_end)
        mut(e, lambda e: boxes(e)[1].__setitem__("w", boxes(e)[1]["w"] + 1))
        mut(e, lambda e: boxes(e)[-1].__setitem__("s", boxes(e)[-1]["s"] + 1))
        mut(e, lambda e: e["list"].pop(0) if len(e["list"]) > 3 else False)
        mut(e, lambda e: e["bps"].__setitem__(0, e["bps"][0] + 1))
    mf = ctx.work / "mut-para.ndjson"
    mf.write_text("".join(json.dumps(e) + "\n" for e in muts))
    n2, bad2 = validate_calls(ctx, "Trace_PostLineBreak", "Trace_PostLineBreak_dev.cfg", mf, parts=2)
    log(f"[selftest] para: {len(muts)} corrupted events, {len(bad2)} rejected")
    if len(bad2) != n2 or n2 < 60:
        acc = {json.dumps(e, sort_keys=True) for e, _ in bad2}
        miss = [e for e in muts if json.dumps(e, sort_keys=True) not in acc]
        raise ToolError(f"selftest: {n2 - len(bad2)} corrupted para events were accepted, e.g. {json.dumps(slim(miss[0]))[:800] if miss else n2}")
    # ---- text events
    ev = ctx.work / "self-text.ndjson"
    vh(["c12-text", f"seed={ctx.seed}", "n=300", f"out={ev}"])
    n, bad = validate_calls(ctx, "Trace_SpaceFactor", "Trace_SpaceFactor_dev.cfg", ev, parts=1)
    if bad:
        raise ToolError("selftest: text events not accepted even with the recorded deviation")
    good = [e for e in read_ndjson(ev) if sum(1 for x in e["nodes"] if x["k"] == "glue") >= 2]
    tm = []

    def tmut(e, f):
        e = copy.deepcopy(e)
        if f(e) is not False:
            tm.append(e)

    def glues(e):
        return [x for x in e["nodes"] if x["k"] == "glue"]

    def drop_char(e):
        for j, x in enumerate(e["nodes"]):
            if x["k"] == "char":
                del e["nodes"][j]
                return
        return False

    for e in good[:15]:
        tmut(e, lambda e: glues(e)[0].__setitem__("st", glues(e)[0]["st"] + 1))
        tmut(e, lambda e: glues(e)[1].__setitem__("sh", glues(e)[1]["sh"] - 1))
        tmut(e, lambda e: glues(e)[-1].__setitem__("w", glues(e)[-1]["w"] + 1))
        tmut(e, lambda e: e["nodes"].remove(glues(e)[0]))
        tmut(e, drop_char)
        tmut(e, lambda e: e["nodes"].insert(0, e["nodes"][0]))
    tf = ctx.work / "mut-text.ndjson"
    tf.write_text("".join(json.dumps(e) + "\n" for e in tm))
    n3, bad3 = validate_calls(ctx, "Trace_SpaceFactor", "Trace_SpaceFactor_dev.cfg", tf, parts=1)
    log(f"[selftest] text: {len(tm)} corrupted events, {len(bad3)} rejected")
    if len(bad3) != n3 or n3 < 60:
        raise ToolError(f"selftest: {n3 - len(bad3)} corrupted text events were accepted")
    for cfg, what in SF_NEGS:
        tlc_expect_refuted("MC_SpaceFactor", cfg, what, workers=2)
    for cfg, what in PLB_NEGS:
        tlc_expect_refuted("MC_PostLineBreak", cfg, what, workers=2)
    log(f"[selftest] {len(SF_NEGS) + len(PLB_NEGS)} negative controls refuted")
    ctx.add_bound("selftest", n2 + n3, n2 + n3)
    ctx.cov["rule"] = "selftest: corrupted call events must be rejected, negative controls refuted"
