"""C20 -- core containers and identifiers (ScopedMap, Interner, Kmp, Tags)."""
import json
from vlib import *

LEVEL = "model_checking"


def run(ctx):
    q = ctx.quick
    build_harness()
    ctx.cov["rule"] = (
        "map-walk: every history of begin/end/local/global/rebuild over 2 keys x 2 values up to the stated "
        "length (depth capped by the TLC table) is re-executed on GroupingHashMap and GroupingVec and every "
        "result/observation/unwind probe is looked up in the TLC-generated transition table; non-trivial = "
        "history nodes (each is a distinct op sequence).  map-trace/interner-trace/tags: recorded executions "
        "validated by TLC trace specs; kmp: one call event per (pattern,text), all distinct."
    )
    # ---------------- ScopedMap: design --------------------------------------------------
    tlc_model(ctx, "ScopedMap.refinement", "MC_ScopedMap", "MC_ScopedMap.cfg" if q else "MC_ScopedMap_thorough.cfg",
              workers=4 if q else 12,
              expect_actions=["Begin", "End", "EndErr", "Local", "Global", "Rebuild"])
    for bug in ["PurgeOnlyOuter", "SaveAlways", "IterAllVisible"]:
        tlc_expect_refuted("MC_ScopedMap", f"NEG_ScopedMap_{bug}.cfg", bug, workers=4)
    ctx.cov["parts"]["ScopedMap.negative_controls_refuted"] = 3
    # ---------------- ScopedMap: table walk (R) ------------------------------------------
    lts, nedges = tlc_dump(ctx, "ScopedMap.lts", "MC_ScopedMap", "LTS_ScopedMap.cfg" if q else "LTS_ScopedMap_thorough.cfg",
                           xmx="6g")
    out = ctx.work / "mapwalk.ndjson"
    vh(["c20-map-walk", f"lts={lts}", f"maxlen={6 if q else 7}", f"out={out}"])
    recs = sorted(read_ndjson(out), key=lambda r: len(r.get("history", [])))
    nv = 0
    for r in recs:
        if r["kind"] == "violation":
            nv += 1
            if nv > 4:
                continue
            ctx.violation(f"scoped map ({r['backing']}): {r['error']} after {json.dumps(r['history'])}", r)
        else:
            ctx.add_bound("ScopedMap.walk", r["nodes"], r["nodes"], full_length_histories=r["histories"], lts_states=r["lts_states"],
                          lts_edges=r["lts_edges"], maxlen=r["maxlen"])
            ctx.sample({"map_history": r["sample"]})
    # ---------------- ScopedMap: long random histories (T) -------------------------------
    tr = ctx.work / "maptrace.ndjson"
    vh(["c20-map-trace", f"seed={ctx.seed}", f"n={40 if q else 400}", "len=250", f"out={tr}"])
    ntr, nev, rej = validate_traces(ctx, "Trace_ScopedMap", "Trace_ScopedMap.cfg", tr)
    ctx.add_bound("ScopedMap.trace", ntr, ntr, events=nev)
    for r in rej:
        ctx.violation(f"scoped map trace rejected at event {r['at']}: {json.dumps(r['unmatched'])}",
                      {"part": "map-trace", **r})
    # ---------------- Interner -------------------------------------------------------------
    lts, _ = tlc_dump(ctx, "Interner.lts", "MC_Interner", "LTS_Interner.cfg")
    out = ctx.work / "internerwalk.ndjson"
    vh(["c20-interner", f"lts={lts}", f"maxlen={5 if q else 6}", f"out={out}"])
    for r in read_ndjson(out):
        if r["kind"] == "violation":
            ctx.violation(f"interner: {r['error']} after {json.dumps(r['history'])}", r)
        else:
            ctx.add_bound("Interner.walk", r["nodes"], r["nodes"], full_length_histories=r["histories"], maxlen=r["maxlen"])
    tr = ctx.work / "internertrace.ndjson"
    vh(["c20-interner", "mode=trace", f"seed={ctx.seed}", f"n={4 if q else 24}", "len=1500", "strings=300", f"out={tr}"])
    ntr, nev, rej = validate_traces(ctx, "Trace_Interner", "Trace_Interner.cfg", tr)
    ctx.add_bound("Interner.trace", ntr, ntr, events=nev)
    for r in rej:
        ctx.violation(f"interner trace rejected at event {r['at']}: {json.dumps(r['unmatched'])}",
                      {"part": "interner-trace", **r})
    # ---------------- Kmp ---------------------------------------------------------------
    tlc_model(ctx, "Kmp.invariants", "Kmp", "MC_Kmp.cfg" if q else "MC_Kmp_thorough.cfg", workers=4 if q else 12,
              expect_actions=["Feed"])
    for bug in ["NoOverlap", "FallbackQ"]:
        tlc_expect_refuted("Kmp", f"NEG_Kmp_{bug}.cfg", bug, workers=2)
    ev = ctx.work / "kmp.ndjson"
    if q:
        vh(["c20-kmp", "sigma=2", "maxp=4", "tlen=10", f"out={ev}"])
    else:
        vh(["c20-kmp", "sigma=2", "maxp=5", "tlen=12", f"out={ev}"])
    n, bad = validate_calls(ctx, "Trace_Kmp", "Trace_Kmp.cfg", ev)
    ctx.add_bound("Kmp.calls", n, n)
    ev3 = ctx.work / "kmp3.ndjson"
    vh(["c20-kmp", "sigma=3", "maxp=3" if q else "maxp=4", "tlen=7" if q else "tlen=8", f"out={ev3}"])
    n3, bad3 = validate_calls(ctx, "Trace_Kmp", "Trace_Kmp.cfg", ev3)
    ctx.add_bound("Kmp.calls3", n3, n3)
    for e, v in (bad + bad3)[:10]:
        ctx.violation(f"substring matcher on p={e['p']} t={e['t']}: got {e.get('ends', e.get('panic'))}, "
                      f"spec says {v.get('want')}", {"part": "kmp", "event": e, "verdict": v})
    ctx.sample({"kmp_event": read_ndjson(ev)[1234]})
    # ---------------- Tags --------------------------------------------------------------
    tlc_model(ctx, "Tags.design", "Tags", "MC_Tags.cfg" if q else "MC_Tags_thorough.cfg", workers=4 if q else 12,
              expect_actions=["Acquire", "Read", "Write", "Release", "SRelease", "StaticGet", "SReturn"])
    tlc_expect_refuted("Tags", "NEG_Tags_NoLock.cfg", "no lock", workers=2)
    total = 0
    for i, (threads, per, reps) in enumerate([(2, 200, 30), (8, 100, 20), (64, 20, 10)] if q else
                                             [(2, 500, 200), (8, 200, 200), (64, 50, 100)]):
        tr = ctx.work / f"tags{i}.ndjson"
        vh(["c20-tags", f"threads={threads}", f"per={per}", f"reps={reps}", f"out={tr}"])
        ntr, nev, rej = validate_traces(ctx, "Trace_Tags", "Trace_Tags.cfg", tr)
        ctx.add_bound("Tags.trace", ntr, ntr, events=nev)
        total += nev
        for r in rej:
            ctx.violation(f"tags trace rejected at event {r['at']}: {json.dumps(r['unmatched'])}",
                          {"part": "tags", "threads": threads, "at": r["at"], "unmatched": r["unmatched"],
                           "events": r["events"][:2000]})
    ctx.assumptions += [
        "Tag::new under real threads: schedules are whatever the OS produced under a start barrier "
        "(no controlled scheduling of std::sync::Mutex is available); the design is model-checked in Tags.tla.",
        "tags are compared by Eq/Ord only",
    ]


def selftest(ctx):
    """Corrupt one recorded observation / drop one event: TLC must reject; negative controls must be refuted."""
    build_harness()
    tr = ctx.work / "st-map.ndjson"
    vh(["c20-map-trace", "seed=7", "n=14", "len=60", f"out={tr}"])
    def flip(e):
        if "obs" not in e: return None
        e["obs"][0] = 9 if e["obs"][0] != 9 else 8
        return e
    selftest_traces(ctx, "map-obs-corrupted", "Trace_ScopedMap", "Trace_ScopedMap.cfg", tr, flip)
    selftest_traces(ctx, "map-event-dropped", "Trace_ScopedMap", "Trace_ScopedMap.cfg", tr,
                    lambda e: "drop" if e.get("ev") in ("local", "global") and e["obs"][e["key"] - 1] == e["v"] and not e["res"] else None)
    ev = ctx.work / "st-kmp.ndjson"
    vh(["c20-kmp", "sigma=2", "maxp=3", "tlen=6", f"out={ev}"])
    selftest_calls(ctx, "kmp-result-corrupted", "Trace_Kmp", "Trace_Kmp.cfg", ev,
                   lambda e: dict(e, ends=e["ends"][:-1]) if e.get("ends") else None)
    tg = ctx.work / "st-tags.ndjson"
    vh(["c20-tags", "threads=4", "per=10", "reps=12", f"out={tg}"])
    selftest_traces(ctx, "tags-duplicate", "Trace_Tags", "Trace_Tags.cfg", tg,
                    lambda e: dict(e, val=1 if e["val"] != 1 else 2) if e.get("ev") == "tag" else None)
    for bug in ["PurgeOnlyOuter", "SaveAlways", "IterAllVisible"]:
        tlc_expect_refuted("MC_ScopedMap", f"NEG_ScopedMap_{bug}.cfg", bug, workers=4)
    tlc_expect_refuted("Tags", "NEG_Tags_NoLock.cfg", "no lock", workers=2)
    ctx.cov["rule"] = "selftest: corrupted recordings must be rejected, originals accepted, spec mutants refuted"


def replay(path):
    r = json.load(open(path))
    print(json.dumps(r, indent=1)[:4000])
    print("re-run: ./check C20 quick  (the replay file holds the failing history / trace)")
    return 0
