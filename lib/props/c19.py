"""C19 -- \\input, \\endinput and \\read treat files as lines standing in place (TexInput.tla)."""
import json
from vlib import *

LEVEL = "model_checking"
DEVS_A = {"endinput-drops-rest-of-line": "Trace_TexInput_dev.cfg"}


def run(ctx):
    q = ctx.quick
    build_harness()
    sfx = "" if q else "_thorough"
    ctx.cov["rule"] = (
        "files: random trees of up to 6 files (depth 0..5, 0..3 lines, items: characters, \\input of a deeper "
        "file anywhere in a line, \\endinput anywhere, empty lines, with/without final newline, occasional cycles "
        "that hit the input-level limit) plus chains of depth 5/50/90/99 (must work) and 150 (must be a located "
        "error), run with an in-memory file system and decided by TLC against textual substitution; streams: "
        "every history of \\openin/\\read/\\ifeof/\\closein up to the stated length over 2 streams (TeX streams 0 "
        "and 15) and 3 read files + a missing file is run as one program and every observation (tokens of each "
        "\\read as seen by the expansion hook, each \\ifeof) is looked up in the TLC table.  Each case is a "
        "distinct tree/history; non-trivial = contains at least one \\input resp. one \\read."
    )
    tlc_model(ctx, "TexInput.stack_machine_is_substitution", "MC_TexInputA", f"MC_TexInputA{sfx}.cfg",
              workers=6 if q else 14, coverage=False, timeout=3000)
    tlc_model(ctx, "TexInput.streams", "MC_TexInputB", "MC_TexInputB.cfg", workers=2,
              expect_actions=["Open", "Close", "IfEof", "Read"])
    # ---- part A ---------------------------------------------------------------------------
    ev = ctx.work / "files.ndjson"
    vh(["c19-files", f"seed={ctx.seed}", f"n={4000 if q else 80000}", f"out={ev}"])
    n, bad = validate_calls(ctx, "Trace_TexInput", "Trace_TexInput.cfg", ev, timeout=7200)
    for e, v in bad:
        if v["key"] == "design-disagreement":
            raise ToolError(f"TexInput layers disagree on {e['files']}")
    judge_calls(ctx, bad, "Trace_TexInput", DEVS_A,
                lambda e, v: f"\\input/\\endinput ({v['key']}): main {e['main']!r} of tree {json.dumps(e['files'])[:300]} "
                             f"delivered {e['out']} {e['err']!r}; TeX: {v.get('want')}")
    ctx.add_bound("TexInput.files", n, n)
    evs = read_ndjson(ev)
    ctx.sample({"files": evs[5]["files"], "main": evs[5]["main"], "out": evs[5]["out"]})
    # ---- part B ---------------------------------------------------------------------------
    lts, _ = tlc_dump(ctx, "TexInput.streams_lts", "MC_TexInputB", "LTS_TexInputB.cfg")
    dlts, _ = tlc_dump(ctx, "TexInput.streams_lts_dev", "MC_TexInputB", "LTS_TexInputB_dev.cfg")
    out = ctx.work / "streams.ndjson"
    vh(["c19-streams", f"lts={lts}", f"devlts={dlts}", f"maxlen={4 if q else 5}", f"out={out}"], timeout=7200)
    nv = 0
    for r in read_ndjson(out):
        if r["kind"] == "violation":
            desc = f"read streams: {r['program']!r} observed {r['got']}, TexInput says {r['want']}"
            if r.get("explained_by_deviations"):
                ctx.judge("ifeof-one-read-early", desc, r)
            else:
                nv += 1
                if nv <= 5:
                    ctx.violation(desc, r)
                else:
                    ctx.violations.append((desc, ""))
        else:
            ctx.add_bound("TexInput.streams", r["runs"], r["runs"], histories=r["histories"], lts_states=r["lts_states"])
            ctx.sample(r["sample"])
    ctx.assumptions += [
        "file names are letters only; \\input's name ends at a space or the end of the line",
        "a \\read on a closed stream falls back to the terminal; the harness's terminal is empty, so the spec expects "
        "a located error there (TeX would prompt)",
        "the input-level limit: 99 nested \\input (100 files open, the documented limit) must work, 150 must fail; 100 nested is where the readings of the limit part and is not probed",
        "\\read results are observed through the expansion hook when the defined macro is expanded",
    ]


def selftest(ctx):
    build_harness()
    ev = ctx.work / "st-files.ndjson"
    vh(["c19-files", "seed=5", "n=300", f"out={ev}"])
    selftest_calls(ctx, "delivery-corrupted", "Trace_TexInput", "Trace_TexInput_dev.cfg", ev,
                   lambda e: dict(e, out=e["out"][:-1]) if e["out"] and not e["err"] else None)
    ctx.cov["rule"] = "selftest: corrupted recordings must be rejected, originals accepted"


def replay(path):
    r = json.load(open(path))
    print(json.dumps(r, indent=1)[:3000])
    return 0
