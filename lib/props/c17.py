"""C17 -- font-metric arithmetic: fix_word text, scaling, compression, next-larger chains (TfmArith)."""
import concurrent.futures as cf
import json
import os
import shutil
from pathlib import Path
from vlib import *

LEVEL = "model_checking"

NEG = [
    # (module, base cfg, Bug value, what)
    ("MC_TfmArith_Fix", "MC_TfmArith_Fix.cfg", "GetRound9", "get_fix rounds with (acc+9) div 20"),
    ("MC_TfmArith_Fix", "MC_TfmArith_Fix.cfg", "GetRound11", "get_fix rounds with (acc+11) div 20"),
    ("MC_TfmArith_Fix", "MC_TfmArith_Fix.cfg", "PrintNoRound", "out_fix starts from 10*f instead of 10*f+5"),
    ("MC_TfmArith_Fix", "MC_TfmArith_Fix.cfg", "PrintDeltaGeq", "out_fix compares delta with 10^6 instead of 2^20"),
    ("MC_TfmArith_Scaled", "MC_TfmArith_Scaled.cfg", "ScaledBeta16", "store_scaled with beta fixed to 16"),
    ("MC_TfmArith_Scaled", "MC_TfmArith_Scaled.cfg", "ScaledAlphaZ0", "store_scaled alpha from the unnormalised z"),
    ("MC_TfmArith_Compress", "MC_TfmArith_Compress.cfg", "ShortenNoHalve", "shorten without d:=d div 2"),
    ("MC_TfmArith_Compress", "MC_TfmArith_Compress.cfg", "BinLowerPastDup", "binary search skips the next critical tolerance"),
    ("MC_TfmArith_Compress", "MC_TfmArith_Compress.cfg", "BinCountOff", "binary search counts one class too many"),
    ("MC_TfmArith_NextLarger", "MC_TfmArith_NextLarger.cfg", "ListNoBound", "cycle scan without r<c cuts the smallest character"),
]


def _neg_one(ctx, offset, neg):
    module, base, bug, what = neg
    tlc_expect_refuted(module, f"NEG_TfmArith_{bug}.cfg", what, workers=2, env={"OFFSET": offset},
                       work=ctx.work / f"tlc-neg-{bug}", timeout=600)
    return 1


def _negs(ctx, offset, pool=None):
    """Every seeded mutant of the specification must be refuted by TLC (NEG_TfmArith_<Bug>.cfg is
    the quick configuration of the model with Bug set)."""
    if pool is None:
        return sum(_neg_one(ctx, offset, n) for n in NEG)
    return [pool.submit(_neg_one, ctx, offset, n) for n in NEG]


def _event_key(e):
    fn = e["fn"]
    if fn in ("print", "rt", "rtfile"):
        return (fn, e["v"])
    if fn == "parse":
        return (fn, bytes(e["s"]))
    if fn == "scaled":
        return (fn, e["v"], e["ds"])
    if fn == "compress":
        return (fn, tuple(e["vals"]), e["m"])
    if fn == "nl":
        return (fn, json.dumps([e["edges"], e["absent"], e["drop"]]))
    if fn == "nltags":
        return (fn, json.dumps([e["path"], e["edges"], e["absent"]]))
    return (fn, json.dumps(e, sort_keys=True))


def _nontrivial(e):
    fn = e["fn"]
    if "panic" in e:
        return True
    if fn in ("print", "rt", "rtfile"):
        return e["v"] % (1 << 20) != 0          # has a fraction part
    if fn == "parse":
        return 46 in e["s"]                      # has a decimal point
    if fn == "scaled":
        return e["v"] != 0
    if fn == "compress":
        return len(set(e["vals"])) > e["m"]      # something has to be merged
    if fn == "nl":
        return bool(e["loops"]) or any(len(c) >= 2 for c in e["chains"])
    if fn == "nltags":
        return len(e["tags"]) < len(e["edges"])      # some link was removed
    return False


def _describe(e):
    fn = e["fn"]
    if fn == "print":
        return f"fix_word {e['v']} (0x{e['v'] & 0xFFFFFFFF:08x}) printed {bytes(e.get('s', [])).decode(errors='replace')!r}"
    if fn in ("rt", "rtfile"):
        s = bytes(e.get("s", [])).decode(errors="replace")
        return f"fix_word {e['v']} (0x{e['v'] & 0xFFFFFFFF:08x}) printed {s!r} read back {e.get('back')}"
    if fn == "parse":
        return f"PL reader on {bytes(e['s']).decode(errors='replace')!r}: value {e.get('back')} warnings " \
               f"toobig={e.get('toobig')} junk={e.get('junk')} other={e.get('other')}"
    if fn == "scaled":
        return f"to_scaled(v={e['v']}, design_size={e['ds']}) = {e.get('r')}"
    if fn == "compress":
        return f"compress({len(e['vals'])} values, max {e['m']}) -> {len(e.get('res', [])) - 1} classes"
    if fn == "nl":
        return f"next-larger program of {len(e['edges'])} links"
    if fn == "nltags":
        return f"list tags after the {e['path']} pipeline on links {e['edges']} (missing characters {e['absent']}): {e.get('tags')}"
    return fn


def _judge_all(ctx, part, bad):
    for e, v in bad[:40]:
        key = v.get("key", "mismatch")
        desc = f"{part}: {_describe(e)}; clause {key}; specification says {json.dumps(v.get('want'))[:300]}"
        if "panic" in e:
            desc = f"{part}: panic of the code under test: {e['panic']} on {_describe(e)}"
        keys = key.split("+")
        if all(ctx.finding_for(k) for k in keys):
            for k in keys:
                ctx.known_finding(k)
        else:
            ev = dict(e)
            if ev.get("fn") == "nl" and "chains" in ev and len(json.dumps(ev)) > 20000:
                ev.pop("chains")
            ctx.violation(desc, {"part": part, "event": ev, "verdict": v})
    # findings beyond the first 40 are still counted
    for e, v in bad[40:]:
        keys = v.get("key", "mismatch").split("+")
        if all(ctx.finding_for(k) for k in keys):
            for k in keys:
                ctx.known_finding(k)
        else:
            ctx.violations.append((f"{part}: {_describe(e)}", "(not written: more than 40 in this part)"))


def _validate_calls(ctx, path, parts, xmx="3g"):
    """vlib.validate_calls with scratch directories of its own, so that several files can be
    validated concurrently (one single-worker JVM per chunk)."""
    n = count_lines(path)
    if n == 0:
        raise ToolError(f"no events recorded in {path}")
    stem = Path(path).stem
    chunks = split_file(path, parts, ctx.work, stem + "-c")
    with cf.ThreadPoolExecutor(max_workers=len(chunks)) as ex:
        futs = [ex.submit(tlc_validate_one, "Trace_TfmArith", "Trace_TfmArith.cfg", c[0],
                          ctx.work / f"tv-{stem}-{i}", None, 3600, xmx) for i, c in enumerate(chunks)]
        vs = [f.result() for f in futs]
    bad, info = [], {}
    for (cpath, lo), v in zip(chunks, vs):
        if not v.accepted:
            raise ToolError(f"call-event validation stopped early in {cpath} at line {v.matched + 1}: {v.out[-2000:]}")
        if v.verdicts:
            lines = Path(cpath).read_text().splitlines()
            for verdict in v.verdicts:
                bad.append((json.loads(lines[verdict["l"] - 1]), verdict))
        for i in printed(v.out, "INFO"):
            info[i["key"]] = info.get(i["key"], 0) + 1
    return n, bad, info


def _validate(ctx, path, parts, keep):
    """(thread) validate a file of call events with TLC; count distinct non-trivial inputs."""
    n, bad, info = _validate_calls(ctx, path, parts)
    keys, kept, maxvals = set(), [], 0
    with open(path) as f:
        for line in f:
            e = json.loads(line)
            if _nontrivial(e):
                keys.add(_event_key(e))
            if e["fn"] == "compress":
                maxvals = max(maxvals, len(e["vals"]))
            if len(kept) < 50 and keep(e):
                kept.append(e)
    return n, bad, len(keys), kept, maxvals, info


def _account(ctx, part, res):
    n, bad, nkeys, kept, maxvals, info = res
    ctx.add_bound(part, n, nkeys)
    if maxvals:
        ctx.cov["parts"][part]["max_values"] = maxvals
    for k, c in info.items():
        ctx.cov["parts"][part]["info_" + k.replace("-", "_")] = c
    _judge_all(ctx, part, bad)
    return kept, bad


def _bind(ctx, part, path, parts=None, keep=lambda e: False):
    return _account(ctx, part, _validate(ctx, path, parts, keep))


def _parts(path, per):
    return max(1, min(8, count_lines(path) // per + 1))


def _gen(ctx, args, out, timeout=900):
    """Run an event generator of the harness.  Exit code 3 = the watchdog saw a call of the code
    under test that did not return: the in-flight call is reported (a hang is data, like a panic)."""
    p = vh(args + [f"out={out}", f"hang_s={40 if ctx.quick else 90}"], check=False, timeout=timeout)
    if p.returncode == 3:
        hang = Path(str(out) + ".hang")
        e = json.loads(hang.read_text()) if hang.exists() else {"fn": "?"}
        e["panic"] = "call did not return (watchdog)"
        # keep the complete events written so far (the process ended without flushing), add the
        # hanging call as an event with a "panic" field: TLC rejects it like any other panic
        good = []
        if Path(out).exists():
            for line in Path(out).read_text(errors="replace").splitlines():
                try:
                    json.loads(line)
                    good.append(line)
                except ValueError:
                    break
        good.append(json.dumps(e))
        Path(out).write_text("\n".join(good) + "\n")
        log(f"[harness] {args[0]}: a call of the code under test did not return: {json.dumps(e)[:300]}")
    elif p.returncode != 0:
        log(p.stderr.decode(errors="replace")[-3000:])
        raise ToolError(f"harness failed rc={p.returncode}: vh {' '.join(map(str, args))}")


def _sweep_start(ctx, q, table, bad_table):
    """Runs as soon as TLC has accepted the print table (own process; Rust threads)."""
    if bad_table:
        log("[sweep] skipped: the print table was not accepted by TLC")
        return None
    so = ctx.work / "sweep.ndjson"
    ex = cf.ThreadPoolExecutor(max_workers=1)
    fut = ex.submit(vh, ["c17-sweep", f"table={table}", f"threads={6 if q else 12}", f"budget_s={25 if q else 450}",
                         f"units={4096 if q else 1 << 20}", f"out={so}"], timeout=1200)
    return ex, fut, so


def _sweep_finish(ctx, q, sweep):
    if sweep is None:
        return
    ex, fut, so = sweep
    fut.result()
    ex.shutdown()
    for r in read_ndjson(so):
        if r["kind"] == "violation":
            d = r["detail"]
            ctx.violation(f"Fix.sweep: {json.dumps(d)[:300]}",
                          {"part": "Fix.sweep", "event": {"fn": "rt", "v": d.get("v", 0)}, "detail": d})
        else:
            ctx.cov["evaluations"] += r["patterns_checked"]
            ctx.cov["parts"]["Fix.sweep"] = {
                "patterns_checked_against_tlc_table_and_read_back": r["patterns_checked"],
                "fractions_in_table": r["table_fractions"], "fractions_swept": r["units_done"],
                "integer_parts_per_fraction": r["integer_parts"], "wall_s": round(r["wall_s"], 1),
                "fractions_requested": r["units_requested"],
                "complete": r["units_done"] == r["units_requested"],
            }
            if not q and r["units_done"] == r["table_fractions"] == 1 << 20:
                ctx.cov["exhaustive"] = True
                ctx.cov["parts"]["Fix.sweep"]["all_2_32_bit_patterns"] = True
            elif r["units_done"] < r["units_requested"]:
                ctx.assumptions.append(
                    f"sweep stopped by its time budget after {r['units_done']} of {r['table_fractions']} fractions "
                    f"(x 4096 integer parts; fractions visited in the order of f*0x9E3779B1 mod 2^20)")


def run(ctx):
    try:
        _run(ctx)
    except ToolError:
        raise
    except Exception as ex:  # a bug of the driver must never look like a verdict (exit 1)
        import traceback
        log(traceback.format_exc())
        raise ToolError(f"internal error of the C17 driver: {ex!r}")


def _run(ctx):
    q = ctx.quick
    build_harness()
    seed = ctx.seed
    offset = str(seed % (1 << 20))
    ctx.cov["rule"] = (
        "One call event per call of the real tfm crate, each judged by TLC with Trace_TfmArith (literal TLA+ "
        "transcriptions of TFtoPL 40-43, PLtoTF 62-66, TeX 571-572, and the definitional compression / charlist "
        "contracts).  Fix.table: FixWord Display for every (sign, fraction) of the stated fraction set and every "
        "(integer part, f>0); Fix.calls: PL writer -> PL reader round trips on boundary and seeded patterns, whole "
        "pl::File round trips, arbitrary decimals through the PL reader; Scaled: boundary grid x seeded pairs; "
        "Compress: the repository's 9 examples, every subset of 8 (thorough 10) small values with every limit, seeded "
        "multisets up to 300 values from 9 adversarial generators with limits 1..255; NextLarger: every functional "
        "graph on <=5 (thorough 6) characters under two embeddings, every placement of non-existent characters on 4 "
        "(thorough 5), seeded graphs on 256.  distinct_nontrivial = distinct inputs that have a fraction part / a "
        "decimal point / a non-zero value / more distinct values than the limit / a cycle or a chain of length >= 2.  "
        "Fix.sweep (evaluations only): every integer part x every table fraction, Display compared with the "
        "TLC-validated table and the text read back through the PL reader."
    )
    ctx.cov["explanation"] = (
        "TLC model-checks the specification (round trip GetFix(PrintFix(f))=f on the explored fractions, Knuth's and "
        "the binary-search tolerance search against the brute-force definition, store_scaled against the exact "
        "47-bit product, the charlist scan against the cycle definition) and judges every recorded call of the real "
        "code.  The all-2^32 clause is decided by a Rust sweep that only indexes the TLC-validated print table "
        "(integer part and fraction print independently: invariant Shape) and checks the parse-back identity."
    )

    # ---------------- model steps (TLC alone), in the background ------------------------------
    pool = cf.ThreadPoolExecutor(max_workers=7 if q else 6)
    env = {"OFFSET": offset}
    models = [
        pool.submit(tlc_model, ctx, "Fix.roundtrip", "MC_TfmArith_Fix",
                    "MC_TfmArith_Fix.cfg" if q else "MC_TfmArith_Fix_thorough.cfg",
                    ["Step"], workers=4 if q else 6, env=env, timeout=1500),
        pool.submit(tlc_model, ctx, "Compress.refinement", "MC_TfmArith_Compress",
                    "MC_TfmArith_Compress.cfg" if q else "MC_TfmArith_Compress_thorough.cfg",
                    ["Grow"], workers=3 if q else 5, timeout=1500),
    ]

    # ---------------- binding F: call events (generated now, judged by TLC in the pool) -------
    w = ctx.work
    table, fixp, sc, cp, nlp = (w / f"{n}.ndjson" for n in ("table", "fix", "scaled", "compress", "nl"))
    stride = 64 if q else 1
    _gen(ctx, ["c17-table", f"stride={stride}", f"offset={seed % stride}"], table)
    _gen(ctx, ["c17-fix", f"seed={seed}", f"n={3000 if q else 40000}", f"nparse={4000 if q else 60000}",
               f"nfile={6 if q else 60}"], fixp)
    _gen(ctx, ["c17-scaled", f"seed={seed}", f"n={20000 if q else 600000}"], sc)
    _gen(ctx, ["c17-compress", f"seed={seed}", f"n={1200 if q else 30000}", "maxlen=300", f"small={8 if q else 10}"], cp)
    _gen(ctx, ["c17-nl", f"seed={seed}", f"k={5 if q else 6}", f"ka={4 if q else 5}", f"n={60 if q else 1200}"], nlp)
    cap = 4 if q else 12
    binds = [
        ("Fix.table", pool.submit(_validate, ctx, table, min(cap, _parts(table, 6000)),
                                  lambda e: "panic" not in e and len(e["s"]) >= 9)),
        ("Scaled.calls", pool.submit(_validate, ctx, sc, min(cap, _parts(sc, 6000)),
                                     lambda e: "panic" not in e and abs(e["v"]) > 4096 and e["ds"] > (1 << 24))),
        ("Compress.calls", pool.submit(_validate, ctx, cp, min(cap, _parts(cp, 500)),
                                       lambda e: "panic" not in e and len(set(e["vals"])) > e["m"] and 5 <= len(e["vals"]) <= 12)),
        ("Fix.calls", pool.submit(_validate, ctx, fixp, min(cap, _parts(fixp, 6000)),
                                  lambda e: e["fn"] == "parse" and len(e["s"]) > 9 and "panic" not in e)),
        ("NextLarger.calls", pool.submit(_validate, ctx, nlp, min(cap, _parts(nlp, 2500)),
                                         lambda e: "panic" not in e and e.get("loops") and 3 <= len(e["edges"]) <= 6)),
    ]
    models += [
        pool.submit(tlc_model, ctx, "Fix.integer_parts", "MC_TfmArith_Fix", "MC_TfmArith_FixInt.cfg",
                    [], workers=2, env=env, timeout=900),
        pool.submit(tlc_model, ctx, "NextLarger.refinement", "MC_TfmArith_NextLarger",
                    "MC_TfmArith_NextLarger.cfg" if q else "MC_TfmArith_NextLarger_thorough.cfg",
                    ["AddLink", "NoLink"], workers=2, timeout=1500),
        pool.submit(tlc_model, ctx, "Scaled.exact", "MC_TfmArith_Scaled", "MC_TfmArith_Scaled.cfg",
                    [], workers=2, timeout=900),
    ]
    negs = _negs(ctx, offset, pool)

    bad_table = None
    for part, fut in binds:
        evs, bad = _account(ctx, part, fut.result())
        if part == "Fix.table":
            bad_table = bad
            ctx.cov["parts"][part]["fractions"] = (1 << 20) // stride
            ctx.cov["parts"][part]["fraction_stride"] = stride
            if evs:
                ctx.sample({"print": {"v": evs[-1]["v"], "text": bytes(evs[-1]["s"]).decode()}})
        elif part == "Fix.calls" and evs:
            e = evs[-1]
            ctx.sample({"parse": {"text": bytes(e["s"]).decode(), "value": e["back"], "toobig": e["toobig"]}})
        elif part == "Scaled.calls" and evs:
            ctx.sample({"scaled": evs[-1]})
        elif part == "Compress.calls" and evs:
            e = evs[-1]
            ctx.sample({"compress": {"vals": e["vals"], "m": e["m"], "res": e["res"], "cls": e["cls"]}})
        elif part == "NextLarger.calls" and evs:
            e = evs[-1]
            ctx.sample({"next_larger": {k: e[k] for k in ("edges", "probe", "chains", "loops")}})
        if part == "Fix.table":
            sweep = _sweep_start(ctx, q, table, bad_table)

    # ---------------- the all-bit-patterns sweep against the TLC-validated table -------------
    _sweep_finish(ctx, q, sweep)

    # ---------------- collect the model steps ----------------------------------------------
    for m in models:
        m.result()
    ctx.cov["parts"]["negative_controls_refuted"] = sum(f.result() for f in negs)
    pool.shutdown()

    ctx.assumptions += [
        "the bit pattern 0x80000000 prints as -2048.0, which get_fix (PLtoTF 62) rejects; it is the one pattern for which "
        "the round trip is not demanded (the code must, and does, behave like get_fix on it)",
        "quick tier: the print table covers 2^14 seeded-stride fractions (both signs) and all 4096 integer parts, the sweep "
        "4096 of those fractions x all 4096 integer parts; "
        "thorough: all 2^20 fractions (all 2^32 patterns unless the time budget stops the sweep, which is then stated)",
        "to_scaled: values with first byte 0 or 255 (|v| < 16) and design sizes 16*2^-20 <= ds < 2048 (TeX 568/571 reject the rest)",
        "compress: |value| <= 2^28 so that differences fit 32 bits (Knuth's own arithmetic overflows beyond); limits 1..255; "
        "'within half the tolerance' is ceil(d/2) units since representatives are integers (with an odd least tolerance no "
        "integer is within d/2 of both ends of a class that wide -- invariant Tight)",
        "compress is judged by the contract of the property (at most m classes, least tolerance, representatives within half "
        "of it), not by equality with PLtoTF's set_indices, which stops merging once `excess` values have been removed",
        "next larger: inputs are functional graphs (one link per character); characters reported as non-existent have no link "
        "of their own; warnings are compared as sets",
        "PL reader on arbitrary decimals: at most one minus sign is generated; text is ASCII",
        "TLC, its JSON modules and the harness's observation functions are trusted; WEB sections were transcribed from "
        "TFtoPL/PLtoTF 2014 and TeX 2021 as cited in specs/TfmArith.tla",
    ]


# ------------------------------------------------------------------------------------------------
def replay(path):
    """Re-execute the recorded call on the current tree and judge it again with TLC."""
    r = json.load(open(path))
    ev = r.get("event", {})
    class _Scratch:  # not a Ctx: creating one would clear the stored replay files of the tier
        work = VERIF / "work" / f"C17-replay-{os.getpid()}"
    ctx = _Scratch()
    ctx.work.mkdir(parents=True, exist_ok=True)
    try:
        build_harness()
        inp = ctx.work / "replay-in.json"
        inp.write_text(json.dumps(ev))
        out = ctx.work / "replay.ndjson"
        vh(["c17-one", f"in={inp}", f"out={out}"])
        n, bad = validate_calls(ctx, "Trace_TfmArith", "Trace_TfmArith.cfg", out, parts=1)
        e = read_ndjson(out)[0]
        print("call re-executed:", json.dumps(e)[:1500])
        if bad:
            print("REJECTED by the specification:", json.dumps(bad[0][1])[:1500])
            rc = 1
        else:
            print("accepted by the specification")
            rc = 0
    except ToolError as e:
        print(f"TOOL-ERROR: {e}")
        rc = 2
    shutil.rmtree(ctx.work, ignore_errors=True)
    return rc


def selftest(ctx):
    """Corrupt one field of one recorded event of every kind: TLC must reject exactly that line;
    every negative-control configuration must be refuted."""
    build_harness()
    w = ctx.work
    files = {}
    vh(["c17-table", "stride=4096", "offset=5", f"out={w/'t.ndjson'}"])
    vh(["c17-fix", "seed=3", "n=300", "nparse=300", "nfile=1", f"out={w/'f.ndjson'}"])
    vh(["c17-scaled", "seed=3", "n=200", f"out={w/'s.ndjson'}"])
    vh(["c17-compress", "seed=3", "n=60", "small=5", f"out={w/'c.ndjson'}"])
    vh(["c17-nl", "seed=3", "k=3", "ka=3", "n=6", f"out={w/'n.ndjson'}"])
    picks = []
    for name in "tfscn":
        for e in read_ndjson(w / f"{name}.ndjson"):
            picks.append(e)
    def corrupt(e):
        e = json.loads(json.dumps(e))
        fn = e["fn"]
        if fn == "print":
            e["s"][-1] = 48 + (e["s"][-1] - 48 + 1) % 10
        elif fn in ("rt", "rtfile"):
            e["back"] += 1
        elif fn == "parse":
            e["back"] += 1
        elif fn == "scaled":
            e["r"] -= 1
        elif fn == "compress":
            if len(e["res"]) > 1:
                e["res"][-1] += 3 + max(e["sv"]) - min(e["sv"])
            else:
                return None
        elif fn == "nl":
            ks = [k for k, c in enumerate(e["chains"]) if c]
            if not ks:
                return None
            e["chains"][ks[0]] = e["chains"][ks[0]][:-1]
        elif fn == "nltags":
            e["tags"] = e["tags"][:-1] if e["tags"] else [[1, 2]]
        return e
    seen, lines, expect = set(), [], []
    for e in picks:
        if e["fn"] in seen or "panic" in e:
            continue
        if e["fn"] in ("print", "rt") and e["v"] % (1 << 20) == 0:
            continue
        c = corrupt(e)
        if c is None:
            continue
        seen.add(e["fn"])
        lines.append(json.dumps(e))
        lines.append(json.dumps(c))
        expect.append(len(lines))
    p = w / "selftest.ndjson"
    p.write_text("\n".join(lines) + "\n")
    n, bad = validate_calls(ctx, "Trace_TfmArith", "Trace_TfmArith.cfg", p, parts=1)
    got = sorted(v["l"] for _, v in bad)
    if got != expect:
        raise ToolError(f"selftest: corrupted lines {expect} but TLC rejected {got}")
    log(f"[selftest] {len(expect)} corrupted events (kinds {sorted(seen)}) rejected, their originals accepted")
    ctx.add_bound("selftest.corrupted_events_rejected", len(expect), len(expect))
    k = _negs(ctx, "12345")
    log(f"[selftest] {k} negative-control configurations refuted by TLC")
    res = tlc_model(ctx, "selftest.model", "MC_TfmArith_NextLarger", "MC_TfmArith_NextLarger.cfg", ["AddLink"], workers=2)
    ctx.sample({"selftest": {"rejected_lines": got, "negative_controls": k}})
