"""C02 -- macro parameters bind and substitute exactly as in TeX (TexMacro.tla)."""
import json
from vlib import *
from texvm import texvm_part, texvm_selftest, texvm_consistency

LEVEL = "model_checking"


def run(ctx):
    q = ctx.quick
    build_harness()
    sfx = "" if q else "_thorough"
    ctx.cov["rule"] = (
        "macro-replay: every in-scope (definition, call) that TLC enumerates (prefix x <=2 parameters with "
        "delimiters from {none,a,b,ab,aa} x optional #{ ; call inputs <= N tokens over a,b,space,{,}) is run on "
        "the VM and the arguments/expansion seen by the expansion hook are compared with the printed RefCall; "
        "macro-events: random definitions with 0..9 parameters, 1..3-token delimiters (chars, spaces, control "
        "sequences), ## and #{ , argument shapes empty/token/group/several groups/leading space/nested, decided "
        "by TLC.  Cases that TeX's lexer cannot produce from one line (two space tokens in a row) are skipped "
        "and counted; calls that do not match or bind unbalanced arguments are outside the quantifier."
    )
    tlc_model(ctx, "TexMacro.streaming_matcher_refines_definition", "MC_TexMacro", f"MC_TexMacro{sfx}.cfg",
              workers=6 if q else 14, coverage=False, timeout=3000)
    tlc_expect_refuted("MC_TexMacro", "NEG_TexMacro_Trim.cfg", "trim rule looking at first/last token only", workers=3)
    cases, n = tlc_replay_cases(ctx, "TexMacro.replay", "MC_TexMacro", f"REPLAY_TexMacro{sfx}.cfg", coverage=False,
                                timeout=3000, xmx="6g")
    out = ctx.work / "replay.ndjson"
    vh(["c02-replay", f"in={cases}", f"out={out}"])
    nv = 0
    for r in read_ndjson(out):
        if r["kind"] == "violation":
            nv += 1
            if nv <= 5:
                ctx.violation(f"macro call {r['got'].get('program')!r}: bound {r['got'].get('args')} / expanded "
                              f"{r['got'].get('expansion')}, TexMacro says {r['want']}", r)
        else:
            ctx.add_bound("TexMacro.replay", r["run"], r["run"], skipped_unrenderable=r["skipped_unrenderable"])
            ctx.sample(r["sample"])
    ev = ctx.work / "events.ndjson"
    vh(["c02-events", f"seed={ctx.seed}", f"n={6000 if q else 150000}", f"out={ev}"])
    n, bad = validate_calls(ctx, "Trace_TexMacro", "Trace_TexMacro.cfg", ev)
    nskip = judge_calls(ctx, bad, "Trace_TexMacro", {},
                        lambda e, v: f"macro call ({v['key']}) {e['obs'].get('program')!r}: bound {e['obs'].get('args')}, "
                                     f"expansion {e['obs'].get('expansion')}, delivered {e['obs'].get('delivered')} "
                                     f"{e['obs'].get('err')!r}; TexMacro binds {v.get('want')}")
    ctx.add_bound("TexMacro.events", n - nskip, n - nskip, skipped_out_of_scope=nskip)
    ctx.assumptions += [
        "\\long/\\outer restrictions and \\par in arguments are not implemented in texlang and not generated",
        "the call is written after a control symbol (\\!) so that a leading space of the input is a token",
        "\\endlinechar=-1 so that no end-of-line token is appended to the call",
    ]
    # ---- the composed model: whole programs over the full primitive set (TexVM.tla) ------------
    texvm_consistency(ctx, "macro")
    texvm_part(ctx, 6000 if ctx.quick else 80000, 202)


def selftest(ctx):
    build_harness()
    ev = ctx.work / "st-macro.ndjson"
    vh(["c02-events", "seed=5", "n=400", f"out={ev}"])
    def drop_tok(e):
        for a in e["obs"]["args"]:
            if a:
                a.pop(); return e
        return None
    selftest_calls(ctx, "argument-corrupted", "Trace_TexMacro", "Trace_TexMacro.cfg", ev, drop_tok)
    tlc_expect_refuted("MC_TexMacro", "NEG_TexMacro_Trim.cfg", "trim rule", workers=3)
    ctx.cov["rule"] = "selftest: corrupted recordings must be rejected, originals accepted, spec mutant refuted"


def replay(path):
    r = json.load(open(path))
    print(json.dumps(r, indent=1)[:3000])
    return 0
