"""C01 -- group scoping: TexGroups.tla bound to the real VM (edge programs + deep traces)."""
import json
from vlib import *
from texvm import texvm_source_part, texvm_part, texvm_selftest

LEVEL = "model_checking"
DEVS = {"gdef-ignores-negative-globaldefs": "Trace_TexGroups_dev.cfg"}


def run(ctx):
    q = ctx.quick
    build_harness()
    ctx.cov["rule"] = (
        "edges: one generated TeX program per transition of the TexGroups table (shortest path to the "
        "source state, the operation, then a probe that reads every bound quantity, closes a group, reads "
        "again ...), instantiated for rotating pairs of quantity kinds (4 map kinds x 19 variable kinds incl. registers assigned through \\countdef/\\toksdef aliases and \\newInt variables + "
        "\\globaldefs); every program is distinct and non-trivial (>= 1 operation and >= 3 reads).  "
        "traces: random programs at depth <= 10 with reads after every operation, validated by TLC against "
        "the unbounded reference layer."
    )
    sfx = "" if q else "_thorough"
    tlc_model(ctx, "TexGroups.refinement", "MC_TexGroups", f"MC_TexGroups{sfx}.cfg", workers=6 if q else 14,
              expect_actions=["TBegin", "TEnd", "Checkpoint", "TNext"], timeout=2400)
    for bug in ["StickyNotReset", "StickyIgnoresGlobaldefs", "PurgeOnlyOuter", "SaveAlways"]:
        tlc_expect_refuted("MC_TexGroups", f"NEG_TexGroups_{bug}.cfg", bug, workers=3)
    ctx.cov["parts"]["TexGroups.negative_controls_refuted"] = 4
    lts, _ = tlc_dump(ctx, "TexGroups.lts", "MC_TexGroups", f"LTS_TexGroups{sfx}.cfg", xmx="8g", timeout=2400)
    dlts, _ = tlc_dump(ctx, "TexGroups.lts_dev", "MC_TexGroups", f"LTS_TexGroups_dev{sfx}.cfg", xmx="8g", timeout=2400)
    out = ctx.work / "edges.ndjson"
    vh(["c01-edges", f"lts={lts}", f"devlts={dlts}", f"seed={ctx.seed}", f"per_edge={2 if q else 6}",
        "maxviol=400", f"out={out}"])
    nunexpl = 0
    for r in read_ndjson(out):
        if r["kind"] == "violation":
            desc = (f"group scoping: program {r['program']!r} read {r['got']} ({r['outcome']}), "
                    f"TexGroups says {r['expected']}")
            if r.get("explained_by_deviations"):
                ctx.judge("gdef-ignores-negative-globaldefs", desc, r)
            else:
                nunexpl += 1
                if nunexpl <= 5:
                    ctx.violation(desc, r)
        else:
            ctx.add_bound("TexGroups.edges", r["programs"], r["programs"], edges=r["edges"],
                          skipped_unexpressible=r["skipped_unexpressible"], kind_pairs=r["kind_pairs_used"],
                          lts_states=r["lts_states"])
            for s in r["samples"][:2]:
                ctx.sample(s)
    # deep random programs
    tr = ctx.work / "trace.ndjson"
    vh(["c01-trace", f"seed={ctx.seed}", f"n={300 if q else 4000}", "len=60", f"out={tr}"])
    ntr, nev, rej = validate_traces(ctx, "Trace_TexGroups", "Trace_TexGroups.cfg", tr)
    ctx.add_bound("TexGroups.traces", ntr, ntr, events=nev)
    judge_rejections(ctx, rej, "Trace_TexGroups", DEVS,
                     lambda r: f"trace of program {r['events'][0].get('program')!r} rejected at event "
                               f"{r['at']}: {json.dumps(r['unmatched'])}")
    ctx.assumptions += [
        "assigning 'undefined' (\\let\\a=\\undefinedcs) is a no-op in texlang and is not generated",
        "reads use \\the, macro expansion and \\fontname\\font; the harness's undefined-command handler reports <UNDEF:name>",
    ]
    # ---- the composed model: whole programs over the full primitive set (TexVM.tla) ------------
    texvm_part(ctx, 6000 if ctx.quick else 80000, 101)
    # category codes and the line end are scoped like every other assignment - and here their scope shows in how the
    # rest of the file is read (TexVM with the lexer in the loop)
    texvm_source_part(ctx, 1200 if ctx.quick else 20000, 111, name="TexVM.scoped_codes_read_from_characters")


def selftest(ctx):
    build_harness()
    tr = ctx.work / "st-trace.ndjson"
    vh(["c01-trace", "seed=11", "n=30", "len=30", "nogdef=1", f"out={tr}"])
    def flip(e):
        if e.get("ev") != "assign" or "obs" not in e: return None
        e["obs"][e["key"] - 1] = (e["obs"][e["key"] - 1] + 1) % 3
        return e
    selftest_traces(ctx, "read-corrupted", "Trace_TexGroups", "Trace_TexGroups.cfg", tr, flip)
    for bug in ["StickyNotReset", "StickyIgnoresGlobaldefs", "PurgeOnlyOuter", "SaveAlways"]:
        tlc_expect_refuted("MC_TexGroups", f"NEG_TexGroups_{bug}.cfg", bug, workers=3)
    ctx.cov["rule"] = "selftest: corrupted recordings must be rejected, originals accepted, spec mutants refuted"


def replay(path):
    r = json.load(open(path))
    build_harness()
    if "program" in r:
        import tempfile
        with tempfile.NamedTemporaryFile("w", suffix=".tex", delete=False, dir=VERIF / "work") as f:
            f.write(r["program"])
        p = vh(["vm-run", f"src={f.name}"])
        print("program :", r["program"])
        print("expected:", r.get("expected"))
        print("observed:", p.stdout.decode())
        os.unlink(f.name)
        return 0
    print(json.dumps(r, indent=1)[:3000])
    return 0
