"""C06 -- integers, dimensions, glue: scan, print and compute exactly as TeX does.

Specification: specs/TexArith.tla (literal transcriptions of tex.web 65, 102-107, 177-178, 407,
440-462, 1236-1240 as TLA+ operators).  Model step: specs/MC_TexArith.tla (laws decided by TLC
alone, all 2^16 fractions).  Binding F: specs/Trace_TexArith.tla validates call events of
common::Scaled / common::Glue and of generated TeX programs run on a texlang VM.  The exhaustive
print/scan sweep over all |s| <= 2^30-1 runs in Rust against two tables of the implementation's own
output, every entry of which TLC has validated (65536 fraction texts, 16384 integer-part texts)."""
import concurrent.futures as cf
import json
import time
from collections import Counter
from vlib import *

LEVEL = "translation_validation"

NEG = ["NoRound", "RoundHalf", "StopEarly", "Keep3", "MulStrict", "DivFloor"]


def txt(codes):
    return "".join(chr(c) for c in codes)


def panic_site(site):
    """Stable name of a panic location: path inside the repository, or inside the Rust library."""
    if "/library/" in site:
        return "rust:" + site.split("/library/")[1]
    return site


def finding_key(e, v):
    """Key of the deviation observed on event e with TLC verdict v (None if unexplained)."""
    k = v["key"]
    if k == "panic":
        dom = "tex-undefined" if v.get("undef") else "tex-defined"
        return [f"panic:{panic_site(e['panic'][0])}:{e['panic'][1]}:{dom}"]
    if k == "deviation":
        return sorted(v["devs"])
    if k == "mismatch" and e["k"] == "pfs" and e["s"].startswith("-"):
        # Scaled::parse_from_string parses the sign as part of the integer part
        return ["parse_from_string-negative"]
    return None


def describe(e, v):
    if e["k"] == "vm":
        got = (f"panicked in {e.get('pstep')}: {e['panic']}" if "panic" in e
               else f"printed {txt(e['out'])!r} with {e['errs']} error(s)")
        w = v.get("want")
        want = f"TeX: {txt(w['out'])!r} with {w['errs']} error(s)" if isinstance(w, dict) else ""
        return f"program {e['src']!r} (em={e['em']}sp ex={e['ex']}sp) {got}; {want} [{v['key']}]"
    shown = {k: x for k, x in e.items() if k != "txt"}
    if "txt" in e:
        shown["text"] = txt(e["txt"])
    w = v.get("want")
    if isinstance(w, list) and w and all(isinstance(x, int) and 32 <= x < 127 for x in w) and e["k"] in ("print", "gprint"):
        w = txt(w)
    return f"call {json.dumps(shown)}: specification says {json.dumps(w)} [{v['key']}]"


def validate(ctx, name, path, stats):
    """Run the trace spec over a file of call events; judge every verdict."""
    n, bad = validate_calls(ctx, "Trace_TexArith", "Trace_TexArith.cfg", path, xmx="2g",
                            parts=max(1, min(NCPU - 2, count_lines(path) // 1200 + 1)))
    undefined = 0
    nviol = 0
    for e, v in bad:
        if v["key"] == "undefined":
            undefined += 1
            stats["undefined:" + e["k"] + (":" + e.get("tag", "") if e["k"] == "vm" else "")] += 1
            continue
        keys = finding_key(e, v)
        desc = describe(e, v)
        replay = {"part": name, "event": e, "verdict": v}
        if keys and all(ctx.finding_for(k) for k in keys):
            for k in keys:
                ctx.known_finding(k)
            stats["known:" + "+".join(keys)] += 1
            continue
        nviol += 1
        stats["violation:" + ("+".join(keys) if keys else v["key"])] += 1
        if nviol <= 12:
            if keys:
                desc += "  (unrecorded deviation: " + " + ".join(keys) + ")"
            ctx.violation(desc, replay)
        else:
            ctx.violations.append((desc, "(not stored)"))
    ctx.add_bound(name, n - undefined, n - undefined)
    ctx.cov["parts"][name]["skipped_tex_undefined"] = undefined
    return n


def model(ctx):
    q = ctx.quick
    # (-coverage makes TLC profile every recursive operator call and exhausts the heap here; the vacuity
    # guard is the number of law instances = distinct states instead)
    res = tlc_model(ctx, "TexArith.laws", "MC_TexArith", "MC_TexArith.cfg" if q else "MC_TexArith_thorough.cfg",
                    workers=4 if q else 8, coverage=False, xmx="4g" if q else "8g")
    if res.distinct < 65536 + 20000:
        raise ToolError(f"vacuous model: only {res.distinct} law instances were checked")
    with cf.ThreadPoolExecutor(max_workers=len(NEG)) as ex:
        futs = [ex.submit(tlc_expect_refuted, "MC_TexArith", f"NEG_TexArith_{bug}.cfg", bug, workers=1, xmx="1g")
                for bug in NEG]
        for f in futs:
            f.result()
    ctx.cov["parts"]["TexArith.negative_controls_refuted"] = len(NEG)


def run(ctx):
    q = ctx.quick
    build_harness()
    ctx.cov["rule"] = (
        "call events: one per distinct (function, arguments) or generated program, all decided by TLC against the "
        "transcribed TeX algorithm; events on which TeX itself is undefined (Pascal overflow: negate(-2^31), "
        "xn_over_d intermediates) are skipped and counted per part, not bound.  sweep: values s with |s| <= 2^30-1 "
        "whose Display text equals sign+IntTable[|s|>>16]+'.'+FracTable[|s|&65535]+'pt' (both tables validated "
        "entry by entry by TLC in part direct) and for which parse_no_units / parse_from_string return s."
    )
    t0 = time.time()
    # the model step is independent of the binding: it runs beside it and is joined at the end
    pool = cf.ThreadPoolExecutor(max_workers=2)
    model_done = pool.submit(model, ctx)
    stats = Counter()
    # ---------------- direct call events (F) --------------------------------------------------
    d = ctx.work / "direct.ndjson"
    vh(["c06-direct", f"seed={ctx.seed}", f"n={1500 if q else 40000}", f"out={d}"])
    validate(ctx, "direct", d, stats)
    log(f"[c06] direct done at {time.time()-t0:.1f}s")
    ctx.sample({"direct_event": read_ndjson_line(d, 70000)})
    # ---------------- programs on the VM (F) ---------------------------------------------------
    v = ctx.work / "vm.ndjson"
    vh(["c06-vm", f"seed={ctx.seed}", f"n={6000 if q else 320000}", f"out={v}"])
    validate(ctx, "vm", v, stats)
    log(f"[c06] vm done at {time.time()-t0:.1f}s")
    for i in (5, 4000, 4001):
        e = read_ndjson_line(v, i)
        if e:
            ctx.sample({"program": e["src"], "printed": txt(e.get("out", [])), "errors": e.get("errs")})
    # ---------------- exhaustive / strided sweep against the validated tables ----------------
    s = ctx.work / "sweep.ndjson"
    if q:
        vh(["c06-sweep", "mode=stride", f"seed={ctx.seed}", f"count={1 << 25}", "threads=12", f"out={s}"])
    else:
        vh(["c06-sweep", "mode=full", "threads=16", f"out={s}"], timeout=3000)
    r = read_ndjson(s)[0]
    log(f"[c06] sweep done at {time.time()-t0:.1f}s")
    try:
        model_done.result()
    finally:
        pool.shutdown(wait=True)
    log(f"[c06] model+neg joined at {time.time()-t0:.1f}s")
    ctx.cov["evaluations"] += r["checked"]
    ctx.cov["parts"]["sweep"] = {"values_checked": r["checked"], "mode": r["mode"], "step": r["step"],
                                 "disagreements": r["bad"]}
    ctx.cov["distinct_nontrivial"] += r["checked"]
    for ex in r["examples"][:5]:
        ctx.violation(f"print/scan sweep: s={ex['s']}sp {ex['what']}: {json.dumps(ex)}", {"part": "sweep", **ex})
    ctx.cov["parts"]["verdict_classes"] = dict(sorted(stats.items()))
    ctx.assumptions += [
        "TeX is undefined (Pascal integer overflow) when -2^31 is negated or its absolute value taken (scan_int sign, "
        "scan_dimen coefficient, mult_and_add, x_over_n, xn_over_d, print_scaled, attach_sign) and when xn_over_d's "
        "intermediate exceeds 2^31-1 (a fraction of an internal unit >= 2^30 sp): such instances are skipped and counted "
        "(skipped_tex_undefined), including \\divide of -2^31 by -1; a panic of the code is still reported on them",
        "\\advance is 32-bit wrap-around as the property states (tex.web 1238 adds without a check)",
        "em and ex are supplied by the harness state (TexlangState::em_width / ex_height), |value| <= 2^30-1",
        "generated texts stay inside the grammar both TeX and texcraft read: no `true', no unknown units, no missing "
        "numbers, blanks only where a single space token can occur, upper/lower case keywords, ASCII only; "
        "\\mag = 1000",
        "programs use the stdlib primitives \\count \\dimen \\skip \\the \\advance \\multiply \\divide \\relax wired as "
        "in texlang_stdlib::built_in_commands(), registers 0-9; grouping and \\global are C01's",
        "direct calls stay inside Knuth's stated domains (0 <= n <= 2^16, 0 < d <= 2^16 for xn_over_d; |y| <= 2^30-1 for "
        "nx_plus_y; operands never -2^31); extremes reach these functions through VM programs instead",
        "category codes of the tokens produced by \\the are not compared (only the characters)",
    ]


def read_ndjson_line(path, i):
    with open(path) as f:
        for k, line in enumerate(f):
            if k == i:
                return json.loads(line)
    return None


def selftest(ctx):
    """Show that the binding rejects corrupted recordings and that TLC refutes the spec mutants."""
    build_harness()
    model(ctx)
    d = ctx.work / "st.ndjson"
    vh(["c06-vm", f"seed={ctx.seed}", "n=400", "pairs=0", f"out={d}"])
    lines = [json.loads(x) for x in open(d)]
    good = [e for e in lines if "out" in e and e["out"]]
    corrupted = []
    # (1) one printed digit changed, (2) an error dropped, (3) an operand changed behind the spec's back
    e = json.loads(json.dumps(next(x for x in good if any(48 <= c <= 56 for c in x["out"]))))
    i = next(i for i, c in enumerate(e["out"]) if 48 <= c <= 56)
    e["out"][i] += 1
    corrupted.append(e)
    e = json.loads(json.dumps(next(x for x in good if x["errs"] > 0)))
    e["errs"] -= 1
    corrupted.append(e)
    e = json.loads(json.dumps(next(x for x in good if x["em"] != 0 and any(c in (109, 77) for s in x["steps"] for c in s["rhs"]))))
    e["em"] += 1 << 16
    corrupted.append(e)
    p = ctx.work / "corrupt.ndjson"
    p.write_text("".join(json.dumps(e) + "\n" for e in corrupted))
    n, bad = validate_calls(ctx, "Trace_TexArith", "Trace_TexArith.cfg", p)
    rejected = {v["l"] for _, v in bad if v["key"] in ("mismatch", "deviation")}
    log(f"[selftest] corrupted events rejected: {sorted(rejected)} of {n}")
    if len(rejected) < 2:
        raise ToolError("selftest: corrupted recordings were accepted")
    ctx.cov["parts"]["selftest"] = {"corrupted_events": n, "rejected": len(rejected)}
    ctx.add_bound("selftest", n, n)


def replay(path):
    r = json.load(open(path))
    print(r.get("desc", ""))
    e = r.get("event")
    if e and e.get("k") == "vm":
        build_harness()
        p = vh(["c06-run", f"src={e['src']}", f"em={e['em']}", f"ex={e['ex']}"])
        print("re-run on the current tree:", p.stdout.decode().strip())
        w = r["verdict"].get("want")
        if isinstance(w, dict):
            print("specification:", json.dumps({"out": txt(w["out"]), "errs": w["errs"]}))
    else:
        print(json.dumps(r, indent=1)[:3000])
    return 0
