"""C14 -- hyphenating a horizontal list changes nothing unless a break is taken
(boxworks_hyphenate::Hyphenator::hyphenate against tex.web 891-918).

Model steps (TLC):
  * specs/HyphenList.tla part 1, MC_HyphenList*: TeX's word-discovery machine (894-899) reports exactly the
    words of the definition RefWords on every list of <= MaxLen nodes over an alphabet with one node of every
    kind 896-899 distinguish (MaxHn = 3/4 stands for 63 so that the letter limit is reached); every glue
    starts a search; negative controls: the recorded deviation `abort_consumes_glue` and six seeded mutants.
  * specs/HyphenRecon.tla, MC_HyphenRecon*: a transcription of TeX's reconstitution (903-918, fonts with
    simple ligatures and kerns) hyphenates every word over a small font; its output satisfies the relation
    R1-R3 that the trace specification demands of the code (so the relation asks nothing TeX does not do);
    negative control: "every permitted position is realised" is refuted (914: hyphens are forgotten).

Binding F: the harness runs the real text -> hlist path and the real hyphenation pass and records
(before, after, exceptions, lh, rh); specs/Trace_HyphenList.tla recomputes Words(before) and the relation and
names the failed clause or the smallest set of recorded deviations that explains the event.
"""
import concurrent.futures as cf
import json
from pathlib import Path

from vlib import *

LEVEL = "model_checking"

NEGS = [
    ("MC_HyphenList", "NEG_HyphenList_AbortConsumesGlue.cfg", "deviation abort_consumes_glue: the machine no longer reports the words of the definition"),
    ("MC_HyphenList", "NEG_HyphenList_AbortSkipsSearch.cfg", "deviation abort_consumes_glue: a glue does not start a search"),
    ("MC_HyphenList", "NEG_HyphenList_LigNeverStarts.cfg", "a ligature never starts a word"),
    ("MC_HyphenList", "NEG_HyphenList_Limit64.cfg", "64 letters collected (hn<63 test off by one)"),
    ("MC_HyphenList", "NEG_HyphenList_LigFirstCharOnly.cfg", "only the first character of a ligature is tested for being a letter"),
    ("MC_HyphenList", "NEG_HyphenList_MinOffByOne.cfg", "hn < l_hyf + r_hyf off by one"),
    ("MC_HyphenList", "NEG_HyphenList_SuffixCharAborts.cfg", "a character after the word forbids hyphenation"),
    ("MC_HyphenList", "NEG_HyphenList_ExplicitKernAborts.cfg", "an explicit kern after the word forbids hyphenation"),
]
RECON_NEGS = [
    ("MC_HyphenRecon", "NEG_HyphenRecon_AllPositions.cfg", "relation without the 'forgotten hyphen' exception (every permitted position realised)"),
    ("MC_HyphenRecon", "NEG_HyphenRecon_NoSync.cfg", "reconstitution that does not develop the post-break branch up to a common cut"),
    ("MC_HyphenRecon", "NEG_HyphenRecon_HyphenMinIgnored.cfg", "reconstitution that ignores l_hyf"),
]
ACTIONS = ["Outer", "Prefix", "Collect", "Check", "Suffix"]


def show(nodes):
    def ch(c):
        return chr(c) if 33 <= c < 127 else "<%d>" % c
    s = []
    for n in nodes:
        k = n["k"]
        if k == "char":
            s.append(ch(n["c"]) + ("@%d" % n["f"] if n["f"] else ""))
        elif k == "lig":
            s.append("lig(%s<%s%s%s>)" % (ch(n["c"]), "|" if n["lb"] else "", "".join(ch(c) for c in n["o"]),
                                          "|" if n["rb"] else ""))
        elif k == "kern":
            s.append("kern%s(%d)" % ("" if n["x"] == 0 else "!", n["w"]))
        elif k == "glue":
            s.append("GLUE")
        elif k == "disc":
            s.append("DISC[%s|%s|%d]" % (show(n["pre"]), show(n["post"]), n["n"]))
        else:
            s.append(k)
    return " ".join(s)


def describe(e, v):
    exc = {"".join(chr(c) for c in x["w"]): x["p"] for x in e["exc"]}
    st = v.get("strict", {})
    got = ("after: " + show(e["after"])) if "after" in e else ("panic: " + json.dumps(e.get("panic")))
    return (f"[{v['key']}] clause {st.get('clause')} at before[{st.get('before_index')}] / after[{st.get('after_index')}]; "
            f"lh={e['lh']} rh={e['rh']} exceptions={exc} font={json.dumps(e['font'])}; before: {show(e['before'])}; {got}")


def judge_events(ctx, part, bad):
    """bad: [(event, verdict)].  A verdict key is the failed clause, "panic", or names of recorded deviations
    joined by "+" (the smallest set under which the relation holds).  Accepted as known only if every name
    is an open finding."""
    reported = {}
    for e, v in bad:
        key = v.get("key", "mismatch")
        names = key.split("+")
        if all(ctx.finding_for(n) for n in names):
            for n in names:
                ctx.known_finding(n)
            continue
        reported[key] = reported.get(key, 0) + 1
        if reported[key] <= 3:
            ctx.violation(describe(e, v), {"part": part, "event": e, "verdict": v})
        else:
            ctx.violations.append((describe(e, v), ""))
    for key, n in reported.items():
        if n > 3:
            log(f"  ({n - 3} more events with verdict {key} not written as replay files)")
    ctx.cov["parts"].setdefault(part, {})["rejected_by_strict_spec"] = len(bad)
    return sum(reported.values())


def bind(ctx, part, cmd, parts):
    ev = ctx.work / f"{part}.ndjson"
    stats = ctx.work / f"{part}.stats.json"
    p = vh(cmd + [f"out={ev}", f"stats={stats}"], check=False)
    hang = Path(str(ev) + ".hang")
    if p.returncode == 3 and hang.exists():
        # the pass did not return on one case: that is a verdict about the code, not tool trouble
        e = json.loads(hang.read_text())
        ctx.violation(f"[hang] the hyphenation pass did not return within {e['hang']}s; lh={e['lh']} rh={e['rh']} "
                      f"font={json.dumps(e['font'])} script={json.dumps(e['script'])[:600]}", {"part": part, "event": e})
        ctx.cov["parts"].setdefault(part, {})["hang"] = 1
        return 0
    if p.returncode != 0:
        log(p.stderr.decode(errors="replace")[-3000:])
        raise ToolError(f"harness failed rc={p.returncode}: vh {' '.join(cmd)}")
    st = json.loads(stats.read_text())
    n, bad = validate_calls(ctx, "Trace_HyphenList", "Trace_HyphenList.cfg", ev, parts=parts)
    ctx.add_bound(part, n, st["nontrivial"], distinct_events=st["distinct"], panics=st["panics"],
                  inserted_discretionaries=st["inserted_discs"], lists_with_ligature=st["with_ligature"],
                  lists_with_kern=st["with_kern"], longest_list=st["longest_list"], generator=st["gen"])
    judge_events(ctx, part, bad)
    took = 0
    with open(ev) as f:
        for i, line in enumerate(f):
            if took < 2 and i % 211 == 17 and '"disc","n":1' in line.replace(" ", "") and len(line) < 6000:
                e = json.loads(line)
                ctx.sample({"script": e["script"], "font": e["font"], "exc": e["exc"], "lh": e["lh"], "rh": e["rh"],
                            "before": show(e["before"]), "after": show(e.get("after", []))})
                took += 1
    return n


def word_models(ctx):
    tlc_model(ctx, "HyphenList.words", "MC_HyphenList", "MC_HyphenList.cfg", expect_actions=ACTIONS, workers=2)
    tlc_model(ctx, "HyphenList.words_mins", "MC_HyphenList", "MC_HyphenList_mins.cfg", workers=2, coverage=False)


def word_models_len5(ctx):
    tlc_model(ctx, "HyphenList.words_len5", "MC_HyphenList", "MC_HyphenList_len5.cfg", workers=2, coverage=False)


def negative_controls(ctx, negs, name):
    for mod, cfg, what in negs:
        tlc_expect_refuted(mod, cfg, what, workers=1)
    ctx.cov["parts"][name] = ctx.cov["parts"].get(name, 0) + len(negs)


def word_models_thorough(ctx):
    if ctx.quick:
        return
    tlc_model(ctx, "HyphenList.words_all_kinds", "MC_HyphenList", "MC_HyphenList_thorough.cfg", workers=4,
              coverage=False, xmx="6g", timeout=3000)
    tlc_model(ctx, "HyphenList.words_quick_kinds_len5", "MC_HyphenList", "MC_HyphenList_quick5.cfg", workers=4,
              coverage=False, xmx="6g", timeout=3000)
    tlc_model(ctx, "HyphenList.words_len6", "MC_HyphenList", "MC_HyphenList_len6.cfg", workers=4,
              coverage=False, xmx="6g", timeout=3000)
    tlc_model(ctx, "HyphenList.words_mins_len5", "MC_HyphenList", "MC_HyphenList_mins_thorough.cfg", workers=4,
              coverage=False, xmx="6g", timeout=3000)


def recon_models(ctx):
    tlc_model(ctx, "HyphenRecon.tex_satisfies_relation", "MC_HyphenRecon",
              "MC_HyphenRecon.cfg" if ctx.quick else "MC_HyphenRecon_mins.cfg",
              workers=3 if ctx.quick else 4, coverage=False, xmx="4g", timeout=3000)
    negative_controls(ctx, RECON_NEGS, "HyphenRecon.negative_controls_refuted")
    if not ctx.quick:
        tlc_model(ctx, "HyphenRecon.more_rules", "MC_HyphenRecon", "MC_HyphenRecon_thorough.cfg", workers=4,
                  coverage=False, xmx="6g", timeout=3000)
        tlc_model(ctx, "HyphenRecon.words_len5", "MC_HyphenRecon", "MC_HyphenRecon_len5.cfg", workers=4,
                  coverage=False, xmx="6g", timeout=3000)


def run(ctx):
    q = ctx.quick
    build_harness()
    ctx.cov["rule"] = (
        "bound = (before, after) events of the real hyphenation pass decided by Trace_HyphenList.  unit: the inputs "
        "of the 33 unit tests of boxworks-hyphenate (expected lists there come from real TeX) with and without the "
        "paragraph tail; text: sentences in the real cmr10 through TextPreprocessorImpl (ff fi fl ffi ffl, kerns, "
        "punctuation, digits, explicit hyphens, words of 57..80 letters with ligatures around the 63-letter limit, "
        "words after letterless tokens, a font change inside a word); synth: fonts built from PL text (1-5 rules "
        "over letters, the hyphen, punctuation, the left boundary and the boundary character, all 8 ligature forms "
        "and kerns) x words over their alphabet; struct: EVERY sequence of <= maxlen tokens over {glue, letters, "
        "ligature, kerned letters, non-letters, letters of a second font, explicit kern, penalty, rule, whatsit, "
        "math, discretionary, ...} in cmr10 with every position permitted.  lh, rh range over 0..4 (thorough: also "
        "-1, 5, 61..70).  non-trivial = events whose `after` holds at least one inserted discretionary "
        "(counted by the harness)."
    )
    with cf.ThreadPoolExecutor(max_workers=6) as ex:
        futs = [ex.submit(recon_models, ctx), ex.submit(word_models, ctx), ex.submit(word_models_len5, ctx),
                ex.submit(word_models_thorough, ctx),
                ex.submit(negative_controls, ctx, NEGS[:4], "HyphenList.negative_controls_refuted"),
                ex.submit(negative_controls, ctx, NEGS[4:], "HyphenList.negative_controls_refuted")]
        bind(ctx, "HyphenList.unit_test_inputs", ["c14-unit"], parts=1)
        if q:
            bind(ctx, "HyphenList.text_cmr10", ["c14-text", f"seed={ctx.seed}", "n=900"], parts=3)
            bind(ctx, "HyphenList.synthetic_fonts", ["c14-synth", f"seed={ctx.seed}", "n=2400"], parts=3)
            bind(ctx, "HyphenList.structural", ["c14-struct", "maxlen=3", "tokens=13"], parts=2)
        else:
            bind(ctx, "HyphenList.text_cmr10", ["c14-text", f"seed={ctx.seed}", "n=25000", "extremes=1"], parts=12)
            bind(ctx, "HyphenList.synthetic_fonts", ["c14-synth", f"seed={ctx.seed}", "n=100000"], parts=12)
            bind(ctx, "HyphenList.synthetic_fonts_simple", ["c14-synth", f"seed={ctx.seed + 1}", "n=30000", "level=0"], parts=12)
            bind(ctx, "HyphenList.structural", ["c14-struct", "maxlen=4", "tokens=17", "mins=1:1"], parts=12)
            bind(ctx, "HyphenList.structural_mins", ["c14-struct", "maxlen=3", "tokens=19", "mins=0:0,2:1,1:2,2:3,3:2,4:4"], parts=12)
        for f in futs:
            f.result()
    ctx.assumptions += [
        "Allowed(word) is chosen by the harness: the hyphenate::Hyphenator inside the pass is loaded with exceptions "
        "only (no patterns), one entry per maximal run of letters of the text (and the 60..63-letter prefixes of "
        "longer runs); a word without an entry has no permitted position.  Liang's pattern algorithm itself is C13",
        "\\lccode and \\uchyph have their plain TeX values (letters = ASCII letters, upper case is hyphenated) and "
        "the hyphen character is '-' for every font: hyphenate_impl hard-codes these (documented TODOs)",
        "the pass owns one lig/kern program: fonts 0 and 1 of a case are the same font under two numbers, so that a "
        "font change inside a word is exercised without leaving the implemented subset",
        "a list may end without TeX's final penalty + \\parfillskip (boxworks-bin calls the pass like that); the "
        "end of the list then permits hyphenation like the final penalty would",
        "math-on nodes (glue inside a formula does not start a search, 866 auto_breaking) are modelled in the "
        "specification but not generated: ds::Math is documented as incomplete; discretionaries already in the "
        "list are the empty ones main control puts after an explicit hyphen (replace_count 0)",
        "synthetic fonts are loaded the way fonts are loaded in practice: PL text -> TFM bytes -> tfm::File -> "
        "compiled program",
        "the relation constrains what the property names: node identity of the main list, letters of the pre- and "
        "post-break lists, positions.  Kerns and boundary flags inside pre/post-break lists are not compared",
    ]


def replay(path):
    """Re-run the recorded script on the real code and have TLC judge the fresh event."""
    r = json.load(open(path))
    e = r.get("event", r)
    ctx = Ctx("C14", "replay")
    try:
        build_harness()
        src = ctx.work / "in.ndjson"
        src.write_text(json.dumps(e) + "\n")
        out = ctx.work / "replay.ndjson"
        p = vh(["c14-replay", f"in={src}", f"out={out}", "hang=20"], check=False)
        print(p.stderr.decode(errors="replace").strip())
        if p.returncode == 3:
            print(f"VIOLATION property=C14 replay={path}")
            return 1
        if p.returncode != 0:
            raise ToolError(f"harness failed rc={p.returncode}")
        n, bad = validate_calls(ctx, "Trace_HyphenList", "Trace_HyphenList.cfg", out, parts=1)
        if not bad:
            print("accepted by the strict specification")
            return 0
        ev, v = bad[0]
        print("verdict:", json.dumps(v))
        if all(ctx.finding_for(x) for x in v["key"].split("+")):
            print("KNOWN-FINDING:", v["key"])
            return 0
        print(describe(ev, v))
        print(f"VIOLATION property=C14 replay={path}")
        return 1
    except ToolError as x:
        log(f"TOOL-ERROR [C14]: {x}")
        return 2
    finally:
        shutil.rmtree(ctx.work, ignore_errors=True)


def selftest(ctx):
    """The binding notices corrupted lists; every negative control is refuted."""
    build_harness()
    ev = ctx.work / "self.ndjson"
    vh(["c14-unit", f"out={ev}"])
    ev2 = ctx.work / "self2.ndjson"
    vh(["c14-text", f"seed={ctx.seed}", "n=150", f"out={ev2}"])
    events = read_ndjson(ev) + read_ndjson(ev2)
    allev = ctx.work / "all.ndjson"
    allev.write_text("".join(json.dumps(e) + "\n" for e in events))
    n, bad = validate_calls(ctx, "Trace_HyphenList", "Trace_HyphenList.cfg", allev, parts=2)
    badset = {json.dumps(e, sort_keys=True) for e, _ in bad}
    good = [e for e in events if json.dumps(e, sort_keys=True) not in badset and "after" in e]
    withdisc = [e for e in good if sum(1 for x in e["after"] if x["k"] == "disc") > sum(1 for x in e["before"] if x["k"] == "disc")]
    muts = []

    def mut(e, what, f):
        e = json.loads(json.dumps(e))
        if f(e) is not False:
            e["mutation"] = what
            muts.append(e)

    def first_inserted(e):
        b = [json.dumps(x, sort_keys=True) for x in e["before"]]
        for j, x in enumerate(e["after"]):
            if x["k"] == "disc" and (x["pre"] or x["post"] or x["n"]):
                return j
        return None

    def drop_disc(e):
        j = first_inserted(e)
        del e["after"][j]

    def move_disc(e):
        j = first_inserted(e)
        a = e["after"]
        if j + 1 >= len(a) or a[j + 1]["k"] not in ("char",) or a[j]["n"] != 0:
            return False
        a[j], a[j + 1] = a[j + 1], a[j]

    def drop_node(e):
        j = first_inserted(e)
        a = e["after"]
        if j + 1 >= len(a):
            return False
        del a[j + 1]

    def pre_letter(e):
        d = e["after"][first_inserted(e)]
        for x in d["pre"]:
            if x["k"] == "char" and x["c"] != 45:
                x["c"] = 122 if x["c"] != 122 else 121
                return
        return False

    def no_hyphen(e):
        d = e["after"][first_inserted(e)]
        if d["pre"] and d["pre"][-1]["k"] == "char" and d["pre"][-1]["c"] == 45:
            d["pre"].pop()
            return
        return False

    def count_up(e):
        e["after"][first_inserted(e)]["n"] += 1

    def dup_disc(e):
        j = first_inserted(e)
        if e["after"][j]["n"] != 0:
            return False
        e["after"].insert(j, json.loads(json.dumps(e["after"][j])))

    def font_of_pre(e):
        d = e["after"][first_inserted(e)]
        d["pre"][-1]["f"] = 1 - d["pre"][-1].get("f", 0) if d["pre"][-1]["k"] == "char" else 0
        if d["pre"][-1]["k"] != "char":
            return False

    def lhmin_up(e):
        # the recorded list is right for lh; claim a larger lh so that the first discretionary is too early
        e["lh"] = 40

    def swap_nodes(e):
        a = e["after"]
        for j in range(len(a) - 1):
            if a[j]["k"] == "char" and a[j + 1]["k"] == "char" and a[j] != a[j + 1]:
                a[j], a[j + 1] = a[j + 1], a[j]
                return
        return False

    def extra_exception(e):
        # one more permitted position that the list does not realise (between two plain characters of a word)
        for x in e["exc"]:
            if len(x["w"]) >= 4 and 2 not in x["p"] and not any(n["k"] == "lig" for n in e["before"]):
                x["p"] = sorted(x["p"] + [2])
                e["lh"], e["rh"] = 1, 1
                return
        return False

    for e in withdisc[:40]:
        mut(e, "drop an inserted discretionary", drop_disc)
        mut(e, "move a discretionary one node to the right", move_disc)
        mut(e, "drop the node after a discretionary", drop_node)
        mut(e, "change a letter of the pre-break list", pre_letter)
        mut(e, "remove the hyphen of the pre-break list", no_hyphen)
        mut(e, "replace_count + 1", count_up)
        mut(e, "duplicate a discretionary", dup_disc)
        mut(e, "font of the hyphen", font_of_pre)
        mut(e, "left hyphen minimum violated", lhmin_up)
        mut(e, "swap two characters", swap_nodes)
    for e in good[:200]:
        mut(e, "a permitted position without discretionary", extra_exception)
    mf = ctx.work / "mut.ndjson"
    mf.write_text("".join(json.dumps(e) + "\n" for e in muts))
    n2, bad2 = validate_calls(ctx, "Trace_HyphenList", "Trace_HyphenList.cfg", mf, parts=2)
    rejected = {json.dumps(e, sort_keys=True) for e, v in bad2}
    unexplained = {json.dumps(e, sort_keys=True) for e, v in bad2 if not all(ctx.finding_for(x) for x in v["key"].split("+"))}
    # a missing position in a word the code never tries is what `abort_consumes_glue` looks like: such an
    # instance of the last corruption is not applicable (rejected by the strict spec, explained by the finding)
    na = "a permitted position without discretionary"
    muts = [e for e in muts if not (e["mutation"] == na and json.dumps(e, sort_keys=True) in rejected
                                    and json.dumps(e, sort_keys=True) not in unexplained)]
    missed = [e for e in muts if json.dumps(e, sort_keys=True) not in unexplained]
    kinds = {}
    for e in muts:
        k = kinds.setdefault(e["mutation"], [0, 0])
        k[0] += 1
        k[1] += json.dumps(e, sort_keys=True) in unexplained
    for what, (a, b) in kinds.items():
        log(f"[selftest] {what}: {b}/{a} corrupted events rejected")
    clauses = sorted({v["key"] for e, v in bad2})
    log(f"[selftest] clauses named: {clauses}")
    if missed or len(kinds) < 10:
        for e in missed[:3]:
            log("  accepted although corrupted: " + e["mutation"] + " :: " + show(e["after"]))
        raise ToolError(f"selftest: {len(missed)} corrupted events were accepted / explained by a recorded deviation")
    for mod, cfg, what in NEGS + RECON_NEGS:
        tlc_expect_refuted(mod, cfg, what, workers=2)
    log("[selftest] negative controls refuted")
    ctx.add_bound("HyphenList.selftest", n2, n2)
    ctx.cov["rule"] = "selftest: corrupted (before, after) events must be rejected, negative controls refuted"
