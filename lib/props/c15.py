"""C15 -- packing a horizontal list (HBox::pack against TeX's hpack, tex.web 649-667).

Model step: specs/HPack.tla checked by TLC over every list of <= MaxLen nodes of a small alphabet
x both modes x a range of targets: the TeX layer (per-order totals) satisfies the reference laws
(the property as stated), the code-shaped layer equals TeX plus exactly the three named deviations,
each deviation acts only under its precondition; spec mutants and each deviation alone are refuted.

Binding F: the harness calls the real `boxworks::ds::HBox::pack` on generated lists and records one
call event per call; specs/Trace_HPack.tla recomputes TeX's box from the event's inputs and names
the deviation (or "mismatch") for every event it does not accept.
"""
import concurrent.futures as cf
import json
import re
from pathlib import Path

from vlib import *

LEVEL = "model_checking"

NEGS = [
    # the three recorded deviations, switched on in the TeX layer, violate the reference laws
    ("NEG_HPack_DevSwap.cfg", "deviation box_rule_width_height_swapped breaks the reference laws"),
    ("NEG_HPack_DevPresence.cfg", "deviation zero_total_top_order_hides_lower_order breaks the reference laws"),
    ("NEG_HPack_DevOverfull.cfg", "deviation overfull_ratio_plus_one breaks the reference laws"),
    # seeded spec mutants
    ("NEG_HPack_OrderFromLastGlue.cfg", "glue order taken from the last glue node"),
    ("NEG_HPack_DepthIgnoresShift.cfg", "depth of a shifted box ignores the shift"),
    ("NEG_HPack_OverfullAtAnyOrder.cfg", "overfull rule applied at infinite shrink orders"),
    # the code-shaped layer is not TeX, and needs each of the three deviations to be explained
    ("NEG_HPack_CodeIsTex.cfg", "code layer equals TeX"),
    ("NEG_HPack_CodeNeedsSwap.cfg", "code layer explained without the swap deviation"),
    ("NEG_HPack_CodeNeedsPresence.cfg", "code layer explained without the presence deviation"),
    ("NEG_HPack_CodeNeedsOverfull.cfg", "code layer explained without the overfull deviation"),
]

ACTIONS = ["ScanChar", "ScanBox", "ScanRule", "ScanGlue", "ScanKern", "ScanOther", "Pack"]


def describe(e, v):
    got = e.get("res", {"panic": e.get("panic")})
    return (f"hpack of {json.dumps(e['items'])} to {e['m']} {e['t']}: pack returned {json.dumps(got)}, "
            f"TeX's box is {json.dumps(v.get('want'))}; TeX plus all recorded deviations gives "
            f"{json.dumps(v.get('with_all_recorded_deviations'))}")


def judge_events(ctx, part, bad):
    """bad: [(event, verdict)].  A verdict key is "mismatch" or deviation names joined by "+"."""
    reported = {}
    for e, v in bad:
        key = v.get("key", "mismatch")
        if key == "spec_disagrees_with_tex_golden":
            # the specification, not the code, is on trial against a line set by real TeX
            raise ToolError("specification disagrees with a golden line of the repository set by real TeX: "
                            + json.dumps({"file": e.get("file"), "tex": e.get("tex"), "spec": v.get("want")}))
        # candidate explanations, smallest first; the first made of open known findings only counts
        expl = next((k.split("+") for k in v.get("keys", []) if all(ctx.finding_for(n) for n in k.split("+"))), None)
        if expl:
            for n in expl:
                ctx.known_finding(n)
            continue
        reported[key] = reported.get(key, 0) + 1
        if reported[key] <= 3:
            ctx.violation(f"[{key}] " + describe(e, v), {"part": part, "event": e, "verdict": v})
    for key, n in reported.items():
        if n > 3:
            log(f"  ({n - 3} more events with verdict {key} not written as replay files)")
    ctx.cov["parts"].setdefault(part, {})["rejected_by_strict_spec"] = len(bad)
    return sum(reported.values())


def bind(ctx, part, cmd, parts):
    ev = ctx.work / f"{part}.ndjson"
    stats = ctx.work / f"{part}.stats.json"
    vh(cmd + [f"out={ev}", f"stats={stats}"])
    st = json.loads(stats.read_text())
    n, bad = validate_calls(ctx, "Trace_HPack", "Trace_HPack.cfg", ev, parts=parts)
    ctx.add_bound(part, n, st["nontrivial"], distinct_events=st["distinct"], panics=st["panics"],
                  node_kinds=st["node_kinds"], longest_list=st["longest_list"], generator=st["gen"])
    judge_events(ctx, part, bad)
    took = 0
    with open(ev) as f:
        for i, line in enumerate(f):
            if took < 2 and i % 997 == 7 and '"glue"' in line and '"num":0' not in line:
                ctx.sample(json.loads(line))
                took += 1
    return n


def models(ctx):
    q = ctx.quick
    # vacuity guard: every scanning action and Pack is taken (coverage run on the small model)
    res = tlc_model(ctx, "HPack.actions", "MC_HPack", "MC_HPack_actions.cfg", workers=2)
    taken = {}
    for a in ACTIONS:
        # TLC prints `<Name line .. of module HPack (l c l c)>: distinct:generated` for \E-actions,
        # which vlib's coverage pattern does not read; parsed here
        m = re.search(rf"^<{a} line [^>]*>: (\d+):(\d+)", res.out, re.M)
        taken[a] = int(m.group(2)) if m else 0
        if taken[a] == 0:
            raise ToolError(f"vacuous model: action {a} never taken in MC_HPack")
    ctx.cov["parts"]["HPack.actions"]["actions_taken"] = taken
    for cfg, what in NEGS:
        tlc_expect_refuted("MC_HPack", cfg, what, workers=2)
    ctx.cov["parts"]["HPack.negative_controls_refuted"] = len(NEGS)


def big_model(ctx):
    if ctx.quick:
        tlc_model(ctx, "HPack.laws", "MC_HPack", "MC_HPack.cfg", workers=4, coverage=False)
    else:
        tlc_model(ctx, "HPack.laws", "MC_HPack", "MC_HPack_thorough.cfg", workers=6, coverage=False, xmx="6g")


def deep_model(ctx):
    if not ctx.quick:
        tlc_model(ctx, "HPack.laws_len4", "MC_HPack", "MC_HPack_len4.cfg", workers=6, coverage=False, xmx="6g")


def run(ctx):
    q = ctx.quick
    build_harness()
    ctx.cov["rule"] = (
        "bound = call events of the real HBox::pack decided by Trace_HPack (exhaustive: every list of <= maxlen "
        "nodes over the harness alphabet x 7 additional + 3 exact targets; random: seeded lists of <= 12/16 nodes "
        "with nested packed boxes, real cmr10 characters, cancelling glue, targets at and around natural +- total "
        "of every order; tex_goldens: every line (hbox) of boxworks-knuthplass/testdata/*_want.txt, written from real "
        "TeX's log, re-packed to its width -- there the specification's box is also compared with TeX's own box "
        "to print precision).  non-trivial = distinct (list, mode, target) whose list contains glue and whose target "
        "is not 'additional 0' (counted by the harness)."
    )
    with cf.ThreadPoolExecutor(max_workers=3) as ex:
        futs = [ex.submit(big_model, ctx), ex.submit(models, ctx), ex.submit(deep_model, ctx)]
        # ---------------- binding F on the real packer --------------------------------------
        # the repository's golden paragraphs (lines set by real TeX): pack is bound on them and the
        # specification itself is compared with TeX's box
        bind(ctx, "HPack.tex_goldens", ["c15-goldens"], parts=1)
        if q:
            bind(ctx, "HPack.exhaustive", ["c15-exh", "maxlen=3", "level=0"], parts=5)
            bind(ctx, "HPack.random", ["c15-rand", f"seed={ctx.seed}", "n=3000", "maxlen=12"], parts=3)
        else:
            bind(ctx, "HPack.exhaustive", ["c15-exh", "maxlen=3", "level=1", "span=4"], parts=8)
            bind(ctx, "HPack.exhaustive_len4", ["c15-exh", "maxlen=4", "level=0"], parts=8)
            bind(ctx, "HPack.random", ["c15-rand", f"seed={ctx.seed}", "n=80000", "maxlen=12"], parts=8)
            bind(ctx, "HPack.random_long", ["c15-rand", f"seed={ctx.seed + 1}", "n=20000", "maxlen=24"], parts=8)
        for f in futs:
            f.result()
    ctx.assumptions += [
        "glue ratio: ds::GlueRatio is an exact fraction num/den and ds::HBox has no glue_sign field; the sign "
        "lives in the ratio with the convention of boxworks' own TeX-log parser (tex.rs parse_glue_set: "
        "'glue set - r' is the ratio -r), so the expected value is sign * glue_set as a reduced fraction and is "
        "compared exactly (reduced, positive denominator); GlueRatio's own PartialEq (printed, sign-less form) is "
        "not used",
        "characters and ligatures always exist in their font (a node whose character has no metrics cannot occur "
        "in TeX; pack skips it); font 0 is the real cmr10.tfm through boxworks_text::TfmFontRepo, fonts >= 1 are "
        "dimension tables",
        "node kinds mark / insertion / adjust / math are `todo!()` in pack and outside the property's quantifier: "
        "not generated; leaders carry no box in ds::Glue, so leader glue kinds are packed as ordinary glue",
        "dimensions are kept below 2^29 so that every sum TeX forms fits 32 bits; rules with running "
        "height/depth use the repository's Rule::RUNNING; a panic of pack is an event no strict spec accepts",
        "TeX's overfull/underfull reports and the overfull rule (660, 663, 666) are outside the property "
        "(box fields only)",
    ]


def replay(path):
    """Re-run the recorded call on the real packer and have TLC judge it again."""
    r = json.load(open(path))
    e = r.get("event", r)
    ctx = Ctx("C15", "replay")
    try:
        build_harness()
        src = ctx.work / "in.ndjson"
        src.write_text(json.dumps(e) + "\n")
        out = ctx.work / "replay.ndjson"
        p = vh(["c15-replay", f"in={src}", f"out={out}"])
        print(p.stderr.decode(errors="replace").strip())
        n, bad = validate_calls(ctx, "Trace_HPack", "Trace_HPack.cfg", out, parts=1)
        ev = read_ndjson(out)[0]
        print("event:", json.dumps(ev))
        if not bad:
            print("accepted by the strict specification (TeX's box)")
            return 0
        v = bad[0][1]
        print("verdict:", json.dumps(v))
        expl = next((k for k in v.get("keys", []) if all(ctx.finding_for(x) for x in k.split("+"))), None)
        if expl:
            print("KNOWN-FINDING:", expl)
            return 0
        print(f"VIOLATION property=C15 replay={path}")
        return 1
    except ToolError as x:
        log(f"TOOL-ERROR [C15]: {x}")
        return 2
    finally:
        shutil.rmtree(ctx.work, ignore_errors=True)


def selftest(ctx):
    """The binding notices corrupted results; every negative control is refuted."""
    build_harness()
    ev = ctx.work / "self.ndjson"
    vh(["c15-exh", "maxlen=2", "level=0", f"out={ev}"])
    n, bad = validate_calls(ctx, "Trace_HPack", "Trace_HPack.cfg", ev, parts=1)
    lines = Path(ev).read_text().splitlines()
    badset = {json.dumps(e, sort_keys=True) for e, _ in bad}
    good = [json.loads(l) for l in lines if json.dumps(json.loads(l), sort_keys=True) not in badset]
    muts = []

    def mut(e, f):
        e = json.loads(json.dumps(e))
        f(e["res"])
        muts.append(e)

    withratio = [e for e in good if e["res"]["num"] != 0]
    shrinking = [e for e in withratio if e["res"]["num"] * e["res"]["den"] < 0]
    for e in good[10:14]:
        mut(e, lambda r: r.__setitem__("h", r["h"] + 1))
        mut(e, lambda r: r.__setitem__("d", r["d"] + 1))
        mut(e, lambda r: r.__setitem__("w", r["w"] - 1))
        mut(e, lambda r: r.__setitem__("s", 1))
    for e in withratio[:4] + shrinking[:4]:
        mut(e, lambda r: r.__setitem__("num", -r["num"]))
        mut(e, lambda r: r.__setitem__("o", (r["o"] + 1) % 4))
        mut(e, lambda r: r.__setitem__("den", r["den"] + 1))
        mut(e, lambda r: r.__setitem__("den", 0))
        mut(e, lambda r: (r.__setitem__("num", 0), r.__setitem__("den", 1)))
    mf = ctx.work / "mut.ndjson"
    mf.write_text("".join(json.dumps(e) + "\n" for e in muts))
    n2, bad2 = validate_calls(ctx, "Trace_HPack", "Trace_HPack.cfg", mf, parts=1)
    missed = n2 - len(bad2)
    log(f"[selftest] {len(muts)} corrupted events, {len(bad2)} rejected "
        f"({sum(1 for _, v in bad2 if v['key'] == 'mismatch')} as mismatch)")
    if missed or not withratio or not shrinking:
        raise ToolError(f"selftest: {missed} corrupted events were accepted")
    for cfg, what in NEGS:
        tlc_expect_refuted("MC_HPack", cfg, what, workers=2)
    log(f"[selftest] {len(NEGS)} negative controls refuted")
    ctx.add_bound("HPack.selftest", n2, n2)
    ctx.cov["rule"] = "selftest: corrupted call events must be rejected, negative controls refuted"
