"""C08 -- checkpointing (serialise / deserialise) is a stuttering step of the composed spec."""
import json
from vlib import *
from texvm import texvm_part

LEVEL = "model_checking"
DEVS = {"gdef-ignores-negative-globaldefs": "Trace_TexGroups_dev.cfg"}


def run(ctx):
    q = ctx.quick
    build_harness()
    # findings of C01 that are visible with or without a checkpoint are C01's to report, not C08's
    ctx.cov["rule"] = (
        "checkpoint-edges: programs derived from the TexGroups table (as in C01) are cut at an operation "
        "boundary (quick: one rotating position and format per program; thorough: every position x "
        "{JSON, MessagePack, bincode}); the VM is serialised, deserialised with the same built-ins and the "
        "rest runs on the restored VM; expected reads come from the same table because Checkpoint is a "
        "stuttering step.  checkpoint-diff: grammar-generated program pairs A|B (A biased to leave open groups, "
        "open conditionals, definitions and recorded recoverable errors behind) run uncut and with a checkpoint "
        "between them, all observations compared.  checkpoint-traces: deep random programs with checkpoint events validated by TLC "
        "(Checkpoint action of TexGroups).  Every run is a distinct (program, position, format)."
    )
    sfx = "" if q else "_thorough"
    # the model step is shared with C01 (Checkpoint is an action of TexGroups)
    tlc_model(ctx, "TexGroups.checkpoint_stutters", "MC_TexGroups", "MC_TexGroups.cfg", workers=6 if q else 14,
              expect_actions=["Checkpoint"], timeout=2400)
    lts, _ = tlc_dump(ctx, "TexGroups.lts", "MC_TexGroups", "LTS_TexGroups.cfg", xmx="8g", timeout=2400)
    dlts, _ = tlc_dump(ctx, "TexGroups.lts_dev", "MC_TexGroups", "LTS_TexGroups_dev.cfg", xmx="8g", timeout=2400)
    out = ctx.work / "cedges.ndjson"
    args = ["c08-edges", f"lts={lts}", f"devlts={dlts}", f"seed={ctx.seed}", f"out={out}", "maxviol=200"]
    args += ["stride=12"] if q else ["stride=7", "positions=all"]
    vh(args, timeout=7200)
    nv = 0
    inherited = 0
    for r in read_ndjson(out):
        if r["kind"] == "violation":
            desc = (f"checkpoint ({r['format']}) between {r['before']!r} and {r['after']!r}: read {r['got']} "
                    f"({r['outcome']}), spec says {r['expected']}")
            if r.get("same_as_uncut"):
                # the uncut program reads the same: the checkpoint was transparent; the disagreement
                # with the table is C01's to report (and C01 does), not a C08 verdict
                inherited += 1
            else:
                nv += 1
                if nv <= 5:
                    ctx.violation(desc, r)
                else:
                    ctx.violations.append((desc, ""))
        else:
            ctx.add_bound("Checkpoint.edges", r["runs"], r["runs"], json=r["json"], messagepack=r["messagepack"],
                          bincode=r["bincode"], edges=r["edges"])
            for s in r["samples"][:2]:
                ctx.sample(s)
    ctx.cov["parts"]["Checkpoint.edges"]["reads_differ_from_table_but_equal_uncut_run"] = inherited
    tr = ctx.work / "ctrace.ndjson"
    vh(["c01-trace", "checkpoints=1", "nogdef=1", f"seed={ctx.seed + 8}", f"n={150 if q else 2000}", "len=50", f"out={tr}"],
       timeout=7200)
    ntr, nev, rej = validate_traces(ctx, "Trace_TexGroups", "Trace_TexGroups.cfg", tr)
    ctx.add_bound("Checkpoint.traces", ntr, ntr, events=nev)
    # a rejected trace whose uncut run reads the same is C01's to report: the checkpoint was transparent
    inherited_tr = [r for r in rej if r["events"][0].get("uncut_same")]
    rej = [r for r in rej if not r["events"][0].get("uncut_same")]
    ctx.cov["parts"]["Checkpoint.traces"]["rejected_but_equal_to_uncut_run"] = len(inherited_tr)
    judge_rejections(ctx, rej, "Trace_TexGroups", {},
                     lambda r: f"checkpointed trace of {r['events'][0].get('program')!r} rejected at event "
                               f"{r['at']}: {json.dumps(r['unmatched'])}")
    # differential form on arbitrary generated programs (open conditionals, recorded errors, ...)
    dout = ctx.work / "cdiff.ndjson"
    vh(["c08-diff", f"seed={ctx.seed}", f"n={2500 if q else 60000}", f"out={dout}"], stdout_path="/dev/null", timeout=7200)
    nd = 0
    for r in read_ndjson(dout):
        if r["kind"] == "violation":
            nd += 1
            desc = (f"checkpoint ({r['format']}) between {r['before']!r} and {r['after']!r} changes behaviour: "
                    f"uncut {r['uncut']} vs checkpointed {r['checkpointed']}")
            if nd <= 5:
                ctx.violation(desc, r)
            else:
                ctx.violations.append((desc, ""))
        else:
            ctx.add_bound("Checkpoint.diff", r["runs"], r["runs"], skipped_A_does_not_end_normally=r["skipped_A_does_not_end_normally"])
            if r.get("sample"):
                ctx.sample(r["sample"])
    ctx.assumptions += [
        "checkpoint-diff: the oracle is the uncut run of the same text on the same code (Checkpoint is a stuttering "
        "step, so every observation function of the state is unchanged); \\endinput, \\read, \\input, \\openin "
        "and \\jobname are excluded there (their effect is tied to the source file or the harness terminal)",
        "checkpointed traces do not use \\gdef (texlang's recorded C01 deviation gdef-ignores-negative-globaldefs "
        "is C01's to report); in checkpoint-edges a read that differs from the table but equals the uncut run "
        "is counted, not reported",
        "state covered so far: the 19 quantity kinds of C01 (registers, macros on control sequences and active "
        "characters, \\let/\\countdef/\\toksdef/\\chardef aliases, \\catcode/\\mathcode, \\endlinechar, font, "
        "\\globaldefs) inside 0..10 open groups",
        "file system, terminal and the font-prefix registration are re-attached after deserialisation (not serialised by design)",
    ]
    # ---- whole programs of the composed model, cut into two lines with a checkpoint in between --------
    texvm_part(ctx, 5000 if ctx.quick else 30000, 808, name="TexVM.whole_programs_checkpointed", cut=True)


def selftest(ctx):
    build_harness()
    tr = ctx.work / "st-ctrace.ndjson"
    vh(["c01-trace", "checkpoints=1", "nogdef=1", "seed=13", "n=40", "len=30", f"out={tr}"])
    def flip(e):
        if e.get("ev") != "checkpoint" or "obs" not in e: return None
        e["obs"][0] = (e["obs"][0] + 1) % 3
        return e
    selftest_traces(ctx, "read-after-checkpoint-corrupted", "Trace_TexGroups", "Trace_TexGroups.cfg", tr, flip)
    ctx.cov["rule"] = "selftest: a checkpoint that changes a read must be rejected"


def replay(path):
    r = json.load(open(path))
    print(json.dumps({k: v for k, v in r.items() if k != "events"}, indent=1)[:3000])
    return 0
