"""C13 -- hyphenation positions are exactly Liang's; exceptions always win (specs/Liang.tla).

Model step: the packed op-stream / trie representation of crates/hyphenate, transcribed as the
implementation-shaped layer of Liang.tla, refines the definition (tex.web 919-924, 930-939,
960-965) on every word, for every history of API calls within small constants; codec law for
patterns with zero runs beyond 16 and 32; the repaired design refines TeX with no deviation;
spec-level mutants and dropped deviations are refuted.

Binding F: real hyphenate::Hyphenator objects configured with generated pattern sets / exception
lists (and plain TeX's own files), queried through calculate_indices; every returned index list is
recomputed by TLC (Trace_Liang.tla) from the exact API arguments."""
import concurrent.futures as cf
import json
import random
import re
from vlib import *

LEVEL = "model_checking"
MODULE = "MC_Liang"
DEVIATIONS = ["ExceptionAsScore67", "LaterPatternReplacesException", "ExceptionsSplitOnLinesOnly"]
ACTIONS = ["CallLoadPatterns", "CallInsertException", "CallInsertExceptions"]

# (name, cfg quick, cfg thorough, slices quick, slices thorough, actions that must be taken)
MODELS = [
    ("Liang.pairs", "MC_Liang_pairs.cfg", "MC_Liang_pairs_thorough.cfg", 1, 1, ACTIONS[:1]),
    ("Liang.exceptions", "MC_Liang_exc.cfg", "MC_Liang_exc_thorough.cfg", 1, 1, ACTIONS),
    ("Liang.codec", "MC_Liang_codec.cfg", "MC_Liang_codec_thorough.cfg", 4, 12, ACTIONS[:1]),
    ("Liang.codec2", None, "MC_Liang_codec2_thorough.cfg", 0, 8, ACTIONS[:1]),
    ("Liang.triple", None, "MC_Liang_triple_thorough.cfg", 0, 1, ACTIONS),
    ("Liang.index", "MC_Liang_index.cfg", "MC_Liang_index_thorough.cfg", 1, 1, ACTIONS[:1]),
    ("Liang.repaired_design", "MC_Liang_fix.cfg", "MC_Liang_fix_thorough.cfg", 1, 1, ACTIONS),
]
# spec-level negative controls: (cfg, what)
NEGS = [
    ("NEG_Liang_Strict.cfg", "the code as it is does not refine TeX without deviations"),
    ("NEG_Liang_NoExceptionAsScore67.cfg", "deviation ExceptionAsScore67 is needed"),
    ("NEG_Liang_NoLaterPatternReplacesException.cfg", "deviation LaterPatternReplacesException is needed"),
    ("NEG_Liang_NoExceptionsSplitOnLinesOnly.cfg", "deviation ExceptionsSplitOnLinesOnly is needed"),
    ("NEG_Liang_Chunk15.cfg", "zero runs chunked by 15"),
    ("NEG_Liang_AfterScoreCountsChar.cfg", "zero count after a digit starts at 1"),
    ("NEG_Liang_NoTerminator.cfg", "op stream without terminator"),
    ("NEG_Liang_LastWins.cfg", "last matching pattern wins instead of the maximum"),
    ("NEG_Liang_EndAnchorIgnored.cfg", "end anchor dropped"),
    ("NEG_Liang_StartAnchorAnywhere.cfg", "start-anchored patterns tried at every offset"),
    ("NEG_Liang_KeepScore0.cfg", "hyphen allowed before the first letter"),
]


def repo_root():
    """The texcraft tree the harness is built against (path dependency of harness/Cargo.toml)."""
    m = re.search(r'hyphenate\s*=\s*\{\s*path\s*=\s*"([^"]+)/crates/hyphenate"', (HARNESS / "Cargo.toml").read_text())
    if not m:
        raise ToolError("cannot find the hyphenate path dependency in harness/Cargo.toml")
    return Path(m.group(1))


# --------------------------------------------------------------------------------------
# model step
# --------------------------------------------------------------------------------------
def sliced_cfg(ctx, cfg, n, i):
    txt = (SPECS / cfg).read_text()
    txt = re.sub(r"NSlices = \d+", f"NSlices = {n}", txt)
    txt = re.sub(r"Slice = \d+", f"Slice = {i}", txt)
    p = ctx.work / f"{cfg[:-4]}-s{i}.cfg"
    p.write_text(txt)
    return p


def run_models(ctx, only_negs=False):
    q = ctx.quick
    jobs = []  # (kind, name, cfg path, what/actions)
    if not only_negs:
        for name, cq, ct, sq, st, acts in MODELS:
            cfg, ns = (cq, sq) if q else (ct, st)
            if cfg is None:
                continue
            if ns <= 1:
                jobs.append(("model", name, cfg, acts))
            else:
                for i in range(ns):
                    jobs.append(("model", name, sliced_cfg(ctx, cfg, ns, i), acts))
    for cfg, what in NEGS:
        jobs.append(("neg", cfg, cfg, what))
    workers = 3 if q else 4
    par = 5 if q else 4

    def one(job):
        kind, name, cfg, _ = job
        return tlc_run(MODULE, cfg, workers=workers, xss="256m", coverage=(kind == "model"),
                       work=ctx.work / f"tlc-{Path(str(cfg)).stem}", timeout=1500)

    with cf.ThreadPoolExecutor(max_workers=par) as ex:
        results = list(ex.map(one, jobs))
    agg = {}
    refuted = 0
    for (kind, name, cfg, extra), res in zip(jobs, results):
        if kind == "neg":
            if not res.violated:
                log(res.out[-3000:])
                raise ToolError(f"negative control not refuted: {cfg} ({extra})")
            refuted += 1
            continue
        if res.violated:
            log(res.out[-5000:])
            raise ToolError(f"design-level error: TLC reports {res.violated} in {MODULE}/{cfg} (the specification "
                            f"itself is inconsistent; not a verdict about the code)")
        if not res.ok:
            log(res.out[-5000:])
            raise ToolError(f"TLC did not complete on {MODULE}/{cfg}")
        a = agg.setdefault(name, TlcResult())
        a.distinct += res.distinct
        a.generated += res.generated
        a.wall = max(a.wall, res.wall)
        for k, v in res.actions.items():
            a.actions[k] = a.actions.get(k, 0) + v
        a.expect = extra
    for name, a in agg.items():
        for act in a.expect:
            if a.actions.get(act, 0) == 0:
                raise ToolError(f"vacuous model: action {act} never taken in {name} (coverage {a.actions})")
        ctx.add_model(name, a)
        log(f"[tlc] {name}: {a.distinct} distinct / {a.generated} generated, {a.wall:.1f}s")
    ctx.cov["parts"]["Liang.negative_controls_refuted"] = refuted
    return refuted


# --------------------------------------------------------------------------------------
# binding
# --------------------------------------------------------------------------------------
def plain_files(ctx):
    """plain TeX's pattern and exception files of the crate as code points, one JSON line each
    (lexical splitting only; what a pattern means is decided by the specification)."""
    src = repo_root() / "crates" / "hyphenate" / "src"
    pats = (src / "plain_tex_patterns.txt").read_text().split()
    excs = (src / "plain_tex_exceptions.txt").read_text().split()
    p = ctx.work / "plain_tex_files.ndjson"
    with open(p, "w") as f:
        f.write(json.dumps([[ord(c) for c in t] for t in pats]) + "\n")
        f.write(json.dumps([[ord(c) for c in t] for t in excs]) + "\n")
    stub = ctx.work / "noplain.ndjson"
    stub.write_text("[]\n[]\n")
    return p, stub, pats, excs


def plain_words(ctx, pats, excs, n):
    """Dictionary-like words: tokens of the prose in the repository (documentation, the book
    excerpts used by the line-breaking tests), the exception words, the words of the crate's own
    tests, and pseudo-words glued from pattern letters; natural / capitalised / upper / mixed case."""
    rnd = random.Random(ctx.seed)
    root = repo_root()
    files = sorted(root.glob("*.md")) + sorted(root.glob("crates/*.md")) + sorted(root.glob("docs/**/*.md")) + \
        [root / "crates/boxworks-bin/tests" / f for f in ("alice_in_wonderland.txt", "farewell_to_arms.txt", "wolf_hall.txt")]
    toks = set()
    for f in files:
        if f.exists():
            toks.update(w for w in re.findall(r"[A-Za-z]+", f.read_text(errors="replace")) if len(w) <= 40)
    toks = sorted(toks)
    rnd.shuffle(toks)
    fixed = [e.replace("-", "") for e in excs]
    fixed += [w.capitalize() for w in fixed[:6]] + [w.upper() for w in fixed[6:10]]
    fixed += ["record", "hyphenation", "concatenation", "supercalifragilisticexpialidocious", "bachelor", "echelon",
              "toothaches", "campfire", "biorhythm", "algorithm", "pneumonoultramicroscopicsilicovolcanoconiosis"[:40],
              "Table", "ach", "Aaronic", "Abelia", "William", "chaffless", "DifFicult", "cove", "antce", "a", "I"]
    letters = [re.sub(r"[^a-z]", "", p) for p in pats]
    pseudo = []
    for _ in range(n):
        w = "".join(rnd.choice(letters) for _ in range(rnd.randint(2, 5)))[:40]
        r = rnd.random()
        if r < 0.15:
            w = w.capitalize()
        elif r < 0.2:
            w = w.upper()
        elif r < 0.3:
            w = "".join(c.upper() if rnd.random() < 0.4 else c for c in w)
        pseudo.append(w)
    nd = max(0, (n - len(fixed)) * 2 // 3)
    words = fixed + toks[:nd]
    words += pseudo[: max(0, n - len(words))]
    seen, out = set(), []
    for w in words:
        if w and w not in seen:
            seen.add(w)
            out.append(w)
    p = ctx.work / "plainwords.txt"
    p.write_text("\n".join(out) + "\n")
    return p, len(out)


def validate(ctx, name, path, plain, parts=None):
    """Binding F with statistics: returns (stats, [(event, verdict)])."""
    n = count_lines(path)
    if n == 0:
        raise ToolError(f"no events recorded in {path}")
    parts = parts or max(1, min(NCPU - 2, n // 60 + 1))
    chunks = split_file(path, parts, ctx.work, Path(path).stem + "-c")
    vs = tlc_validate(ctx, "Trace_Liang", "Trace_Liang.cfg", [c[0] for c in chunks], env={"PLAIN": str(plain)})
    stats = {"words": 0, "skipped": 0, "nontrivial": 0, "exchits": 0, "bad": 0, "events": n}
    bad = []
    for (cpath, lo), v in zip(chunks, vs):
        if not v.accepted:
            raise ToolError(f"call-event validation stopped early in {cpath} at line {v.matched + 1}: {v.out[-2000:]}")
        st = list(printed(v.out, "STATS"))
        if len(st) != 1:
            raise ToolError(f"no STATS line from Trace_Liang on {cpath}")
        for k in ("words", "skipped", "nontrivial", "exchits", "bad"):
            stats[k] += st[0][k]
        if v.verdicts:
            lines = Path(cpath).read_text().splitlines()
            for verdict in v.verdicts:
                bad.append((json.loads(lines[verdict["l"] - 1]), verdict))
    if stats["bad"] != len(bad):
        raise ToolError(f"{name}: {stats['bad']} rejected words but {len(bad)} verdict lines")
    return stats, bad


def show(cpts):
    return "".join(chr(c) for c in cpts)


def describe(e, v):
    if v.get("wi", 0) == 0:
        return f"{v['key']}: {v.get('got', '')}"
    w = e["words"][v["wi"] - 1]
    calls = "; ".join(f"{ {'p': 'load_patterns', 'e': 'insert_exception', 'E': 'insert_exceptions', 'plain': 'plain_tex_en_us'}[o['k']]}"
                      f"({show(o['t'])!r})" for o in e["ops"])
    return (f"{calls}; calculate_indices({show(w['w'])!r}) = {w.get('got', w.get('panic'))}, "
            f"specification (TeX) says {v.get('want')}")


def judge_all(ctx, part, bad):
    reported = 0
    for e, v in bad:
        key = v["key"]
        if key == "malformed-event":
            raise ToolError(f"{part}: the generator left the domain of the specification: {json.dumps(e)[:600]}")
        desc = f"{part}: {describe(e, v)}"
        names = key.split("+")
        if key not in ("mismatch", "panic") and all(ctx.finding_for(k) for k in names):
            for k in names:
                ctx.known_finding(k)
                ctx.cov["parts"].setdefault("known_finding_examples", {}).setdefault(k, desc)
        else:
            reported += 1
            if reported <= 6:
                ev = dict(e)
                if v.get("wi", 0) > 0:  # keep the replay small: only the offending word
                    ev["words"] = [e["words"][v["wi"] - 1]]
                    v = dict(v, wi=1)
                ctx.violation(f"{desc} [{key}]", {"part": part, "event": ev, "verdict": v})


def bind(ctx, name, args, plain, parts=None, sample=True):
    out = ctx.work / f"{name}.ndjson"
    vh(["c13-gen"] + args + [f"out={out}"])
    stats, bad = validate(ctx, name, out, plain, parts)
    accepted = stats["words"] - stats["bad"]
    ctx.add_bound(name, stats["words"], stats["nontrivial"], hyphenators=stats["events"],
                  words_outside_property_skipped=stats["skipped"], exception_hits=stats["exchits"],
                  accepted_by_strict_spec=accepted)
    judge_all(ctx, name, bad)
    if sample:
        with open(out) as f:
            e = json.loads(f.readline())
        w = e["words"][0] if e["words"] else {}
        ctx.sample({"part": name, "calls": [[o["k"], show(o["t"])] for o in e["ops"]],
                    "word": show(w.get("w", [])), "indices": w.get("got")})
    log(f"[bind] {name}: {stats}")
    return stats


def run(ctx):
    q = ctx.quick
    build_harness()
    ctx.cov["rule"] = (
        "one case = one (Hyphenator configuration, word) pair: the word's index list returned by the real "
        "calculate_indices is compared by TLC with Liang.Model (strict TeX semantics) evaluated on the exact API "
        "arguments. random: generated pattern sets over 3 letters (overlapping, nested, anchored, up to 38 letters, "
        "digits 0..9), exception lists, arbitrary call order, ASCII and a multi-byte \\lccode-style table, words of "
        "1..40 letters in mixed case, deduplicated per configuration; small: every pattern over {a,b} in the stated "
        "bounds x every word up to 5 letters; plain: plain TeX's pattern file on words of the repository's prose and "
        "pseudo-words. non-trivial = (counted by TLC) at least one pattern with a non-zero digit matches the word or "
        "the word is in the exception list. Words containing a non-letter are outside the property: skipped and counted."
    )
    run_models(ctx)
    plain, stub, pats, excs = plain_files(ctx)
    # ---------------- generated pattern sets ------------------------------------------------
    bind(ctx, "random", ["mode=random", f"seed={ctx.seed}", f"sets={2400 if q else 40000}", "words=10"], stub)
    # ---------------- exhaustive small domain ------------------------------------------------
    if q:
        bind(ctx, "small", ["mode=small", f"seed={ctx.seed}", "maxlen=2", "wlen=5", "digits=12"], stub)
    else:
        bind(ctx, "small", ["mode=small", f"seed={ctx.seed}", "maxlen=2", "wlen=6", "digits=123"], stub)
        bind(ctx, "small3", ["mode=small", f"seed={ctx.seed}", "maxlen=3", "wlen=5", "digits=12"], stub)
        bind(ctx, "smallpairs", ["mode=small", f"seed={ctx.seed}", "maxlen=2", "wlen=5", "digits=12", "pairs=6"], stub)
    # ---------------- plain TeX's patterns ---------------------------------------------------
    wf, nw = plain_words(ctx, pats, excs, 500 if q else 6000)
    bind(ctx, "plain", ["mode=plain", f"words={wf}", "chunk=20"], plain, parts=(6 if q else 14))
    ctx.cov["parts"]["plain"]["patterns_in_file"] = len(pats)
    ctx.cov["parts"]["plain"]["exceptions_in_file"] = len(excs)
    ctx.assumptions += [
        "patterns are well formed ([.](digit? letter)+ digit? [.], one digit per gap) with pairwise distinct "
        "(anchors, letters) keys: TeX itself rejects 'Duplicate pattern' (tex.web 963) and reads a digit after a "
        "digit as a letter (962); the crate documents no behaviour for these and they are not generated",
        "pattern and exception letters are lower-case letters of the map: load_patterns / insert_exception take no "
        "LowerCaser (TeX applies \\lccode while reading \\patterns and \\hyphenation, tex.web 937/962 -- that would be "
        "the job of texlang-texttransform, whose HyphenationComponent keeps its Hyphenator private and is therefore "
        "not observable); words are in any case",
        "words containing a character the lower-case map rejects are outside the property (letters-only words): "
        "skipped and counted (words_outside_property_skipped)",
        "hyphen-min trimming (\\lefthyphenmin/\\righthyphenmin > 1) is C14's; calculate_indices applies none beyond "
        "'not before the first letter, not after the last' (l_hyf, r_hyf >= 1 in tex.web 923)",
        "texlang-texttransform's \\patterns / \\hyphenation only forward text to the Hyphenator bound here and expose "
        "no way to query it, so they are covered by reading only (see notes/C13.md)",
    ]


# --------------------------------------------------------------------------------------
def selftest(ctx):
    """Demonstrate the binding: corrupted recordings must be rejected, every spec mutant refuted."""
    build_harness()
    n = run_models(ctx, only_negs=True)
    print(f"selftest: {n} negative-control configurations refuted by TLC")
    plain, stub, pats, excs = plain_files(ctx)
    out = ctx.work / "st.ndjson"
    vh(["c13-gen", "mode=small", f"seed={ctx.seed}", "maxlen=1", "wlen=4", "digits=12", f"out={out}"])
    events = read_ndjson(out)
    rnd = random.Random(ctx.seed)
    # 1. drop one returned index / add one / 2. change one pattern digit in the recorded call
    e1 = next(e for e in events if any(w["got"] for w in e["words"]))
    wi = next(i for i, w in enumerate(e1["words"]) if w["got"])
    e1 = json.loads(json.dumps(e1))
    e1["words"][wi]["got"] = e1["words"][wi]["got"][1:]
    e2 = json.loads(json.dumps(next(e for e in events if any(len(w["w"]) >= 3 and not w["got"] for w in e["words"]))))
    wj = next(i for i, w in enumerate(e2["words"]) if len(w["w"]) >= 3 and not w["got"])
    e2["words"][wj]["got"] = [1]
    e3 = json.loads(json.dumps(next(e for e in events if 49 in e["ops"][0]["t"] and any(w["got"] for w in e["words"]))))
    e3["ops"][0]["t"] = [50 if c == 49 else c for c in e3["ops"][0]["t"]]
    ok = True
    for label, e in (("index dropped", e1), ("index added", e2), ("pattern digit 1 -> 2 in the recorded call", e3)):
        p = ctx.work / "st1.ndjson"
        p.write_text(json.dumps(e, separators=(",", ":")) + "\n")
        stats, bad = validate(ctx, "selftest", p, stub, parts=1)
        hit = any(v["key"] == "mismatch" for _, v in bad)
        print(f"selftest: {label}: {'rejected' if hit else 'NOT rejected'}")
        ok = ok and hit
    if not ok:
        raise ToolError("selftest failed: a corrupted recording was accepted")


def replay(path):
    r = json.load(open(path))
    print(r.get("desc", ""))
    build_harness()
    p = vh(["c13-gen", "mode=replay", f"file={path}"])
    print(p.stdout.decode())
    return 0
