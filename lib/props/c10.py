"""C10 -- TFM and PL readers are total; PL->TFM output is always a readable TFM.

Specs: TfmHeader (TFtoPL.2014 sections 20-21 as decision table + Knuth's program as a state machine +
the shape of RawFile::deserialize with named deviations), CodecProtocol (call/return protocol of
tfm_to_pl / pl_to_tfm with the round-trip obligation and the serializer contract).
Bindings: F (Trace_TfmHeader: one call event per file) and T (Trace_Codec: runs of the converters on
mutated corpus fonts / property lists)."""
import base64
import concurrent.futures as cf
import json
import re
from pathlib import Path

from vlib import *

LEVEL = "model_checking"

DEVIATIONS = ["PanicShortHeader", "PanicSumOverflowsI16", "NeLimit255", "EmptyRangeSkipsEc"]
NEG_HEADER = ["NoNegativeCheck", "NoEcCheck", "NiMayBeZero", "SumBeforeRange", "SumWraps16",
              "DevPanicShortHeader", "DevPanicSumOverflowsI16", "DevNeLimit255", "DevEmptyRangeSkipsEc"]
NEG_CODEC = ["AllowsJunk", "AllowsEmptyWidthTable"]


def corpus_dir():
    """The corpus lives in the tfm crate the harness is built against (path dependency)."""
    txt = (HARNESS / "Cargo.toml").read_text()
    m = re.search(r'^tfm\s*=\s*\{\s*path\s*=\s*"([^"]+)"', txt, re.M)
    if not m:
        raise ToolError("cannot find the tfm path dependency in harness/Cargo.toml")
    d = Path(m.group(1)) / "corpus"
    if not d.is_dir():
        raise ToolError(f"no corpus directory at {d}")
    return d


# --------------------------------------------------------------------------------------
# keys of panics: (input class, source file, message normal form, source text at the site)
# --------------------------------------------------------------------------------------
def norm_msg(msg):
    m = re.match(r"(not yet implemented: unhandled \w+)", msg)
    if m:
        return m.group(1)
    msg = re.sub(r"\d+", "N", msg)
    return msg[:140]


def panic_key(ev):
    file = ev.get("file", "?")
    rel = file[file.find("crates/"):] if "crates/" in file else re.sub(r"/rustc/[0-9a-f]+/", "rustc/", file)
    code = "?"
    try:
        lines = Path(file).read_text().splitlines()
        code = " ".join(re.sub(r"\s//.*$", "", lines[int(ev.get("line", 0)) - 1]).split())
    except Exception:
        pass
    cls = ev.get("f", "?") + (":output" if ev.get("src") == "output" else "")
    return f"panic:{cls}:{rel}:{norm_msg(ev.get('msg', ''))}:[{code}]"


def crash_key(ev, run):
    """A hard crash of the process (or a hang) is attributed to the call that was pending."""
    f = "?"
    for e in run:
        if e.get("ev") == "call":
            f = e["f"] + (":output" if e.get("src") == "output" else "")
    if ev.get("ev") == "hang":
        return f"hang:{f}"
    if "overflowed its stack" in ev.get("stderr", ""):
        return f"crash:{f}:stack overflow"
    return f"crash:{f}:rc={ev.get('rc')}"


# --------------------------------------------------------------------------------------
# model steps and negative controls (run concurrently with the recorders)
# --------------------------------------------------------------------------------------
def model_jobs(ctx):
    q = ctx.quick
    jobs = []

    def model(name, module, cfg, workers, expect):
        return ("model", name, lambda: tlc_run(module, cfg, workers=workers, work=ctx.work / f"tlc-{name}",
                                                timeout=1500), module, cfg, expect)

    machine = ["S20_First", "S20_Lf", "S20_Rest", "S21_Eval", "S21_Tests"]
    jobs.append(model("TfmHeader.table", "MC_TfmHeader", "MC_TfmHeader.cfg" if q else "MC_TfmHeader_thorough.cfg",
                      4 if q else 8, machine))
    if not q:
        jobs.append(model("TfmHeader.table3", "MC_TfmHeader", "MC_TfmHeader_three.cfg", 6, machine))
    codec = ["CallTfmToPl", "RetTfmToPl", "CallPlToTfm", "RetPlToTfm"]
    jobs.append(model("CodecProtocol.strict", "MC_CodecProtocol", "MC_CodecProtocol.cfg", 2, codec))
    if not q:
        jobs.append(model("CodecProtocol.deviations", "MC_CodecProtocol", "MC_CodecProtocol_dev.cfg", 2, codec))
    # (the quick tier runs the seeded-bug controls; the four "today's deviation" controls, which are the
    # design-level reproductions of the recorded findings, run in the thorough tier and in --selftest)
    for bug in (NEG_HEADER[:5] if q else NEG_HEADER):
        jobs.append(("neg", f"TfmHeader.{bug}",
                     (lambda b=bug: tlc_run("MC_TfmHeader", f"NEG_TfmHeader_{b}.cfg", workers=2, coverage=False,
                                            work=ctx.work / f"neg-{b}", timeout=900)), "MC_TfmHeader", bug, None))
    for bug in NEG_CODEC:
        jobs.append(("neg", f"CodecProtocol.{bug}",
                     (lambda b=bug: tlc_run("MC_CodecProtocol", f"NEG_CodecProtocol_{b}.cfg", workers=2,
                                            coverage=False, work=ctx.work / f"neg-{b}", timeout=900)),
                     "MC_CodecProtocol", bug, None))
    return jobs


def finish_models(ctx, futs):
    refuted = 0
    for (kind, name, _fn, module, cfg, expect), fut in futs:
        res = fut.result()
        if kind == "model":
            if res.violated:
                log(res.out[-5000:])
                raise ToolError(f"design-level error: TLC reports {res.violated} in {module}/{cfg} "
                                f"(the specification itself is inconsistent; not a verdict about the code)")
            if not res.ok:
                log(res.out[-5000:])
                raise ToolError(f"TLC did not complete on {module}/{cfg}")
            for a in expect:
                if res.actions.get(a, 0) == 0:
                    raise ToolError(f"vacuous model: action {a} never taken in {module}/{cfg} ({res.actions})")
            ctx.add_model(name, res)
            log(f"[tlc] {name}: {res.distinct} distinct / {res.generated} generated in {res.wall:.1f}s")
        else:
            if not res.violated:
                log(res.out[-3000:])
                raise ToolError(f"negative control not refuted: {module} / {cfg}")
            refuted += 1
            ctx.cov["parts"].setdefault("negative_controls", {})[name] = str(res.violated)
    ctx.cov["parts"]["negative_controls_refuted"] = refuted


# --------------------------------------------------------------------------------------
# binding F: header call events
# --------------------------------------------------------------------------------------
def file_of_event(e):
    """A file with the recorded first bytes and length (what the header verdict depends on)."""
    b = bytes(e["b"])
    return b + bytes(max(0, e["len"] - len(b)))


def judge_header(ctx, bad, part="header"):
    seen = {}
    for e, v in bad:
        key = v.get("key")
        rep = {"part": part, "event": e, "verdict": v,
               "input_b64": base64.b64encode(file_of_event(e)).decode() if e["len"] <= 1 << 16 else None}
        if key == "deviation":
            for d in v["devs"]:
                k = f"dev:{d}"
                n = seen.get(k, 0)
                seen[k] = n + 1
                if ctx.finding_for(k):
                    ctx.known_finding(k)
                    if n == 0:
                        ctx.cov["parts"].setdefault("first_case_of_finding", {})[k] = {
                            "len": e["len"], "b": e["b"], "got": e["kind"], "want": v.get("want")}
                elif n < 3:
                    ctx.violation(f"tfm_to_pl on a {e['len']}-byte file with preamble {e['b']}: got {e['kind']} "
                                  f"({e.get('msg')!r}), TFtoPL sections 20-21 say {v.get('want')}; the outcome is what "
                                  f"the deviation {d} of the reader produces, and no open finding records it", rep)
        elif e["kind"] == "panic" and key == "mismatch":
            # a panic that the preamble does not explain (the reader got past sections 20-21)
            k = panic_key(dict(e, f="tfm_to_pl"))
            n = seen.get(k, 0)
            seen[k] = n + 1
            if ctx.finding_for(k):
                ctx.known_finding(k)
            elif n < 3:
                ctx.violation(f"tfm_to_pl panicked at {e.get('file')}:{e.get('line')}: {e.get('msg')} on a "
                              f"{e['len']}-byte file with preamble {e['b']} (specification wants {v.get('want')})  "
                              f"key={k}", dict(rep, key=k))
        else:
            n = seen.get(key, 0)
            seen[key] = n + 1
            if n < 4:
                ctx.violation(f"tfm_to_pl on a {e['len']}-byte file with preamble {e['b']}: got {e['kind']} "
                              f"({e.get('msg')!r}, junk={e.get('junk')}); specification ({key}) wants {v.get('want')!r}",
                              rep)


def bind_header(ctx, corpus):
    """One recorder run per base file (keeps every event file below ~200 MB in the thorough tier)."""
    nbases = int(vh(["c10-header", f"corpus={corpus}", "bases=1"]).stdout.decode().strip())
    total = 0
    kinds = {}
    distinct = 0
    sample = None
    for base in (["all"] if ctx.quick else list(range(nbases)) + ["pairs"]):
        ev = ctx.work / f"header-{base}.ndjson"
        vh(["c10-header", f"corpus={corpus}", f"seed={ctx.seed}", f"tier={ctx.tier}", f"out={ev}"]
           + ([] if base == "all" else [f"base={base}"]), timeout=1200)
        n, bad = validate_calls(ctx, "Trace_TfmHeader", "Trace_TfmHeader.cfg", ev, timeout=1500,
                                parts=8 if ctx.quick else None)
        seen = set()
        with open(ev) as f:
            for i, line in enumerate(f):
                e = json.loads(line)
                kinds[e["kind"]] = kinds.get(e["kind"], 0) + 1
                seen.add((e["len"], tuple(e["b"])))
                if base in ("pairs", "all") and i == 321:
                    sample = e
        distinct += len(seen)
        total += n
        judge_header(ctx, bad)
        ev.unlink()
        for c in ctx.work.glob(f"header-{base}-c-*.ndjson"):
            c.unlink()
    ctx.add_bound("TfmHeader.calls", total, distinct, outcome_kinds=kinds, base_files=nbases)
    if sample:
        ctx.sample({"header_event": sample})
    return total


# --------------------------------------------------------------------------------------
# binding T: converter runs
# --------------------------------------------------------------------------------------
def pipe_args(ctx, corpus, scale):
    return ["c10-pipe", f"corpus={corpus}", f"seed={ctx.seed}", f"tier={ctx.tier}", f"scale={scale}"]


def run_shard(ctx, corpus, scale, shard, nshards, timeout_ms):
    """Run one shard of the job plan; a hang (rc 3) or a hard crash of the process is attributed to
    the job whose call was flushed last, recorded as an event, and the shard resumes behind it."""
    parts = []
    start = 0
    for attempt in range(200):
        out = ctx.work / f"pipe-{shard:02d}-{attempt:03d}.ndjson"
        p = vh(pipe_args(ctx, corpus, scale) + [f"shard={shard}", f"nshards={nshards}", f"from={start}",
                                                 f"timeout_ms={timeout_ms}", f"out={out}"],
               check=False, timeout=3000)
        parts.append(out)
        if p.returncode == 0:
            return parts
        last = None
        if out.exists():
            with open(out, "rb") as f:
                for line in f:
                    if line.startswith(b'{"class"') or b'"ev":"reset"' in line:
                        try:
                            e = json.loads(line)
                            if e.get("ev") == "reset":
                                last = e
                        except ValueError:
                            pass
        if last is None:
            raise ToolError(f"harness shard {shard} died (rc={p.returncode}) before starting a job: "
                            f"{p.stderr.decode(errors='replace')[-800:]}")
        if p.returncode != 3:
            # make sure the file ends with a complete line, then record the crash
            data = out.read_bytes()
            if not data.endswith(b"\n"):
                data = data[:data.rfind(b"\n") + 1]
            tail = p.stderr.decode(errors="replace")[-300:]
            data += (json.dumps({"ev": "crash", "job": last["job"], "rc": p.returncode, "stderr": tail}) + "\n").encode()
            out.write_bytes(data)
        start = last["job"] + 1
    raise ToolError(f"harness shard {shard} keeps dying")


def is_reset(line):
    return b'"ev":"reset"' in line


def validate_pipe(ctx, files, max_lines=200000):
    """Cut the recorded runs into chunks at run boundaries (streaming), validate every chunk with
    Trace_Codec, and return (#runs, #events, verdicts) where a verdict is
    (reset event, events of the run, verdict payload, unmatched event)."""
    chunks = []
    nruns = nev = 0
    cur = None
    cur_lines = 0
    total = sum(count_lines(f) for f in files)
    target = max(3000, min(max_lines, total // (8 if ctx.quick else max(1, NCPU - 2)) + 1))

    def close():
        nonlocal cur, cur_lines
        if cur is not None:
            cur.write(b'{"ev":"end"}\n')
            cur.close()
        cur, cur_lines = None, 0

    for f in files:
        with open(f, "rb") as fh:
            for line in fh:
                if not line.strip():
                    continue
                if is_reset(line):
                    nruns += 1
                    if cur is not None and cur_lines >= target:
                        close()
                if cur is None:
                    if not is_reset(line):
                        raise ToolError(f"converter trace {f} does not start with a reset event")
                    p = ctx.work / f"codec-{len(chunks):03d}.ndjson"
                    chunks.append(p)
                    cur = open(p, "wb")
                cur.write(line)
                cur_lines += 1
                nev += 1
        close()  # a part file always ends a run (crash / hang events are appended to it)
    if not chunks:
        raise ToolError("no converter runs recorded")
    vs = tlc_validate(ctx, "Trace_Codec", "Trace_Codec.cfg", chunks, timeout=2400)
    out = []
    for p, v in zip(chunks, vs):
        if not v.accepted:
            raise ToolError(f"trace validation stopped early in {p} at line {v.matched + 1}: {v.out[-2000:]}")
        if not v.verdicts:
            continue
        lines = p.read_bytes().splitlines()
        starts = [i for i, ln in enumerate(lines) if is_reset(ln)]
        bounds = starts + [len(lines) - 1]  # the last line is the end event
        for verdict in v.verdicts:
            gl = verdict["l"] - 1  # 0-based index of the event in the chunk
            if verdict.get("key") == "incomplete":
                gl -= 1  # reported at the boundary that follows the incomplete run
            gl = max(0, min(gl, len(lines) - 2))
            ti = max(i for i, st in enumerate(starts) if st <= gl)
            run = [json.loads(x) for x in lines[bounds[ti]:bounds[ti + 1]]]
            out.append((run[0], run, verdict, json.loads(lines[gl])))
    return nruns, nev, out


def materialise(ctx, corpus, scale, job, dest):
    """Regenerate the exact input of a job (bytes of the font / text of the property list)."""
    vh(pipe_args(ctx, corpus, scale) + [f"only={job}", f"dump={dest}", f"out={ctx.work / 'one.ndjson'}",
                                         "timeout_ms=600000"], check=False, timeout=900)
    try:
        return Path(dest).read_bytes()
    except OSError:
        return None


def judge_pipe(ctx, corpus, scale, verdicts):
    seen = {}
    for reset, run, v, ev in verdicts:
        key = v.get("key")
        if key == "deviation":
            keys = [f"dev:{d}" for d in v["devs"]]
            desc = (f"tfm_to_pl returned {v.get('got')} where TFtoPL sections 20-21 say {v.get('want')}"
                    + (" -- on the output of pl_to_tfm" if v.get("roundtrip") else ""))
        elif key == "panic" or (ev.get("ev") == "panic"):
            keys = [panic_key(ev)]
            desc = f"{ev.get('f')} panicked at {ev.get('file')}:{ev.get('line')}: {ev.get('msg')}"
        elif ev.get("ev") in ("crash", "hang"):
            keys = [crash_key(ev, run)]
            desc = f"the process running the converters {'hung' if ev['ev'] == 'hang' else 'died'}: {json.dumps(ev)[:300]}"
        else:
            keys = [None]
            desc = f"converter run rejected by CodecProtocol ({key}): {json.dumps(v)}; event {json.dumps(ev)[:300]}"
        for k in keys:
            tag = k or key
            n = seen.get(tag, 0)
            seen[tag] = n + 1
            if k and ctx.finding_for(k):
                ctx.known_finding(k)
                if n == 0:
                    ctx.cov["parts"].setdefault("first_case_of_finding", {})[k] = {
                        "job": reset.get("job"), "src": reset.get("src"), "class": reset.get("class")}
                continue
            if n >= 3:
                continue
            data = materialise(ctx, corpus, scale, reset["job"], ctx.work / "input.bin")
            rep = {"part": "pipe", "tier": ctx.tier, "seed": ctx.seed, "scale": scale, "job": reset.get("job"),
                   "reset": reset, "events": run[:50], "verdict": v, "unmatched": ev, "key": k,
                   "input_kind": reset.get("kind"),
                   "input_b64": base64.b64encode(data).decode() if data is not None and len(data) <= 1 << 20 else None}
            ctx.violation(f"{desc}  [input: {reset.get('src')} / {reset.get('class')} / job {reset.get('job')}]"
                          + (f"  key={k}" if k else ""), rep)
    return seen


def pipe_scale(ctx):
    return float(os.environ.get("C10_SCALE", "0.1" if ctx.quick else "1.0"))


def record_pipe(ctx, corpus, ex):
    """Start the recorder shards (they run while the header events are being validated)."""
    scale = pipe_scale(ctx)
    nshards = 6 if ctx.quick else 12
    return [ex.submit(run_shard, ctx, corpus, scale, s, nshards, 300000) for s in range(nshards)]


def bind_pipe(ctx, corpus, shard_futs):
    scale = pipe_scale(ctx)
    files = [p for f in shard_futs for p in f.result()]
    log(f"[c10] converter runs recorded {time.time() - ctx.t0:.1f}s after start")
    nruns, nev, verdicts = validate_pipe(ctx, files)
    log(f"[c10] converter runs validated {time.time() - ctx.t0:.1f}s after start")
    # accounting
    classes, calls = {}, {"tfm_to_pl": 0, "pl_to_tfm": 0, "tfm_to_pl(output)": 0}
    outcomes = {}
    mutated = 0
    sample = None
    for f in files:
        with open(f) as fh:
            for line in fh:
                e = json.loads(line)
                if e["ev"] == "reset":
                    c = f"{e['kind']}:{e['class']}"
                    classes[c] = classes.get(c, 0) + 1
                    mutated += e["class"] != "identity"
                elif e["ev"] == "call":
                    k = "tfm_to_pl(output)" if e.get("src") == "output" else e["f"]
                    calls[k] += 1
                    if sample is None and e.get("src") == "output":
                        sample = e
                elif e["ev"] == "ret" and e["f"] == "tfm_to_pl":
                    outcomes[e["out"]] = outcomes.get(e["out"], 0) + 1
                elif e["ev"] in ("panic", "hang", "crash"):
                    outcomes[e["ev"]] = outcomes.get(e["ev"], 0) + 1
    ctx.add_bound("CodecProtocol.runs", nruns, mutated, events=nev, calls=calls, input_classes=classes,
                  tfm_to_pl_outcomes=outcomes)
    if sample:
        ctx.sample({"codec_event": sample})
    judge_pipe(ctx, corpus, scale, verdicts)
    return nruns


# --------------------------------------------------------------------------------------
def run(ctx):
    build_harness()
    corpus = corpus_dir()
    ctx.cov["rule"] = (
        "TfmHeader.calls: one event per file given to the real tfm::algorithms::tfm_to_pl, decided by the TLA+ "
        "decision table (kind, TFtoPL message text, junk warning); non-trivial = distinct (length, first 24 bytes). "
        "CodecProtocol.runs: one run per generated input through tfm_to_pl / pl_to_tfm + read-back, validated as a "
        "behaviour of CodecProtocol by TLC; non-trivial = runs whose input is a mutation or a synthesised list "
        "(not a corpus file as is)."
    )
    jobs = model_jobs(ctx)
    with cf.ThreadPoolExecutor(max_workers=12) as rec, cf.ThreadPoolExecutor(max_workers=3 if ctx.quick else 5) as ex:
        shard_futs = record_pipe(ctx, corpus, rec)
        futs = [(j, ex.submit(j[2])) for j in jobs]
        t = time.time()
        bind_header(ctx, corpus)
        log(f"[c10] header binding {time.time() - t:.1f}s")
        t = time.time()
        bind_pipe(ctx, corpus, shard_futs)
        log(f"[c10] converter binding {time.time() - t:.1f}s more")
        t = time.time()
        finish_models(ctx, futs)
        log(f"[c10] waited {time.time() - t:.1f}s more for the model steps")
    growth_part(ctx)
    ctx.assumptions += [
        "resource growth: 'always returns' is read as 'returns at a cost that does not explode on a small input'; "
        "the probe is the cycle-free family P(16), P(20), P(24) (5..11 KB of property list) and the measure is the "
        "CPU time of the converting thread in clock ticks; 20 ticks (0.2 s) or more for P(24) is the finding "
        "resource:ligkern-compile-exponential (P(30) would need minutes and tens of gigabytes)",
        "TFtoPL's table-size aborts ('The file is bigger than I can handle!', 'The lig/kern program is longer than "
        "I can handle!') are compile-time limits of Knuth's program, not part of the format: tfm_size and lig_size "
        "are taken to be unbounded",
        "declared length lf < 6 (the twelve sizes are not inside the declared file): TFtoPL evaluates memory it "
        "never read, so any section-21 abort is accepted there (never Ok, never a panic); the junk warning and the "
        "message text are not compared in that region, nor the message for the empty file",
        "beyond the preamble the specification decides the outcome *kind* of tfm_to_pl (TFtoPL aborts nowhere after "
        "section 21) and the readability of pl_to_tfm's output, not the content of the property list / font "
        "(codec fidelity is C11): the second half is generator-driven exploration with a protocol-level oracle",
        "property lists are UTF-8 text (the pltotf tool reads its input with read_to_string)",
        "a call that needs more than 300 s is a hang; slow (super-linear) warning rendering below that is not judged. "
        "pl_to_tfm is quadratic in the number of warnings (a LIGTABLE of 70 000 rows, 37 000 'table too long' "
        "warnings, needs 240 s on an idle machine): the biggest generated table has 36 000 rows so that the verdict "
        "does not depend on the load of the machine",
        "panic keys: (function and whether it reads back serializer output, source file, message with numbers "
        "replaced by N, source text of the line the panic points at) -- no line numbers",
    ]


def growth_part(ctx):
    out = ctx.work / "growth.ndjson"
    vh(["c10-growth", f"out={out}"], timeout=900)
    ev = {e["n"]: e for e in read_ndjson(out)}
    ctx.add_bound("CodecProtocol.resource_growth", len(ev), len(ev),
                  cpu_ticks={str(n): e["cpu_ticks"] for n, e in sorted(ev.items())})
    for n, e in sorted(ev.items()):
        if not e["ok"]:
            ctx.violation(f"pl_to_tfm panicked on the cycle-free family P({n})", e)
    if ev[24]["cpu_ticks"] >= 20:
        ctx.judge("resource:ligkern-compile-exponential",
                  f"pl_to_tfm needs {ev[24]['cpu_ticks']} clock ticks of CPU time for the {ev[24]['pl_len']}-byte "
                  f"property list P(24) ({ev[20]['cpu_ticks']} for P(20), {ev[16]['cpu_ticks']} for P(16)): the cost "
                  f"quadruples with every two characters, the conversion of P(30) does not return in practice",
                  {"part": "growth", "events": [ev[n] for n in sorted(ev)]})


# --------------------------------------------------------------------------------------
def selftest(ctx):
    """Demonstrate that the bindings reject what they must and that every seeded spec mutant is refuted."""
    build_harness()
    corpus = corpus_dir()
    # 1. negative controls
    for bug in NEG_HEADER:
        tlc_expect_refuted("MC_TfmHeader", f"NEG_TfmHeader_{bug}.cfg", bug, workers=2)
    for bug in NEG_CODEC:
        tlc_expect_refuted("MC_CodecProtocol", f"NEG_CodecProtocol_{bug}.cfg", bug, workers=2)
    log(f"[selftest] {len(NEG_HEADER) + len(NEG_CODEC)} spec mutants refuted")
    # 2. a corrupted field of a recorded header event is rejected
    ev = ctx.work / "header.ndjson"
    vh(["c10-header", f"corpus={corpus}", f"seed={ctx.seed}", "tier=quick", "per_word=5", "pairs=50", f"out={ev}"])
    lines = ev.read_text().splitlines()
    idx = next(i for i, l in enumerate(lines) if json.loads(l)["kind"] == "InvalidCharacterRange")
    e = json.loads(lines[idx])
    e["kind"] = "InconsistentSubFileSizes"
    e["msg"] = "Subfile sizes don't add up to the stated total!"
    idx2 = next(i for i, l in enumerate(lines) if json.loads(l)["kind"] == "HeaderLengthIsTooSmall")
    e2 = json.loads(lines[idx2])
    e2["msg"] = "The header length is only 7!"
    lines[idx] = json.dumps(e)
    lines[idx2] = json.dumps(e2)
    ev.write_text("\n".join(lines) + "\n")
    n, bad = validate_calls(ctx, "Trace_TfmHeader", "Trace_TfmHeader.cfg", ev)
    got = {(json.dumps(b[0], sort_keys=True), b[1]["key"]) for b in bad}
    if (json.dumps(e, sort_keys=True), "mismatch") not in got or (json.dumps(e2, sort_keys=True), "message") not in got:
        raise ToolError("selftest: corrupted header events were not rejected")
    log("[selftest] corrupted kind and corrupted message text rejected by Trace_TfmHeader")
    # 3. a dropped return event / a changed read-back is rejected
    tr = ctx.work / "t.ndjson"
    hdr = [0, 12, 0, 2, 0, 1, 0, 0, 0, 1, 0, 1, 0, 1, 0, 1, 0, 0, 0, 0, 0, 0, 0, 0]
    good = [
        {"ev": "reset", "job": 0},
        {"ev": "call", "f": "pl_to_tfm"},
        {"ev": "ret", "f": "pl_to_tfm", "len": 48, "hdr": hdr},
        {"ev": "call", "f": "tfm_to_pl", "len": 48, "hdr": hdr, "src": "output"},
        {"ev": "ret", "f": "tfm_to_pl", "out": "Ok", "junk": False},
    ]
    dropped = [good[0], good[1], good[2], good[3]]
    skipped = [good[0], good[1], good[2]]
    err = [dict(x) for x in good]
    err[4] = {"ev": "ret", "f": "tfm_to_pl", "out": "IncompleteSubFiles", "junk": False}
    pan = [good[0], good[1], {"ev": "panic", "f": "pl_to_tfm", "msg": "x", "file": "y", "line": 1}]
    seq = good + dropped + skipped + err + pan + good + [{"ev": "end"}]
    tr.write_text("".join(json.dumps(x) + "\n" for x in seq))
    v = tlc_validate(ctx, "Trace_Codec", "Trace_Codec.cfg", [tr])[0]
    keys = sorted(x["key"] for x in v.verdicts)
    if not v.accepted or keys != ["incomplete", "incomplete", "outcome", "panic"]:
        raise ToolError(f"selftest: Trace_Codec verdicts {keys}")
    log("[selftest] dropped return, missing read-back, error on read-back and panic rejected by Trace_Codec; "
        "the two intact runs accepted")
    ctx.cov["rule"] = "selftest"
    ctx.add_bound("selftest", 6, 6)


# --------------------------------------------------------------------------------------
def replay(path):
    """Re-run the recorded input through the real code and the trace specification."""
    r = json.load(open(path))

    class Scratch:  # (a Ctx would clear the replay directory it is asked to replay from)
        work = VERIF / "work" / f"C10-replay-{os.getpid()}"
    ctx = Scratch()
    ctx.work.mkdir(parents=True, exist_ok=True)
    try:
        build_harness()
        corpus = corpus_dir()
        print(json.dumps({k: r[k] for k in r if k not in ("input_b64", "events")}, indent=1)[:3000])
        if r.get("part") == "pipe":
            tier = r.get("tier", "quick")
            out = ctx.work / "one.ndjson"
            vh(["c10-pipe", f"corpus={corpus}", f"seed={r['seed']}", f"tier={tier}", f"scale={r['scale']}",
                f"only={r['job']}", f"out={out}", "timeout_ms=600000"], check=False, timeout=900)
            text = out.read_text() + '{"ev":"end"}\n'
            out.write_text(text)
            print(text[:3000])
            v = tlc_validate(ctx, "Trace_Codec", "Trace_Codec.cfg", [out])[0]
            print("verdicts:", json.dumps(v.verdicts))
            return 1 if v.verdicts else 0
        e = r["event"]
        data = base64.b64decode(r["input_b64"]) if r.get("input_b64") else file_of_event(e)
        f = ctx.work / "in.tfm"
        f.write_bytes(data)
        out = ctx.work / "one.ndjson"
        vh(["c10-header", f"corpus={corpus}", f"file={f}", f"out={out}"], timeout=300)
        print(out.read_text()[:2000])
        n, bad = validate_calls(ctx, "Trace_TfmHeader", "Trace_TfmHeader.cfg", out)
        print("verdicts:", json.dumps([b[1] for b in bad]))
        return 1 if bad else 0
    finally:
        shutil.rmtree(ctx.work, ignore_errors=True)
