"""Whole-program binding of the composed model TexVM.tla (shared by C01, C02 and C07).

Programs over the whole primitive set (generated at token level by harness/src/tv.rs in four profiles:
general, scoping-heavy, macro-heavy, conditional-heavy; one in five damaged at token level) are run on the
real VM; TLC runs the executable model on the same token list and compares the delivered output, the point
of the first error and the final registers (Trace_TexVM.tla, binding F)."""
from vlib import *

ASSUMPTIONS = [
    "TexVM: the source text of every generated program is read by the specification of the lexer (TexLexer.tla) "
    "under the prelude's category codes; it must lex to exactly the token list the model runs (verdict "
    "source-does-not-lex-to-the-program otherwise: a defect of the harness's renderer, reported like a violation)",
    "TexVM: programs are one line under plain category codes and \\endlinechar=-1; token lists that no source "
    "text produces (space token after a control word or another space, at the start or the end of the line) "
    "are dropped before running",
    "TexVM: where TeX recovers from an error and carries on the model stops; the VM's output is compared up to "
    "its first reported error, which must lie exactly where the model stops",
    "TexVM: runs that leave the modelled subset are counted, not judged (keys skip-*: values beyond 10^8, "
    "registers other than \\count0..3, \\chardef beyond 255, \\long/\\outer, a call whose prefix does not match, "
    "an unmatched } as or in an argument or in a parameter text, \\or inside the skipped branch of a binary "
    "conditional, and the recorded findings gdef-ignores-negative-globaldefs (C01) and "
    "noexpand-lost-under-expandafter (C07), which their own checks decide)",
    "TexVM: where texlang knowingly differs from TeX outside the listed properties the model takes no side and "
    "the run is counted as outside the model: `\\let\\a=\\undefined` (TeX: \\a becomes undefined; texlang: no-op), a "
    "# that reaches execution (TeX: error; texlang: typeset), a blank or \\relax between `\\toks n=` and its brace, "
    "two or more spaces in front of the target of a definition",
]


# C07 decides its own findings on whole programs: TeX's side is taken (cfg with "DecideC07"), and a run the strict
# model rejects is a KNOWN-FINDING only if the model with the recorded deviation predicts exactly what the VM did
C07_CFG = "Trace_TexVM_C07.cfg"
C07_DEVS = {"no-relax-before-early-else": "Trace_TexVM_C07_dev1.cfg",
            "let-to-undefined-is-no-op": "Trace_TexVM_C07_dev2.cfg"}


def texvm_part(ctx, n, seed_offset, name="TexVM.whole_programs", cut=False, cfg="Trace_TexVM.cfg", devs=None):
    """cut=True: every program is written as two lines; the first is run to the end of its input, the VM is
    serialised and deserialised (JSON / MessagePack / bincode / not at all, rotating), the second line runs on the
    result; the model runs the first part, then the second part from the state that is left."""
    ev = ctx.work / ("texvm-cut.ndjson" if cut else "texvm.ndjson")
    vh(["tv-events", f"seed={ctx.seed * 7919 + seed_offset}", f"n={n}", f"out={ev}"] + (["cut=1"] if cut else []))
    nev, bad = validate_calls(ctx, "Trace_TexVM", cfg, ev, parts=max(1, min(NCPU - 2, n // 600 + 1)))

    def desc(e, v):
        def show(cs):
            return "".join(chr(c) if c > 0 else f"<{c}>" for c in cs)
        w = v.get("want", {})
        return (f"whole program ({v['key']}) {e['src']!r}: VM delivered {show(e['out'])!r} errat={e['errat']} "
                f"fatal={e['fatal']} finals={e['finals']}; TexVM says {show(w.get('out', []))!r} "
                f"err={w.get('err')!r} registers={w.get('cnt')}")
    nskip = judge_calls(ctx, bad, "Trace_TexVM", devs or {}, desc)
    errs = sum(1 for ln in open(ev) if '"fatal":1' in ln or '"errat":-1' not in ln)
    extra = {}
    if cut:
        extra["resumed_after_the_checkpoint"] = sum(1 for ln in open(ev) if '"resumed":1' in ln)
    ctx.add_bound(name, nev - nskip, nev - nskip, skipped_outside_model=nskip, runs_with_an_error=errs, **extra)
    for a in ASSUMPTIONS:
        if a not in ctx.assumptions:
            ctx.assumptions.append(a)
    return nev - nskip


def texvm_source_part(ctx, n, seed_offset, name="TexVM.programs_read_from_their_characters"):
    """The lexer in the loop: programs are written as characters, change category codes and \\endlinechar on the
    way (locally, globally, inside groups, right in front of the character concerned) and use the characters
    afterwards; the model reads the file itself - TexLexer.tla stepped one token at a time under the codes of the
    moment, re-reading the unread rest of the file whenever they change - and must deliver what the VM delivers."""
    ev = ctx.work / "texvm-src.ndjson"
    vh(["tv-src", f"seed={ctx.seed * 104729 + seed_offset}", f"n={n}", f"out={ev}"])
    nev, bad = validate_calls(ctx, "Trace_TexVM", "Trace_TexVM.cfg", ev, parts=max(1, min(NCPU - 2, n // 300 + 1)))

    def desc(e, v):
        def show(cs):
            return "".join(chr(c) if c > 0 else f"<{c}>" for c in cs)
        w = v.get("want", {})
        return (f"program read from its characters ({v['key']}) {e['src']!r}: VM delivered {show(e['out'])!r} "
                f"errat={e['errat']} fatal={e['fatal']} finals={e['finals']}; TexVM (lexer in the loop) says "
                f"{show(w.get('out', []))!r} err={w.get('err')!r} registers={w.get('cnt')}")
    nskip = judge_calls(ctx, bad, "Trace_TexVM", {}, desc)
    clean = sum(1 for ln in open(ev) if '"fatal":0' in ln and '"errat":-1' in ln)
    ctx.add_bound(name, nev - nskip, nev - nskip, skipped_outside_model=nskip, runs_without_error=clean)
    a = ("TexVM (lexer in the loop): category codes of | * [ ] % ~ ! < change (all codes but letters' and digits' "
         "own characters are left alone, so a character token is a digit or keyword letter iff its code says so); "
         "\\endlinechar is -1, 13, 32, 37 or a special character; a name outside the model's vocabulary is an "
         "undefined control sequence; an invalid character (category 15) swallowed by a scan is outside the model")
    if a not in ctx.assumptions:
        ctx.assumptions.append(a)
    return nev - nskip


def texvm_source_selftest(ctx):
    ev = ctx.work / "st-texvm-src.ndjson"
    vh(["tv-src", "seed=11", "n=300", f"out={ev}"])

    def corrupt(e):
        if e["fatal"] == 0 and e["errat"] == -1 and len(e["out"]) >= 2:
            e["out"] = e["out"][:-1]
            return e
        return None
    selftest_calls(ctx, "source-output-corrupted", "Trace_TexVM", "Trace_TexVM.cfg", ev, corrupt)


def texvm_selftest(ctx):
    ev = ctx.work / "st-texvm.ndjson"
    vh(["tv-events", "seed=5", "n=400", f"out={ev}"])

    def corrupt(e):
        if e["fatal"] == 0 and e["errat"] == -1 and len(e["out"]) >= 2:
            e["out"] = e["out"][:-1]
            return e
        return None
    selftest_calls(ctx, "output-corrupted", "Trace_TexVM", "Trace_TexVM.cfg", ev, corrupt)


def texvm_consistency(ctx, which):
    """TLC alone: the composed model agrees with the component specification it subsumes on the component's
    whole (bounded) domain, so verdicts of the two bindings cannot contradict each other."""
    sfx = "" if ctx.quick else "_thorough"
    if which == "cond":
        tlc_model(ctx, "TexVM.agrees_with_TexCond", "MC_TexVM_Cond", f"MC_TexVM_Cond{sfx}.cfg",
                  workers=6 if ctx.quick else 14, coverage=False, timeout=3000)
        tlc_expect_refuted("MC_TexVM_Cond", "NEG_TexVM_Cond_vacuity.cfg", "no well-formed conditional delivers anything", workers=3)
    else:
        tlc_model(ctx, "TexVM.agrees_with_TexMacro", "MC_TexVM_Macro", f"MC_TexVM_Macro{sfx}.cfg",
                  workers=6 if ctx.quick else 14, coverage=False, timeout=3000)
        tlc_expect_refuted("MC_TexVM_Macro", "NEG_TexVM_Macro_vacuity.cfg", "no two-parameter call binds", workers=3)


def repo_root():
    """The repository the harness is built against (harness/Cargo.toml's path dependencies point into it)."""
    import re
    m = re.search(r'path = "([^"]+)/crates/', (VERIF / "harness" / "Cargo.toml").read_text())
    return Path(m.group(1)) if m else Path("/repo")


def texvm_suite(ctx, cfg="Trace_TexVM.cfg", devs=None):
    """The repository's own test inputs as traces: every one-line raw string with a backslash in the test
    modules of texlang, texlang-stdlib and texlang-testing is offered to `vh tv-suite`, which keeps those inside
    the model's vocabulary, runs them on the VM and records them like generated programs."""
    import re
    root = repo_root()
    snips = set()
    files = sorted(list((root / "crates/texlang-stdlib/src").glob("*.rs")) + list((root / "crates/texlang/src").rglob("*.rs"))
                   + list((root / "crates/texlang-testing/src").glob("*.rs")))
    for f in files:
        src = f.read_text(errors="replace")
        for m in re.finditer(r'r#"(.*?)"#|r"([^"]*)"', src, re.S):
            t = m.group(1) if m.group(1) is not None else m.group(2)
            if "\\" in t and "\n" not in t and len(t) < 300 and not re.search(r"\\[^a-zA-Z]", t) \
                    and not re.search(r"[~%^`\"']", t) and all(ord(c) < 127 for c in t):
                snips.add(t)
    if len(snips) < 50:
        raise ToolError(f"only {len(snips)} test snippets found under {root}")
    # the inputs the recorded findings of C07 were reported on (so that each shows in every run)
    snips |= {r"\let\va=\fi \let\va=\vh \iffalse a\va b\fi c", r"\ifnum 1=1\else a\fi b", r"\ifodd 3\fi b",
              r"\iftrue\ifnum 1=1\else a\fi b\fi c", r"\ifcase 0\or b\else c\fi d"}
    inp = ctx.work / "snips.json"
    inp.write_text(json.dumps(sorted(snips)))
    ev = ctx.work / "suite.ndjson"
    vh(["tv-suite", f"in={inp}", f"out={ev}"])
    nev, bad = validate_calls(ctx, "Trace_TexVM", cfg, ev, parts=1)

    def desc(e, v):
        w = v.get("want", {})
        return (f"test input of the repository ({v['key']}) {e['src']!r}: VM delivered {e['out']} errat={e['errat']} "
                f"fatal={e['fatal']} finals={e['finals']}; TexVM says {w.get('out')} err={w.get('err')!r} "
                f"registers={w.get('cnt')}")
    nskip = judge_calls(ctx, bad, "Trace_TexVM", devs or {}, desc)
    ctx.add_bound("TexVM.repository_test_inputs", nev - nskip, nev - nskip, snippets_found=len(snips),
                  skipped_outside_model=nskip)
