SPECIFICATION Spec
CONSTANTS
  Alphabet <- AlphabetQuick
  MaxLen = 3
  Targets <- TargetsQuick
  TexDevs <- NoDevs
  Bug = ""
INVARIANTS LoopInv TopOrderIsHighestNonZero TexBoxLaws TexIsFunction CodeTotalsInv CodeIsTexPlusDeviations DeviationsAreLocal
CHECK_DEADLOCK FALSE
