SPECIFICATION SSpec
CONSTANTS
  Limit = 101
  Deviations = {"ReadOfLastLineClosesStream"}
  Streams = {1, 2}
  RFiles <- TheFiles
INVARIANT StreamsOK
ACTION_CONSTRAINT Emit
VIEW SView
CHECK_DEADLOCK FALSE
