SPECIFICATION Spec
CONSTANTS
  NodeKinds <- KindsAll
  MaxLen = 2
  Configs <- ConfigsQuick
  TexDevs <- NoDevs
  Bug = "PruneAnyKern"
INVARIANTS DropsOnlyDiscardables
CHECK_DEADLOCK FALSE
