SPECIFICATION Spec
CONSTANTS
  Bug = "AfterScoreCountsChar"
  Fix = FALSE
  Sigma = {97}
  PatLens = {1, 2, 3}
  Dg = {9}
  MaxDigits = 2
  WordAlphabet = {97, 98, 65}
  MaxWordLen = 3
  MaxMixedLen = 2
  MaxExcLen = 2
  CodecWordLens = {3, 17, 19}
  NSlices = 1
  Slice = 0
  MaxP = 1
  MaxE = 0
  Deviations = {"ExceptionAsScore67", "LaterPatternReplacesException"}
  PatTexts <- MCPatTexts
  ExcTexts <- MCExcTextsA
  ExcListTexts <- MCExcListsSmall
  Words <- MCWordsCodec
  Lc <- MCLc
INVARIANTS StateIsBuild Refines CodecRoundTrip
CHECK_DEADLOCK FALSE
