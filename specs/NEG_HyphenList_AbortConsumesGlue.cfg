SPECIFICATION Spec
CONSTANTS
  MaxHn = 3
  Bug = ""
  Alphabet <- AlphabetQuick
  MaxLen = 4
  LH = 1
  RH = 1
  Devs <- OnlyAbort
INVARIANTS MachineIsDefinition
CHECK_DEADLOCK FALSE
