SPECIFICATION Spec
CONSTANTS
  N = 3
INVARIANT SomeWellFormed
CHECK_DEADLOCK FALSE
