SPECIFICATION Spec
CONSTANTS
  Bug = ""
  Lo <- LoThorough
  Hi = 6
  MaxN = 7
INVARIANTS GreedyIsOptimal Monotone NextD Least MeetContract Tight
CHECK_DEADLOCK FALSE
