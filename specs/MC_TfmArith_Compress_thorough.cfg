SPECIFICATION Spec
CONSTANTS
  Bug = ""
  Lo <- LoThorough
  Hi = 7
  MaxN = 7
INVARIANTS GreedyIsOptimal Monotone NextD Least MeetContract Tight
CHECK_DEADLOCK FALSE
