SPECIFICATION TSpec
CONSTANTS
  FirstOps = {}
  Followers = {}
  MaxOps = 0
  Bug = ""
POSTCONDITION TraceAccepted
CHECK_DEADLOCK FALSE
