------------------------------ MODULE TexGroups ------------------------------
(***************************************************************************)
(* TeX group scoping at the level of the interpreter (property C01; the    *)
(* Checkpoint action is C08's stuttering obligation).                      *)
(*                                                                         *)
(* The abstract machine is ScopedMap: every assignable quantity of the VM  *)
(* (a \count/\dimen/\skip/\toks register, a macro or \let/\countdef/       *)
(* \chardef target on a control sequence or active character, a \catcode   *)
(* entry, \endlinechar, the current font) is a key; value 0 is the value   *)
(* the quantity had before the program started ("initial": zero, empty,    *)
(* undefined, \nullfont, ...).  The three save mechanisms of texlang -     *)
(* variable save stack (variable.rs), command map (GroupingHashMap with    *)
(* Delete actions for undefined commands) and the one-slot font stack      *)
(* (vm/mod.rs) - are all instances of ScopedMap's implementation layer.    *)
(*                                                                         *)
(* What this module adds is how the *scope* of an assignment is decided:   *)
(*   - the key GD is \globaldefs (abstract values 0,1,2 = 0,+1,-1); it is  *)
(*     assigned, saved and restored like any other quantity, and its       *)
(*     current value overrides the \global prefix (TeX.2021.1211, 1214);   *)
(*   - the \global prefix: in TeX's definition it is part of the one       *)
(*     assignment it prefixes (reference layer: argument `p`); in          *)
(*     prefix.rs it is a sticky bit set by \global (set_scope) and         *)
(*     read-and-reset by the assignment (read_and_reset_global).  The      *)
(*     implementation layer steps that bit; Sticky = FALSE between         *)
(*     operations and ScopeAgree are the refinement obligations.           *)
(***************************************************************************)
EXTENDS ScopedMap

CONSTANTS GD,          \* the key that stands for \globaldefs
          Deviations   \* names of recorded deviations of texlang from TeX to admit ({} = strict)
\* MapKeys (from ScopedMap) = keys kept in the command map whose initial value is "undefined":
\* value 0 means absent and cannot be assigned (TeX has no \undefine)

VARIABLES sticky,      \* prefix::Component.scope = Global ?
          agree        \* history: did the implementation-layer scope equal the reference scope

tvars == <<val, snaps, ival, saves, op, sticky, agree>>

GdOf(x) == IF x = 1 THEN 1 ELSE IF x = 2 THEN -1 ELSE 0

\* How an assignment is spelled: "no" prefix, "global" = \global<assignment>, "gdef" = \gdef
\* (TeX.2021.1218: \gdef is \global\def unless global_defs<0).
Forms == {"no", "global", "gdef"}

\* reference: TeX.2021.1211 "if global_defs<>0 then ..." evaluated before the assignment
RefScope(p) == LET g == GdOf(val[GD]) IN
               IF g > 0 THEN "global"
               ELSE IF g < 0 THEN
                    \* Deviation (known finding C01/gdef-ignores-negative-globaldefs): def.rs makes
                    \* \gdef global unconditionally, also when \globaldefs is negative.
                    IF p = "gdef" /\ "GdefIgnoresNegativeGlobaldefs" \in Deviations
                    THEN "global" ELSE "local"
               ELSE IF p # "no" THEN "global" ELSE "local"

\* implementation: prefix.rs set_scope followed by read_and_reset_global
SetScope(st, p) == IF p # "global" THEN st
                   ELSE IF GdOf(ival[GD]) = 0 THEN TRUE
                   ELSE IF Bug = "StickyIgnoresGlobaldefs" THEN TRUE ELSE FALSE
ReadAndReset(st) == LET g == GdOf(ival[GD]) IN
                    IF g < 0 THEN [scope |-> "local", st |-> st]
                    ELSE IF g = 0 THEN [scope |-> IF st THEN "global" ELSE "local",
                                        st |-> IF Bug = "StickyNotReset" THEN st ELSE FALSE]
                    ELSE [scope |-> "global", st |-> st]

TInit == Init /\ sticky = FALSE /\ agree = TRUE

TBegin == Begin /\ UNCHANGED <<sticky, agree>>
TEnd == End /\ UNCHANGED <<sticky, agree>>
TEndErr == EndErr /\ UNCHANGED <<sticky, agree>>      \* `}` with no group open: error, no change
\* serialise + deserialise the VM: the command map is rebuilt from iter_all (map.rs), variables
\* and their save stack are written out as they are (vm/serde.rs).  A stuttering step of the
\* reference layer.
Checkpoint == /\ UNCHANGED <<val, snaps, sticky, agree>>
              /\ SetImpl(IRebuildKeys(Impl, MapKeys))
              /\ op' = [k |-> "checkpoint", res |-> TRUE]

Assign(k, x, p) ==
  LET r0 == ReadAndReset(SetScope(sticky, p))
      \* def.rs: \gdef calls the scope hook and then overrides the result
      r == IF p = "gdef" /\ ("GdefIgnoresNegativeGlobaldefs" \in Deviations \/ GdOf(ival[GD]) >= 0)
           THEN [scope |-> "global", st |-> r0.st] ELSE r0
  IN
  /\ sticky' = r.st
  /\ agree' = (agree /\ r.scope = RefScope(p))
  /\ IF RefScope(p) = "global"
     THEN /\ val' = [val EXCEPT ![k] = x]
          /\ snaps' = [i \in 1..Depth |-> [snaps[i] EXCEPT ![k] = x]]
     ELSE /\ val' = [val EXCEPT ![k] = x] /\ UNCHANGED snaps
  /\ SetImpl(IF r.scope = "global" THEN IGlobal(Impl, k, x) ELSE ILocal(Impl, k, x))
  /\ op' = [k |-> "assign", key |-> k, v |-> x, g |-> p, res |-> RefScope(p)]

TNext == \/ TBegin \/ TEnd \/ TEndErr \/ Checkpoint
         \/ \E k \in Keys, x \in Vals \cup {None}, p \in Forms :
              /\ (k = GD => x \in {0, 1, 2})
              /\ (k \in MapKeys => x # None)
              /\ Assign(k, x, p)

TSpec == TInit /\ [][TNext]_tvars

ScopeAgree == agree
StickyClear == sticky = FALSE
TView == <<val, snaps, ival, saves, sticky, agree>>
==============================================================================
