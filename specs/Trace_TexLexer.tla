--------------------------- MODULE Trace_TexLexer ---------------------------
(* Binding F for C03: one event per (source text, category-code table,        *)
(* \endlinechar) run through the real Lexer with Tracer positions.            *)
(*   {"lines": [[codes]...], "table": [[ch,cat]...], "elc": n,                *)
(*    "toks": [{"k","cat","ch","name","ln","col","lnok"}...], "panic": ""}    *)
(* Accepted iff toks = Lex(lines, table, elc), every trace reported the text  *)
(* of its own source line (lnok) and nothing panicked.                        *)
EXTENDS TexLexer, TLC, Json, IOUtils
Rec == ndJsonDeserialize(IOEnv.TRACE)
VARIABLE l

Proj(t) == [k |-> t.k, cat |-> t.cat, ch |-> t.ch, name |-> t.name, ln |-> t.ln, col |-> t.col]

\* an event may give the end-line character line by line (it changed while the text was read)
Want(e) == IF "elcs" \in DOMAIN e THEN LexV(e.lines, e.table, e.elcs) ELSE Lex(e.lines, e.table, e.elc)
Judge(e) ==
  IF e.panic # "" THEN "panic"
  ELSE LET want == Want(e)
           got == [i \in 1..Len(e.toks) |-> Proj(e.toks[i])]
       IN IF got # want THEN
               (IF [i \in 1..Len(got) |-> [got[i] EXCEPT !.ln = 0, !.col = 0]] =
                   [i \in 1..Len(want) |-> [want[i] EXCEPT !.ln = 0, !.col = 0]]
                THEN "mismatch-positions" ELSE "mismatch-tokens")
          ELSE IF \E i \in 1..Len(e.toks) : ~e.toks[i].lnok THEN "mismatch-line-text"
          ELSE "ok"

TInit == l = 1
TStep == /\ l <= Len(Rec) /\ l' = l + 1
         /\ LET e == Rec[l] j == Judge(e) IN
            IF j = "ok" THEN TRUE
            ELSE PrintT(<<"VERDICT", ToJson([l |-> l, key |-> j,
                     want |-> IF j = "panic" THEN <<>> ELSE Want(e)])>>)
TSpec == TInit /\ [][TStep]_l
Matched == TLCGet("stats").diameter - 1
TraceAccepted == \/ Matched = Len(Rec)
                 \/ PrintT(<<"MATCHED", Matched>>) /\ FALSE
==============================================================================
