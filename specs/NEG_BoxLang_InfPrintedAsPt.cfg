SPECIFICATION SpecNums
CONSTANTS
  Bug = "InfPrintedAsPt"
  N0 = 0
  N1 = 0
  N2 = 0
  L1 = 0
  L2 = 0
  MaxArgs = 0
  Fns = {}
  Rich = FALSE
  TextLen = 0
  Chars = {}
  IntParts = {0}
  Sample = 1
  HiStep = 1
INVARIANTS InvScanPrint InvUnitsAsInTeX
CHECK_DEADLOCK FALSE
