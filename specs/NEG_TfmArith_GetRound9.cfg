SPECIFICATION Spec
CONSTANTS
  Bug = "GetRound9"
  Blocks = 256
  Run = 128
  IntParts <- IntPartsCore
INVARIANTS RoundTrip MinFixRejected Shape
CHECK_DEADLOCK FALSE
