SPECIFICATION Spec
CONSTANTS
  Threshold = 1
  MaxRedirect = 65535
  MaxHeader = 255
  Deviations = {}
  Bug = "LabelsMerged"
  Mode = "lk"
  NC = 2
  MaxBody = 2
  MaxPrefix = 0
  SkipBytes = {0, 128}
  Variants = {0}
  DimVals = {0, 3}
  MaxW = 2
  MaxE = 2
  MaxH = 1
  DomT = 1
  PadK = 0
  Waive = {}
INVARIANTS Idempotent SameFont SameChains Fits Closed MainLoopSame PlWellFormed
CHECK_DEADLOCK FALSE
