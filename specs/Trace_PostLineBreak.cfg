SPECIFICATION TSpec
CONSTANTS
  NodeKinds <- NoKinds
  MaxLen = 0
  Configs <- NoConfigs
  TexDevs <- NoDevs
  Bug = ""
POSTCONDITION TraceAccepted
CHECK_DEADLOCK FALSE
