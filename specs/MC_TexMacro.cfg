SPECIFICATION Spec
CONSTANTS
  N = 5
  KmpBug = ""
  Deviations = {}
INVARIANT AgreeInv
CHECK_DEADLOCK FALSE
