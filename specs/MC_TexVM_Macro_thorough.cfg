SPECIFICATION Spec
CONSTANTS
  N = 6
INVARIANT Agrees
CHECK_DEADLOCK FALSE
