SPECIFICATION Spec
CONSTANTS
  Sigma = {1, 2}
  MaxP = 4
  MaxT = 8
  KmpBug = "FallbackQ"
INVARIANTS PrefixFnCorrect QInvariant HitCorrect
CHECK_DEADLOCK FALSE
