--------------------------- MODULE Trace_TexArith ---------------------------
(* Binding F for C06.  Every line of the trace is one independent call event *)
(* of the real code; the event is accepted iff the recorded result is what   *)
(* the transcribed TeX algorithm of TexArith yields on the recorded inputs.  *)
(*                                                                           *)
(*   frac   Scaled(f).display_no_units()            = FracDigits (103)       *)
(*   print  Display of Scaled(s)                    = PrintScaled(s) "pt"    *)
(*   rd     Scaled::from_decimal_digits(dig)        = RoundDecimals (102)    *)
(*   xnd    Scaled(x).xn_over_d(n, d)               = XnOverD (107)          *)
(*   nxy    Scaled(x).nx_plus_y(n, Scaled(y))       = MultAndAdd(n,x,y,2^30-1)*)
(*   xon    Scaled(x).checked_div(n)                = XOverN (106)           *)
(*   new    Scaled::new(i, Scaled(f), unit)         = 458 + attach_fraction  *)
(*   pnu    Scaled::parse_no_units(txt)             = ScanDimen(txt "pt")    *)
(*   pfs    Scaled::parse_from_string(txt)          = ScanDimen(txt)         *)
(*   gprint Display of Glue                         = PrintGlue (178)        *)
(*   gadd   Glue::wrapping_add                      = GlueSum (1239)         *)
(*   vm     a generated TeX program run on a texlang VM with the stdlib's    *)
(*          \count \dimen \skip \the \advance \multiply \divide: characters   *)
(*          delivered and number of recoverable errors = Run(steps)          *)
(*                                                                           *)
(* A verdict line is printed for every event that is not simply accepted:    *)
(*   key "panic"      the code under test panicked (never accepted)          *)
(*   key "undefined"  TeX's own behaviour is undefined on this input (Pascal *)
(*                    overflow); skipped and counted by the driver           *)
(*   key "deviation"  rejected by TeX's semantics, accepted when exactly the *)
(*                    named deviations `devs' (a minimal set) are enabled    *)
(*   key "mismatch"   not explained by anything                              *)
EXTENDS TexArith, TLC, Json, IOUtils, FiniteSets

Rec == ndJsonDeserialize(IOEnv.TRACE)
VARIABLE l

Glue(a) == [w |-> a[1], st |-> a[2], sto |-> a[3], sh |-> a[4], sho |-> a[5]]
GlueArr(g) == <<g.w, g.st, g.sto, g.sh, g.sho>>
F0 == [em |-> 0, ex |-> 0]

OK == [key |-> "ok"]
Undefined == [key |-> "undefined"]
Mismatch(w) == [key |-> "mismatch", want |-> w]
Cmp(good, w) == IF good THEN OK ELSE Mismatch(w)

\* result of an arithmetic helper recorded as ok / v (/ rem)
ArithVerdict(e, a, withRem) ==
  IF a.u THEN Undefined
  ELSE Cmp(e.ok = ~a.err /\ (e.ok => e.v = a.v /\ (withRem => e.rem = a.rem)),
           [ok |-> ~a.err, v |-> a.v, rem |-> a.rem])

\* 458 followed by attach_fraction and the range check, as Scaled::new does in one call
NewVerdict(e) ==
  LET txt == NatText(e.i)
      un  == IF e.unit = 0 THEN KwPt ELSE IF e.unit = 8 THEN KwSp ELSE Units[e.unit].kw
      \* the scanner is entered after the fraction: same code path as ScanDimen
      r   == DimenUnits(un, 1, Regs0, F0, FALSE, {}, e.i, e.f, FALSE, 0)
  IN IF r.u THEN Undefined
     ELSE Cmp(e.ok = (r.e = 0) /\ (e.ok => e.v = r.v), [ok |-> r.e = 0, v |-> r.v])

ScanVerdict(e, txt) ==
  LET r == ScanDimen(txt, 1, Regs0, F0, FALSE, {})
  IN IF r.u \/ r.p # Len(txt) + 1 THEN Undefined
     ELSE Cmp(e.ok = (r.e = 0) /\ (e.ok => e.v = r.v), [ok |-> r.e = 0, v |-> r.v])

\* With a deviation enabled the run may reach a point where TeX itself is undefined (for example
\* printing -2^31 sp); it then explains the event iff what was delivered up to there agrees.
PrefixOf(a, b) == Len(a) <= Len(b) /\ SubSeq(b, 1, Len(a)) = a
VmMatches(e, S) == IF S.u THEN PrefixOf(S.out, e.out) /\ S.e <= e.errs
                   ELSE S.out = e.out /\ S.e = e.errs
\* the smallest sets of deviations that explain the event, searched by increasing size
RECURSIVE Explaining(_, _, _)
Explaining(e, F, k) ==
  IF k > Cardinality(DevNames) THEN {}
  ELSE LET ex == {D \in SUBSET DevNames : Cardinality(D) = k /\ VmMatches(e, Run(e.steps, F, D))}
       IN IF ex # {} THEN ex ELSE Explaining(e, F, k + 1)

VmVerdict(e) ==
  LET F == [em |-> e.em, ex |-> e.ex]
      S == Run(e.steps, F, {})
  IN IF S.u THEN Undefined
     ELSE IF VmMatches(e, S) THEN OK
     ELSE LET ex == Explaining(e, F, 1)
              w  == [out |-> S.out, errs |-> S.e]
          IN IF ex = {} THEN Mismatch(w)
             ELSE [key |-> "deviation", want |-> w, devs |-> CHOOSE D \in ex : TRUE]

GaddVerdict(e) ==
  LET r == Glue(e.a)  q == Glue(e.b)            \* a.wrapping_add(b): a is the register, b was scanned
      s == GlueSum(q, r, {})
  IN IF GlueArr(s) = e.r THEN OK
     ELSE IF GlueArr(GlueSum(q, r, {"GlueAdvanceMaxOrder"})) = e.r
          THEN [key |-> "deviation", want |-> GlueArr(s), devs |-> {"GlueAdvanceMaxOrder"}]
     ELSE Mismatch(GlueArr(s))

Verdict(e) ==
  IF "panic" \in DOMAIN e
  THEN \* never accepted.  `undef' tells whether the panic happened where TeX itself is undefined:
       \* on TeX's path or on a path that the named deviations explain up to that point
       [key |-> "panic",
        undef |-> IF e.k = "vm"
                  THEN \E D \in SUBSET DevNames :
                          LET S == Run(e.steps, [em |-> e.em, ex |-> e.ex], D)
                          IN S.u /\ PrefixOf(S.out, e.out)
                  ELSE FALSE]
  ELSE CASE e.k = "frac"   -> Cmp(e.d = FracDigits(e.f), FracDigits(e.f))
         [] e.k = "print"  -> IF e.s = MinInt THEN Undefined
                              ELSE Cmp(e.txt = PrintScaled(e.s) \o TxtPt, PrintScaled(e.s) \o TxtPt)
         [] e.k = "rd"     -> Cmp(e.v = RoundDecimals(e.dig), RoundDecimals(e.dig))
         [] e.k = "xnd"    -> ArithVerdict(e, XnOverD(e.x, e.n, e.d), TRUE)
         [] e.k = "nxy"    -> ArithVerdict(e, MultAndAdd(e.n, e.x, e.y, MaxDimen), FALSE)
         [] e.k = "xon"    -> ArithVerdict(e, XOverN(e.x, e.n), FALSE)
         [] e.k = "new"    -> NewVerdict(e)
         [] e.k = "pnu"    -> ScanVerdict(e, e.txt \o TxtPt)
         [] e.k = "pfs"    -> ScanVerdict(e, e.txt)
         [] e.k = "gprint" -> IF ~GluePrintable(Glue(e.g)) THEN Undefined
                              ELSE Cmp(e.txt = PrintGlue(Glue(e.g)), PrintGlue(Glue(e.g)))
         [] e.k = "gadd"   -> GaddVerdict(e)
         [] e.k = "vm"     -> VmVerdict(e)
         [] OTHER          -> Mismatch("unknown event kind")

TInit == l = 1
TStep == /\ l <= Len(Rec) /\ l' = l + 1
         /\ LET v == Verdict(Rec[l])
            IN IF v.key = "ok" THEN TRUE
               ELSE PrintT(<<"VERDICT", ToJson([l |-> l] @@ v)>>)
TSpec == TInit /\ [][TStep]_l
Matched == TLCGet("stats").diameter - 1
TraceAccepted == \/ Matched = Len(Rec)
                 \/ PrintT(<<"MATCHED", Matched>>) /\ FALSE
=============================================================================
