SPECIFICATION Spec
CONSTANTS
  N = 5
  Bug = ""
  Deviations = {}
INVARIANT AgreeInv
INVARIANT EmitInv
CHECK_DEADLOCK FALSE
