SPECIFICATION Spec
CONSTANTS
  MaxHn = 3
  Bug = "Limit64"
  Alphabet <- AlphabetQuick
  MaxLen = 4
  LH = 1
  RH = 1
  Devs <- NoDevs
INVARIANTS MachineIsDefinition
CHECK_DEADLOCK FALSE
