SPECIFICATION Spec
CONSTANTS
  Alphabet <- AlphaQuick
  MaxLen = 3
  Tails <- OnlyParTail
  WidthSeqs <- W57
  ParSets <- P_tol200
  Devs <- NoDevs
  Bug = ""
INVARIANTS RefinesWithoutMonotone
CHECK_DEADLOCK FALSE
