SPECIFICATION Spec
CONSTANTS
  N = 5
  Bug = ""
  Deviations = {}
INVARIANT SimpleEqOptimized
INVARIANT EmitInv
CHECK_DEADLOCK FALSE
