SPECIFICATION Spec
CONSTANTS
  Chars <- MCChars
  Fonts <- MCFonts
  Operands <- Ops3
  VarSet = {0, 1, 2, 3}
  MaxDepth = 2
  MaxSteps = 5
  Bug = ""
INVARIANTS Preserved StackPreserved OthersVerbatim OutNoVars TrackerFaithful
VIEW View
CHECK_DEADLOCK FALSE
