SPECIFICATION Spec
CONSTANTS
  Codes <- CodesQuick
  MaxLen = 4
  Settings <- SettingsQuick
  TexDevs <- NoDevs
  Bug = ""
INVARIANTS CodeIsTex
CHECK_DEADLOCK FALSE
