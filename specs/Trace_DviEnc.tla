---------------------------- MODULE Trace_DviEnc ----------------------------
(* Binding F for dvi::serialize / dvi::Op::deserialize.  Independent events:  *)
(*  fn = "rt":  ops (generated), bytes = dvi::serialize(ops), and what         *)
(*              deserialising those bytes gave (dec, err, rest).  Accepted iff *)
(*              bytes = EncSeq(ops) and (dec, err, rest) = (ops, ok, 0).       *)
(*              If the ops are not Separable (post_post followed by the byte   *)
(*              223) the round trip cannot hold; the event is then explained   *)
(*              by the named deviation "roundtrip-postpost-223" iff the code   *)
(*              did what the decoder of the spec does on those bytes.          *)
(*  fn = "dec": arbitrary bytes and what deserialising them gave, or a panic.  *)
(*              Accepted iff (ops, err, rest) = Dec(bytes); a panic never is.  *)
(*              Strings are compared exactly when the raw bytes are ASCII      *)
(*              (the code converts with from_utf8_lossy, which is outside the  *)
(*              property).                                                     *)
EXTENDS DviEnc, TLC, Json, IOUtils

Rec == ndJsonDeserialize(IOEnv.TRACE)
VARIABLE l

Ascii(s) == \A i \in 1..Len(s) : s[i] < 128
StrOK(raw, got) == Ascii(raw) => got = raw
OpOK(want, got) ==
  IF want.k # got.k THEN FALSE
  ELSE CASE want.k = "fontdef" -> /\ [want EXCEPT !.area = <<>>, !.name = <<>>] = [got EXCEPT !.area = <<>>, !.name = <<>>]
                                  /\ StrOK(want.area, got.area) /\ StrOK(want.name, got.name)
         [] want.k = "pre"     -> /\ [want EXCEPT !.comment = <<>>] = [got EXCEPT !.comment = <<>>]
                                  /\ StrOK(want.comment, got.comment)
         [] OTHER              -> want = got
ResultOK(want, e) ==
  /\ want.err = e.err /\ want.rest = e.rest
  /\ Len(want.ops) = Len(e.ops)
  /\ \A i \in 1..Len(e.ops) : OpOK(want.ops[i], e.ops[i])

Verdict(key, want) == PrintT(<<"VERDICT", ToJson([l |-> l, key |-> key, want |-> want])>>)

CheckRt(e) ==
  LET enc  == EncSeq(e.ops)
      got  == [ops |-> e.dec, err |-> e.err, rest |-> e.rest]
      good == [ops |-> e.ops, err |-> <<"ok">>, rest |-> 0]
  IN IF "panic" \in DOMAIN e THEN Verdict("panic", e.panic)
     ELSE IF Separable(e.ops)
          THEN IF e.bytes # enc
               THEN (IF Dec(e.bytes) = good THEN Verdict("encoding-not-minimal", enc) ELSE Verdict("encoding", enc))
               ELSE IF got = good THEN TRUE ELSE Verdict("roundtrip", good.ops)
     \* post_post followed by the byte 223: the concatenation of the minimal encodings cannot
     \* round-trip.  A serializer that avoids the ambiguity (any other valid form) is accepted.
     ELSE IF got = good /\ Dec(e.bytes) = good THEN TRUE
     ELSE IF e.bytes = enc /\ got = Dec(e.bytes) THEN Verdict("roundtrip-postpost-223", good.ops)
     ELSE Verdict("roundtrip", good.ops)

CheckDec(e) ==
  IF "panic" \in DOMAIN e THEN Verdict("panic", e.panic)
  ELSE LET want == Dec(e.bytes) IN
       IF ResultOK(want, e) THEN TRUE ELSE Verdict("decode", want)

TInit == l = 1 /\ ops = <<>> /\ bytes = <<>>
TStep == /\ l <= Len(Rec) /\ l' = l + 1 /\ UNCHANGED vars
         /\ LET e == Rec[l] IN
            CASE e.fn = "rt"  -> CheckRt(e)
              [] e.fn = "dec" -> CheckDec(e)
TSpec == TInit /\ [][TStep]_<<vars, l>>
Matched == TLCGet("stats").diameter - 1
TraceAccepted == \/ Matched = Len(Rec)
                 \/ PrintT(<<"MATCHED", Matched>>) /\ FALSE
=============================================================================
