SPECIFICATION TSpec
CONSTANTS
  Str <- TStr
  MaxKey = 100000
INVARIANT Distinct
POSTCONDITION TraceAccepted
CHECK_DEADLOCK FALSE
