SPECIFICATION Spec
CONSTANTS
  N = 3
INVARIANT SomeTextHasThreeTokens
CHECK_DEADLOCK FALSE
