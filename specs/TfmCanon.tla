------------------------------ MODULE TfmCanon ------------------------------
(***************************************************************************)
(* Property C11.  TFM -> PL -> TFM as a design: what TFtoPL followed by    *)
(* PLtoTF does to a font, written in the shape of the code                 *)
(*   crates/tfm/src/deserialize.rs            Raw accessors below          *)
(*   impl From<tfm::File> for pl::File        ToPl   (pack_kerns,          *)
(*     + pl::File::lower (TFtoPL 48-87)               unpack_entrypoint,   *)
(*                                                    reachability, LABEL /*)
(*                                                    STOP / SKIP emission)*)
(*   pl::File::from_ast (PLtoTF 84-125)       ParseLig, defaults           *)
(*   impl From<pl::File> for tfm::File        FromPl (unpack_kerns,        *)
(*     + serialize.rs (PLtoTF 128-142)                pack_entrypoints,    *)
(*                                                    compress, tags)      *)
(* Canon(F) == FromPl(ToPl(F)).  The exhaustive models (MC_TfmCanon*.cfg)  *)
(* check on small domains that Canon is idempotent, that Canon(F) describes*)
(* the same font as F (Same: dimensions, tags, parameters, header, and the *)
(* lig/kern pair function computed by the interpreter of LigKern.tla), that*)
(* packed entry points address the same chains, and that the redirect      *)
(* arithmetic stays inside 8 / 16 bits.  Trace_TfmCanon.tla judges real    *)
(* conversions with the same operators at the real constants.              *)
(*                                                                         *)
(* A font is the record of the sections of a .tfm file ("raw" shape, also  *)
(* the shape the harness records):                                         *)
(*   hd  header words <<b0,b1,b2,b3>>      bc, ec   first / last code      *)
(*   ci  char_info words of bc..ec         w h d i k p   fix_word tables   *)
(*   lk  lig/kern words <<skip_byte, next_char, op_byte, remainder>>       *)
(*   e   extensible recipes <<top, mid, bot, rep>>                         *)
(* No byte of a section is interpreted outside this module.                *)
(***************************************************************************)
EXTENDS Integers, Sequences, FiniteSets, SequencesExt, TLC

CONSTANTS
  Threshold,    \* largest entry point a char_info remainder can hold: 255 (small in the exhaustive models)
  MaxRedirect,  \* largest index a redirect instruction can hold: 65535
  MaxHeader,    \* largest header index a property list can name: 255 (HEADER D n takes a one-byte n)
  Deviations,   \* named deviations of the implementation (known findings); {} = the design
  Bug           \* seeded defects of the design for the negative controls; "" = none

\* The interpreter of C05: TeX's instruction lookup (1039), TFtoPL's f(x,y), the main loop.
LK == INSTANCE LigKern WITH Deviations <- {}, Bug <- ""
\* The arithmetic of C17: PLtoTF's table compression (SetIndices)
TA == INSTANCE TfmArith WITH Bug <- ""

NonChar == 256
\* 0-based access, as the file format counts; total, so that a malformed recorded file is judged, not
\* a TLC error (index errors of in-scope fonts are excluded by IdxOk / TagsOk)
At(t, i)  == IF i >= 0 /\ i < Len(t) THEN t[i + 1] ELSE -2147483647
AtE(t, i) == IF i >= 0 /\ i < Len(t) THEN t[i + 1] ELSE <<-1, -1, -1, -1>>

-----------------------------------------------------------------------------
(* Reader: the fields of a raw font (TFtoPL 23-33, deserialize.rs)          *)

Chars(F)    == F.bc .. F.ec
CI(F, c)    == F.ci[c - F.bc + 1]
WIdx(F, c)  == CI(F, c)[1]
HIdx(F, c)  == CI(F, c)[2] \div 16
DIdx(F, c)  == CI(F, c)[2] % 16
IIdx(F, c)  == CI(F, c)[3] \div 4
Tag(F, c)   == CI(F, c)[3] % 4             \* 0 none, 1 lig/kern program, 2 next larger, 3 extensible
Rem(F, c)   == CI(F, c)[4]
Existing(F) == {c \in Chars(F) : WIdx(F, c) # 0}         \* a character exists iff its width index is not 0
Exists(F, c) == c \in Chars(F) /\ WIdx(F, c) # 0
Wd(F, c) == At(F.w, WIdx(F, c))
Ht(F, c) == IF HIdx(F, c) = 0 THEN 0 ELSE At(F.h, HIdx(F, c))
Dp(F, c) == IF DIdx(F, c) = 0 THEN 0 ELSE At(F.d, DIdx(F, c))
Ic(F, c) == IF IIdx(F, c) = 0 THEN 0 ELSE At(F.i, IIdx(F, c))

NL(F)        == Len(F.lk)
Ins(F, i)    == F.lk[i + 1]
IsStop(F, i) == Ins(F, i)[1] > 128                         \* skip_byte > stop_flag
Target(F, i) == 256 * Ins(F, i)[3] + Ins(F, i)[4]
Nx(F, i)     == IF Ins(F, i)[1] < 128 THEN Ins(F, i)[1] ELSE -1      \* SKIP n | none
\* TeX 573 / TFtoPL 69: the boundary character rides in the first instruction, the left
\* boundary program is addressed by the last one
Rbc(F) == IF NL(F) > 0 /\ Ins(F, 0)[1] = 255 THEN Ins(F, 0)[2] ELSE NonChar
Lbe(F) == IF NL(F) > 0 /\ Ins(F, NL(F) - 1)[1] = 255 THEN Target(F, NL(F) - 1) ELSE -1

\* Characters whose lig/kern tag takes part in the conversion.  TFtoPL 67 and PLtoTF 135 look at the
\* tag of every code between the first and the last existing character, whether or not the character
\* itself exists (real fonts carry such tags: 6vcr8r, XCharter).  A tag outside that range cannot be
\* written back; the design drops it, the implementation keeps its LABEL (deviation OrphanLigLabelKept).
InRange(F, c) == \E a \in Existing(F) : a <= c /\ \E b \in Existing(F) : c <= b
LigChars(F) == {c \in Chars(F) : Tag(F, c) = 1 /\ (InRange(F, c) \/ "OrphanLigLabelKept" \in Deviations)}
\* lang.rs unpack_entrypoint = TeX's lig_kern_restart
Unpack(F, l) == IF l < NL(F) /\ IsStop(F, l) THEN Target(F, l) ELSE l
Ep(F, c)     == Unpack(F, Rem(F, c))

KernAt(F, j) == IF j < Len(F.k) THEN At(F.k, j) ELSE 0
\* one instruction in the representation of LigKern.tla, kern amounts resolved
DecodeIns(F, w) ==
  IF w[1] > 128 THEN <<-1, w[2], 255, 256 * w[3] + w[4]>>
  ELSE LET sk == IF w[1] < 128 THEN w[1] ELSE -1 IN
       IF w[3] >= 128 THEN <<sk, w[2], 128, KernAt(F, 256 * (w[3] - 128) + w[4])>>
       ELSE <<sk, w[2], w[3], w[4]>>

\* the program as TeX sees it in the file: raw remainders, restart rule applied by LK!Start
Prog(F) ==
  [ins |-> [j \in 1 .. NL(F) |-> DecodeIns(F, F.lk[j])],
   ep  |-> LET cs == SetToSortSeq({c \in Existing(F) : Tag(F, c) = 1}, <)
           IN [j \in 1 .. Len(cs) |-> <<cs[j], Rem(F, cs[j])>>],
   packed |-> 1, lbe |-> Lbe(F), rbc |-> Rbc(F)]

-----------------------------------------------------------------------------
(* Header (TFtoPL 48-57, PLtoTF 70, 87-91, 133)                              *)

LH(F) == Len(F.hd)
HdBytes(F, a, b) == FlattenSeq(SubSeq(F.hd, a, b))          \* header words a..b (1-based) as bytes
\* BCPL string: length byte, characters (a length beyond the field is out of scope, see HeaderOk)
StrOf(bytes) == SubSeq(bytes, 2, IF 1 + bytes[1] <= Len(bytes) THEN 1 + bytes[1] ELSE Len(bytes))
NoStr == [has |-> FALSE, s |-> <<>>]
SchemeOf(F) == IF LH(F) >= 12 THEN [has |-> TRUE, s |-> StrOf(HdBytes(F, 3, 12))] ELSE NoStr
FamilyOf(F) == IF LH(F) >= 17 THEN [has |-> TRUE, s |-> StrOf(HdBytes(F, 13, 17))] ELSE NoStr
FaceOf(F)   == IF LH(F) >= 18 THEN F.hd[18][4] ELSE 0       \* PLtoTF 70: default face 0
SbsOf(F)    == LH(F) >= 18 /\ F.hd[18][1] > 127
ExtraOf(F)  == SubSeq(F.hd, 19, LH(F))                      \* header words 18, 19, ...

Upper(ch) == IF ch >= 97 /\ ch <= 122 THEN ch - 32 ELSE ch
RECURSIVE DropBlanks(_)
DropBlanks(s) == IF s # <<>> /\ s[1] = 32 THEN DropBlanks(Tail(s)) ELSE s
\* what a string becomes on its way through a property list: TFtoPL 52 prints capitals, PLtoTF 87
\* skips the blanks in front of it
StrCanon(s) == LET t == DropBlanks(s) IN [j \in 1 .. Len(t) |-> Upper(t[j])]
Unspecified == <<85, 78, 83, 80, 69, 67, 73, 70, 73, 69, 68>>      \* PLtoTF 70
StrDefault(x) == IF x.has THEN StrCanon(x.s) ELSE Unspecified

Pad(bytes, n) == bytes \o [j \in 1 .. (n - Len(bytes)) |-> 0]
Words(bytes) == [j \in 1 .. (Len(bytes) \div 4) |-> SubSeq(bytes, 4 * j - 3, 4 * j)]
EncStr(s, nwords) == Words(Pad(<<Len(s)>> \o s, 4 * nwords))

-----------------------------------------------------------------------------
(* Seven-bit safety as pl::File::from_ast computes it (PLtoTF 110-112): the   *)
(* flag of the written file is the computed one.                             *)

RECURSIVE ChainIdx(_, _, _)
\* the instructions reached from k by SKIPs (InstructionsForEntrypointIter), 0-based, at most fuel
ChainIdx(F, k, fuel) ==
  IF k < 0 \/ k >= NL(F) \/ fuel = 0 THEN <<>>
  ELSE <<k>> \o (IF Nx(F, k) < 0 THEN <<>> ELSE ChainIdx(F, k + Nx(F, k) + 1, fuel - 1))

Is7(c) == c < 128
ExtChars(r) == {r[j] : j \in {x \in 1 .. 3 : r[x] # 0}} \cup {r[4]}
SevenBitSafe(F) ==
  /\ \A c \in {x \in Existing(F) : Tag(F, x) = 1 /\ Is7(x)} :
       LET ch == ChainIdx(F, Ep(F, c), NL(F)) IN
       \A j \in 1 .. Len(ch) :
         LET w == Ins(F, ch[j]) IN (w[1] <= 128 /\ w[3] < 128 /\ Is7(w[2])) => Is7(w[4])
  /\ \A c \in {x \in Existing(F) : Tag(F, x) = 2 /\ Is7(x)} : Is7(Rem(F, c))
  /\ \A c \in {x \in Existing(F) : Tag(F, x) = 3 /\ Is7(x)} :
       Rem(F, c) < Len(F.e) => \A y \in ExtChars(AtE(F.e, Rem(F, c))) : Is7(y)

-----------------------------------------------------------------------------
(* TFM -> PL.  The LIGTABLE is a sequence of items                           *)
(*   <<1, c>> LABEL c   <<2>> LABEL BOUNDARYCHAR   <<3, rc, op, z>> LIG forms *)
(*   <<4, rc, amount>> KRN   <<5>> STOP   <<6, n>> SKIP n                     *)

Seeds(F) == {Ep(F, c) : c \in LigChars(F)} \cup
            \* TFtoPL 69 does not mark the last instruction when the left boundary program starts there
            (IF Lbe(F) >= 0 /\ Lbe(F) # NL(F) - 1 THEN {Lbe(F)} ELSE {})

\* TFtoPL 70: one forward pass; instruction j (1-based j, 0-based j-1) hands on to j + skip
Reach(F) ==
  LET step(R, j) == IF (j - 1) \in R /\ Nx(F, j - 1) >= 0 THEN R \cup {j + Nx(F, j - 1)} ELSE R
  IN FoldLeft(step, Seeds(F), [j \in 1 .. NL(F) |-> j])

OpItem(F, i) ==
  LET w == Ins(F, i) IN
  IF w[1] > 128 THEN <<>>
  ELSE IF w[3] >= 128 THEN <<<<4, w[2], KernAt(F, 256 * (w[3] - 128) + w[4])>>>>     \* pack_kerns
  ELSE <<<<3, w[2], w[3], w[4]>>>>

\* TFtoPL 74: SKIP counts only the accessible steps it passes
SkipItem(F, R, i) ==
  LET nx == Nx(F, i) IN
  IF nx > 0 /\ i + 1 + nx <= NL(F)
  THEN <<<<6, Cardinality({j \in (i + 1) .. (i + nx) : j \in R})>>>>
  ELSE IF nx < 0 THEN <<<<5>>>> ELSE IF nx = 0 THEN <<>> ELSE <<<<6, nx>>>>

ItemsAt(F, R, eps, epf, i) ==
  IF i \notin R THEN <<>>
  ELSE (IF Lbe(F) = i THEN <<<<2>>>> ELSE <<>>)
       \o (IF i \in eps
           THEN LET cs == SetToSortSeq({c \in DOMAIN epf : epf[c] = i}, <)
                    \* seeded: characters that share a chain are merged into one LABEL
                    m  == IF Bug = "LabelsMerged" THEN 1 ELSE Len(cs)
                IN [j \in 1 .. m |-> <<1, cs[j]>>]
           ELSE <<>>)
       \o OpItem(F, i) \o SkipItem(F, R, i)

LigItems(F) ==
  LET R   == Reach(F)
      epf == [c \in LigChars(F) |-> Ep(F, c)]
      eps == {epf[c] : c \in DOMAIN epf}
  IN FlattenSeq([j \in 1 .. NL(F) |-> ItemsAt(F, R, eps, epf, j - 1)])

PlTag(F, c) == CASE Tag(F, c) = 2 -> <<2, Rem(F, c)>>
                 [] Tag(F, c) = 3 -> <<3, AtE(F.e, Rem(F, c))>>
                 [] OTHER -> <<0>>

ToPl(F) ==
  [cs |-> F.hd[1], ds |-> F.hd[2], scheme |-> SchemeOf(F), family |-> FamilyOf(F), face |-> FaceOf(F),
   sbs |-> SbsOf(F),
   extra |-> IF "HeaderWordsBeyond255Dropped" \in Deviations /\ Len(ExtraOf(F)) > MaxHeader - 17
             THEN SubSeq(ExtraOf(F), 1, MaxHeader - 17) ELSE ExtraOf(F),
   par |-> F.p, rbc |-> Rbc(F), lig |-> LigItems(F), haslig |-> NL(F) > 0,
   chr |-> [c \in Existing(F) |-> [wd |-> Wd(F, c), ht |-> Ht(F, c), dp |-> Dp(F, c), ic |-> Ic(F, c),
                                   tag |-> PlTag(F, c)]]]

-----------------------------------------------------------------------------
(* PL -> TFM, the lig/kern program (PLtoTF 117-125, 138-142)                  *)

\* from_ast: instructions <<next (-1 | n), rc, op (128 = kern), z | amount>> in LigKern.tla's shape,
\* labels as <<char, index>>
ParseStep(st, it) ==
  CASE it[1] = 1 -> [st EXCEPT !.lab = Append(@, <<it[2], Len(st.ins)>>), !.prec = FALSE]
    [] it[1] = 2 -> [st EXCEPT !.lbe = Len(st.ins), !.prec = FALSE]
    [] it[1] = 3 -> [st EXCEPT !.ins = Append(@, <<0, it[2], it[3], it[4]>>), !.prec = TRUE]
    [] it[1] = 4 -> [st EXCEPT !.ins = Append(@, <<0, it[2], 128, it[3]>>), !.prec = TRUE]
    \* "STOP must follow LIG or KRN" (PLtoTF 121); the implementation ignores a stray one silently
    [] it[1] = 5 -> IF st.prec THEN [st EXCEPT !.ins[Len(st.ins)][1] = -1, !.prec = FALSE] ELSE [st EXCEPT !.prec = FALSE]
    [] OTHER     -> IF st.prec THEN [st EXCEPT !.ins[Len(st.ins)][1] = it[2], !.prec = FALSE] ELSE [st EXCEPT !.prec = FALSE]

ParseLig(items) ==
  LET st == FoldLeft(ParseStep, [ins |-> <<>>, lab |-> <<>>, lbe |-> -1, prec |-> FALSE], items)
      n  == Len(st.ins)
  IN \* PLtoTF 116 / 120: the last step stops
     IF n > 0 /\ st.ins[n][1] = 0 THEN [st EXCEPT !.ins[n][1] = -1] ELSE st

\* lang.rs unpack_kerns: the kern table in order of first use, without repetitions
KernTable(ins) ==
  LET step(acc, it) == IF it[3] = 128 /\ ~Contains(acc, it[4]) THEN Append(acc, it[4]) ELSE acc
  IN FoldLeft(step, <<>>, ins)
KernIndex(kerns, v, ins) ==
  IF Bug = "KernIndexBeforeDedupe"      \* seeded: the position among all kern steps, repetitions counted
  THEN SelectInSeq(SelectSeq(ins, LAMBDA it : it[3] = 128), LAMBDA it : it[4] = v) - 1
  ELSE SelectInSeq(kerns, LAMBDA x : x = v) - 1

\* lang.rs pack_entrypoints = PLtoTF 139-141.  `gs`: the distinct entry points, largest first.
Inc(o) == IF "OffsetSaturates" \in Deviations /\ o >= Threshold THEN Threshold ELSE o + 1
PackStep(st, g) ==
  IF g + st.off <= (IF Bug = "ThresholdOffByOne" THEN Threshold + 1 ELSE Threshold)
  THEN [st EXCEPT !.n = @ + 1, !.u = @ @@ (g :> g + st.off)]
  ELSE LET o == IF st.n = 0 /\ st.ext THEN 0 ELSE st.off IN      \* "location 0 can do double duty"
       [n |-> st.n + 1, off |-> Inc(o), ext |-> IF st.n = 0 THEN FALSE ELSE st.ext,
        red |-> Append(st.red, g), u |-> st.u @@ (g :> o)]

Hi(x) == x \div 256
Lo(x) == x % 256
RotateRight(s, k) == SubSeq(s, Len(s) - k + 1, Len(s)) \o SubSeq(s, 1, Len(s) - k)

SerIns(it, kerns, ins) ==
  LET sb == IF it[1] < 0 THEN 128 ELSE it[1] IN
  IF it[3] = 128 THEN LET x == KernIndex(kerns, it[4], ins) IN <<sb, it[2], 128 + Hi(x), Lo(x)>>
  ELSE <<sb, it[2], it[3], it[4]>>

\* result: lk (raw words), u (entry point -> char_info remainder), off, red
PackLig(pp, rbc) ==
  LET kerns == KernTable(pp.ins)
      body  == [j \in 1 .. Len(pp.ins) |-> SerIns(pp.ins[j], kerns, pp.ins)]
      gs    == SetToSortSeq({pp.lab[j][2] : j \in 1 .. Len(pp.lab)}, LAMBDA a, b : a > b)
      hasb  == rbc # NonChar
      st    == FoldLeft(PackStep, [n |-> 0, off |-> IF hasb THEN 1 ELSE 0, ext |-> hasb, red |-> <<>>, u |-> <<>>], gs)
      off   == st.off
      shift == IF Bug = "NoShift" THEN 0 ELSE off
      rw(t) == <<IF hasb THEN 255 ELSE 254, IF hasb THEN rbc ELSE 0, Hi(t), Lo(t)>>
      tailw == (IF st.ext THEN <<<<255, rbc, 0, 0>>>> ELSE <<>>)
               \o [j \in 1 .. Len(st.red) |-> rw(st.red[j] + shift)]
      rot   == RotateRight(body \o tailw, off)
      lbw   == IF pp.lbe < 0 \/ Bug = "BoundaryEntryLost" THEN <<>>
               ELSE LET t == pp.lbe + (IF Bug = "BoundaryNotShifted" THEN 0 ELSE off) IN <<<<255, 0, Hi(t), Lo(t)>>>>
  IN [lk |-> rot \o lbw, u |-> st.u, off |-> off, red |-> st.red, kerns |-> kerns]

-----------------------------------------------------------------------------
(* PL -> TFM, dimension tables: PLtoTF 75-80 = tfm::compress, which is C17's   *)
(* subject -- the table and the index of every value are TfmArith.tla's         *)
(* SetIndices on the sorted distinct values.  A font that comes from a .tfm     *)
(* file never has more values than fit (255/15/15/63), so nothing is merged     *)
(* and the table is: zero first, then the distinct values in increasing order.  *)

SortUp(S) == SetToSortSeq(S, <)
Rank(S, v) == 1 + Cardinality({u \in S : u < v})          \* position of v in SortUp(S)
Compressed(S, limit) == TA!SetIndices(SortUp(S), limit)    \* [cls, rep]
DimTable(cp) ==
  CASE Bug = "ZeroNotFirst" -> SortUp(ToSet(cp.rep) \cup {0})
    [] OTHER                -> <<0>> \o cp.rep
\* vals: the value of every character (a function), for the seeded defect only
DimIndex(S, cp, vals, v, zeroIsNone) ==
  IF zeroIsNone /\ v = 0 THEN 0
  ELSE IF Bug = "DedupeUnstableIndex"       \* seeded: the index the value had before repetitions were removed
       THEN 1 + Cardinality({c \in DOMAIN vals : vals[c] < v /\ ~(zeroIsNone /\ vals[c] = 0)})
  ELSE cp.cls[Rank(S, v)]

-----------------------------------------------------------------------------
(* PL -> TFM, the whole file                                                 *)

FromPl(P) ==
  LET ex    == DOMAIN P.chr
      pp    == ParseLig(P.lig)
      pk    == PackLig(pp, P.rbc)
      labc  == {pp.lab[j][1] : j \in 1 .. Len(pp.lab)}
      entry == [c \in labc |-> LET j == SelectLastInSeq(pp.lab, LAMBDA x : x[1] = c) IN pp.lab[j][2]]
      bc    == IF ex = {} THEN 1 ELSE CHOOSE c \in ex : \A x \in ex : c <= x
      ec    == IF ex = {} THEN 0 ELSE CHOOSE c \in ex : \A x \in ex : c >= x
      WS    == {P.chr[c].wd : c \in ex}
      HS    == {P.chr[c].ht : c \in ex} \ {0}
      DS    == {P.chr[c].dp : c \in ex} \ {0}
      IS    == {P.chr[c].ic : c \in ex} \ {0}
      cw    == Compressed(WS, 255)
      ch    == Compressed(HS, 15)
      cd    == Compressed(DS, 15)
      ci    == Compressed(IS, 63)
      \* serialize.rs: extensible recipes in character order, one per VARCHAR
      xs    == SortUp({c \in ex : P.chr[c].tag[1] = 3 /\ (Bug # "TagLostOnZeroWidth" \/ P.chr[c].wd # 0)})
      xi(c) == SelectInSeq(xs, LAMBDA x : x = c) - 1
      tagw(c) ==
        IF c \in labc THEN <<1, pk.u[entry[c]]>>
        ELSE IF c \notin ex THEN <<0, 0>>
        ELSE IF Bug = "TagLostOnZeroWidth" /\ P.chr[c].wd = 0 THEN <<0, 0>>
        ELSE CASE P.chr[c].tag[1] = 2 -> <<2, P.chr[c].tag[2]>>
               [] P.chr[c].tag[1] = 3 -> <<3, xi(c)>>
               [] OTHER -> <<0, 0>>
      ciw(c) ==
        IF c \in ex
        THEN LET r == P.chr[c]   t == tagw(c) IN
             <<DimIndex(WS, cw, [x \in ex |-> P.chr[x].wd], r.wd, FALSE),
               16 * DimIndex(HS, ch, [x \in ex |-> P.chr[x].ht], r.ht, TRUE) + DimIndex(DS, cd, [x \in ex |-> P.chr[x].dp], r.dp, TRUE),
               4 * DimIndex(IS, ci, [x \in ex |-> P.chr[x].ic], r.ic, TRUE) + t[1], t[2]>>
        ELSE LET t == tagw(c) IN <<0, 0, t[1], t[2]>>
      \* PLtoTF 110-112 on the parsed file = on the font that is written
      hd0   == <<P.cs, P.ds>> \o EncStr(StrDefault(P.scheme), 10) \o EncStr(StrDefault(P.family), 5)
      G0    == [hd |-> hd0 \o <<<<0, 0, 0, P.face>>>> \o P.extra, bc |-> bc, ec |-> ec,
                ci |-> [j \in 1 .. (ec - bc + 1) |-> ciw(bc + j - 1)],
                w |-> DimTable(cw), h |-> DimTable(ch), d |-> DimTable(cd), i |-> DimTable(ci),
                lk |-> pk.lk, k |-> pk.kerns, e |-> [j \in 1 .. Len(xs) |-> P.chr[xs[j]].tag[2]], p |-> P.par]
  IN [G0 EXCEPT !.hd[18] = <<IF SevenBitSafe(G0) THEN 128 ELSE 0, 0, 0, P.face>>]

Canon(F) == FromPl(ToPl(F))

-----------------------------------------------------------------------------
(* Scope: the fonts both converters accept silently, as far as the design    *)
(* above depends on it (TFtoPL 47-87 "bad", PLtoTF warnings).  The warning   *)
(* logic itself is property C10's subject; the trace specification uses this *)
(* only to decide whether Canon is claimed for a recorded font.              *)

IdxOk(F) ==
  /\ Len(F.w) >= 1 /\ Len(F.h) >= 1 /\ Len(F.d) >= 1 /\ Len(F.i) >= 1
  /\ F.w[1] = 0 /\ F.h[1] = 0 /\ F.d[1] = 0 /\ F.i[1] = 0
  /\ \A c \in Existing(F) : /\ WIdx(F, c) < Len(F.w) /\ HIdx(F, c) < Len(F.h)
                            /\ DIdx(F, c) < Len(F.d) /\ IIdx(F, c) < Len(F.i)

TagsOk(F) ==
  \* validate.rs looks at every recipe of the table, used or not (TFtoPL 87 at the used ones)
  /\ \A j \in 1 .. Len(F.e) : \A y \in ExtChars(F.e[j]) : Exists(F, y)
  /\ \A c \in Existing(F) :
    /\ Tag(F, c) = 1 => /\ Rem(F, c) < NL(F) /\ Ep(F, c) < NL(F)
    /\ Tag(F, c) = 2 => Exists(F, Rem(F, c))
    /\ Tag(F, c) = 3 => Rem(F, c) < Len(F.e)

\* next-larger chains end (TFtoPL 84)
RECURSIVE ListEnds(_, _, _)
ListEnds(F, c, fuel) == IF ~Exists(F, c) \/ Tag(F, c) # 2 THEN TRUE
                        ELSE IF fuel = 0 THEN FALSE ELSE ListEnds(F, Rem(F, c), fuel - 1)
ListsOk(F) == \A c \in Existing(F) : ListEnds(F, c, Cardinality(Existing(F)))

OrphanTags(F) == {c \in Chars(F) : WIdx(F, c) = 0 /\ Tag(F, c) # 0}

PassThrough(F) ==
  (IF NL(F) > 0 /\ Ins(F, 0)[1] = 255 THEN {0} ELSE {})
  \cup (IF NL(F) > 0 /\ Ins(F, NL(F) - 1)[1] = 255 THEN {NL(F) - 1} ELSE {})
  \cup {Rem(F, c) : c \in {x \in Chars(F) : Tag(F, x) = 1 /\ Rem(F, x) < NL(F) /\ IsStop(F, Rem(F, x))
                                          /\ Target(F, Rem(F, x)) < NL(F)}}
LigOk(F) ==
  LET R == Reach(F) IN
  /\ Lbe(F) < NL(F)
  /\ \A i \in 0 .. NL(F) - 1 :
       LET w == Ins(F, i) IN
       /\ (i \in R /\ Nx(F, i) >= 0) => i + Nx(F, i) + 1 < NL(F)                      \* TFtoPL 70
       /\ w[1] <= 128 =>
            /\ (Exists(F, w[2]) \/ w[2] = Rbc(F))                                      \* TFtoPL 76, 77
            /\ IF w[3] >= 128 THEN 256 * (w[3] - 128) + w[4] < Len(F.k)
               ELSE w[3] \in LK!ValidOps /\ Exists(F, w[4])
       \* TFtoPL 74 looks at every stop word it prints (accessible or in a comment), not at the
       \* pass-through ones (TFtoPL 69: boundary carrier, boundary pointer, words entered by a character)
       /\ w[1] > 128 => (Target(F, i) < NL(F) \/ (i \notin R /\ i \in PassThrough(F)))
\* every accessible instruction is a real step: an unconditional stop (skip_byte > 128) inside a
\* chain has no counterpart in a property list
NoStopInChain(F) == \A i \in Reach(F) : ~IsStop(F, i)

HeaderOk(F) ==
  /\ LH(F) >= 2
  /\ LH(F) >= 12 => HdBytes(F, 3, 12)[1] <= 39
  /\ LH(F) >= 17 => HdBytes(F, 13, 17)[1] <= 19
  /\ LH(F) <= MaxHeader + 1

\* lig tags of characters that do not exist still have to be addressable (TFtoPL 67 looks at them)
OrphanLigOk(F) == \A c \in OrphanTags(F) : Tag(F, c) = 1 => (Rem(F, c) < NL(F) /\ Ep(F, c) < NL(F))

\* `waive`: clauses not demanded (the exhaustive models use it to build the domains of the negative
\* controls): "stops" NoStopInChain, "orphans" no lig tag on a missing character outside the range of
\* the existing ones, "longheader" lh <= 256
InScopeBut(F, waive) ==
  /\ LH(F) >= 2 /\ ("longheader" \in waive \/ HeaderOk(F))
  /\ IdxOk(F) /\ TagsOk(F) /\ ListsOk(F) /\ LigOk(F) /\ OrphanLigOk(F)
  /\ ("stops" \in waive \/ NoStopInChain(F))
  /\ ("orphans" \in waive \/ \A c \in OrphanTags(F) : Tag(F, c) = 1 => InRange(F, c))
  /\ ("loops" \in waive \/ LK!LoopPairs(Prog(F)) = {})
  /\ SbsOf(F) => SevenBitSafe(F)
InScope(F) == InScopeBut(F, {})

-----------------------------------------------------------------------------
(* "Describes the same font"                                                 *)

HeaderSame(F, G) ==
  /\ F.hd[1] = G.hd[1] /\ F.hd[2] = G.hd[2]                       \* check sum, design size
  /\ StrDefault(SchemeOf(F)) = StrDefault(SchemeOf(G))            \* as a property list can say them
  /\ StrDefault(FamilyOf(F)) = StrDefault(FamilyOf(G))
  /\ FaceOf(F) = FaceOf(G)
  /\ ExtraOf(F) = ExtraOf(G)
  /\ SbsOf(F) => SbsOf(G)                                         \* a claim of seven-bit safety is kept

CharSame(F, G, c) ==
  /\ Wd(F, c) = Wd(G, c) /\ Ht(F, c) = Ht(G, c) /\ Dp(F, c) = Dp(G, c) /\ Ic(F, c) = Ic(G, c)
  /\ Tag(F, c) = Tag(G, c)
  /\ Tag(F, c) = 2 => Rem(F, c) = Rem(G, c)
  /\ Tag(F, c) = 3 => AtE(F.e, Rem(F, c)) = AtE(G.e, Rem(G, c))

CharsSame(F, G) == Existing(F) = Existing(G) /\ \A c \in Existing(F) : CharSame(F, G, c)

\* the instruction TeX executes for the pair (l, r); l = NonChar: left boundary.  <<>>: none
PairIns(P, l, r) == LET j == LK!Lookup(P, l, r) IN IF j = 0 THEN <<>> ELSE <<P.ins[j][3], P.ins[j][4]>>

\* lig/kern behaviour on a set of pairs, three ways: the instruction selected (TeX 1039), TFtoPL's
\* f(x,y), and what TeX's main loop makes of the two characters
PairSame(PF, PG, l, r) ==
  /\ PairIns(PF, l, r) = PairIns(PG, l, r)
  /\ LK!EvalF(PF, l, r, {}) = LK!EvalF(PG, l, r, {})

LigSame(F, G, pairs) ==
  LET PF == Prog(F)   PG == Prog(G) IN
  /\ Rbc(F) = Rbc(G)
  \* TeX only ever looks up a left character that exists (or the left boundary)
  /\ \A pr \in {x \in pairs : x[1] = NonChar \/ Exists(F, x[1])} : PairSame(PF, PG, pr[1], pr[2])

Same(F, G, pairs) == /\ HeaderSame(F, G) /\ F.p = G.p /\ CharsSame(F, G) /\ LigSame(F, G, pairs)

\* every pair of existing characters / boundaries / characters named by an instruction
AllPairs(F) ==
  LET L == Existing(F) \cup {NonChar}
      Rs == Existing(F) \cup {F.lk[j][2] : j \in 1 .. NL(F)} \cup (IF Rbc(F) = NonChar THEN {} ELSE {Rbc(F)})
  IN {<<l, r>> : l \in L, r \in Rs}

\* the chain an entry point addresses, as contents (next_char, op, operand with the kern resolved)
ChainOf(F, k) ==
  LET P == Prog(F)   ch == ChainIdx(F, k, NL(F)) IN
  [j \in 1 .. Len(ch) |-> <<P.ins[ch[j] + 1][2], P.ins[ch[j] + 1][3], P.ins[ch[j] + 1][4]>>]
StartOf(F, c) == IF c = NonChar THEN Lbe(F) ELSE Ep(F, c)
\* a chain that ends in an unconditional stop instruction ends; the stop itself is no step
Steps(ch) == SelectSeq(ch, LAMBDA x : x[2] # 255)
ChainsSame(F, G) ==
  /\ \A c \in {x \in Existing(F) : Tag(F, x) = 1} : Steps(ChainOf(F, Ep(F, c))) = Steps(ChainOf(G, Ep(G, c)))
  /\ Steps(ChainOf(F, IF Lbe(F) = NL(F) - 1 THEN -1 ELSE Lbe(F))) = Steps(ChainOf(G, IF Lbe(G) = NL(G) - 1 THEN -1 ELSE Lbe(G)))

\* the 8-bit / 16-bit fields of a written file hold what was put into them
FieldsFit(G) ==
  /\ \A c \in Chars(G) : Tag(G, c) = 1 => Rem(G, c) <= Threshold
  /\ \A i \in 0 .. NL(G) - 1 : IsStop(G, i) => Target(G, i) <= MaxRedirect
  /\ \A c \in Existing(G) : WIdx(G, c) <= 255 /\ HIdx(G, c) <= 15 /\ DIdx(G, c) <= 15 /\ IIdx(G, c) <= 63
=============================================================================
