SPECIFICATION TSpec
CONSTANTS
  Sigma = {1, 2, 3}
  MaxP = 5
  MaxT = 12
  Bug = ""
POSTCONDITION TraceAccepted
CHECK_DEADLOCK FALSE
