-------------------------- MODULE Trace_TfmHeader --------------------------
(* Binding F: each event is one call of the real tfm::algorithms::tfm_to_pl  *)
(* on a file; it records the file as (len, b = first Min(len,24) bytes) and  *)
(* what came back:                                                           *)
(*   kind  "Ok", the DeserializationError variant, or "panic"                *)
(*   msg   first line of DeserializationError::tftopl_message (or the panic  *)
(*         message)                                                          *)
(*   junk  whether DeserializationWarning::InternalFileLengthIsSmall came    *)
(* The event is accepted iff kind is what the decision table says, the text  *)
(* is TFtoPL's text for that abort, and the junk warning follows section 20. *)
(* An outcome the table rejects is reported with the smallest set of named   *)
(* deviations that explains it (known findings), else as a mismatch.         *)
EXTENDS TfmHeader, Json, IOUtils, SequencesExt

Rec == ndJsonDeserialize(IOEnv.TRACE)
VARIABLE l

Got(e) == IF e.kind = "panic" THEN "panic:" \o e.msg ELSE e.kind

Verdict(e) ==
  LET want == Classify(e.len, e.b)
      got  == Got(e)
      text == IF got \in Kinds THEN AbortText(got, e.len, e.b) ELSE ""
  IN IF ~WellFormedFile(e.len, e.b) THEN [key |-> "malformed-event", want |-> want]
     ELSE IF Accepts(want, got) THEN
        IF text # "" /\ e.msg # text THEN [key |-> "message", want |-> text]
        ELSE IF want # "InternalFileLengthIsTooSmall"
                /\ e.junk # (PastSection20(got) /\ Junk(e.len, e.b))
             THEN [key |-> "junk-warning", want |-> want]
        ELSE [key |-> "", want |-> want]
     ELSE LET ex == Explains(e.len, e.b, got) IN
          IF ex = {} THEN [key |-> "mismatch", want |-> want]
          ELSE IF text # "" /\ e.msg # text THEN [key |-> "message", want |-> text]
          ELSE [key |-> "deviation", want |-> want, devs |-> SetToSeq(CHOOSE D \in ex : TRUE)]

TInit == l = 1 /\ MachineInit(0, <<>>)
TStep == /\ l <= Len(Rec) /\ l' = l + 1 /\ UNCHANGED vars
         /\ LET v == Verdict(Rec[l]) IN
            IF v.key = "" THEN TRUE
            ELSE PrintT(<<"VERDICT", ToJson([l |-> l] @@ v)>>)
TSpec == TInit /\ [][TStep]_<<vars, l>>
Matched == TLCGet("stats").diameter - 1
TraceAccepted == \/ Matched = Len(Rec)
                 \/ PrintT(<<"MATCHED", Matched>>) /\ FALSE
=============================================================================
