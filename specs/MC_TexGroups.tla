---------------------------- MODULE MC_TexGroups ----------------------------
EXTENDS TexGroups, TLC, Json
AbsT(v, s) == [val |-> [k \in Keys |-> v[k]], snaps |-> s]
EmitT == PrintT(<<"LTS", ToJson([f |-> AbsT(val, snaps), o |-> op', t |-> AbsT(val', snaps')])>>)
AbsViewT == <<val, snaps>>
==============================================================================
