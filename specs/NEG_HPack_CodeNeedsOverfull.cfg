SPECIFICATION Spec
CONSTANTS
  Alphabet <- AlphabetQuick
  MaxLen = 2
  Targets <- TargetsQuick
  TexDevs <- NoDevs
  Bug = ""
INVARIANTS CodeNeedsOverfull
CHECK_DEADLOCK FALSE
