SPECIFICATION Spec
CONSTANTS
  N = 6
  Bug = ""
  Deviations = {}
INVARIANT AgreeInv
CHECK_DEADLOCK FALSE
