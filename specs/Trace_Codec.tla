---------------------------- MODULE Trace_Codec ----------------------------
(* Binding T for CodecProtocol.  The file holds many independent runs, each *)
(* starting with a reset event:                                             *)
(*   {"ev":"reset", ...}                       (job number, source, mutation)*)
(*   {"ev":"call","f":"tfm_to_pl","len":n,"hdr":[..],"src":"input"|"output"}  *)
(*   {"ev":"ret","f":"tfm_to_pl","out":kind,"junk":bool}                     *)
(*   {"ev":"call","f":"pl_to_tfm"}                                           *)
(*   {"ev":"ret","f":"pl_to_tfm","len":n,"hdr":[..]}                         *)
(*   {"ev":"panic","f":..,"msg":..,"file":..,"line":..}   code under test    *)
(*   {"ev":"hang"|"crash", ...}                           panicked/hung/died *)
(*   {"ev":"end"}                                         last line          *)
(* Every event must be a step of CodecProtocol from the state reached so    *)
(* far.  The first event of a run that is not is reported (VERDICT) and the *)
(* rest of that run is skipped; the next reset starts afresh.  A return     *)
(* that only a named deviation explains is reported as such and the run     *)
(* continues.  panic events of pl_to_tfm, hang and crash match no action.   *)
EXTENDS CodecProtocol, Json, IOUtils, SequencesExt

Rec == ndJsonDeserialize(IOEnv.TRACE)
VARIABLES l, skip
tvars == <<cvars, l, skip>>

E == Rec[l]
FileOfEvent(e) == [len |-> e.len, hdr |-> e.hdr]
Report(key, extra) == PrintT(<<"VERDICT", ToJson([l |-> l, key |-> key] @@ extra)>>)
Fresh == at' = "idle" /\ arg' = None /\ oblig' = None /\ discharging' = FALSE
Reject(key, extra) == Report(key, extra) /\ skip' = TRUE /\ Fresh

TInit == CInit /\ l = 1 /\ skip = FALSE

\* a new run may begin only when the previous one is complete
Boundary == IF skip \/ Quiescent THEN TRUE
            ELSE Report("incomplete", [at |-> at, pending_output |-> oblig # None])

TStep ==
  /\ l <= Len(Rec) /\ l' = l + 1
  /\ IF E.ev \in {"reset", "end"} THEN Boundary /\ Fresh /\ skip' = FALSE
     ELSE IF skip THEN UNCHANGED <<cvars, skip>>
     ELSE IF E.ev = "call" /\ E.f = "tfm_to_pl" THEN
        IF IsFile(FileOfEvent(E)) /\ CanCallTfmToPl(FileOfEvent(E)) /\ (E.src = "output") = (oblig # None)
        THEN CallTfmToPl(FileOfEvent(E)) /\ UNCHANGED skip
        ELSE Reject("bad-call", [at |-> at])
     ELSE IF E.ev \in {"ret", "panic"} /\ E.f = "tfm_to_pl" THEN
        LET outcome == IF E.ev = "panic" THEN "panic:" \o E.msg ELSE E.out
            jk == IF E.ev = "panic" THEN FALSE ELSE E.junk IN
        IF StrictRetTfmToPl(outcome, jk) THEN RetTfmToPl(outcome, jk) /\ UNCHANGED skip
        ELSE IF DevSetsFor(outcome) # {}
        THEN /\ Report("deviation", [devs |-> SetToSeq(CHOOSE D \in DevSetsFor(outcome) : TRUE),
                                      want |-> Want(arg), got |-> outcome, roundtrip |-> discharging])
             /\ RetTfmToPl(outcome, jk) /\ UNCHANGED skip
        ELSE Reject(IF E.ev = "panic" THEN "panic" ELSE "outcome",
                    [want |-> IF at = "tfm_to_pl" THEN Want(arg) ELSE "", got |-> outcome,
                     roundtrip |-> discharging])
     ELSE IF E.ev = "call" /\ E.f = "pl_to_tfm" THEN
        IF CanCallPlToTfm THEN CallPlToTfm /\ UNCHANGED skip ELSE Reject("bad-call", [at |-> at])
     ELSE IF E.ev = "ret" /\ E.f = "pl_to_tfm" THEN
        IF IsFile(FileOfEvent(E)) /\ CanRetPlToTfm(FileOfEvent(E))
        THEN RetPlToTfm(FileOfEvent(E)) /\ UNCHANGED skip
        ELSE Reject("unreadable-output",
                    [want |-> "Ok and len = 4*lf",
                     got |-> IF ~IsFile(FileOfEvent(E)) THEN "malformed"
                             ELSE IF Want(FileOfEvent(E)) = "Ok" THEN "Ok, but len # 4*lf"
                             ELSE Want(FileOfEvent(E))])
     ELSE Reject(E.ev, <<>>)      \* panic in pl_to_tfm, hang, crash, anything unknown

TSpec == TInit /\ [][TStep]_tvars
Matched == TLCGet("stats").diameter - 1
TraceAccepted == \/ Matched = Len(Rec)
                 \/ PrintT(<<"MATCHED", Matched>>) /\ FALSE
=============================================================================
