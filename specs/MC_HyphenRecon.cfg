SPECIFICATION MSpec
CONSTANTS
  MaxHn = 63
  Bug = ""
  Alphabet <- NoNodes
  MaxLen = 0
  LH = 1
  RH = 1
  Devs <- NoDevs
  HyfChar = 45
  ReconBug = ""
  Pool <- PoolCore
  MaxWord = 4
  Mins <- MinsOne
INVARIANTS TeXSatisfiesRelation Inserts
CHECK_DEADLOCK FALSE
