SPECIFICATION TTSpec
CONSTANTS
  Keys <- TKeys
  MapKeys <- TMapKeys
  Vals <- TVals
  GD = 6
  Deviations = {"GdefIgnoresNegativeGlobaldefs"}
  MaxDepth = 99
  Bug = ""
INVARIANTS Refines UnwindAgree ScopeAgree StickyClear
POSTCONDITION TraceAccepted
CHECK_DEADLOCK FALSE
