---------------------------- MODULE Trace_DviPipe ----------------------------
(* Binding F for whole streams with unrestricted 32-bit operands.              *)
(*  fn = "rv":   in = an op stream, out = what transforms::VarRemover produced *)
(*               (all of it, or the ops produced before a panic).  Accepted    *)
(*               iff out = RemoveVars(in) -- the transformation TLC proved to  *)
(*               preserve every position (MC_Dvi); it involves no addition,    *)
(*               so it is decidable for operands of any size.                  *)
(*  fn = "pipe": bytes -> dvitools normalize (Deserializer | VarRemover |      *)
(*               serialize).  Accepted iff out = EncSeq(RemoveVars(Dec(bytes)))*)
(*               and the reported error is Dec's.                              *)
(* Named deviation "values-position-overflow-panic": dvi::Values adds to h / v *)
(* with `+=`; in a build with overflow checks the remover panics at the first  *)
(* op that moves h or v out of the 32-bit range (it never needs h or v).       *)
EXTENDS DviEnc, TLC, Json, IOUtils

M == INSTANCE Dvi WITH Chars <- {}, Fonts <- {}, Operands <- {}, VarSet <- {}, MaxDepth <- 0,
                       MaxSteps <- 0, Bug <- "", a <- 0, t <- 0, b <- 0, n <- 0, op <- 0

Rec == ndJsonDeserialize(IOEnv.TRACE)
VARIABLE l

Verdict(key, want) == PrintT(<<"VERDICT", ToJson([l |-> l, key |-> key, want |-> want])>>)
OverflowPanic == <<"crates/dvi/src/lib.rs", "attempt to add with overflow">>

CheckRv(e) ==
  LET want == M!RemoveVars(e.in)
      fo   == M!FirstOverflow(e.in)
  IN IF "panic" \notin DOMAIN e
     THEN (IF e.out = want THEN TRUE ELSE Verdict("varremover", want))
     ELSE IF fo > 0 /\ e.out = SubSeq(want, 1, fo - 1) /\ e.panic = OverflowPanic
          THEN Verdict("values-position-overflow-panic", fo)
          ELSE Verdict("panic", e.panic)

Ascii(s) == \A i \in 1..Len(s) : s[i] < 128
LossyOp(o) == \/ o.k = "fontdef" /\ ~(Ascii(o.area) /\ Ascii(o.name))
              \/ o.k = "pre" /\ ~Ascii(o.comment)

CheckPipe(e) ==
  LET r  == Dec(e.bytes)
      fo == M!FirstOverflow(r.ops)
  IN IF \E i \in 1..Len(r.ops) : LossyOp(r.ops[i]) THEN Verdict("skipped-lossy-string", 0)
     ELSE IF "panic" \in DOMAIN e
          THEN (IF fo > 0 /\ e.panic = OverflowPanic THEN Verdict("values-position-overflow-panic", fo)
                ELSE Verdict("panic", e.panic))
     ELSE LET want == EncSeq(M!RemoveVars(r.ops)) IN
          IF e.out = want /\ e.err = r.err THEN TRUE ELSE Verdict("pipeline", [out |-> want, err |-> r.err])

TInit == l = 1 /\ ops = <<>> /\ bytes = <<>>
TStep == /\ l <= Len(Rec) /\ l' = l + 1 /\ UNCHANGED vars
         /\ LET e == Rec[l] IN
            CASE e.fn = "rv"   -> CheckRv(e)
              [] e.fn = "pipe" -> CheckPipe(e)
TSpec == TInit /\ [][TStep]_<<vars, l>>
Matched == TLCGet("stats").diameter - 1
TraceAccepted == \/ Matched = Len(Rec)
                 \/ PrintT(<<"MATCHED", Matched>>) /\ FALSE
=============================================================================
