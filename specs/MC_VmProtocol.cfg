SPECIFICATION Spec
INVARIANT TypeOK
PROPERTY NoSecondTransition
CONSTRAINT Bound
CHECK_DEADLOCK FALSE
