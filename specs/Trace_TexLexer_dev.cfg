SPECIFICATION TSpec
CONSTANTS
  Bug = ""
  Deviations = {"CaretNoHexForm"}
POSTCONDITION TraceAccepted
CHECK_DEADLOCK FALSE
