SPECIFICATION TSpec
CONSTANTS
  Deviations = {}
POSTCONDITION TraceAccepted
CHECK_DEADLOCK FALSE
