SPECIFICATION TSpec
CONSTANTS
  Deviations = {"LetUndefinedIsNoop"}
POSTCONDITION TraceAccepted
CHECK_DEADLOCK FALSE
