SPECIFICATION Spec
CONSTANTS
  MaxLines2 = 1
  Limit = 3
  Deviations = {}
  Streams = {1}
  RFiles <- NoFiles
INVARIANT MachineIsInline
CHECK_DEADLOCK FALSE
