SPECIFICATION SpecLists
CONSTANTS
  Bug = "MergeAcrossFonts"
  N0 = 3
  N1 = 0
  N2 = 0
  L1 = 0
  L2 = 0
  MaxArgs = 0
  Fns = {}
  Rich = FALSE
  TextLen = 0
  Chars = {}
  IntParts = {}
  Sample = 1
  HiStep = 1
INVARIANTS InvRoundTrip
CHECK_DEADLOCK FALSE
