SPECIFICATION CSpec
CONSTANTS
  Deviations = {}
  ContractBug = "AllowsJunk"
INVARIANTS CTypeOK
CHECK_DEADLOCK TRUE
