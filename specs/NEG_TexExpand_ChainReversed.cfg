SPECIFICATION Spec
CONSTANTS
  N = 6
  Bug = "ChainReversed"
  Deviations = {"NoexpandLostUnderExpandOnce"}
INVARIANT SimpleEqOptimized
INVARIANT ImplEqRef
CHECK_DEADLOCK FALSE
