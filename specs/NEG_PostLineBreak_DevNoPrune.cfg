SPECIFICATION Spec
CONSTANTS
  NodeKinds <- KindsAll
  MaxLen = 1
  Configs <- ConfigsQuick
  TexDevs <- WithDev
  Bug = ""
INVARIANTS NoDiscardableStart
CHECK_DEADLOCK FALSE
