SPECIFICATION Spec
CONSTANTS
  N = 6
  Bug = ""
  Deviations = {}
INVARIANT SimpleEqOptimized
INVARIANT ImplEqRef
CHECK_DEADLOCK FALSE
