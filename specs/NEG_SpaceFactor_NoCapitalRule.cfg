SPECIFICATION Spec
CONSTANTS
  Codes <- CodesQuick
  MaxLen = 4
  Settings <- SettingsQuick
  TexDevs <- NoDevs
  Bug = "NoCapitalRule"
INVARIANTS SfLaw CapitalRule
CHECK_DEADLOCK FALSE
