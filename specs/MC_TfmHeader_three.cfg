SPECIFICATION Spec
CONSTANTS
  MaxOverrides = 3
  ValsAt <- ValsAtQuick
  Bases <- BasesThorough
  Lens <- LensQuick
  ImplDeviations = {}
  ImplBug = ""
INVARIANTS TypeOK MachineMatchesTable TableIsPartitionAtStart OkIsSliceSafeAtStart JunkRule ReadsInBounds Terminates
           ImplAgrees ImplOkIsSliceable TodayDeviatesOnlyInClasses
CHECK_DEADLOCK FALSE
