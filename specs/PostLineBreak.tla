--------------------------- MODULE PostLineBreak ---------------------------
(***************************************************************************)
(* Breaking a paragraph into lines once the breakpoints are chosen: TeX's  *)
(* line_break prologue (tex.web 816) and post_line_break (877-890), and    *)
(* boxworks_knuthplass::LineBreaker::{break_line, post_line_break}.        *)
(*                                                                         *)
(* Three layers, checked against each other by TLC:                        *)
(*                                                                         *)
(*  TeX layer        post_line_break as a machine: one Justify action per  *)
(*                   kind of breakpoint (881-890), one PruneNode step per  *)
(*                   deleted node (879).  The same algorithm as a function *)
(*                   PLB(L, B, P, D) for the trace specification.  The     *)
(*                   named deviations of the findings protocol are         *)
(*                   switches of this layer.                               *)
(*  reference layer  the property as stated, over the finished vertical    *)
(*                   list and a record of what each line gave up (hist):   *)
(*                   reading the lines in order, joining the halves of     *)
(*                   every discretionary taken and putting back what was   *)
(*                   dropped gives the list that was broken (Conservation);*)
(*                   only discardable items are dropped, and only after a  *)
(*                   break (DropsOnlyDiscardables); no line begins with a  *)
(*                   discardable item (NoDiscardableStart); width, indent, *)
(*                   skips, penalties.                                     *)
(*  code layer       the Rust post_line_break transcribed as written.      *)
(*                                                                         *)
(* Nodes are records with a kind k:                                        *)
(*   char c f | lig c f o lb rb | hbox/vbox w h d s n | rule w h d         *)
(*   glue w st sto sh sho gk | kern w kk (1 = explicit) | penalty p        *)
(*   disc pre post rc | math m                                             *)
(* A paragraph setting P is [ls, rs, pfs, ilp, club, widow, broken,        *)
(* widths, indents]; glue specifications are [w, st, sto, sh, sho].        *)
(* The vertical list is a sequence of [k = "hbox", w, s, list] and         *)
(* [k = "penalty", p].  B is the increasing sequence of breakpoints, as    *)
(* positions in L; the last is Len(L) + 1 (cur_break = null).              *)
(***************************************************************************)
EXTENDS Integers, Sequences, FiniteSets

CONSTANTS NodeKinds,  \* model: the kinds of node a list is made of
          MaxLen,     \* model: longest list before 816
          Configs,    \* model: paragraph settings
          TexDevs,    \* deviations switched on in the TeX layer of the model ({} = TeX)
          Bug         \* "" or the name of a seeded design mutant (negative controls)

DevNoPrune == "discardables_after_break_not_pruned"
AllDevs == {DevNoPrune}

Explicit == 1         \* subtype of a kern made by \kern (155)
InfPenalty == 10000

IsZeroGlue(g) == g.w = 0 /\ g.st = 0 /\ g.sh = 0                    \* 1229
GlueNode(g) == [k |-> "glue", w |-> g.w, st |-> g.st, sto |-> g.sto, sh |-> g.sh, sho |-> g.sho, gk |-> 0]
PenaltyNode(p) == [k |-> "penalty", p |-> p]
EmptyDisc == [k |-> "disc", pre |-> <<>>, post |-> <<>>, rc |-> 0]

\* 148 (non_discardable) together with the kern test of 879 / 837
Discardable(x) == \/ x.k \in {"glue", "penalty", "math"}
                  \/ x.k = "kern" /\ x.kk = Explicit
\* what 879 deletes
Prunable(x) == Discardable(x) \/ (Bug = "PruneAnyKern" /\ x.k = "kern")

Last(s) == s[Len(s)]
Front(s) == SubSeq(s, 1, Len(s) - 1)

---------------------------------------------------------------------------
(* 816: the end of the paragraph.                                          *)
ParEnd(L0, P) ==
  LET l1 == IF L0 # <<>> /\ Last(L0).k = "glue" THEN Front(L0) ELSE L0
  IN l1 \o <<PenaltyNode(InfPenalty), GlueNode(P.pfs)>>

---------------------------------------------------------------------------
(* 889: the geometry of line i.                                            *)
LineWidth(W, i) == W[IF i <= Len(W) THEN i ELSE Len(W)]
Indent(I, i) ==
  LET n == IF Bug = "IndentIndexFromWidths" THEN 1 ELSE Len(I) IN
  IF I = <<>> THEN 0 ELSE I[IF i <= n THEN i ELSE n]

---------------------------------------------------------------------------
(* TeX layer.                                                              *)

BadLine == [ok |-> FALSE]

\* 881-885: the end of the line that breaks at position b, when the list still to be broken is
\* post \o SubSeq(L, pos, Len(L)).  body = the line without \leftskip and \rightskip;
\* (post, next) = what is left; disc = disc_break; pdb = post_disc_break.
LineAt(L, post, pos, b) ==
  IF b < pos \/ b > Len(L) + 1 THEN BadLine                 \* confusion("line breaking")
  ELSE LET seg == post \o SubSeq(L, pos, b - 1) IN
  IF b = Len(L) + 1                                          \* q = null: the last line
  THEN [ok |-> TRUE, kind |-> "end", body |-> seg, post |-> <<>>, next |-> b, disc |-> FALSE, pdb |-> FALSE]
  ELSE LET q == L[b] IN
    CASE q.k = "glue" ->                                     \* the glue becomes \rightskip
           [ok |-> TRUE, kind |-> "glue", body |-> seg, post |-> <<>>, next |-> b + 1, disc |-> FALSE, pdb |-> FALSE]
      [] q.k \in {"kern", "math"} ->                         \* width(q) := 0
           [ok |-> TRUE, kind |-> "kern", body |-> Append(seg, [q EXCEPT !.w = 0]), post |-> <<>>, next |-> b + 1,
            disc |-> FALSE, pdb |-> FALSE]
      [] q.k = "penalty" ->
           [ok |-> TRUE, kind |-> "penalty", body |-> Append(seg, q), post |-> <<>>, next |-> b + 1,
            disc |-> FALSE, pdb |-> FALSE]
      [] q.k = "disc" ->                                     \* 882-885
           IF b + q.rc > Len(L) THEN BadLine
           ELSE IF Bug = "PostOnSameLine"
           THEN [ok |-> TRUE, kind |-> "disc", body |-> seg \o <<EmptyDisc>> \o q.pre \o q.post, post |-> <<>>,
                 next |-> b + 1 + q.rc, disc |-> TRUE, pdb |-> FALSE]
           ELSE [ok |-> TRUE, kind |-> "disc", body |-> seg \o <<EmptyDisc>> \o q.pre, post |-> q.post,
                 next |-> b + 1 + (IF Bug = "ReplacedNodesKept" THEN 0 ELSE q.rc),
                 disc |-> TRUE, pdb |-> q.post # <<>>]
      [] OTHER -> BadLine                                    \* not a breakpoint (cur_break is never such a node)

\* 886-887, 889: \rightskip always, \leftskip unless zero_glue; hpack to the width, shifted by the indent
LineBox(body, P, i) ==
  [k |-> "hbox", w |-> LineWidth(P.widths, i), s |-> Indent(P.indents, i),
   list |-> (IF IsZeroGlue(P.ls) THEN <<>> ELSE <<GlueNode(P.ls)>>) \o body \o <<GlueNode(P.rs)>>]

\* 890: the penalty after line i of n (cur_line = i, best_line = n + 1, prev_graf = 0)
PenaltyAfter(P, i, n, disc) ==
  IF Bug = "WidowAfterLastLine"
  THEN <<PenaltyNode(P.ilp + (IF i = 1 THEN P.club ELSE 0) + (IF i = n THEN P.widow ELSE 0)
                            + (IF disc THEN P.broken ELSE 0))>>
  ELSE IF i + 1 = n + 1 THEN <<>>                            \* cur_line + 1 = best_line: the last line
  ELSE LET pen == P.ilp + (IF i = 1 THEN P.club ELSE 0) + (IF i + 2 = n + 1 THEN P.widow ELSE 0)
                        + (IF disc THEN P.broken ELSE 0)
       IN IF pen # 0 THEN <<PenaltyNode(pen)>> ELSE <<>>

\* 879: the first position from pos on that is the next breakpoint nb or holds a node that stays
RECURSIVE PruneFrom(_, _, _)
PruneFrom(L, pos, nb) ==
  IF pos = nb \/ pos > Len(L) THEN pos
  ELSE IF Prunable(L[pos]) THEN PruneFrom(L, pos + 1, nb) ELSE pos

BadPar == [ok |-> FALSE, v |-> <<>>]

\* 877-880: lines i.. of the paragraph
RECURSIVE PLBFrom(_, _, _, _, _, _, _)
PLBFrom(L, B, P, D, i, post, pos) ==
  LET n == Len(B)
      r == LineAt(L, post, pos, B[i])
  IN IF ~r.ok THEN BadPar
     ELSE LET here == <<LineBox(r.body, P, i)>> \o PenaltyAfter(P, i, n, r.disc) IN
          IF i = n
          THEN (IF r.kind = "end" THEN [ok |-> TRUE, v |-> here] ELSE BadPar)     \* link(temp_head) <> null
          ELSE LET npos == IF r.pdb \/ DevNoPrune \in D THEN r.next               \* "if not post_disc_break"
                           ELSE PruneFrom(L, r.next, B[i + 1])
                   rest == PLBFrom(L, B, P, D, i + 1, r.post, npos)
               IN IF rest.ok THEN [ok |-> TRUE, v |-> here \o rest.v] ELSE BadPar

\* post_line_break on the list L with breakpoints B under the deviations D; D = {} is TeX
PLB(L, B, P, D) == IF B = <<>> THEN BadPar ELSE PLBFrom(L, B, P, D, 1, <<>>, 1)

---------------------------------------------------------------------------
(* Code layer: crates/boxworks-knuthplass/src/lib.rs `post_line_break` as  *)
(* written, with its 0-based indices (h_list[a..b] = SubSeq(L, a+1, b)).   *)
(* The baseline-skip glue it pushes is outside the property and left out.  *)

NoneNodes == [some |-> FALSE, v |-> <<>>]
RECURSIVE CodeLoop(_, _, _, _, _, _)
CodeLoop(L, B0, P, li, start, dp) ==
  IF li >= Len(B0) THEN <<>>
  ELSE
  LET bp == B0[li + 1]
      left == IF ~IsZeroGlue(P.ls) THEN <<GlueNode(P.ls)>> ELSE <<>>          \* 887
      taken == IF dp.some THEN dp.v ELSE <<>>                                  \* disc_post_break_nodes.take()
      seg == SubSeq(L, start + 1, bp)                                           \* h_list[start_of_line..*break_point]
      start1 == bp + 1
      has == bp < Len(L)                                                        \* h_list.get(*break_point)
      q == IF has THEN L[bp + 1] ELSE EmptyDisc
      isdisc == has /\ q.k = "disc"
      tail == IF ~has THEN <<>>
              ELSE CASE q.k = "disc" -> <<EmptyDisc>> \o q.pre
                     [] q.k = "math" -> <<q>>
                     [] q.k = "glue" -> <<>>
                     [] q.k = "kern" -> <<[q EXCEPT !.w = 0]>>
                     [] q.k = "penalty" -> <<q>>
      dp1 == IF isdisc THEN [some |-> TRUE, v |-> q.post] ELSE NoneNodes
      start2 == IF isdisc THEN start1 + q.rc ELSE start1
      inner == left \o taken \o seg \o tail \o <<GlueNode(P.rs)>>              \* 886
      W == P.widths
      I == P.indents
      width == IF li < Len(W) THEN W[li + 1] ELSE W[Len(W)]
      indent == IF li < Len(I) THEN I[li + 1] ELSE IF I # <<>> THEN I[Len(I)] ELSE 0
      box == [k |-> "hbox", w |-> width, s |-> indent, list |-> inner]
      pens == IF li + 1 # Len(B0)
              THEN LET p == P.ilp + (IF li = 0 THEN P.club ELSE 0) + (IF li + 2 = Len(B0) THEN P.widow ELSE 0)
                                  + (IF dp1.some THEN P.broken ELSE 0)
                   IN IF p # 0 THEN <<PenaltyNode(p)>> ELSE <<>>
              ELSE <<>>
  IN <<box>> \o pens \o CodeLoop(L, B0, P, li + 1, start2, dp1)

CodePLB(L, B, P) == CodeLoop(L, [j \in 1..Len(B) |-> B[j] - 1], P, 0, 0, NoneNodes)

---------------------------------------------------------------------------
(* The machine.                                                            *)

VARIABLES L0,      \* the horizontal list as line_break receives it
          L,       \* the list after 816: what is broken
          B,       \* the breakpoints chosen
          P,       \* the paragraph setting
          phase,   \* "build" | "break" (about to justify line i) | "prune" (879 after line i) | "done"
          i,       \* cur_line
          post,    \* transplanted post-break list at the head of what is left (884)
          pos,     \* position in L of the first remaining original node
          out,     \* the vertical list
          hist     \* per finished line: [bk, npost, rc, drop] -- what the line gave up

vars == <<L0, L, B, P, phase, i, post, pos, out, hist>>

MkNode(kd, id) ==
  CASE kd = "c"  -> [k |-> "char", c |-> id, f |-> 1]
    [] kd = "g"  -> [k |-> "glue", w |-> id, st |-> 1, sto |-> 0, sh |-> 0, sho |-> 0, gk |-> 0]
    [] kd = "p"  -> [k |-> "penalty", p |-> id]
    [] kd = "x"  -> [k |-> "kern", w |-> id, kk |-> Explicit]
    [] kd = "n"  -> [k |-> "kern", w |-> id, kk |-> 0]
    [] kd = "d0" -> EmptyDisc
    [] kd = "d1" -> [k |-> "disc", pre |-> <<[k |-> "char", c |-> 100 + id, f |-> 1]>>, post |-> <<>>, rc |-> 0]
    [] kd = "d2" -> [k |-> "disc", pre |-> <<[k |-> "char", c |-> 100 + id, f |-> 1]>>,
                     post |-> <<[k |-> "char", c |-> 200 + id, f |-> 1]>>, rc |-> 1]
    [] kd = "d3" -> [k |-> "disc", pre |-> <<>>,
                     post |-> <<[k |-> "char", c |-> 200 + id, f |-> 1], [k |-> "kern", w |-> 300 + id, kk |-> 0]>>,
                     rc |-> 0]

Init == /\ L0 = <<>> /\ L = <<>> /\ B = <<>> /\ P \in Configs /\ phase = "build"
        /\ i = 0 /\ post = <<>> /\ pos = 1 /\ out = <<>> /\ hist = <<>>

Append1(kds) == /\ phase = "build" /\ Len(L0) < MaxLen
                /\ \E kd \in kds \cap NodeKinds : L0' = Append(L0, MkNode(kd, Len(L0) + 1))
                /\ UNCHANGED <<L, B, P, phase, i, post, pos, out, hist>>
AppendChar    == phase = "build" /\ Append1({"c"})
AppendGlue    == phase = "build" /\ Append1({"g"})
AppendPenalty == phase = "build" /\ Append1({"p"})
AppendKern    == phase = "build" /\ Append1({"x", "n"})
AppendDisc    == phase = "build" /\ Append1({"d0", "d1", "d2", "d3"})

RECURSIVE SortedSeq(_)
SortedSeq(S) == IF S = {} THEN <<>>
                ELSE LET m == CHOOSE x \in S : \A y \in S : x <= y IN <<m>> \o SortedSeq(S \ {m})

\* 816, then line_break chooses breakpoints: here any set of positions post_line_break can work with
ParEndAndChoose ==
  /\ phase = "build"
  /\ LET l == ParEnd(L0, P) IN
     \E S \in SUBSET {j \in 1..Len(l) : l[j].k \in {"glue", "kern", "penalty", "disc"}} :
        LET b == SortedSeq(S \cup {Len(l) + 1}) IN
        \* the nodes a discretionary replaces exist (145), and post_line_break can work with b
        /\ \A j \in 1..Len(l) : l[j].k = "disc" => j + l[j].rc <= Len(l) - 2
        /\ PLB(l, b, P, TexDevs).ok
        /\ L' = l /\ B' = b
  /\ phase' = "break" /\ i' = 1
  /\ UNCHANGED <<L0, P, post, pos, out, hist>>

\* 880-890 for the line ending at the breakpoint B[i] of the given kind
Justify(kind) ==
  /\ phase = "break"
  /\ LET r == LineAt(L, post, pos, B[i]) n == Len(B) IN
     /\ r.ok /\ r.kind = kind
     /\ out' = out \o <<LineBox(r.body, P, i)>> \o PenaltyAfter(P, i, n, r.disc)
     /\ hist' = Append(hist, [bk |-> kind, npost |-> Len(post),
                              rc |-> IF kind = "disc" THEN L[B[i]].rc ELSE 0,
                              drop |-> IF kind \in {"glue", "kern"} THEN <<L[B[i]]>>
                                       ELSE IF kind = "disc" THEN SubSeq(L, B[i] + 1, r.next - 1)
                                       ELSE <<>>])
     /\ post' = r.post /\ pos' = r.next
     /\ IF i = n THEN phase' = "done" /\ i' = i
        ELSE IF r.pdb \/ DevNoPrune \in TexDevs THEN phase' = "break" /\ i' = i + 1
        ELSE phase' = "prune" /\ i' = i
  /\ UNCHANGED <<L0, L, B, P>>

JustifyAtGlue    == phase = "break" /\ Justify("glue")
JustifyAtKern    == phase = "break" /\ Justify("kern")
JustifyAtPenalty == phase = "break" /\ Justify("penalty")
JustifyAtDisc    == phase = "break" /\ Justify("disc")
JustifyLast      == phase = "break" /\ Justify("end")

\* 879, the loop body: q = link(r) is deleted
CanPrune == pos # B[i + 1] /\ pos <= Len(L) /\ Prunable(L[pos])
PruneNode == /\ phase = "prune" /\ CanPrune
             /\ pos' = pos + 1
             /\ hist' = [hist EXCEPT ![i].drop = Append(@, L[pos])]
             /\ UNCHANGED <<L0, L, B, P, phase, i, post, out>>
\* 879, done1
PruneStop == /\ phase = "prune" /\ ~CanPrune
             /\ phase' = "break" /\ i' = i + 1
             /\ UNCHANGED <<L0, L, B, P, post, pos, out, hist>>

Next == \/ AppendChar \/ AppendGlue \/ AppendPenalty \/ AppendKern \/ AppendDisc
        \/ ParEndAndChoose
        \/ JustifyAtGlue \/ JustifyAtKern \/ JustifyAtPenalty \/ JustifyAtDisc \/ JustifyLast
        \/ PruneNode \/ PruneStop
Spec == Init /\ [][Next]_vars

---------------------------------------------------------------------------
(* Reference layer: the property, read off the finished vertical list.     *)

Lines == SelectSeq(out, LAMBDA x : x.k = "hbox")
NLines == Len(Lines)

\* a line without \leftskip and \rightskip
BodyOf(box) == LET l == box.list
                   a == IF IsZeroGlue(P.ls) THEN 1 ELSE 2
               IN SubSeq(l, a, Len(l) - 1)
\* ... and without the second half of the discretionary the previous line ended with
CoreOf(j) == LET b == BodyOf(Lines[j]) IN SubSeq(b, hist[j].npost + 1, Len(b))
PostHalf(j) == SubSeq(BodyOf(Lines[j]), 1, hist[j].npost)

LastDisc(s) == CHOOSE m \in 1..Len(s) : s[m].k = "disc" /\ \A m2 \in (m + 1)..Len(s) : s[m2].k # "disc"

\* what line j stands for in the list that was broken
Piece(j) ==
  LET c == CoreOf(j) h == hist[j] IN
  CASE h.bk \in {"glue", "penalty"} -> c \o h.drop
    [] h.bk = "kern" -> Front(c) \o h.drop                  \* the kern of the line has lost its width
    [] h.bk = "end" -> c
    [] h.bk = "disc" ->
         LET m == LastDisc(c) IN
         SubSeq(c, 1, m - 1)
         \o <<[k |-> "disc", pre |-> SubSeq(c, m + 1, Len(c)),
               post |-> IF j < NLines THEN PostHalf(j + 1) ELSE <<>>, rc |-> h.rc]>>
         \o h.drop

RECURSIVE Reassemble(_)
Reassemble(j) == IF j > NLines THEN <<>> ELSE Piece(j) \o Reassemble(j + 1)

Done == phase = "done"

\* nothing is lost, duplicated or reordered
Conservation == Done => /\ Len(hist) = NLines
                        /\ Reassemble(1) = L

\* only the break node itself, the nodes a discretionary replaces, and discardable items after them are dropped
DropsOnlyDiscardables ==
  \A j \in 1..Len(hist) :
    LET h == hist[j]
        own == IF h.bk \in {"glue", "kern"} THEN 1 ELSE h.rc
    IN /\ Len(h.drop) >= own
       /\ h.bk = "glue" => h.drop[1].k = "glue"
       /\ h.bk = "kern" => (h.drop[1].k \in {"kern", "math"} /\ j <= NLines /\ CoreOf(j) # <<>>
                            /\ Last(CoreOf(j)) = [h.drop[1] EXCEPT !.w = 0])
       /\ \A m \in (own + 1)..Len(h.drop) : Discardable(h.drop[m])
       \* nothing is pruned behind transplanted post-break material
       /\ (j < Len(hist) /\ hist[j + 1].npost > 0) => Len(h.drop) = own

\* no line after the first begins with a discardable item -- except the anomalous line that consists
\* of its own breakpoint (879)
NoDiscardableStart ==
  Done => \A j \in 2..NLines :
            LET c == CoreOf(j) IN
            (hist[j].npost = 0 /\ c # <<>> /\ Discardable(c[1]))
               => (Len(c) = 1 /\ hist[j].bk \in {"kern", "penalty"})

\* what is dropped after a break is dropped completely: the next line starts at its breakpoint,
\* at the end of the list, or with an item that stays
PrunedCompletely ==
  (phase = "break" /\ i > 1 /\ post = <<>> /\ TexDevs = {}) =>
     (pos = B[i] \/ pos > Len(L) \/ ~Discardable(L[pos]))

\* every line box has the requested width and indent (889)
Geometry == \A j \in 1..NLines :
              /\ Lines[j].w = P.widths[IF j <= Len(P.widths) THEN j ELSE Len(P.widths)]
              /\ Lines[j].s = IF P.indents = <<>> THEN 0
                              ELSE P.indents[IF j <= Len(P.indents) THEN j ELSE Len(P.indents)]

\* \leftskip iff non-zero, \rightskip always, \parfillskip last (816, 886, 887)
Skips == /\ \A j \in 1..NLines :
              LET l == Lines[j].list IN
              /\ Last(l) = GlueNode(P.rs)
              /\ IF IsZeroGlue(P.ls) THEN Len(l) >= 1 ELSE Len(l) >= 2 /\ l[1] = GlueNode(P.ls)
         /\ Done => LET b == BodyOf(Lines[NLines]) IN
                    b # <<>> => Last(b) = GlueNode(P.pfs)

\* club / widow / broken-line penalties (890): read off the vertical list as a whole
Penalties ==
  Done =>
    LET n == NLines
        idx == [j \in 1..n |-> CHOOSE m \in 1..Len(out) :
                                 out[m].k = "hbox" /\ Cardinality({m2 \in 1..m : out[m2].k = "hbox"}) = j]
        want(j) == P.ilp + (IF j = 1 THEN P.club ELSE 0) + (IF j = n - 1 THEN P.widow ELSE 0)
                         + (IF hist[j].bk = "disc" THEN P.broken ELSE 0)
    IN /\ out[Len(out)].k = "hbox"                                     \* nothing after the last line
       /\ \A j \in 1..(n - 1) :
            IF want(j) = 0 THEN idx[j + 1] = idx[j] + 1
            ELSE idx[j + 1] = idx[j] + 2 /\ out[idx[j] + 1] = PenaltyNode(want(j))

\* 816
ParEndLaw == phase # "build" =>
  /\ Len(L) >= 2 /\ L[Len(L)] = GlueNode(P.pfs) /\ L[Len(L) - 1] = PenaltyNode(InfPenalty)
  /\ LET core == SubSeq(L, 1, Len(L) - 2) IN
     \/ core = L0 /\ (L0 = <<>> \/ Last(L0).k # "glue")
     \/ L0 # <<>> /\ Last(L0).k = "glue" /\ core = Front(L0)

\* the machine and the function used by the trace specification are the same thing
MachineIsFunction == Done => out = PLB(L, B, P, TexDevs).v

\* the code layer is TeX plus exactly the recorded deviation ...
CodeIsTexPlusDeviations == Done => CodePLB(L, B, P) = PLB(L, B, P, AllDevs).v
\* ... (negative control) and not TeX
CodeIsTex == Done => CodePLB(L, B, P) = PLB(L, B, P, {}).v

\* the deviation changes the outcome only when some break is followed by a discardable item that is not
\* the next breakpoint
PreNoPrune == \E j \in 1..(Len(B) - 1) :
                LET r == B[j] + 1 + (IF L[B[j]].k = "disc" THEN L[B[j]].rc ELSE 0) IN
                /\ ~(L[B[j]].k = "disc" /\ L[B[j]].post # <<>>)
                /\ r <= Len(L) /\ r # B[j + 1] /\ Discardable(L[r])
DeviationIsLocal == Done => (PLB(L, B, P, {DevNoPrune}).v # PLB(L, B, P, {}).v <=> PreNoPrune)
=============================================================================
