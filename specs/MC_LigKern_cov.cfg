SPECIFICATION Spec
CONSTANTS
  Letters = {97, 98}
  MaxRules = 1
  MaxLen = 3
  Ops = {0, 1, 2, 3, 5, 6, 7, 11, 128}
  StopAtHit = TRUE
  CheckFlags = TRUE
  Bug = ""
  Deviations = {}
INVARIANTS Spelling RefinesCursor NoHitIfDone HitIfBound PairExact LoopReportExact
CHECK_DEADLOCK FALSE
