SPECIFICATION TSpec
CONSTANTS
  Alphabet <- NoItems
  MaxLen = 0
  Tails <- NoItems
  WidthSeqs <- NoItems
  ParSets <- NoItems
  Devs <- NoDevs
  Bug = ""
POSTCONDITION TraceAccepted
CHECK_DEADLOCK FALSE
