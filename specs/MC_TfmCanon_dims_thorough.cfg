SPECIFICATION Spec
CONSTANTS
  Threshold = 1
  MaxRedirect = 65535
  MaxHeader = 255
  Deviations = {}
  Bug = ""
  Mode = "dims"
  NC = 2
  MaxBody = 3
  MaxPrefix = 2
  SkipBytes = {0, 1, 128}
  Variants = {0, 2}
  DimVals = {0, 3, 5}
  MaxW = 3
  MaxE = 2
  MaxH = 1
  DomT = 1
  PadK = 0
  Waive = {}
INVARIANTS Idempotent SameFont SameChains Fits Closed MainLoopSame PlWellFormed
CHECK_DEADLOCK FALSE
