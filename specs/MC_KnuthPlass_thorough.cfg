SPECIFICATION Spec
CONSTANTS
  Alphabet <- AlphaFull
  MaxLen = 4
  Tails <- BothTails
  WidthSeqs <- WidthsFull
  ParSets <- ParsFull
  Devs <- NoDevs
  Bug = ""
INVARIANTS Refines NodesWitnessed ScanInv
CHECK_DEADLOCK FALSE
