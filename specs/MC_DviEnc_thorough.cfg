SPECIFICATION Spec
CONSTANTS
  FirstOps <- MCFirst
  Followers <- MCFollow
  MaxOps = 3
  Bug = ""
INVARIANTS RoundTrip TruncationLaw MinimalIsLeast
CHECK_DEADLOCK FALSE
