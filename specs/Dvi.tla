-------------------------------- MODULE Dvi --------------------------------
(* The DVI register machine and the removal of the w, x, y, z variables.    *)
(*                                                                          *)
(* Reference layer -- the meaning of a DVI stream (TeX.2021.584-585,        *)
(* dvitype.web part "Translation to symbolic form", sections 79-92):        *)
(*   registers h, v, w, x, y, z and the current font f; a stack of          *)
(*   (h,v,w,x,y,z); `bop` zeroes the six registers, empties the stack and   *)
(*   makes f undefined; `push` copies the six registers, `pop` restores     *)
(*   them (dvitype: a pop at level zero is reported and ignored); f is      *)
(*   never stacked; w_k/x_k/y_k/z_k set the variable and then move by it,   *)
(*   w0/x0/y0/z0 move by it; set_char/set_rule advance h, put_* do not.     *)
(*   Since the machine does not know font metrics, h is kept as dvi::Values *)
(*   keeps it: an integer plus the list of (char, font) whose widths have   *)
(*   been added by set_char.                                                *)
(*                                                                          *)
(* Implementation-shaped layer -- transforms::VarRemover: a tracker of the  *)
(* four variables and their stack (the part of dvi::Values the transform    *)
(* reads) that rewrites every w/x/y/z command into right/down with the      *)
(* current value and passes every other command through.                    *)
(*                                                                          *)
(* The state machine runs three things in lock step on one op stream:       *)
(*   a = reference machine on the input stream,                             *)
(*   t = the remover's tracker,                                             *)
(*   b = reference machine on the remover's output stream,                  *)
(* and TLC checks that b never uses a variable and is, after every op, at   *)
(* the same page position with the same font as a (so every character and   *)
(* rule is typeset where it was), on the current level and on every stacked *)
(* level.                                                                   *)
EXTENDS Integers, Sequences

CONSTANTS Chars,      \* character codes used by the model (opaque values)
          Fonts,      \* font numbers used by the model (opaque values)
          Operands,   \* distances used by right/down/w/x/y/z/rule
          VarSet,     \* subset of Var used by the model
          MaxDepth,   \* bound on the stack depth explored
          MaxSteps,   \* bound on the length of the op stream explored
          Bug         \* "" or the name of a seeded design error (negative controls)

Var == 0..3                       \* W = 0, X = 1, Y = 2, Z = 3 (dvi::Var discriminants)
Horizontal(var) == var \in {0, 1} \* w, x move h; y, z move v
Undef == <<-1, -1>>               \* "f is undefined" (font numbers are pairs <<hi, lo>>)
Zero4 == [i \in Var |-> 0]

IsVarOp(o) == o.k \in {"move", "setvar"}
IsTypeset(o) == o.k \in {"char", "rule"}

-----------------------------------------------------------------------------
(* Reference machine.  A frame is what push/pop save. *)
Frame0 == [h |-> 0, cs |-> <<>>, v |-> 0, vars |-> Zero4]
M0 == [top |-> Frame0, stack |-> <<>>, f |-> Undef]

MoveH(fr, d) == [fr EXCEPT !.h = @ + d]
MoveV(fr, d) == [fr EXCEPT !.v = @ + d]
Shift(fr, var, d) == IF Horizontal(var) THEN MoveH(fr, d) ELSE MoveV(fr, d)
Front(s) == SubSeq(s, 1, Len(s) - 1)

Step(m, o) ==
  CASE o.k = "char"   -> IF o.mv THEN [m EXCEPT !.top.cs = Append(@, <<o.c, m.f>>)] ELSE m
    [] o.k = "rule"   -> IF o.mv THEN [m EXCEPT !.top = MoveH(@, o.wd)] ELSE m
    [] o.k = "bop"    -> M0
    [] o.k = "push"   -> [m EXCEPT !.stack = Append(@, m.top)]
    [] o.k = "pop"    -> IF m.stack = <<>> THEN m
                         ELSE [m EXCEPT !.top = m.stack[Len(m.stack)], !.stack = Front(@)]
    [] o.k = "right"  -> [m EXCEPT !.top = MoveH(@, o.d)]
    [] o.k = "down"   -> [m EXCEPT !.top = MoveV(@, o.d)]
    [] o.k = "move"   -> [m EXCEPT !.top = Shift(@, o.var, m.top.vars[o.var])]
    [] o.k = "setvar" -> [m EXCEPT !.top = Shift([@ EXCEPT !.vars[o.var] = o.d], o.var, o.d)]
    [] o.k = "font"   -> [m EXCEPT !.f = o.n]
    [] OTHER          -> m      \* nop, eop, xxx, fnt_def, pre, post, post_post

\* Where and in which font the next character or rule would be typeset.
Place(m) == [h |-> m.top.h, cs |-> m.top.cs, v |-> m.top.v, f |-> m.f]
PlaceOfFrame(fr) == [h |-> fr.h, cs |-> fr.cs, v |-> fr.v]

-----------------------------------------------------------------------------
(* The registers are 32-bit (TeX.2021.584: "signed integers having up to 32 bits"); DVItype   *)
(* reports an "arithmetic overflow" when a motion would leave that range (dvitype.web 91-92). *)
(* The operators below find the first op of a stream that would do so, without ever forming   *)
(* an out-of-range number.                                                                    *)
MaxI == 2147483647
MinI == -2147483647 - 1
AddOverflows(x, d) == (d > 0 /\ x > MaxI - d) \/ (d < 0 /\ x < MinI - d)
Motion(m, o) ==       \* the register an op moves and by how much
  CASE o.k = "rule" /\ o.mv -> <<"h", o.wd>>
    [] o.k = "right"        -> <<"h", o.d>>
    [] o.k = "down"         -> <<"v", o.d>>
    [] o.k = "setvar"       -> <<IF Horizontal(o.var) THEN "h" ELSE "v", o.d>>
    [] o.k = "move"         -> <<IF Horizontal(o.var) THEN "h" ELSE "v", m.top.vars[o.var]>>
    [] OTHER                -> <<"-", 0>>
Overflows(m, o) == LET mo == Motion(m, o) IN
  \/ mo[1] = "h" /\ AddOverflows(m.top.h, mo[2])
  \/ mo[1] = "v" /\ AddOverflows(m.top.v, mo[2])
RECURSIVE FirstOverflowFrom(_, _, _)
FirstOverflowFrom(m, ops, i) ==
  IF i > Len(ops) THEN 0
  ELSE IF Overflows(m, ops[i]) THEN i
  ELSE FirstOverflowFrom(Step(m, ops[i]), ops, i + 1)
FirstOverflow(ops) == FirstOverflowFrom(M0, ops, 1)   \* 0 = the stream stays in range

-----------------------------------------------------------------------------
(* The remover.  Its tracker keeps only the variables and their stack. *)
T0 == [vars |-> Zero4, stack |-> <<>>]

Track(t, o) ==
  CASE o.k = "bop"    -> IF Bug = "NoBopReset" THEN t ELSE T0
    [] o.k = "push"   -> [t EXCEPT !.stack = Append(@, t.vars)]
    [] o.k = "pop"    -> IF t.stack = <<>>
                         THEN (IF Bug = "PopEmptyResets" THEN T0 ELSE t)
                         ELSE IF Bug = "PopKeepsVars" THEN [t EXCEPT !.stack = Front(@)]
                         ELSE [vars |-> t.stack[Len(t.stack)], stack |-> Front(t.stack)]
    [] o.k = "setvar" -> [t EXCEPT !.vars[o.var] = o.d]
    [] OTHER          -> t

\* Var whose value the rewritten op carries.
ReadVar(var) == IF Bug = "SwapWX" /\ Horizontal(var) THEN 1 - var ELSE var

Out(t, o) ==
  IF IsVarOp(o)
  THEN LET d == IF Bug = "MoveBeforeSet" THEN t.vars[ReadVar(o.var)]
                ELSE Track(t, o).vars[ReadVar(o.var)]
       IN IF Horizontal(o.var) THEN [k |-> "right", d |-> d] ELSE [k |-> "down", d |-> d]
  ELSE o

\* The transformation as an operator on whole streams (used by the bindings).
RECURSIVE RemoveFrom(_, _)
RemoveFrom(t, ops) ==
  IF ops = <<>> THEN <<>> ELSE <<Out(t, Head(ops))>> \o RemoveFrom(Track(t, Head(ops)), Tail(ops))
RemoveVars(ops) == RemoveFrom(T0, ops)

-----------------------------------------------------------------------------
VARIABLES a, t, b, n, op
vars == <<a, t, b, n, op>>

Init == a = M0 /\ t = T0 /\ b = M0 /\ n = 0 /\ op = [o |-> [k |-> "init"], res |-> [k |-> "init"]]

Do(o) == /\ n < MaxSteps
         /\ a' = Step(a, o)
         /\ t' = Track(t, o)
         /\ b' = Step(b, Out(t, o))
         /\ n' = n + 1
         /\ op' = [o |-> o, res |-> Out(t, o)]

\* (each action is a conjunction so that TLC's coverage reports it under its own name)
TypesetChar == \E c \in Chars, mv \in BOOLEAN : n < MaxSteps /\ Do([k |-> "char", c |-> c, mv |-> mv])
TypesetRule == \E d \in Operands, mv \in BOOLEAN : n < MaxSteps /\ Do([k |-> "rule", ht |-> 1, wd |-> d, mv |-> mv])
BeginPage   == n < MaxSteps /\ Do([k |-> "bop"])
EndPage     == n < MaxSteps /\ Do([k |-> "eop"])
Push        == Len(a.stack) < MaxDepth /\ Do([k |-> "push"])
Pop         == a.stack # <<>> /\ Do([k |-> "pop"])
PopEmpty    == a.stack = <<>> /\ Do([k |-> "pop"])
Right       == \E d \in Operands : n < MaxSteps /\ Do([k |-> "right", d |-> d])
Down        == \E d \in Operands : n < MaxSteps /\ Do([k |-> "down", d |-> d])
SetVar      == \E var \in VarSet, d \in Operands : n < MaxSteps /\ Do([k |-> "setvar", var |-> var, d |-> d])
Move        == \E var \in VarSet : n < MaxSteps /\ Do([k |-> "move", var |-> var])
EnableFont  == \E f \in Fonts : n < MaxSteps /\ Do([k |-> "font", n |-> f])
Other       == n < MaxSteps /\ Do([k |-> "nop"])

Next == \/ TypesetChar \/ TypesetRule \/ BeginPage \/ EndPage \/ Push \/ Pop \/ PopEmpty
        \/ Right \/ Down \/ SetVar \/ Move \/ EnableFont \/ Other
Spec == Init /\ [][Next]_vars

-----------------------------------------------------------------------------
(* Properties *)
\* C16, second sentence: the page position and font at which anything is typeset are unchanged ...
Preserved == Place(a) = Place(b)
\* ... also on every stacked level (so the statement is inductive: a later pop cannot break it)
StackPreserved == /\ Len(a.stack) = Len(b.stack)
                  /\ \A i \in 1..Len(a.stack) : PlaceOfFrame(a.stack[i]) = PlaceOfFrame(b.stack[i])
\* ... every other operation is unchanged ...
OthersVerbatim == (op.o.k # "init" /\ ~IsVarOp(op.o)) => op.res = op.o
\* ... and the output avoids the variables.
OutNoVars == /\ ~IsVarOp(op.res)
             /\ b.top.vars = Zero4
             /\ \A i \in 1..Len(b.stack) : b.stack[i].vars = Zero4
\* the tracker is a faithful projection of the reference machine
TrackerFaithful == /\ t.vars = a.top.vars
                   /\ Len(t.stack) = Len(a.stack)
                   /\ \A i \in 1..Len(a.stack) : t.stack[i] = a.stack[i].vars
=============================================================================
