--------------------------- MODULE Trace_TexMacro ---------------------------
(* Binding F for C02: an event is one (definition, call) run on the real VM   *)
(* with what the post-macro-expansion hook observed (arguments bound,         *)
(* expansion) and the tokens delivered afterwards.  In scope (the call        *)
(* matches, arguments brace-balanced) the observation must equal RefCall;     *)
(* when expansion ++ rest is brace-balanced the delivered tokens must be      *)
(* exactly its non-brace tokens (the tokens after the call are untouched).    *)
EXTENDS TexMacro, TLC, Json, IOUtils
Rec == ndJsonDeserialize(IOEnv.TRACE)
VARIABLE l

NoBraces(s) == SelectSeq(s, LAMBDA tk : tk.t \notin {"lb", "rb"})

Judge(e) ==
  IF ~InScope(e.d, e.input) THEN "skip-out-of-scope"
  ELSE LET r == RefCall(e.d, e.input)
           all == r.expansion \o r.rest
       IN IF ~e.obs.called THEN "mismatch-not-expanded"
          ELSE IF e.obs.args # r.args THEN "mismatch-args"
          ELSE IF e.obs.expansion # r.expansion THEN "mismatch-expansion"
          ELSE IF Balanced(all) /\ (e.obs.err # "" \/ e.obs.delivered # NoBraces(all)) THEN "mismatch-rest"
          ELSE "ok"

TInit == l = 1
TStep == /\ l <= Len(Rec) /\ l' = l + 1
         /\ LET e == Rec[l] j == Judge(e) IN
            IF j = "ok" THEN TRUE
            ELSE PrintT(<<"VERDICT", ToJson([l |-> l, key |-> j,
                   want |-> IF j = "skip-out-of-scope" THEN <<>> ELSE RefCall(e.d, e.input).args])>>)
TSpec == TInit /\ [][TStep]_l
Matched == TLCGet("stats").diameter - 1
TraceAccepted == \/ Matched = Len(Rec)
                 \/ PrintT(<<"MATCHED", Matched>>) /\ FALSE
==============================================================================
