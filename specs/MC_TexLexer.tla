---------------------------- MODULE MC_TexLexer ----------------------------
(* Scanner invariants over every text up to N characters over a role alphabet. *)
EXTENDS TexLexer, TLC, FiniteSets
CONSTANT N
\* roles: escape, letter, a second letter that is also a hex digit, space, ^, comment, end-line,
\* ignored, a non-ASCII other character, newline (10, the line separator)
Table == << <<92, 0>>, <<97, 11>>, <<77, 11>>, <<32, 10>>, <<94, 7>>, <<37, 14>>, <<13, 5>>, <<0, 9>>, <<127, 15>> >>
Sigma == {92, 97, 77, 32, 94, 37, 233, 127, 10}
Elcs == {-1, 13, 97, 94}
VARIABLES txt, elc
Init == txt \in UNION { [1..n -> Sigma] : n \in 0..N } /\ elc \in Elcs
Next == UNCHANGED <<txt, elc>>
Spec == Init /\ [][Next]_<<txt, elc>>

\* split at 10; a trailing empty piece is not a line
RECURSIVE Split(_, _)
Split(s, cur) == IF s = <<>> THEN (IF cur = <<>> THEN <<>> ELSE <<cur>>)
                 ELSE IF Head(s) = 10 THEN <<cur>> \o Split(Tail(s), <<>>)
                 ELSE Split(Tail(s), Append(cur, Head(s)))
Lines == Split(txt, <<>>)
Out == Lex(Lines, Table, elc)

Before(a, b) == a.ln < b.ln \/ (a.ln = b.ln /\ a.col < b.col)
IsSpace(e) == e.k = "tok" /\ e.cat = 10

\* (TLC caches LET-bound values, so the token list is computed once per state)
ScannerInvariants ==
  LET lines == Lines
      out == Lex(lines, Table, elc)
      n == Len(out)
  IN \* every token starts at its own source character, in order
     /\ \A i \in 1..(n - 1) : Before(out[i], out[i + 1])
     \* that character lies inside its (trimmed) source line, or just after it (end-line character)
     /\ \A i \in 1..n : /\ out[i].ln \in 1..Len(lines)
                         /\ out[i].col >= 0 /\ out[i].col <= Len(TrimRight(lines[out[i].ln]))
     \* no two space tokens in a row from one line; a line never starts with a space token
     /\ \A i \in 1..n : IsSpace(out[i]) =>
           /\ (i > 1 /\ out[i - 1].ln = out[i].ln)
           /\ ~(i > 1 /\ IsSpace(out[i - 1]) /\ out[i - 1].ln = out[i].ln)
     \* a \par made from the end-line character is the first token of its line
     /\ \A i \in 1..n :
           (out[i].k = "tok" /\ out[i].cat = 16 /\ out[i].name = Par /\ elc >= 0
              /\ out[i].col = Len(TrimRight(lines[out[i].ln])))
             => ~\E j \in 1..(i - 1) : out[j].ln = out[i].ln /\ out[j].k = "tok"
=============================================================================
