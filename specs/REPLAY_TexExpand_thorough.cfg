SPECIFICATION Spec
CONSTANTS
  N = 6
  Bug = ""
  Deviations = {}
INVARIANT SimpleEqOptimized
INVARIANT EmitInv
CHECK_DEADLOCK FALSE
