------------------------ MODULE MC_TfmArith_NextLarger ------------------------
(* Next-larger chains (charlists).  For every functional graph g on the       *)
(* characters 0..N-1 (every character has at most one NEXTLARGER link) TLC    *)
(* checks that the sequential scan of TFtoPL 84 / PLtoTF 113 removes exactly  *)
(* the links that leave the largest character of each cycle, that nothing     *)
(* else is removed, and that every chain of the result is finite.             *)
(* Graphs are built link by link (characters in increasing order) so that     *)
(* the work is spread over TLC's workers.                                     *)
EXTENDS TfmArith, TLC
CONSTANTS N
VARIABLES g, next            \* g: links of the characters < next
vars == <<g, next>>

Chars == 0 .. (N - 1)
Init == g = <<>> /\ next = 0
AddLink == /\ next < N
           /\ \E y \in Chars : g' = [x \in (DOMAIN g) \cup {next} |-> IF x = next THEN y ELSE g[x]]
           /\ next' = next + 1
NoLink == next < N /\ next' = next + 1 /\ UNCHANGED g
Spec == Init /\ [][AddLink \/ NoLink]_vars

Complete == next = N
h == Cut(g)

WalkIsDefinition == CutSet(g) = CutSetDef(g)
ScanRefines == Complete => ListScan(g, 0, N - 1) = h
ChainsFinite == Acyclic(h)
FollowsLinks == \A c \in DOMAIN h : c \in DOMAIN g /\ h[c] = g[c]
(* exactly one link of every cycle is removed, and it is the one that leaves   *)
(* the largest character; no link outside a cycle is removed                   *)
CutOnlyAtLargest ==
  /\ \A c \in DOMAIN g : OnCycle(g, c) => Cardinality(Members(g, c) \cap CutSet(g)) = 1
  /\ \A c \in CutSet(g) : OnCycle(g, c) /\ \A x \in Members(g, c) : x <= c
(* the chain of c in the result is the walk along g up to the first removed    *)
(* link                                                                        *)
RECURSIVE WalkG(_, _)
WalkG(c, n) == IF n = 0 \/ c \notin DOMAIN g \/ c \in CutSet(g) THEN <<>> ELSE <<g[c]>> \o WalkG(g[c], n - 1)
ChainIsWalk == \A c \in Chars : Chain(h, c, N + 1) = WalkG(c, N + 1)
=============================================================================
