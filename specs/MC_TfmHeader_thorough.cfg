SPECIFICATION Spec
CONSTANTS
  MaxOverrides = 2
  ValsAt <- ValsAtWide
  Bases <- BasesThorough
  Lens <- LensThorough
  ImplDeviations = {}
  ImplBug = ""
INVARIANTS TypeOK MachineMatchesTable TableIsPartitionAtStart OkIsSliceSafeAtStart JunkRule ReadsInBounds Terminates
           ImplAgrees ImplOkIsSliceable TodayDeviatesOnlyInClasses
CHECK_DEADLOCK FALSE
