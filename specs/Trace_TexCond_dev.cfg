SPECIFICATION TSpec
CONSTANTS
  Bug = ""
  Deviations = {"IfoddNegativeIsEven"}
POSTCONDITION TraceAccepted
CHECK_DEADLOCK FALSE
