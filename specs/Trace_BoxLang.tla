---------------------------- MODULE Trace_BoxLang ----------------------------
(***************************************************************************)
(* Binding F (and the judging half of binding R) for C18.  Each line of    *)
(* the trace is one real call of the Box language implementation:          *)
(*                                                                         *)
(*  rt      a ds list (m = "h" | "v") was printed (how = "vec": the whole  *)
(*          list converted at once, "elem": Display element by element)    *)
(*          and the printed text parsed back.                              *)
(*            list   the abstract list (projection of the ds value)        *)
(*            out    [text |-> code points]  or  [panic |-> <<file, msg>>] *)
(*            back   the result of parsing out.text (absent after a panic) *)
(*  parse   lang::parse_horizontal_list (m = "h") or the vertical          *)
(*          counterpart assembled from cst::parse + ast::parse_vbox_using_cst*)
(*            text, blen (its length in bytes), res                        *)
(*  format  lang::format(text), and format again on its output             *)
(*            text, blen, res = [ok |-> text', again |-> result of the     *)
(*            second call]  or errors / panic                              *)
(*                                                                         *)
(* A result is [ok |-> list] | [errs |-> <<[c, fn, arg, got, spans]>>] |   *)
(* [panic |-> <<file, message>>]; for format, ok is the formatted text.    *)
(*                                                                         *)
(* The judge reads the recorded TEXT with the specification's own lexer    *)
(* and grammar (Read).  What is demanded is what the property demands:     *)
(*  rt      the printed text lexes into the call level and DENOTES the     *)
(*          list (FromProg(Read(text)) = list), the real parse gives       *)
(*          exactly that, the list comes back                              *)
(*  parse   text at the call level: the list FromProg gives, or errors     *)
(*          when FromProg has errors; text with a lexical error the        *)
(*          implementation has an Error variant for, or breaking the       *)
(*          grammar: errors; otherwise a list or errors; errors are        *)
(*          non-empty and every span lies inside the source; never a panic *)
(*  format  call level: Ok, Read(formatted) = Read(source), and the second *)
(*          pass returns the same text; malformed source: errors           *)
(* Two closer agreements are counted but not demanded (registers 8-10):    *)
(* the printed program is literally ToCalls(list); the reported error      *)
(* sequence is literally FromProg's.                                       *)
(*                                                                         *)
(* Every event is judged with D = {} first; an event the strict            *)
(* specification rejects is judged again with each single named deviation  *)
(* and the verdict carries the name of the one that explains it ("key"),   *)
(* or "mismatch".                                                          *)
(***************************************************************************)
EXTENDS BoxLang, TLC, Json, IOUtils
Rec == ndJsonDeserialize(IOEnv.TRACE)
VARIABLE l

Has(r, f) == f \in DOMAIN r

\* errors as recorded: class, names, class of the offending value; spans = <<<<from, to>>, ..>> in bytes
ErrProj(errs) == [i \in 1..Len(errs) |-> AErr(errs[i].c, errs[i].fn, errs[i].arg, errs[i].got)]
Located(errs, blen) ==
  \A i \in 1..Len(errs) :
     /\ Len(errs[i].spans) >= 1
     /\ \A j \in 1..Len(errs[i].spans) :
           LET sp == errs[i].spans[j] IN 0 <= sp[1] /\ sp[1] <= sp[2] /\ sp[2] <= blen
IsErrs(res, blen) == Has(res, "errs") /\ Len(res.errs) >= 1 /\ Located(res.errs, blen)

\* lexical error classes for which lexer.rs has an Error variant
Reported == {"InvalidCharacter", "UnknownEscapeSequence", "InvalidDimensionUnit", "NumberWithoutUnits",
             "MultipleDecimalPoints"}

\* everything the judge needs to know about a source text
Scan(text) ==
  LET ks  == Lex(text)
      les == LexErrors(ks)
      rd  == IF LexOk(ks) THEN CstOf(NoComments(ks)) ELSE [ok |-> FALSE, p |-> <<>>]
  IN [rd |-> rd,
      trig |-> Triggers(ks),
      ratio |-> \E i \in 1..Len(ks) : ks[i].t = "str" /\ RatioFractionTrigger(ks[i].s),
      unspec |-> \E i \in 1..Len(ks) : ks[i].t = "str" /\ RatioUnspecified(ks[i].s),
      \* the implementation is bound to report something
      mustErr |-> (\E i \in 1..Len(les) : les[i].e \in Reported) \/ (LexOk(ks) /\ ~rd.ok)]

\* a recorded panic is explained by deviation set D iff D holds the deviation of a trigger that
\* the text has and the panic is the one recorded for that trigger
PanicExplained(panic, trig, D) ==
  \E tr \in trig \cap PanicTriggers : DevPanic(tr) \in D /\ PanicSig(tr) = panic
\* after a malformed \u escape the implementation's positions are off: no prediction
Desynced(sc, D) == \E tr \in sc.trig \cap DesyncTriggers : DevDesync(tr) \in D

JudgeParseRes(m, sc, res, blen, D, isFormat) ==
  LET trig == sc.trig \cup (IF sc.ratio /\ ~isFormat THEN {"ratio_fraction"} ELSE {}) IN
  IF Desynced(sc, D) THEN TRUE
  ELSE IF Has(res, "panic") THEN PanicExplained(res.panic, trig, D)
  ELSE IF sc.rd.ok
       THEN LET want == FromProg(m, sc.rd.p) IN
            \* accept / reject is decided by FromProg; which errors are reported is not part of the
            \* property (SameErrors below is counted, not demanded)
            IF want.errs = <<>> THEN Has(res, "ok") /\ res.ok = want.list
            ELSE IsErrs(res, blen)
       ELSE IF sc.mustErr THEN IsErrs(res, blen)
            ELSE Has(res, "ok") \/ IsErrs(res, blen)

JudgeParse(e, sc, D) == JudgeParseRes(e.m, sc, e.res, e.blen, D, FALSE)

JudgeFormat(e, sc, D) ==
  IF Desynced(sc, D) THEN TRUE
  ELSE IF Has(e.res, "panic") THEN PanicExplained(e.res.panic, sc.trig, D)
  ELSE IF sc.rd.ok
       THEN /\ Has(e.res, "ok")
            /\ Read(e.res.ok) = sc.rd                      \* format does not change what the text spells
            /\ Has(e.res.again, "ok") /\ e.res.again.ok = e.res.ok          \* and is idempotent
       ELSE IF sc.mustErr
            THEN \/ IsErrs(e.res, e.blen)
                 \/ DevFormat \in D /\ Has(e.res, "ok")    \* recorded: Ok(..) for a malformed source
            ELSE Has(e.res, "ok") \/ IsErrs(e.res, e.blen)

PrintPanicSig == <<"crates/boxworks/src/lang/convert.rs", "called `Result::unwrap()` on an `Err` value: TryFromIntError(())">>
JudgeRt(e, sc, D) ==
  IF Has(e.out, "panic")
  THEN DevPrintFont \in D /\ BigFont(e.m, e.how, e.list) /\ e.out.panic = PrintPanicSig
  ELSE /\ ~(DevPrintFont \in D /\ BigFont(e.m, e.how, e.list))
       /\ sc.rd.ok
       \* the printed text must DENOTE the list (which presentation the printer chooses -- positional
       \* or keyword, merged characters or not -- is its business: counted in SameForm, not demanded);
       \* a deviation explains an event only if the printed program denotes exactly what the deviant
       \* printer's program denotes
       /\ IF D = {} THEN FromProg(e.m, sc.rd.p) = [list |-> e.list, errs |-> <<>>]
          ELSE FromProg(e.m, sc.rd.p) = FromProg(e.m, ToCalls(e.m, e.how, e.list, D))
       /\ JudgeParseRes(e.m, sc, e.back, e.blen, D, FALSE)
       /\ (D = {} => Has(e.back, "ok") /\ e.back.ok = e.list)

Judge(e, sc, D) == IF e.ev = "rt" THEN JudgeRt(e, sc, D)
                   ELSE IF e.ev = "parse" THEN JudgeParse(e, sc, D)
                   ELSE JudgeFormat(e, sc, D)

\* outside the property's quantifier / the language definition: counted, not judged
Skip(e, sc) == IF e.ev = "rt" THEN ~WellFormed(e.m, e.list)
               ELSE sc.unspec /\ sc.rd.ok /\ e.ev = "parse"

DevSeq == <<DevRatioSign, DevFormat, DevPrintFont, DevPanic("int_overflow"), DevPanic("dim_overflow"),
            DevPanic("coef_overflow"), DevPanic("u_overflow"), DevPanic("ratio_fraction"),
            DevDesync("u_no_brace"), DevDesync("u_unclosed")>>
Explain(e, sc) == LET hit == {i \in 1..Len(DevSeq) : Judge(e, sc, {DevSeq[i]})} IN
                  IF hit = {} THEN "mismatch" ELSE DevSeq[CHOOSE i \in hit : \A j \in hit : i <= j]

Want(e, sc) ==
  IF e.ev = "rt" THEN [calls |-> ToCalls(e.m, e.how, e.list, {}), spelled |-> sc.rd]
  ELSE [call_level |-> sc.rd.ok, must_err |-> sc.mustErr,
        triggers |-> sc.trig \cup (IF sc.ratio THEN {"ratio_fraction"} ELSE {}),
        res |-> IF sc.rd.ok /\ e.ev = "parse" THEN FromProg(e.m, sc.rd.p) ELSE [list |-> <<>>, errs |-> <<>>],
        lex_errors |-> LexErrors(Lex(e.text))]

\* how the events of this trace were decided (TLC registers; one worker):
\*  1 rt   2 parse, exact (text at the call level)   3 parse, errors demanded   4 parse, protocol only
\*  5 format, exact   6 format, errors demanded   7 format, protocol only
\* and two agreements that are observed but not demanded by the property:
\*  8 rt events whose printed program is exactly ToCalls(list)  (the printer's presentation)
\*  9 / 10 parse events at the call level with errors: all / those whose error sequence (class,
\*    function, parameter, class of the value) is exactly the one FromProg predicts
SameForm(e, sc) == e.ev = "rt" /\ Has(e.out, "text") /\ sc.rd.ok /\ sc.rd.p = ToCalls(e.m, e.how, e.list, {})
WithErrors(e, sc) == e.ev = "parse" /\ sc.rd.ok /\ Has(e.res, "errs") /\ FromProg(e.m, sc.rd.p).errs # <<>>
SameErrors(e, sc) == WithErrors(e, sc) /\ ErrProj(e.res.errs) = FromProg(e.m, sc.rd.p).errs
Bump(i, c) == IF c THEN TLCSet(i, TLCGet(i) + 1) ELSE TRUE
ClassOf(e, sc) == IF e.ev = "rt" THEN 1
                  ELSE (IF e.ev = "parse" THEN 2 ELSE 5) + (IF sc.rd.ok THEN 0 ELSE IF sc.mustErr THEN 1 ELSE 2)
EvText(e) == IF e.ev = "rt" THEN (IF Has(e.out, "text") THEN e.out.text ELSE <<>>) ELSE e.text

TInit == l = 1 /\ \A i \in 1..10 : TLCSet(i, 0)
TStep == /\ l <= Len(Rec) /\ l' = l + 1
         /\ LET e  == Rec[l]
                sc == Scan(EvText(e))
            IN /\ TLCSet(ClassOf(e, sc), TLCGet(ClassOf(e, sc)) + 1)
               /\ Bump(8, SameForm(e, sc)) /\ Bump(9, WithErrors(e, sc)) /\ Bump(10, SameErrors(e, sc))
               /\ IF Skip(e, sc) THEN PrintT(<<"VERDICT", ToJson([l |-> l, key |-> "skip-outside-quantifier"])>>)
                  ELSE IF Judge(e, sc, {}) THEN TRUE
                  ELSE PrintT(<<"VERDICT", ToJson([l |-> l, key |-> Explain(e, sc), want |-> Want(e, sc)])>>)
TSpec == TInit /\ [][TStep]_l
Matched == TLCGet("stats").diameter - 1
TraceAccepted == /\ PrintT(<<"STATS", ToJson([i \in 1..10 |-> TLCGet(i)])>>)
                 /\ \/ Matched = Len(Rec)
                    \/ PrintT(<<"MATCHED", Matched>>) /\ FALSE
=============================================================================
