--------------------------- MODULE MC_ScopedMap ---------------------------
(* Model-checking / LTS-dump wrapper for ScopedMap (TLC-only operators).   *)
EXTENDS ScopedMap, TLC, Json

\* The abstract (reference-layer) state is what the implementation is bound to.
Abs(v, s) == [val |-> [k \in Keys |-> v[k]], snaps |-> s]

\* One JSON line per transition; always TRUE.  Used as ACTION_CONSTRAINT with -workers 1.
Emit == PrintT(<<"LTS", ToJson([f |-> Abs(val, snaps), o |-> op', t |-> Abs(val', snaps')])>>)
AbsView == <<val, snaps>>
=============================================================================
