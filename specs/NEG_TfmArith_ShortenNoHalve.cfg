SPECIFICATION Spec
CONSTANTS
  Bug = "ShortenNoHalve"
  Lo <- LoQuick
  Hi = 5
  MaxN = 5
INVARIANTS GreedyIsOptimal Monotone NextD Least MeetContract Tight
CHECK_DEADLOCK FALSE
