SPECIFICATION Spec
CONSTANTS
  N = 5
INVARIANT Agrees
CHECK_DEADLOCK FALSE
