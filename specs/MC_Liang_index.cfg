SPECIFICATION Spec
CONSTANTS
  Bug = ""
  Fix = FALSE
  Sigma = {97, 98}
  PatLens = {1, 2}
  Dg = {1}
  MaxDigits = 1
  WordAlphabet = {97, 98, 65}
  MaxWordLen = 3
  MaxMixedLen = 2
  MaxExcLen = 2
  CodecWordLens = {3}
  NSlices = 1
  Slice = 0
  MaxP = 2
  MaxE = 0
  Deviations = {"ExceptionAsScore67", "LaterPatternReplacesException"}
  PatTexts <- MCPatTexts
  ExcTexts <- MCExcTextsA
  ExcListTexts <- MCExcListsSmall
  Words <- MCWordsMixed
  Lc <- MCLc
INVARIANTS IndexAgrees
CONSTRAINT AscendingPatterns
CHECK_DEADLOCK FALSE
