------------------------------- MODULE BoxLang -------------------------------
(***************************************************************************)
(* C18 -- the Box language (crates/boxworks/src/lang) as a design.         *)
(*                                                                         *)
(* The module is layered like the implementation:                          *)
(*                                                                         *)
(*  lexical level (BoxLangLex.tla; lexer.rs)   text  <->  tokens           *)
(*  grammar level (cst.rs)        tokens <-> call programs                 *)
(*        CstOf(tokens)  the program a comment-free token sequence spells  *)
(*        Render(p, st)  a text for program p in one of four layouts       *)
(*  call level (ast.rs)           call programs -> lists                   *)
(*        a program is a sequence of calls  name(arg, key=arg, ...);       *)
(*        FromProg(mode, p) binds positional and keyword arguments to the  *)
(*        parameters of the function, casts them to the parameter types    *)
(*        and builds the nodes -- or reports errors                        *)
(*  list level (convert.rs, ds.rs)  lists -> call programs                 *)
(*        ToCalls(mode, how, l, D)  what the printer emits for list l      *)
(*                                                                         *)
(* The language definition is the doc comment of lang/mod.rs (functions,   *)
(* parameters, types, defaults, which function may occur in which list).   *)
(*                                                                         *)
(* Abstract lists.  A node is a record with a kind k and integer fields:   *)
(*   char   c f              a Unicode scalar in a font                    *)
(*   glue   w st sto sh sho  orders 0..3 = normal fil fill filll           *)
(*   kern   w                (normal kind; the language has no kern kinds) *)
(*   penalty v                                                             *)
(*   rule   h w d            Running = -2^31 is a running dimension        *)
(*   lig    c orig f lb rb   orig = the replaced characters                *)
(*   disc   pre post n       pre, post: discretionary lists                *)
(*   hbox   h w d s gr go list    gr = glue ratio in scaled units          *)
(*                                (signed: boxworks keeps the glue sign in *)
(*                                the ratio), go = glue order              *)
(*   vbox   h w d s list                                                   *)
(*   mark                    (ds::Mark carries nothing the language shows) *)
(*   adjust list                                                           *)
(*   ins    box h smd tw tst tsto tsh tsho fp list                         *)
(*   math   after            FALSE = Math::Before                          *)
(* Fonts, replace counts and float penalties are 32-bit fields which the   *)
(* language writes as integers; the abstract value is the two's complement *)
(* reading (convert.rs casts with `as` in both directions).                *)
(*                                                                         *)
(* Three list modes: "h" horizontal, "v" vertical, "d" discretionary.      *)
(*                                                                         *)
(* Named deviations (the findings protocol of DESIGN.md section 3): the    *)
(* operators that describe an observable outcome take a set D of deviation *)
(* names; D = {} is the language.  See the section Deviations below.       *)
(***************************************************************************)
EXTENDS BoxLangLex

---------------------------------------------------------------------------
(* Names.  Texts are code points, so are the names inside programs; the    *)
(* dictionary gives the spelling of every name the language defines.       *)
CP == [
  chars |-> <<99, 104, 97, 114, 115>>,
  glue |-> <<103, 108, 117, 101>>,
  penalty |-> <<112, 101, 110, 97, 108, 116, 121>>,
  kern |-> <<107, 101, 114, 110>>,
  hbox |-> <<104, 98, 111, 120>>,
  lig |-> <<108, 105, 103>>,
  vbox |-> <<118, 98, 111, 120>>,
  disc |-> <<100, 105, 115, 99>>,
  rule |-> <<114, 117, 108, 101>>,
  mark |-> <<109, 97, 114, 107>>,
  adjust |-> <<97, 100, 106, 117, 115, 116>>,
  insertion |-> <<105, 110, 115, 101, 114, 116, 105, 111, 110>>,
  math |-> <<109, 97, 116, 104>>,
  content |-> <<99, 111, 110, 116, 101, 110, 116>>,
  font |-> <<102, 111, 110, 116>>,
  width |-> <<119, 105, 100, 116, 104>>,
  stretch |-> <<115, 116, 114, 101, 116, 99, 104>>,
  shrink |-> <<115, 104, 114, 105, 110, 107>>,
  value |-> <<118, 97, 108, 117, 101>>,
  height |-> <<104, 101, 105, 103, 104, 116>>,
  depth |-> <<100, 101, 112, 116, 104>>,
  shift_amount |-> <<115, 104, 105, 102, 116, 95, 97, 109, 111, 117, 110, 116>>,
  glue_ratio |-> <<103, 108, 117, 101, 95, 114, 97, 116, 105, 111>>,
  glue_order |-> <<103, 108, 117, 101, 95, 111, 114, 100, 101, 114>>,
  char |-> <<99, 104, 97, 114>>,
  original_chars |-> <<111, 114, 105, 103, 105, 110, 97, 108, 95, 99, 104, 97, 114, 115>>,
  includes_left_boundary |-> <<105, 110, 99, 108, 117, 100, 101, 115, 95, 108, 101, 102, 116, 95, 98, 111, 117, 110, 100, 97, 114, 121>>,
  includes_right_boundary |-> <<105, 110, 99, 108, 117, 100, 101, 115, 95, 114, 105, 103, 104, 116, 95, 98, 111, 117, 110, 100, 97, 114, 121>>,
  pre_break |-> <<112, 114, 101, 95, 98, 114, 101, 97, 107>>,
  post_break |-> <<112, 111, 115, 116, 95, 98, 114, 101, 97, 107>>,
  replace_count |-> <<114, 101, 112, 108, 97, 99, 101, 95, 99, 111, 117, 110, 116>>,
  dummy |-> <<100, 117, 109, 109, 121>>,
  box_number |-> <<98, 111, 120, 95, 110, 117, 109, 98, 101, 114>>,
  split_max_depth |-> <<115, 112, 108, 105, 116, 95, 109, 97, 120, 95, 100, 101, 112, 116, 104>>,
  split_top_skip_width |-> <<115, 112, 108, 105, 116, 95, 116, 111, 112, 95, 115, 107, 105, 112, 95, 119, 105, 100, 116, 104>>,
  split_top_skip_stretch |-> <<115, 112, 108, 105, 116, 95, 116, 111, 112, 95, 115, 107, 105, 112, 95, 115, 116, 114, 101, 116, 99, 104>>,
  split_top_skip_shrink |-> <<115, 112, 108, 105, 116, 95, 116, 111, 112, 95, 115, 107, 105, 112, 95, 115, 104, 114, 105, 110, 107>>,
  float_penalty |-> <<102, 108, 111, 97, 116, 95, 112, 101, 110, 97, 108, 116, 121>>,
  kind |-> <<107, 105, 110, 100>>,
  true |-> <<116, 114, 117, 101>>,
  false |-> <<102, 97, 108, 115, 101>>,
  normal |-> <<110, 111, 114, 109, 97, 108>>,
  fil |-> <<102, 105, 108>>,
  fill |-> <<102, 105, 108, 108>>,
  filll |-> <<102, 105, 108, 108, 108>>,
  running |-> <<114, 117, 110, 110, 105, 110, 103>>,
  before |-> <<98, 101, 102, 111, 114, 101>>,
  after |-> <<97, 102, 116, 101, 114>> ]

---------------------------------------------------------------------------
(* The functions of the language (mod.rs "Available functions"; the order  *)
(* of parameters is the positional order).  Parameter types:               *)
(*   str int dim   string, integer, dimension                              *)
(*   gdim          glue stretch or shrink: a dimension or <n>fil/fill/filll*)
(*   char bool order ratio   strings of a special form                     *)
(*   rdim          a dimension or the string "running"                     *)
(*   hlist vlist dlist       bracketed programs in the respective mode     *)
(* `mark` has no parameters in mod.rs; ast.rs gives it one integer `dummy` *)
(* that is printed and ignored, and the ligature flags are spelled         *)
(* includes_left_boundary / includes_right_boundary in ast.rs (mod.rs says *)
(* includes_left_char / includes_right_char).  The printer and the parser  *)
(* agree on ast.rs's spelling, which is what is specified here.            *)
PR(n, ty) == [n |-> n, ty |-> ty]
Sig == [
  chars     |-> <<PR("content", "str"), PR("font", "int")>>,
  glue      |-> <<PR("width", "dim"), PR("stretch", "gdim"), PR("shrink", "gdim")>>,
  penalty   |-> <<PR("value", "int")>>,
  kern      |-> <<PR("width", "dim")>>,
  hbox      |-> <<PR("height", "dim"), PR("width", "dim"), PR("depth", "dim"), PR("shift_amount", "dim"),
                  PR("glue_ratio", "ratio"), PR("glue_order", "order"), PR("content", "hlist")>>,
  lig       |-> <<PR("char", "char"), PR("original_chars", "str"), PR("font", "int"),
                  PR("includes_left_boundary", "bool"), PR("includes_right_boundary", "bool")>>,
  vbox      |-> <<PR("height", "dim"), PR("width", "dim"), PR("depth", "dim"), PR("shift_amount", "dim"),
                  PR("content", "vlist")>>,
  disc      |-> <<PR("pre_break", "dlist"), PR("post_break", "dlist"), PR("replace_count", "int")>>,
  rule      |-> <<PR("height", "rdim"), PR("width", "rdim"), PR("depth", "rdim")>>,
  mark      |-> <<PR("dummy", "int")>>,
  adjust    |-> <<PR("content", "vlist")>>,
  insertion |-> <<PR("box_number", "int"), PR("height", "dim"), PR("split_max_depth", "dim"),
                  PR("split_top_skip_width", "dim"), PR("split_top_skip_stretch", "gdim"),
                  PR("split_top_skip_shrink", "gdim"), PR("float_penalty", "int"), PR("vbox", "vlist")>>,
  math      |-> <<PR("kind", "str")>> ]
FnNames == DOMAIN Sig
\* how many leading parameters the printer writes positionally (ast.rs default_num_pos_arg)
NumPos == [chars |-> 1, glue |-> 3, penalty |-> 1, kern |-> 1, hbox |-> 0, lig |-> 2, vbox |-> 0,
           disc |-> 0, rule |-> 3, mark |-> 0, adjust |-> 0, insertion |-> 1, math |-> 1]
\* the lists a function may occur in (mod.rs "Only available in ...")
FnModes == [chars |-> {"h", "d"}, glue |-> {"h", "v"}, penalty |-> {"h", "v"}, kern |-> {"h", "v", "d"},
            hbox |-> {"h", "v", "d"}, lig |-> {"h", "d"}, vbox |-> {"h", "v", "d"}, disc |-> {"h"},
            rule |-> {"h", "v", "d"}, mark |-> {"h", "v"}, adjust |-> {"h"}, insertion |-> {"h", "v"},
            math |-> {"h", "v"}]
IsListTy(ty) == ty \in {"hlist", "vlist", "dlist"}
ListMode(ty) == IF ty = "hlist" THEN "h" ELSE IF ty = "vlist" THEN "v" ELSE "d"
\* mod.rs "Default" columns
Default(ty) == IF ty \in {"int", "dim", "char", "order", "ratio", "rdim"} THEN 0
               ELSE IF ty = "gdim" THEN [n |-> 0, o |-> 0]
               ELSE IF ty = "bool" THEN FALSE
               ELSE <<>>                                    \* "", []
OrderNames == <<CP.normal, CP.fil, CP.fill, CP.filll>>     \* order o is OrderNames[o + 1]

---------------------------------------------------------------------------
(* Call level data: values, arguments, calls.                              *)
V(t, n, o, s, p) == [t |-> t, n |-> n, o |-> o, s |-> s, p |-> p]
VInt(n)    == V("int", n, 0, <<>>, <<>>)
VDim(n)    == V("dim", n, 0, <<>>, <<>>)
VInf(n, o) == V("inf", n, o, <<>>, <<>>)
VStr(s)    == V("str", 0, 0, s, <<>>)
VList(p)   == V("list", 0, 0, <<>>, p)
Arg(key, v)    == [key |-> key, v |-> v]          \* key = <<>> : positional
Call(fn, args) == [fn |-> fn, args |-> args]

---------------------------------------------------------------------------
(* Grammar level: comment-free tokens -> program (cst.rs).                 *)
(*   program ::= call*          call ::= id "(" (arg ","?)* ")"            *)
(*   arg ::= (id "=")? value    value ::= str | int | dim | inf | "[" program "]"  *)
Fail == [ok |-> FALSE, p |-> <<>>, args |-> <<>>, v |-> 0, i |-> 0]
RECURSIVE ParseProg(_, _, _), ParseArgs(_, _, _), ParseValue(_, _)
ParseProg(ts, i, acc) ==
  IF i > Len(ts) \/ ts[i].t # "id" THEN [Fail EXCEPT !.ok = TRUE, !.p = acc, !.i = i]
  ELSE IF i + 1 > Len(ts) \/ ts[i + 1].t # "(" THEN Fail
  ELSE LET r == ParseArgs(ts, i + 2, <<>>) IN
       IF ~r.ok THEN Fail ELSE ParseProg(ts, r.i, Append(acc, Call(ts[i].s, r.args)))
ParseArgs(ts, i, acc) ==
  IF i > Len(ts) THEN Fail
  ELSE IF ts[i].t = ")" THEN [Fail EXCEPT !.ok = TRUE, !.args = acc, !.i = i + 1]
  ELSE LET hasKey == ts[i].t = "id"
           vi     == IF hasKey THEN i + 2 ELSE i
       IN IF hasKey /\ (i + 1 > Len(ts) \/ ts[i + 1].t # "=") THEN Fail
          ELSE IF vi > Len(ts) THEN Fail
          ELSE LET v == ParseValue(ts, vi) IN
               IF ~v.ok THEN Fail
               ELSE LET j == IF v.i <= Len(ts) /\ ts[v.i].t = "," THEN v.i + 1 ELSE v.i
                    IN ParseArgs(ts, j, Append(acc, Arg(IF hasKey THEN ts[i].s ELSE <<>>, v.v)))
ParseValue(ts, i) ==
  LET k == ts[i] IN
  IF k.t \in {"int", "dim", "inf", "str"}
  THEN [Fail EXCEPT !.ok = TRUE, !.v = V(k.t, k.n, k.o, k.s, <<>>), !.i = i + 1]
  ELSE IF k.t = "["
       THEN LET r == ParseProg(ts, i + 1, <<>>) IN
            IF r.ok /\ r.i <= Len(ts) /\ ts[r.i].t = "]"
            THEN [Fail EXCEPT !.ok = TRUE, !.v = VList(r.p), !.i = r.i + 1] ELSE Fail
       ELSE Fail
\* the program spelled by a comment-free token sequence, if it spells one
CstOf(ts) == LET r == ParseProg(ts, 1, <<>>)
             IN IF r.ok /\ r.i = Len(ts) + 1 THEN [ok |-> TRUE, p |-> r.p] ELSE [ok |-> FALSE, p |-> <<>>]
\* text -> program: "the text lexes into the call level"
Read(text) == LET ks == Lex(text) IN
              IF LexOk(ks) THEN CstOf(NoComments(ks)) ELSE [ok |-> FALSE, p |-> <<>>]

(* Render: a text for a program.  st selects the layout:                   *)
(*   0 compact, commas between arguments, minimal string escapes           *)
(*   1 a blank before every token, no commas at all, named escapes         *)
(*   2 a comment and a line end before every token, a comma behind every   *)
(*     argument, every character but a-z escaped as \u{..}, and a final    *)
(*     comment without line end                                            *)
(*   3 tab, carriage return, no-break space and em space before every      *)
(*     token, commas between arguments                                     *)
RECURSIVE ProgToks(_, _, _), ArgsToks(_, _, _)
EscOf(st) == IF st = 0 THEN 0 ELSE IF st = 2 THEN 2 ELSE 1
ValToks(v, st) == IF v.t = "list" THEN <<<<91>>>> \o ProgToks(v.p, 1, st) \o <<<<93>>>>
                  ELSE <<PrintTokVal(v, EscOf(st))>>
ArgsToks(args, i, st) ==
  IF i > Len(args) THEN <<>>
  ELSE (IF args[i].key # <<>> THEN <<args[i].key, <<61>>>> ELSE <<>>)
       \o ValToks(args[i].v, st)
       \o (IF st = 2 \/ (st \in {0, 3} /\ i < Len(args) /\ Bug # "FormatDropsCommas") THEN <<<<44>>>> ELSE <<>>)
       \o ArgsToks(args, i + 1, st)
ProgToks(p, i, st) ==
  IF i > Len(p) THEN <<>>
  ELSE <<p[i].fn, <<40>>>> \o ArgsToks(p[i].args, 1, st) \o <<<<41>>>> \o ProgToks(p, i + 1, st)
Sep(st) == IF st = 0 THEN <<>> ELSE IF st = 1 THEN <<32>>
           ELSE IF st = 2 THEN <<32, 35, 99, 10>> ELSE <<9, 13, 160, 8195>>
Render(p, st) == LET ts == ProgToks(p, 1, st) IN
                 Flat([i \in 1..Len(ts) |-> Sep(st) \o ts[i]]) \o (IF st = 2 THEN <<35, 122>> ELSE <<>>)

---------------------------------------------------------------------------
(* Call level: binding arguments, casting, building nodes (ast.rs).        *)

FnOf(s) == IF \E fn \in FnNames : CP[fn] = s THEN CHOOSE fn \in FnNames : CP[fn] = s ELSE ""
ParamIdx(fn, key) == IF \E i \in 1..Len(Sig[fn]) : CP[Sig[fn][i].n] = key
                     THEN CHOOSE i \in 1..Len(Sig[fn]) : CP[Sig[fn][i].n] = key ELSE 0

\* errors of this level: class, function name, parameter / keyword name, class of the offending value
AErr(c, fn, arg, got) == [c |-> c, fn |-> fn, arg |-> arg, got |-> got]

(* A glue ratio is written as a string holding a decimal number; its value *)
(* is the number in scaled units (ds.rs from_float_str appends "pt").      *)
(*   -? digit+ ( . digit* )?                                               *)
ScanRatio(s) ==
  LET neg == At(s, 1) = 45
      a   == IF neg THEN 2 ELSE 1
      b   == DigitsEnd(s, a)
      pt  == At(s, b) = 46
      fe  == IF pt THEN DigitsEnd(s, b + 1) ELSE b
      ip  == NatVal(s, a, b, 0)
      f   == RoundDecimals([i \in 1..(fe - b - 1) |-> s[b + i] - 48])
  IN IF b = a \/ fe # Len(s) + 1 \/ ip = -1 \/ ip >= 16384 \/ ip * Unity + f > MaxDimen
     THEN [ok |-> FALSE, n |-> 0]
     ELSE [ok |-> TRUE, n |-> IF neg THEN -(ip * Unity + f) ELSE ip * Unity + f]

OkV(x) == [ok |-> TRUE, val |-> x]
NoV    == [ok |-> FALSE, val |-> 0]
CastScalar(ty, v) ==
  IF ty = "str"  THEN (IF v.t = "str" THEN OkV(v.s) ELSE NoV)
  ELSE IF ty = "int"  THEN (IF v.t = "int" THEN OkV(v.n) ELSE NoV)
  ELSE IF ty = "dim"  THEN (IF v.t = "dim" THEN OkV(v.n) ELSE NoV)
  ELSE IF ty = "gdim" THEN (IF v.t = "dim" THEN OkV([n |-> v.n, o |-> 0])
                            ELSE IF v.t = "inf" THEN OkV([n |-> v.n, o |-> v.o]) ELSE NoV)
  ELSE IF ty = "char" THEN (IF v.t = "str" /\ Len(v.s) = 1 THEN OkV(v.s[1]) ELSE NoV)
  ELSE IF ty = "bool" THEN (IF v.t = "str" /\ v.s = CP.true THEN OkV(TRUE)
                            ELSE IF v.t = "str" /\ v.s = CP.false THEN OkV(FALSE) ELSE NoV)
  ELSE IF ty = "order" THEN (IF v.t = "str" /\ \E o \in 0..3 : OrderNames[o + 1] = v.s
                             THEN OkV(CHOOSE o \in 0..3 : OrderNames[o + 1] = v.s) ELSE NoV)
  ELSE IF ty = "ratio" THEN (IF v.t = "str" /\ ScanRatio(v.s).ok THEN OkV(ScanRatio(v.s).n) ELSE NoV)
  ELSE IF ty = "rdim" THEN (IF v.t = "dim" THEN OkV(v.n)
                            ELSE IF v.t = "str" /\ v.s = CP.running THEN OkV(Running) ELSE NoV)
  ELSE NoV                                              \* a list parameter given a scalar

\* the node(s) a function builds from the values of its parameters (convert.rs ToBoxworks)
Build(fn, a) ==
  IF fn = "chars" THEN [i \in 1..Len(a[1]) |-> [k |-> "char", c |-> a[1][i], f |-> a[2]]]
  ELSE IF fn = "glue" THEN <<[k |-> "glue", w |-> a[1], st |-> a[2].n, sto |-> a[2].o, sh |-> a[3].n, sho |-> a[3].o]>>
  ELSE IF fn = "penalty" THEN <<[k |-> "penalty", v |-> a[1]]>>
  ELSE IF fn = "kern" THEN <<[k |-> "kern", w |-> a[1]]>>
  ELSE IF fn = "hbox" THEN <<[k |-> "hbox", h |-> a[1], w |-> a[2], d |-> a[3], s |-> a[4],
                              gr |-> a[5], go |-> a[6], list |-> a[7]]>>
  ELSE IF fn = "lig" THEN <<[k |-> "lig", c |-> a[1], orig |-> a[2], f |-> a[3], lb |-> a[4], rb |-> a[5]]>>
  ELSE IF fn = "vbox" THEN <<[k |-> "vbox", h |-> a[1], w |-> a[2], d |-> a[3], s |-> a[4], list |-> a[5]]>>
  ELSE IF fn = "disc" THEN <<[k |-> "disc", pre |-> a[1], post |-> a[2], n |-> a[3]]>>
  ELSE IF fn = "rule" THEN <<[k |-> "rule", h |-> a[1], w |-> a[2], d |-> a[3]]>>
  ELSE IF fn = "mark" THEN <<[k |-> "mark"]>>
  ELSE IF fn = "adjust" THEN <<[k |-> "adjust", list |-> a[1]]>>
  ELSE IF fn = "insertion"
       THEN <<[k |-> "ins", box |-> a[1] % 256,              \* ds::Insertion::box_number is a byte
               h |-> a[2], smd |-> a[3], tw |-> a[4], tst |-> a[5].n, tsto |-> a[5].o,
               tsh |-> a[6].n, tsho |-> a[6].o, fp |-> a[7], list |-> a[8]]>>
  ELSE <<[k |-> "math", after |-> (a[1] = CP.after)]>>

(* Binding (ast.rs Args::build).  Arguments are taken left to right.       *)
(*  - a positional argument goes to the next parameter in order; it is an  *)
(*    error behind a keyword argument, and when the parameters are used up *)
(*  - a keyword argument goes to the parameter of that name, if any        *)
(*  - a parameter may be given once; the value must have its type          *)
(* bs = [val, set, pos, kw, errs]: parameter values (defaults until        *)
(* given), the parameters given so far, positional parameters consumed,    *)
(* keyword seen, errors.  An argument in error is skipped -- a list value  *)
(* is then not looked into.                                                *)
RECURSIVE FromProgFrom(_, _, _, _, _), BindArgs(_, _, _, _, _)
BindArgs(fn, name, args, i, bs) ==
  IF i > Len(args) THEN bs
  ELSE
  LET a    == args[i]
      sig  == Sig[fn]
      positional == a.key = <<>>
      k    == IF positional THEN (IF bs.kw \/ bs.pos >= Len(sig) THEN 0 ELSE bs.pos + 1)
              ELSE ParamIdx(fn, a.key)
      bs1  == IF positional
              THEN (IF k = 0 THEN bs ELSE [bs EXCEPT !.pos = @ + 1])
              ELSE [bs EXCEPT !.kw = (Bug # "KeywordDoesNotEndPositional")]
      fail(e) == BindArgs(fn, name, args, i + 1, [bs1 EXCEPT !.errs = Append(@, e)])
  IN
  IF positional /\ bs.kw THEN fail(AErr("PositionalArgAfterKeywordArg", <<>>, <<>>, ""))
  ELSE IF positional /\ k = 0 THEN fail(AErr("TooManyPositionalArgs", name, <<>>, ""))
  ELSE IF k = 0 THEN fail(AErr("NoSuchArgument", name, a.key, ""))
  ELSE IF k \in bs.set /\ Bug # "DuplicateOverwrites" THEN fail(AErr("DuplicateArgument", <<>>, CP[sig[k].n], ""))
  ELSE IF IsListTy(sig[k].ty) /\ a.v.t = "list"
       THEN LET r == FromProgFrom(ListMode(sig[k].ty), a.v.p, 1, <<>>, <<>>) IN
            BindArgs(fn, name, args, i + 1,
                     [bs1 EXCEPT !.val[k] = r.list, !.set = @ \cup {k}, !.errs = @ \o r.errs])
       ELSE LET c == CastScalar(sig[k].ty, a.v) IN
            IF c.ok THEN BindArgs(fn, name, args, i + 1, [bs1 EXCEPT !.val[k] = c.val, !.set = @ \cup {k}])
            ELSE fail(AErr("IncorrectType", name, CP[sig[k].n], a.v.t))

\* one call in a list of mode m: its nodes, or its errors
CallNodes(m, c) ==
  LET fn == FnOf(c.fn) IN
  IF fn = "" \/ m \notin FnModes[fn] THEN [nodes |-> <<>>, errs |-> <<AErr("NoSuchFunction", c.fn, <<>>, "")>>]
  ELSE LET bs == BindArgs(fn, c.fn, c.args, 1,
                          [val |-> [k \in 1..Len(Sig[fn]) |-> Default(Sig[fn][k].ty)],
                           set |-> {}, pos |-> 0, kw |-> FALSE, errs |-> <<>>])
       IN IF bs.errs # <<>> THEN [nodes |-> <<>>, errs |-> bs.errs]
          ELSE [nodes |-> Build(fn, bs.val), errs |-> <<>>]

FromProgFrom(m, p, i, list, errs) ==
  IF i > Len(p) THEN [list |-> list, errs |-> errs]
  ELSE LET r == CallNodes(m, p[i]) IN FromProgFrom(m, p, i + 1, list \o r.nodes, errs \o r.errs)

\* FromCalls: the list a program denotes -- meaningful when errs = <<>> -- and its errors
FromProg(m, p) == FromProgFrom(m, p, 1, <<>>, <<>>)

---------------------------------------------------------------------------
(* List level: printing (convert.rs ToBoxLang, ast.rs lower_arg).          *)
(* Every parameter is written; the first NumPos positionally, the others   *)
(* by keyword.  Consecutive characters of one font in a horizontal list    *)
(* become one chars(...) call when the whole list is converted (how =      *)
(* "vec": Vec<ds::Horizontal>::to_box_lang, always used for nested lists); *)
(* Display of a single ds::Horizontal / ds::Vertical converts element by   *)
(* element (how = "elem").  Discretionary lists are never merged.          *)

DevRatioSign == "glue_ratio_sign_dropped"

MkCall(fn, vals) ==
  Call(CP[fn], [i \in 1..Len(vals) |-> Arg(IF i <= NumPos[fn] THEN <<>> ELSE CP[Sig[fn][i].n], vals[i])])
TGdim(n, o)  == IF o = 0 \/ Bug = "StretchOrderDropped" THEN VDim(n) ELSE VInf(n, o)
TBool(b)     == VStr(IF b THEN CP.true ELSE CP.false)
TRdim(n)     == IF n # Running THEN VDim(n)
                ELSE IF Bug = "RunningPrintedAsDimension" THEN VDim(-MaxDimen) ELSE VStr(CP.running)
TRatio(n, D) == VStr(PrintScaled(IF DevRatioSign \in D THEN Abs(n) ELSE n))
CharsCall(buf, font) == MkCall("chars", <<VStr(buf), VInt(font)>>)

RECURSIVE ToCalls(_, _, _, _), NodeCall(_, _), MergeFrom(_, _, _, _, _, _, _)
NodeCall(nd, D) ==
  IF nd.k = "char" THEN CharsCall(<<nd.c>>, nd.f)
  ELSE IF nd.k = "glue" THEN MkCall("glue", <<VDim(nd.w), TGdim(nd.st, nd.sto), TGdim(nd.sh, nd.sho)>>)
  ELSE IF nd.k = "penalty" THEN MkCall("penalty", <<VInt(nd.v)>>)
  ELSE IF nd.k = "kern" THEN MkCall("kern", <<VDim(nd.w)>>)
  ELSE IF nd.k = "hbox"
       THEN MkCall("hbox", <<VDim(nd.h), VDim(nd.w), VDim(nd.d), VDim(nd.s), TRatio(nd.gr, D),
                             VStr(OrderNames[nd.go + 1]), VList(ToCalls("h", "vec", nd.list, D))>>)
  ELSE IF nd.k = "lig"
       THEN MkCall("lig", <<VStr(<<nd.c>>), VStr(nd.orig), VInt(nd.f), TBool(nd.lb), TBool(nd.rb)>>)
  ELSE IF nd.k = "vbox"
       THEN MkCall("vbox", <<VDim(nd.h), VDim(nd.w), VDim(nd.d), VDim(nd.s), VList(ToCalls("v", "vec", nd.list, D))>>)
  ELSE IF nd.k = "disc"
       THEN MkCall("disc", <<VList(ToCalls("d", "vec", nd.pre, D)), VList(ToCalls("d", "vec", nd.post, D)), VInt(nd.n)>>)
  ELSE IF nd.k = "rule" THEN MkCall("rule", <<TRdim(nd.h), TRdim(nd.w), TRdim(nd.d)>>)
  ELSE IF nd.k = "mark" THEN MkCall("mark", <<VInt(0)>>)
  ELSE IF nd.k = "adjust" THEN MkCall("adjust", <<VList(ToCalls("v", "vec", nd.list, D))>>)
  ELSE IF nd.k = "ins"
       THEN MkCall("insertion", <<VInt(nd.box), VDim(nd.h), VDim(nd.smd), VDim(nd.tw), TGdim(nd.tst, nd.tsto),
                                  TGdim(nd.tsh, nd.tsho), VInt(nd.fp), VList(ToCalls("v", "vec", nd.list, D))>>)
  ELSE MkCall("math", <<VStr(IF nd.after THEN CP.after ELSE CP.before)>>)

\* has = a chars call is being collected: its font cf, its characters buf
MergeFrom(l, i, has, cf, buf, acc, D) ==
  LET flushed == IF has THEN Append(acc, CharsCall(buf, cf)) ELSE acc IN
  IF i > Len(l) THEN (IF Bug = "NoFlushAtEnd" THEN acc ELSE flushed)
  ELSE IF l[i].k = "char"
       THEN IF has /\ (l[i].f = cf \/ Bug = "MergeAcrossFonts")
            THEN MergeFrom(l, i + 1, TRUE, cf, Append(buf, l[i].c), acc, D)
            ELSE MergeFrom(l, i + 1, TRUE, l[i].f, <<l[i].c>>, flushed, D)
       ELSE MergeFrom(l, i + 1, FALSE, 0, <<>>, Append(flushed, NodeCall(l[i], D)), D)

ToCalls(m, how, l, D) ==
  IF m = "h" /\ how = "vec" THEN MergeFrom(l, 1, FALSE, 0, <<>>, <<>>, D)
  ELSE [i \in 1..Len(l) |-> NodeCall(l[i], D)]

\* print then parse: the normal form of a program that denotes a list
Norm(m, p) == ToCalls(m, "vec", FromProg(m, p).list, {})

---------------------------------------------------------------------------
(* Well-formed lists: the quantifier of the property.                      *)
NodeModes == [char |-> {"h", "d"}, glue |-> {"h", "v"}, penalty |-> {"h", "v"}, kern |-> {"h", "v", "d"},
              hbox |-> {"h", "v", "d"}, lig |-> {"h", "d"}, vbox |-> {"h", "v", "d"}, disc |-> {"h"},
              rule |-> {"h", "v", "d"}, mark |-> {"h", "v"}, adjust |-> {"h"}, ins |-> {"h", "v"},
              math |-> {"h", "v"}]
IsDimen(x)  == x >= -MaxDimen /\ x <= MaxDimen
IsInt32(x)  == x > MinInt /\ x <= MaxInt            \* the language's integers: (-2^31, 2^31)
IsString(s) == \A i \in 1..Len(s) : IsScalar(s[i])
RECURSIVE WellFormed(_, _)
WFNode(m, nd) ==
  /\ m \in NodeModes[nd.k]
  /\ IF nd.k = "char" THEN IsScalar(nd.c) /\ IsInt32(nd.f)
     ELSE IF nd.k = "glue" THEN IsDimen(nd.w) /\ IsDimen(nd.st) /\ IsDimen(nd.sh) /\ nd.sto \in 0..3 /\ nd.sho \in 0..3
     ELSE IF nd.k = "penalty" THEN IsInt32(nd.v)
     ELSE IF nd.k = "kern" THEN IsDimen(nd.w)
     ELSE IF nd.k = "hbox" THEN /\ IsDimen(nd.h) /\ IsDimen(nd.w) /\ IsDimen(nd.d) /\ IsDimen(nd.s)
                                /\ IsDimen(nd.gr) /\ nd.go \in 0..3 /\ WellFormed("h", nd.list)
     ELSE IF nd.k = "lig" THEN IsScalar(nd.c) /\ IsString(nd.orig) /\ IsInt32(nd.f) /\ nd.lb \in BOOLEAN /\ nd.rb \in BOOLEAN
     ELSE IF nd.k = "vbox" THEN IsDimen(nd.h) /\ IsDimen(nd.w) /\ IsDimen(nd.d) /\ IsDimen(nd.s) /\ WellFormed("v", nd.list)
     ELSE IF nd.k = "disc" THEN WellFormed("d", nd.pre) /\ WellFormed("d", nd.post) /\ IsInt32(nd.n)
     ELSE IF nd.k = "rule" THEN \A x \in {nd.h, nd.w, nd.d} : x = Running \/ IsDimen(x)
     ELSE IF nd.k = "mark" THEN TRUE
     ELSE IF nd.k = "adjust" THEN WellFormed("v", nd.list)
     ELSE IF nd.k = "ins" THEN /\ nd.box \in 0..255 /\ IsDimen(nd.h) /\ IsDimen(nd.smd) /\ IsDimen(nd.tw)
                               /\ IsDimen(nd.tst) /\ IsDimen(nd.tsh) /\ nd.tsto \in 0..3 /\ nd.tsho \in 0..3
                               /\ IsInt32(nd.fp) /\ WellFormed("v", nd.list)
     ELSE nd.after \in BOOLEAN
WellFormed(m, l) == \A i \in 1..Len(l) : WFNode(m, l[i])

---------------------------------------------------------------------------
(* The property, as laws that TLC checks on small domains (MC_BoxLang).    *)

\* printing a list and reading the calls back yields the list
RoundTrip(m, how, l) == FromProg(m, ToCalls(m, how, l, {})) = [list |-> l, errs |-> <<>>]
\* the printer only uses what the mode allows, and is insensitive to how the top level is converted
PrintInMode(m, l) == /\ \A c \in {ToCalls(m, "vec", l, {})[i] : i \in 1..Len(ToCalls(m, "vec", l, {}))} :
                           FnOf(c.fn) # "" /\ m \in FnModes[FnOf(c.fn)]
                     /\ FromProg(m, ToCalls(m, "elem", l, {})) = FromProg(m, ToCalls(m, "vec", l, {}))
\* a program either has errors or denotes a well-formed list (totality at the call level)
CallTotal(m, p) == LET r == FromProg(m, p) IN r.errs # <<>> \/ WellFormed(m, r.list)
\* print-after-parse is a normal form: idempotent, and it denotes the same list
NormalForm(m, p) == LET r == FromProg(m, p) IN
                    r.errs = <<>> => LET q == Norm(m, p) IN FromProg(m, q) = r /\ Norm(m, q) = q
\* text level: every layout of a program reads back as that program
RenderReads(p, st) == Read(Render(p, st)) = [ok |-> TRUE, p |-> p]
(* Formatting (lang::format).  The property asks two things of a formatter:  *)
(* the formatted text reads as the same program, and formatting it again    *)
(* changes nothing.  Format below is the reference formatter -- layout 0 of  *)
(* what the text spells; the real one keeps comments and breaks lines, which *)
(* the property does not speak about.  A text that does not lex into the    *)
(* call level has no formatting: the formatter must report its errors.      *)
Format(text) == LET r == Read(text) IN
                IF r.ok THEN [ok |-> TRUE, text |-> Render(r.p, 0)] ELSE [ok |-> FALSE, text |-> <<>>]
FormatLaws(text) == LET f == Format(text) IN
                    f.ok => /\ Read(f.text) = Read(text)          \* same program
                            /\ Format(f.text) = f                 \* idempotent
\* formatting does not depend on how the program was laid out
FormatCanonical(p, st) == Format(Render(p, st)) = Format(Render(p, 0))
\* the whole way: list -> calls -> text -> tokens -> calls -> list
TextRoundTrip(m, how, l, st) ==
  LET rd == Read(Render(ToCalls(m, how, l, {}), st)) IN rd.ok /\ FromProg(m, rd.p) = [list |-> l, errs |-> <<>>]

---------------------------------------------------------------------------
(* Deviations: what the implementation is recorded to do instead           *)
(* (known_findings/C18.json).  Each has a name, a precondition on the      *)
(* input, and the outcome it explains.                                     *)
(*                                                                         *)
(*  glue_ratio_sign_dropped     the printer writes |gr| (ds.rs Display of  *)
(*      GlueRatio takes abs): a shrinking box reads back as a stretching   *)
(*      one.  Modelled in TRatio.                                          *)
(*  format_ignores_errors       lang::format checks the error accumulator  *)
(*      before the lazy lexer/parser has run, so it returns Ok(text) for a *)
(*      source that does not lex into the call level.                      *)
(*  print_panics_font_above_i32 converting a list (not a single element)   *)
(*      unwraps u32 -> i32 for the font of a character.                    *)
(*  panics of the lexer, keyed by the trigger the token scan reports:      *)
(*    int_overflow   an integer part above 2^31-1 (checked_mul().unwrap()) *)
(*    dim_overflow   a dimension of 16384pt or more (Scaled::new().unwrap())*)
(*    coef_overflow  a number >= 32768 followed by a letter: Scaled::ONE*n *)
(*                   overflows before the unit is even looked at (builds   *)
(*                   with overflow checks; `40000sp` is a VALID dimension) *)
(*    u_overflow     \u{...} with more than 8 significant hex digits       *)
(*    u_no_brace     \u not followed by `{`: one character is consumed     *)
(*                   without being counted, token positions are off from   *)
(*                   there on (anything may follow, including slicing      *)
(*                   inside a multi-byte character)                        *)
(*    u_unclosed     \u{ whose hex digits run into a `"` (or the end of the*)
(*                   text) before `}`: the bracket matcher (Lexer::build)  *)
(*                   ends the string at that quote, the tokenizer scans on *)
(*                   for `}` -- the two disagree about what is inside the  *)
(*                   string from there on                                  *)
(*                   For these two the specification makes no prediction   *)
(*                   about the rest of the text (Desync).                  *)
(*    ratio_fraction a glue_ratio string whose fraction holds a character  *)
(*                   below `0`: `c as u8 - b'0'` (common, overflow checks) *)
DevFormat    == "format_ignores_errors"
DevPrintFont == "print_panics_font_above_i32"
DevPanic(trigger) == "panic_" \o trigger
PanicTriggers == {"int_overflow", "dim_overflow", "coef_overflow", "u_overflow", "ratio_fraction"}
DesyncTriggers == {"u_no_brace", "u_unclosed"}
DevDesync(trigger) == "lexer_desync_" \o trigger
AllDevs == {DevRatioSign, DevFormat, DevPrintFont} \cup {DevPanic(x) : x \in PanicTriggers}
           \cup {DevDesync(x) : x \in DesyncTriggers}

\* [source file, message prefix] of the panic a trigger is recorded with
PanicSig(trigger) ==
  IF trigger = "int_overflow"  THEN <<"crates/boxworks/src/lang/lexer.rs", "called `Option::unwrap()` on a `None` value">>
  ELSE IF trigger = "dim_overflow" THEN <<"crates/boxworks/src/lang/lexer.rs", "called `Result::unwrap()` on an `Err` value: OverflowError">>
  ELSE IF trigger = "coef_overflow" THEN <<"crates/common/src/lib.rs", "attempt to multiply with overflow">>
  ELSE IF trigger = "u_overflow" THEN <<"crates/boxworks/src/lang/lexer.rs", "attempt to multiply with overflow">>
  ELSE IF trigger = "ratio_fraction" THEN <<"crates/common/src/lib.rs", "attempt to subtract with overflow">>
  ELSE <<"", "">>

\* a glue-ratio string on which parse_from_string subtracts b'0' from a smaller byte:
\* sign, digits, a point, and behind it some character whose low byte is below 48
RatioFractionTrigger(s) ==
  LET a == IF At(s, 1) = 45 THEN 2 ELSE 1
      a2 == IF At(s, a) = 43 THEN a + 1 ELSE a             \* u32::from_str accepts a plus sign
      b == DigitsEnd(s, a2)
  IN /\ b > a2 /\ At(s, b) = 46 /\ NatVal(s, a2, b, 0) # -1
     /\ \E j \in (b + 1)..Len(s) : s[j] % 256 < 48
\* glue-ratio strings whose reading the language does not define (not generated for the exact oracle)
RatioUnspecified(s) == At(s, IF At(s, 1) = 45 THEN 2 ELSE 1) = 43

\* does printing list l convert a character with a font above 2^31-1 through the merging printer?
RECURSIVE BigFont(_, _, _)
BigFont(m, how, l) ==
  \E i \in 1..Len(l) :
     LET nd == l[i] IN
     \/ nd.k = "char" /\ m = "h" /\ how = "vec" /\ nd.f < 0
     \/ nd.k = "hbox" /\ BigFont("h", "vec", nd.list)
     \/ nd.k \in {"vbox", "adjust", "ins"} /\ BigFont("v", "vec", nd.list)
     \/ nd.k = "disc" /\ (BigFont("d", "vec", nd.pre) \/ BigFont("d", "vec", nd.post))
=============================================================================
