SPECIFICATION Spec
CONSTANTS
  Bug = "MulStrict"
  FracStep = 256
  IntParts = {0, 1, 16383}
  Phases = {"mul"}
INVARIANTS FracLaw TripLaw MulLaw DivLaw XndLaw UnitLaw IntLaw GlueLaw WrapLaw
CHECK_DEADLOCK FALSE
