-------------------------- MODULE Trace_KnuthPlass --------------------------
(* Bindings F and T for C04.  Each line of the trace is one event.            *)
(*                                                                            *)
(* fn = "kp": one call of the real                                            *)
(*   LineBreaker::break_line_single_attempt(list, fonts, tol, es, final)      *)
(*   items lw tol es final ls rs lp hp ehp dhd fhd adj loose    the inputs    *)
(*        (items with their widths resolved through the FontRepo the breaker  *)
(*        was given; ls / rs = \leftskip, \rightskip; es = emergency stretch) *)
(*   res   [k |-> "none"] or [k |-> "brk", brk |-> 0-based element indices]   *)
(*   log   what the breaker told its debug::Logger, in order:                 *)
(*           [t |-> "fb", i, b, p, d, prev, art]  feasible breakpoint at      *)
(*                 element i reached from node prev (badness, penalty,        *)
(*                 demerits of the line; art = artificial demerits)           *)
(*           [t |-> "an", i, n, ln, fc, hy, td, prev, art]  new active node n *)
(*   panic [file, message] instead of res when the call panicked              *)
(*                                                                            *)
(* The event is accepted iff                                                  *)
(*   - the outcome is what the reference layer demands: Judge = "ok" (or the  *)
(*     instance is outside the property's quantifier, "skip-..."), and        *)
(*   - every logged line agrees with the reference layer's definition of      *)
(*     that line: position legal and not beyond a forced break, badness       *)
(*     within the threshold, badness / penalty / demerits / fitness class /   *)
(*     line number / hyphenation / running total as defined (LogOK).          *)
(* Both are evaluated first under TeX (no deviations).  An event TeX rejects   *)
(* is read again under each set of named deviations, smallest first; the      *)
(* first set under which it is accepted is reported as `devs` (the driver     *)
(* accepts it only if every name is an open recorded finding).  Under a       *)
(* deviation an instance that is not monotone for the deviated widths can     *)
(* only be explained if the machine layer with the same deviations computes   *)
(* a solution of the same value.                                              *)
(*                                                                            *)
(* fn = "line": a line of a paragraph that real TeX has broken (the           *)
(*   repository's *_log.txt golden files, \tracingparagraphs): here the       *)
(*   SPECIFICATION is on trial.  items = the slice of the paragraph from the  *)
(*   break a (or the paragraph start) to the break b; tex = the numbers TeX   *)
(*   printed for the feasible break b via a (b, p, d; fit / t from the        *)
(*   "@@n: line l.f t=" line when this break became a node).                  *)
EXTENDS KnuthPlass, Json, IOUtils
Rec == ndJsonDeserialize(IOEnv.TRACE)
VARIABLE l

GlueTot(g) == Contrib([k |-> "glue", w |-> g.w, st |-> g.st, sto |-> g.sto, sh |-> g.sh])

InstOf(e, D) ==
  [items |-> e.items, devs |-> D, lw |-> e.lw, tol |-> e.tol, final |-> e.final,
   bg |-> Add6(Add6(GlueTot(e.ls), GlueTot(e.rs)), <<0, e.es, 0, 0, 0, 0>>),        \* 827, 863
   lp |-> e.lp, hp |-> e.hp, ehp |-> e.ehp, dhd |-> e.dhd, fhd |-> e.fhd, adj |-> e.adj, loose |-> e.loose]

OutOf(e) == IF e.res.k = "none" THEN [k |-> "none"]
            ELSE [k |-> "brk", brk |-> [i \in 1..Len(e.res.brk) |-> e.res.brk[i] + 1]]

---------------------------------------------------------------------------
(* The logger events against the reference layer.                          *)

StartNode == [i |-> -1, ln |-> 0, fc |-> Decent, hy |-> FALSE, td |-> 0]

\* the line from node pv (a record with i, ln, fc, hy) to element i, as the reference layer defines it
LogLine(I, A, pv, i) ==
  LET p  == IF pv.i < 0 THEN 0 ELSE IndexOf(A, pv.i + 1)
      q  == IndexOf(A, i + 1) IN
  IF q = 0 \/ (pv.i >= 0 /\ p = 0) \/ q <= p THEN [ok |-> FALSE, why |-> "not a line between legal breaks"]
  ELSE LET bf == A.BF[p, q, Min2(pv.ln + 1, Len(I.lw))] IN
       [ok |-> q <= A.NF[p] /\ A.OK[p, q, Min2(pv.ln + 1, Len(I.lw))], b |-> bf[1], fit |-> bf[2], p |-> A.Pen[q],
        hy |-> A.Hy[q],
        d |-> LineDem(I, bf[1], A.Pen[q], pv.fc, bf[2], pv.hy, A.Hy[q], q = A.K)]

LogRecordOK(I, A, AN, r) ==
  /\ r.prev \in 0..Len(AN)
  /\ \/ r.art
     \/ LET pv == IF r.prev = 0 THEN StartNode ELSE AN[r.prev]
            ln == LogLine(I, A, pv, r.i) IN
        /\ ln.ok
        /\ IF r.t = "fb"
           THEN r.b = ln.b /\ r.p = ln.p /\ r.d = ln.d
           ELSE /\ r.ln = pv.ln + 1 /\ r.fc = ln.fit /\ r.hy = ln.hy
                /\ r.td = pv.td + ln.d

LogOK(I, A, log) ==
  LET AN == SelectSeq(log, LAMBDA r : r.t = "an") IN
  /\ \A n \in 1..Len(AN) : AN[n].n = n /\ AN[n].prev \in 0..n - 1
  /\ \A j \in 1..Len(log) : LogRecordOK(I, A, AN, log[j])

\* diagnostics: the first record that is not accepted, with the reference layer's line
LogDiag(I, A, log) ==
  LET AN  == SelectSeq(log, LAMBDA r : r.t = "an")
      bad == {j \in 1..Len(log) : ~LogRecordOK(I, A, AN, log[j])} IN
  IF bad = {} THEN [record |-> 0]
  ELSE LET j == SetMin(bad)
           r == log[j] IN
       [record |-> j, got |-> r,
        spec |-> IF r.prev \in 0..Len(AN)
                 THEN LogLine(I, A, IF r.prev = 0 THEN StartNode ELSE AN[r.prev], r.i)
                 ELSE [ok |-> FALSE, why |-> "unknown node"]]

\* two outcomes have the same value: both fail, or both are feasible with the same number of
\* lines and the same demerits
SameValue(I, A, o1, o2) ==
  /\ o1.k = o2.k
  /\ o1.k = "brk" => EvalSeq(I, A, o1.brk) = EvalSeq(I, A, o2.brk)

\* the verdict on a call event read under deviations D: <<v, c>>.  v = "ok", "skip-...", or the
\* reason for rejection; c = the machine layer agrees with the reference layer on this instance
\* (the specification against itself; a disagreement is an error of the specification, never of
\* the code)
KpVerdict(e, D) ==
  IF "panic" \in DOMAIN e THEN <<"panic", TRUE>>
  ELSE LET I   == InstOf(e, D)
           A   == Analysis(I)
           out == OutOf(e)
           j   == Judge(I, A, out)
           mo  == RunMachine(I)
           c   == Judge(I, A, mo) \in Accepting IN
       IF ~A.inrange THEN <<j, TRUE>>
       ELSE IF ~LogOK(I, A, e.log) THEN <<"log-" \o j, c>>
       ELSE IF j = "skip-nonmonotone" /\ D # {} /\ ~SameValue(I, A, out, mo)
            THEN <<"nonmonotone-under-deviation-and-machine-disagrees", c>>
       ELSE <<j, c>>

\* candidate explanations of an event the strict specification rejects, smallest first
DevSets == << {DevNoDiscard},
              {DevKernSign},
              {DevNoCap},
              {DevScanRun},
              {DevNoDiscard, DevKernSign},
              {DevNoDiscard, DevNoCap},
              {DevNoDiscard, DevScanRun},
              {DevKernSign, DevNoCap},
              {DevKernSign, DevScanRun},
              {DevNoCap, DevScanRun},
              {DevNoDiscard, DevKernSign, DevNoCap},
              {DevNoDiscard, DevKernSign, DevScanRun},
              {DevNoDiscard, DevNoCap, DevScanRun},
              {DevKernSign, DevNoCap, DevScanRun},
              {DevNoDiscard, DevKernSign, DevNoCap, DevScanRun} >>
DevKeys == << DevNoDiscard,
              DevKernSign,
              DevNoCap,
              DevScanRun,
              DevNoDiscard \o "+" \o DevKernSign,
              DevNoDiscard \o "+" \o DevNoCap,
              DevNoDiscard \o "+" \o DevScanRun,
              DevKernSign \o "+" \o DevNoCap,
              DevKernSign \o "+" \o DevScanRun,
              DevNoCap \o "+" \o DevScanRun,
              DevNoDiscard \o "+" \o DevKernSign \o "+" \o DevNoCap,
              DevNoDiscard \o "+" \o DevKernSign \o "+" \o DevScanRun,
              DevNoDiscard \o "+" \o DevNoCap \o "+" \o DevScanRun,
              DevKernSign \o "+" \o DevNoCap \o "+" \o DevScanRun,
              DevNoDiscard \o "+" \o DevKernSign \o "+" \o DevNoCap \o "+" \o DevScanRun >>

\* the first candidate under which the event is accepted (0 = none); the specification must be
\* consistent with itself under that candidate too
RECURSIVE ExplainFrom(_, _)
ExplainFrom(e, i) ==
  IF i > Len(DevSets) THEN <<0, TRUE>>
  ELSE LET vc == KpVerdict(e, DevSets[i]) IN
       IF vc[1] \in Accepting THEN <<i, vc[2]>> ELSE ExplainFrom(e, i + 1)

KpWant(e) ==
  LET I == InstOf(e, {})
      A == Analysis(I) IN
  [legal |-> [q \in 1..A.K |-> A.Lseq[q] - 1], monotone |-> A.mono, inrange |-> A.inrange,
   feasible |-> A.S # {}, want |-> IF A.S = {} THEN {} ELSE Want(I, A.S),
   got |-> IF "panic" \in DOMAIN e \/ e.res.k = "none" THEN [ok |-> FALSE]
           ELSE EvalSeq(I, A, OutOf(e).brk),
   log |-> IF "panic" \in DOMAIN e \/ ~A.inrange THEN [record |-> 0] ELSE LogDiag(I, A, e.log)]

---------------------------------------------------------------------------
(* Golden lines set by real TeX.                                           *)

LineVerdict(e) ==
  LET I   == [items |-> e.items, devs |-> {}, lw |-> <<e.lw>>, tol |-> 10000, final |-> FALSE,
              bg |-> Add6(Add6(GlueTot(e.ls), GlueTot(e.rs)), <<0, e.es, 0, 0, 0, 0>>),
              lp |-> e.lp, hp |-> e.hp, ehp |-> e.ehp, dhd |-> e.dhd, fhd |-> e.fhd, adj |-> e.adj,
              loose |-> 0]
      n   == Len(e.items)
      a   == IF e.start THEN 0 ELSE 1
      b   == IF e.last THEN n + 1 ELSE n
      T   == Totals(e.items)
      bf  == BadFit(LineMat(I, T, a, b), e.lw)
      pi  == BreakPenalty(I, b)
      d   == LineDem(I, bf[1], pi, e.pf, bf[2], a # 0 /\ Hyphenated(I, a), Hyphenated(I, b), e.last)
      got == [b |-> IF bf[1] > InfBad THEN -1 ELSE bf[1], p |-> pi, d |-> d, fit |-> bf[2]]
  IN IF /\ e.tex.b = got.b /\ e.tex.p = got.p
        /\ (e.tex.d = -1 \/ e.tex.d = got.d)
        /\ (e.tex.fit = -1 \/ e.tex.fit = got.fit)
        /\ (e.tex.t = -1 \/ e.tex.d = -1 \/ e.tex.t = e.tex.pt + got.d)
     THEN "ok" ELSE ToJson(got)

---------------------------------------------------------------------------
TInit == l = 1 /\ inst = 0 /\ pos = 0 /\ cur = 0 /\ active = 0 /\ passive = 0 /\ outcome = 0
TStep == /\ l <= Len(Rec) /\ l' = l + 1 /\ UNCHANGED vars
         /\ LET e == Rec[l] IN
            IF e.fn = "line"
            THEN LET v == LineVerdict(e) IN
                 IF v = "ok" THEN TRUE
                 ELSE PrintT(<<"VERDICT", ToJson([l |-> l, key |-> "spec_disagrees_with_tex_golden", spec |-> v])>>)
            ELSE LET vc == KpVerdict(e, {})
                     v  == vc[1] IN
                 /\ IF vc[2] THEN TRUE
                    ELSE PrintT(<<"VERDICT", ToJson([l |-> l, key |-> "spec_machine_disagrees_with_reference"])>>)
                 /\ IF v = "ok" THEN TRUE
                    ELSE IF v = "panic" \/ v \in Accepting
                    THEN PrintT(<<"VERDICT", ToJson([l |-> l, key |-> v])>>)
                    ELSE LET x == ExplainFrom(e, 1) IN
                         /\ IF x[2] THEN TRUE
                            ELSE PrintT(<<"VERDICT", ToJson([l |-> l, key |-> "spec_machine_disagrees_with_reference",
                                                             devs |-> DevKeys[x[1]]])>>)
                         /\ IF x[1] = 0
                            THEN PrintT(<<"VERDICT", ToJson([l |-> l, key |-> v, want |-> KpWant(e),
                                                             under |-> [i \in 1..Len(DevSets) |->
                                                                          <<DevKeys[i], KpVerdict(e, DevSets[i])[1]>>]])>>)
                            ELSE PrintT(<<"VERDICT", ToJson([l |-> l, key |-> v, devs |-> DevKeys[x[1]]])>>)
TSpec == TInit /\ [][TStep]_<<vars, l>>
Matched == TLCGet("stats").diameter - 1
TraceAccepted == \/ Matched = Len(Rec)
                 \/ PrintT(<<"MATCHED", Matched>>) /\ FALSE

NoItems == {}
NoDevs == {}
=============================================================================
