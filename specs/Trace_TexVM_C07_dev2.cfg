SPECIFICATION TSpec
CONSTANTS
  Deviations = {"DecideC07", "NoRelaxBeforeEarlyElse", "LetToUndefinedIsNoOp"}
POSTCONDITION TraceAccepted
CHECK_DEADLOCK FALSE
