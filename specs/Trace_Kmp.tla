------------------------------ MODULE Trace_Kmp ------------------------------
(* Binding F: each event is one complete run of the real Matcher/Search on a *)
(* (pattern, text) pair; `ends` lists the 1-based positions at which         *)
(* Search::next returned true.  The event is accepted iff that equals        *)
(* MatchEnds of the reference layer.                                         *)
EXTENDS Kmp, TLC, Json, IOUtils, SequencesExt
Rec == ndJsonDeserialize(IOEnv.TRACE)
VARIABLE l
Want(e) == SetToSortSeq(MatchEnds(e.p, e.t), <)
TInit == l = 1 /\ p = <<>> /\ txt = <<>> /\ q = 0 /\ hit = FALSE
TStep == /\ l <= Len(Rec) /\ l' = l + 1 /\ UNCHANGED vars
         /\ LET e == Rec[l] IN
            IF "panic" \in DOMAIN e
            THEN PrintT(<<"VERDICT", ToJson([l |-> l, key |-> "panic", got |-> e.panic])>>)
            ELSE IF e.ends = Want(e) THEN TRUE
            ELSE PrintT(<<"VERDICT", ToJson([l |-> l, key |-> "mismatch", want |-> Want(e)])>>)
TSpec == TInit /\ [][TStep]_<<vars, l>>
Matched == TLCGet("stats").diameter - 1
TraceAccepted == \/ Matched = Len(Rec)
                 \/ PrintT(<<"MATCHED", Matched>>) /\ FALSE
=============================================================================
