------------------------------- MODULE Liang -------------------------------
(* C13 -- Liang hyphenation as TeX defines it, and the packed representation *)
(* used by crates/hyphenate (texcraft).                                      *)
(*                                                                          *)
(* Everything is expressed over CODE POINTS, exactly as the public API of    *)
(* the crate receives them:                                                  *)
(*   load_patterns(text)      text = patterns separated by white space       *)
(*   insert_exception(text)   text = one word with '-' at the break points   *)
(*   insert_exceptions(text)  text = several such words                      *)
(*   calculate_indices(lc, word)                                             *)
(* A *call history* is a sequence of records [k |-> "p"|"e"|"E", t |-> text].*)
(*                                                                          *)
(* REFERENCE LAYER  (tex.web 919-924 hyphenate, 930-931 exception lookup,    *)
(* 934-939 \hyphenation, 960-965 \patterns; Liang's thesis ch. 4):           *)
(*   a pattern is letters + one digit 0..9 in each of the Len+1 gaps,        *)
(*   optionally anchored to the word start / end; Score(word, p) is the      *)
(*   maximum digit any matching pattern puts at inter-letter position p;     *)
(*   a hyphen is allowed where the score is odd, never before the first      *)
(*   letter (hyf[0], l_hyf >= 1) nor after the last (hyf[hn], r_hyf >= 1);   *)
(*   a word found in the exception dictionary gets exactly the listed        *)
(*   positions (tex.web 923: goto found skips the pattern loop entirely).    *)
(*   The hyphen-min trimming beyond 1/1 belongs to C14, not to this module.  *)
(*                                                                          *)
(* IMPLEMENTATION-SHAPED LAYER (crates/hyphenate/src/lib.rs): one byte       *)
(* vector `data` holding, per pattern, a packed op stream (low nibble =      *)
(* digit 0..9 or terminator 10/11, high nibble = number of zero digits to    *)
(* skip first, runs of >= 16 zeros chunked as 0xF0 bytes), a trie whose      *)
(* vertices are identified here by their edge paths, and the walk of         *)
(* for_each_pattern / calculate_aggregate_scores.  Exceptions are stored in  *)
(* the same trie as a both-anchored pattern with digits 6 / 7.               *)
(*                                                                          *)
(* DEVIATIONS.  Model(D, ...) is the reference layer with the named          *)
(* deviations D enabled; D = {} is TeX.  Each name documents one way in      *)
(* which the code is known to differ (see known_findings/C13.json).          *)
EXTENDS Naturals, Integers, Sequences, FiniteSets

CONSTANTS Bug,          \* "" or the name of a seeded mutant of the implementation layer
          Fix           \* TRUE: implementation layer with the proposed repairs (proposed_fixes/C13-1.diff, C13-2.diff)

DeviationNames == {"ExceptionAsScore67", "LaterPatternReplacesException", "ExceptionsSplitOnLinesOnly"}

-----------------------------------------------------------------------------
(* lexical conventions *)
Dot    == 46
Hyphen == 45
IsDigit(c) == c \in 48..57
WsSet == {32, 9, 10, 13}          \* the white space the generators use
NlSet == {10}

MaxOf(S) == CHOOSE x \in S : \A y \in S : y <= x

\* non-empty maximal runs of t that contain no code point of seps
RECURSIVE SplitFrom(_, _, _, _, _)
SplitFrom(t, seps, i, cur, acc) ==
  IF i > Len(t) THEN (IF cur = <<>> THEN acc ELSE Append(acc, cur))
  ELSE IF t[i] \in seps
       THEN SplitFrom(t, seps, i + 1, <<>>, IF cur = <<>> THEN acc ELSE Append(acc, cur))
       ELSE SplitFrom(t, seps, i + 1, Append(cur, t[i]), acc)
SplitOn(t, seps) == SplitFrom(t, seps, 1, <<>>, <<>>)

\* str::trim
TrimWs(s) ==
  LET I == {i \in 1..Len(s) : s[i] \notin WsSet}
  IN IF I = {} THEN <<>>
     ELSE SubSeq(s, CHOOSE i \in I : \A j \in I : i <= j, CHOOSE i \in I : \A j \in I : j <= i)

-----------------------------------------------------------------------------
(*                          REFERENCE LAYER                                  *)
-----------------------------------------------------------------------------
IsPatLetter(c) == ~IsDigit(c) /\ c # Dot
PatLetters(t) == SelectSeq(t, IsPatLetter)
LettersBefore(t, i) == Cardinality({j \in 1..(i - 1) : IsPatLetter(t[j])})

\* tex.web 962: a digit is the value of the gap that follows the letters read so far
PatDigit(t, g) ==
  LET I == {i \in 1..Len(t) : IsDigit(t[i]) /\ LettersBefore(t, i) = g}
  IN IF I = {} THEN 0 ELSE t[CHOOSE i \in I : TRUE] - 48

\* Patterns this module gives a meaning to: [.] (digit? letter)+ digit? [.]
\* (tex.web 962 treats a digit that follows a digit as a letter, and 965 discards a digit
\* outside the dots; nobody writes such patterns and the generators do not either.)
WellFormedPat(t) ==
  /\ Len(t) >= 1
  /\ \A i \in 2..(Len(t) - 1) : t[i] # Dot
  /\ \A i \in 1..(Len(t) - 1) : ~(IsDigit(t[i]) /\ IsDigit(t[i + 1]))
  /\ PatLetters(t) # <<>>
  /\ \A c \in {t[i] : i \in 1..Len(t)} : c \notin WsSet /\ c # Hyphen

ParsePat(t) ==
  LET ls == PatLetters(t)
  IN [letters |-> ls,
      digits  |-> [g \in 1..(Len(ls) + 1) |-> PatDigit(t, g - 1)],   \* digits[g+1] = gap g
      atStart |-> t[1] = Dot,
      atEnd   |-> t[Len(t)] = Dot]

\* P matches the word w with j letters of w before the match
MatchesAt(P, w, j) ==
  /\ j >= 0 /\ j + Len(P.letters) <= Len(w)
  /\ P.atStart => j = 0
  /\ P.atEnd => j + Len(P.letters) = Len(w)
  /\ \A i \in 1..Len(P.letters) : w[j + i] = P.letters[i]
MatchOffsets(P, w) == {j \in 0..(Len(w) - Len(P.letters)) : MatchesAt(P, w, j)}

\* <<position, digit>> pairs with a non-zero digit that P contributes to w
Contribs(P, w) ==
  {<<j + g, P.digits[g + 1]>> : <<j, g>> \in
      {x \in MatchOffsets(P, w) \X (0..Len(P.letters)) : P.digits[x[2] + 1] > 0}}

AllContribs(pats, w) == UNION {Contribs(P, w) : P \in pats}

ScoreIn(C, p) == MaxOf({0} \cup {c[2] : c \in {x \in C : x[1] = p}})
Score(pats, w, p) == ScoreIn(AllContribs(pats, w), p)

\* the permitted hyphen positions: p = number of letters before the hyphen
HyphFrom(C, n) == {p \in 1..(n - 1) : ScoreIn(C, p) % 2 = 1}
Hyph(pats, w) == HyphFrom(AllContribs(pats, w), Len(w))

\* exception entries
ExcLetters(e) == SelectSeq(e, LAMBDA c : c # Hyphen)
ExcBreaks(e) ==
  {g \in 0..Len(e) : \E i \in 1..Len(e) :
       e[i] = Hyphen /\ Cardinality({j \in 1..(i - 1) : e[j] # Hyphen}) = g}
ExcAsPat(e) ==
  LET ls == ExcLetters(e)
      B == ExcBreaks(e)
  IN [letters |-> ls, digits |-> [g \in 1..(Len(ls) + 1) |-> IF (g - 1) \in B THEN 7 ELSE 6],
      atStart |-> TRUE, atEnd |-> TRUE]

\* ---- a call history flattened to entries in load order ----------------------
\* insert_exceptions: the documentation of the crate ("separate words separated by
\* whitespace") and TeX's \hyphenation agree: entries are separated by white space.
\* Deviation ExceptionsSplitOnLinesOnly: the text is split into lines, each trimmed line is
\* ONE entry (so "a-b b-a" is a single entry containing a space, which no word can equal).
ExcEntries(D, t) ==
  IF "ExceptionsSplitOnLinesOnly" \in D
  THEN SelectSeq([i \in 1..Len(SplitOn(t, NlSet)) |-> TrimWs(SplitOn(t, NlSet)[i])], LAMBDA s : s # <<>>)
  ELSE SplitOn(t, WsSet)

CallEntries(D, c) ==
  IF c.k = "p" THEN [i \in 1..Len(SplitOn(c.t, WsSet)) |-> [k |-> "p", t |-> SplitOn(c.t, WsSet)[i]]]
  ELSE IF c.k = "e" THEN <<[k |-> "e", t |-> c.t]>>
  ELSE [i \in 1..Len(ExcEntries(D, c.t)) |-> [k |-> "e", t |-> ExcEntries(D, c.t)[i]]]

RECURSIVE Entries(_, _)
Entries(D, calls) == IF calls = <<>> THEN <<>> ELSE CallEntries(D, Head(calls)) \o Entries(D, Tail(calls))

PatKey(P) == <<P.atStart, P.letters, P.atEnd>>

\* The dictionary the word is looked up in.  TeX: the most recent entry for a word counts;
\* patterns and exceptions are separate tables.
\*  - LaterPatternReplacesException: a pattern ".w." loaded after the exception for w
\*    silently deletes that exception.
\*  - ExceptionAsScore67: an exception is not a separate table at all but a pattern
\*    ".w." with digits 6 (no break) / 7 (break) which takes part in the maximum like any
\*    other pattern -- so digits 7..9 of ordinary patterns beat it -- and which replaces an
\*    earlier pattern ".w.".
LiveExc(D, es) ==
  {i \in 1..Len(es) :
     /\ es[i].k = "e"
     /\ \A j \in (i + 1)..Len(es) :
          /\ ~(es[j].k = "e" /\ ExcLetters(es[j].t) = ExcLetters(es[i].t))
          /\ ~("LaterPatternReplacesException" \in D /\ es[j].k = "p"
               /\ PatKey(ParsePat(es[j].t)) = <<TRUE, ExcLetters(es[i].t), TRUE>>)}

LivePat(D, es) ==
  {i \in 1..Len(es) :
     /\ es[i].k = "p"
     /\ \A j \in (i + 1)..Len(es) :
          /\ ~(es[j].k = "p" /\ PatKey(ParsePat(es[j].t)) = PatKey(ParsePat(es[i].t)))
          /\ ~("ExceptionAsScore67" \in D /\ es[j].k = "e"
               /\ PatKey(ParsePat(es[i].t)) = <<TRUE, ExcLetters(es[j].t), TRUE>>)}

\* The dictionary after the call history `calls`, and the permitted hyphen positions of the
\* lower-cased word lw according to it.
Dict(D, calls) ==
  LET es == Entries(D, calls)
  IN [pats |-> {ParsePat(es[i].t) : i \in LivePat(D, es)},
      excs |-> {es[i].t : i \in LiveExc(D, es)}]

Lookup(D, dict, lw) ==
  LET hit == {e \in dict.excs : ExcLetters(e) = lw}
  IN IF "ExceptionAsScore67" \in D
     THEN Hyph(dict.pats \cup {ExcAsPat(e) : e \in dict.excs}, lw)
     ELSE IF hit # {} THEN ExcBreaks(CHOOSE e \in hit : TRUE) \cap (1..(Len(lw) - 1))
     ELSE Hyph(dict.pats, lw)

Model(D, calls, lw) == Lookup(D, Dict(D, calls), lw)

\* the lower-case map is an argument of calculate_indices: lc[c] = 0 for a non-letter
LowerWord(lc, w) == [i \in 1..Len(w) |-> lc[w[i]]]
LettersOnly(lc, w) == \A i \in 1..Len(w) : lc[w[i]] # 0

-----------------------------------------------------------------------------
(*                    IMPLEMENTATION-SHAPED LAYER                            *)
-----------------------------------------------------------------------------
(* Hyphenator = [data : Seq(0..255), verts : set of edge paths, val : path -> offset into data] *)
(* trie::Edge: StartOfWord = -1, EndOfWord = -2, Char(c) = c.                                  *)
SOW == -1
EOW == -2
EmptyFn == [x \in {} |-> 0]
EmptyHy == [data |-> <<>>, verts |-> {<<>>}, val |-> EmptyFn, exc |-> EmptyFn]

PathPrefixes(p) == {SubSeq(p, 1, k) : k \in 0..Len(p)}
SetVal(f, k, v) == [x \in (DOMAIN f) \cup {k} |-> IF x = k THEN v ELSE f[x]]

ChunkSize == IF Bug = "Chunk15" THEN 15 ELSE 16

\* `while let Some(m) = n.checked_sub(16) { data.push(15 * 16); n = m; }`
RECURSIVE PushZeros(_, _)
PushZeros(d, n) == IF n >= ChunkSize THEN PushZeros(Append(d, 240), n - ChunkSize) ELSE [data |-> d, n |-> n]

\* the `for c in pattern.chars()` loop of load_patterns.  st >= 0: State::AfterChar(st); st = -1: AfterScore
RECURSIVE LoadChars(_, _, _, _, _)
LoadChars(t, i, path, d, st) ==
  IF i > Len(t) THEN [path |-> path, data |-> d, st |-> st]
  ELSE LET c == t[i] IN
    IF IsDigit(c)
    THEN LET z == IF st >= 0 THEN PushZeros(d, st)
                  ELSE [data |-> SubSeq(d, 1, Len(d) - 1), n |-> 0]      \* data.pop(): the last digit wins
         IN LoadChars(t, i + 1, path, Append(z.data, (c - 48) + z.n * 16), -1)
    ELSE IF c = Dot THEN LoadChars(t, i + 1, path, d, st)                 \* "already handled above"
    ELSE LoadChars(t, i + 1, Append(path, c), d,
                   IF st >= 0 THEN st + 1 ELSE (IF Bug = "AfterScoreCountsChar" THEN 1 ELSE 0))

LoadPattern(hy, t) ==
  LET start == IF t[1] = Dot THEN <<SOW>> ELSE <<>>
      r     == LoadChars(t, 1, start, hy.data, 0)
      dotted == t[Len(t)] = Dot
      endp  == IF dotted /\ Bug # "EndAnchorIgnored" THEN Append(r.path, EOW) ELSE r.path
      z     == IF r.st >= 0 THEN PushZeros(r.data, r.st) ELSE [data |-> r.data, n |-> 0]
      d2    == IF Bug = "NoTerminator" THEN z.data
               ELSE Append(z.data, (IF dotted THEN 11 ELSE 10) + z.n * 16)
  IN [hy EXCEPT !.data = d2, !.verts = @ \cup PathPrefixes(endp), !.val = SetVal(@, endp, Len(hy.data))]

RECURSIVE LoadAll(_, _, _)
LoadAll(hy, ps, i) == IF i > Len(ps) THEN hy ELSE LoadAll(LoadPattern(hy, ps[i]), ps, i + 1)
LoadPatterns(hy, text) == LoadAll(hy, SplitOn(text, WsSet), 1)

\* insert_exception: push 6; per letter push 6; per '-' replace the last byte by 7; push 10
RECURSIVE ExcChars(_, _, _, _)
ExcChars(e, i, path, d) ==
  IF i > Len(e) THEN [path |-> path, data |-> d]
  ELSE IF e[i] = Hyphen THEN ExcChars(e, i + 1, path, Append(SubSeq(d, 1, Len(d) - 1), 7))
  ELSE ExcChars(e, i + 1, Append(path, e[i]), Append(d, 6))

InsertException(hy, e) ==
  IF Fix
  THEN \* proposed repair: a separate dictionary word -> break positions, consulted first
       [hy EXCEPT !.exc = SetVal(@, ExcLetters(e), ExcBreaks(e))]
  ELSE LET r == ExcChars(e, 1, <<SOW>>, Append(hy.data, 6))
           endp == Append(r.path, EOW)
       IN [hy EXCEPT !.data = Append(r.data, 10), !.verts = @ \cup PathPrefixes(endp),
                     !.val = SetVal(@, endp, Len(hy.data))]

RECURSIVE InsertAll(_, _, _)
InsertAll(hy, es, i) == IF i > Len(es) THEN hy ELSE InsertAll(InsertException(hy, es[i]), es, i + 1)
\* insert_exceptions: `.lines().map(trim).filter(non-empty)`; repaired: split_whitespace
InsertExceptions(hy, text) ==
  InsertAll(hy, ExcEntries({}, text), 1)    \* (split on white space since the repository fix f96fda3)

ApplyCall(hy, c) == IF c.k = "p" THEN LoadPatterns(hy, c.t)
                    ELSE IF c.k = "e" THEN InsertException(hy, c.t)
                    ELSE InsertExceptions(hy, c.t)
RECURSIVE Build(_, _)
Build(hy, calls) == IF calls = <<>> THEN hy ELSE Build(ApplyCall(hy, Head(calls)), Tail(calls))

\* ---- calculate_aggregate_scores ----------------------------------------------
\* acc = [sc : 0..n -> 0..9, oob : BOOLEAN]; oob records an index panic of `scores[p.offset + k]`
RECURSIVE ApplyOps(_, _, _, _, _)
ApplyOps(acc, data, i, k, off) ==          \* i: 1-based index of the next byte of data
  IF i > Len(data) THEN acc
  ELSE LET nz == data[i] \div 16
           op == data[i] % 16
           k1 == k + nz
       IN IF op < 10
          THEN IF (off + k1) \notin DOMAIN acc.sc THEN [acc EXCEPT !.oob = TRUE]
               ELSE ApplyOps(IF acc.sc[off + k1] < op \/ Bug = "LastWins"
                             THEN [acc EXCEPT !.sc[off + k1] = op] ELSE acc,
                             data, i + 1, k1 + 1, off)
          ELSE acc

\* the closure `process` of for_each_pattern; lw[pos] = 0 encodes Some(None) (a non-letter)
RECURSIVE Process(_, _, _, _, _, _)
Process(hy, lw, vertex, pos, off, acc) ==
  IF pos <= Len(lw) /\ lw[pos] = 0 THEN acc
  ELSE LET edge == IF pos > Len(lw) THEN EOW ELSE lw[pos]
           v2   == Append(vertex, edge)
       IN IF v2 \notin hy.verts THEN acc
          ELSE Process(hy, lw, v2, pos + 1, off,
                       IF v2 \in DOMAIN hy.val THEN ApplyOps(acc, hy.data, hy.val[v2] + 1, 0, off) ELSE acc)

RECURSIVE Offsets(_, _, _, _)
Offsets(hy, lw, lower, acc) ==
  IF lower >= Len(lw) \/ lw[lower + 1] = 0 THEN acc
  ELSE Offsets(hy, lw, lower + 1,
               LET a1 == Process(hy, lw, <<>>, lower + 1, lower, acc)
               IN IF Bug = "StartAnchorAnywhere" /\ <<SOW>> \in hy.verts
                  THEN Process(hy, lw, <<SOW>>, lower + 1, lower, a1) ELSE a1)

AggregateScores(hy, lw) ==
  LET a0 == [sc |-> [i \in 0..Len(lw) |-> 0], oob |-> FALSE]
      a1 == IF <<SOW>> \in hy.verts THEN Process(hy, lw, <<SOW>>, 1, 0, a0) ELSE a0
  IN Offsets(hy, lw, 0, a1)

\* calculate_indices: scores[0] = 0; truncate(num_chars); keep the odd ones
ImplIndices(hy, lw) ==
  IF Fix /\ lw \in DOMAIN hy.exc THEN hy.exc[lw] \cap (1..(Len(lw) - 1))
  ELSE LET a == AggregateScores(hy, lw)
       IN IF a.oob THEN {-1}
          ELSE {i \in 0..(Len(lw) - 1) : (i # 0 \/ Bug = "KeepScore0") /\ a.sc[i] % 2 = 1}

\* decoding of the op stream stored for one pattern, as digits per gap 0..n (codec law)
RECURSIVE DecodeOps(_, _, _, _)
DecodeOps(data, i, k, out) ==
  IF i > Len(data) THEN out
  ELSE LET nz == data[i] \div 16
           op == data[i] % 16
       IN IF op < 10 THEN DecodeOps(data, i + 1, k + nz + 1, out \cup (IF op > 0 THEN {<<k + nz, op>>} ELSE {}))
          ELSE out
StoredDigits(hy, path, n) ==
  LET C == DecodeOps(hy.data, hy.val[path] + 1, 0, {})
  IN [g \in 1..(n + 1) |-> ScoreIn(C, g - 1)]
StoredInRange(hy, path, n) == \A c \in DecodeOps(hy.data, hy.val[path] + 1, 0, {}) : c[1] <= n
PatPath(t) == (IF t[1] = Dot THEN <<SOW>> ELSE <<>>) \o PatLetters(t) \o (IF t[Len(t)] = Dot THEN <<EOW>> ELSE <<>>)

-----------------------------------------------------------------------------
(*   THE MACHINE: a Hyphenator being configured by API calls                 *)
-----------------------------------------------------------------------------
CONSTANTS PatTexts,      \* texts that may be passed to load_patterns
          ExcTexts,      \* texts that may be passed to insert_exception
          ExcListTexts,  \* texts that may be passed to insert_exceptions
          Words,         \* words (code points, any case) every state is queried with
          Lc,            \* the lower-case map
          MaxP, MaxE,    \* at most MaxP load_patterns calls and MaxE exception calls
          Deviations     \* the deviations the implementation layer is claimed to refine

VARIABLES hy, calls
vars == <<hy, calls>>

NCalls(k) == Cardinality({i \in 1..Len(calls) : (calls[i].k = "p") = k})
\* duplicate pattern keys are excluded: TeX reports "Duplicate pattern" (tex.web 963)
KeysOf(text) == {PatKey(ParsePat(SplitOn(text, WsSet)[j])) : j \in 1..Len(SplitOn(text, WsSet))}
FreshPat(t) ==
  /\ Cardinality(KeysOf(t)) = Len(SplitOn(t, WsSet))
  /\ \A i \in 1..Len(calls) : calls[i].k = "p" => KeysOf(calls[i].t) \cap KeysOf(t) = {}

Init == hy = EmptyHy /\ calls = <<>>
\* (the guards stand outside the quantifiers so that TLC does not enumerate the texts in vain)
CallLoadPatterns ==
  /\ NCalls(TRUE) < MaxP
  /\ \E t \in PatTexts : /\ FreshPat(t)
                         /\ hy' = LoadPatterns(hy, t) /\ calls' = Append(calls, [k |-> "p", t |-> t])
CallInsertException ==
  /\ NCalls(FALSE) < MaxE
  /\ \E t \in ExcTexts : hy' = InsertException(hy, t) /\ calls' = Append(calls, [k |-> "e", t |-> t])
CallInsertExceptions ==
  /\ NCalls(FALSE) < MaxE
  /\ \E t \in ExcListTexts : hy' = InsertExceptions(hy, t) /\ calls' = Append(calls, [k |-> "E", t |-> t])
Next == CallLoadPatterns \/ CallInsertException \/ CallInsertExceptions
Spec == Init /\ [][Next]_vars

\* the state is exactly what the transcribed loaders build from the history
StateIsBuild == hy = Build(EmptyHy, calls)

\* REFINEMENT: on every word the packed representation answers what the definition says
Refines == LET dict == Dict(Deviations, calls) IN
           \A w \in Words : LettersOnly(Lc, w) =>
              ImplIndices(hy, LowerWord(Lc, w)) = Lookup(Deviations, dict, LowerWord(Lc, w))

\* the walk never indexes `scores` out of bounds (a panic in Rust)
InBounds == \A w \in Words : ~AggregateScores(hy, LowerWord(Lc, w)).oob

\* CODEC LAW: what is stored for a loaded pattern decodes to the digits it was written with
\* (and the decoder stops inside the pattern: terminators are in place)
CodecRoundTrip ==
  LET es == Entries({}, calls) IN
  \A i \in LivePat(IF Fix THEN {} ELSE {"ExceptionAsScore67"}, es) :
     LET t == es[i].t
         P == ParsePat(t)
     IN /\ PatPath(t) \in DOMAIN hy.val
        /\ StoredDigits(hy, PatPath(t), Len(P.letters)) = P.digits
        /\ StoredInRange(hy, PatPath(t), Len(P.letters))

\* indexing patterns by first letter (used for plain TeX's 4447 patterns) changes nothing
FirstLetterIndex(pats) == [c \in {P.letters[1] : P \in pats} |-> {P \in pats : P.letters[1] = c}]
ContribsAt(P, w, j) ==
  IF MatchesAt(P, w, j)
  THEN {<<j + g, P.digits[g + 1]>> : g \in {x \in 0..Len(P.letters) : P.digits[x + 1] > 0}} ELSE {}
IndexedContribs(idx, w) ==
  UNION {UNION {ContribsAt(P, w, j) : P \in (IF w[j + 1] \in DOMAIN idx THEN idx[w[j + 1]] ELSE {})}
         : j \in 0..(Len(w) - 1)}
IndexAgrees ==
  LET es == Entries({}, calls)
      pats == {ParsePat(es[i].t) : i \in LivePat({}, es)}
  IN \A w \in Words : LettersOnly(Lc, w) =>
        IndexedContribs(FirstLetterIndex(pats), LowerWord(Lc, w)) = AllContribs(pats, LowerWord(Lc, w))
=============================================================================
