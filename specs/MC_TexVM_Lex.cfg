SPECIFICATION Spec
CONSTANTS
  N = 5
INVARIANTS StepwiseIsWhole Resumed
CHECK_DEADLOCK FALSE
