SPECIFICATION Spec
CONSTANTS
  Alphabet <- AlphabetQuick
  MaxLen = 2
  Targets <- TargetsQuick
  TexDevs <- NoDevs
  Bug = "DepthIgnoresShift"
INVARIANTS TexBoxLaws
CHECK_DEADLOCK FALSE
