SPECIFICATION Spec
CONSTANTS
  Alphabet <- AlphaQuick
  MaxLen = 3
  Tails <- BothTails
  WidthSeqs <- WidthsQuick
  ParSets <- ParsQuick
  Devs <- NoDevs
  Bug = ""
INVARIANTS Refines NodesWitnessed ScanInv
CHECK_DEADLOCK FALSE
