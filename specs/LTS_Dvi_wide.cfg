SPECIFICATION Spec
CONSTANTS
  Chars <- MCChars
  Fonts <- LtsFonts
  Operands <- Ops2
  VarSet = {0, 1, 2, 3}
  MaxDepth = 1
  MaxSteps = 1000000
  Bug = ""
ACTION_CONSTRAINT Emit
VIEW AbsView
CHECK_DEADLOCK FALSE
