-------------------------- MODULE Trace_SpaceFactor --------------------------
(* Binding F: each event is one call of the real                             *)
(* boxworks::TextPreprocessor::add_text (boxworks_text::TextPreprocessorImpl)*)
(*   words   the words of the text (code points), separated by blanks        *)
(*   sfc     the space-factor code of every character, word by word          *)
(*   S       [font (space, stretch, shrink, extra of the TFM file), ss, xs]  *)
(*   font    the font number given to activate_font                          *)
(*   nodes   the horizontal list add_text produced                           *)
(*   panic   [source file, message] instead of nodes when the call panicked  *)
(* The event is accepted iff                                                 *)
(*   - there is exactly one glue node per blank, and it is the glue of the   *)
(*     SpaceFactor machine run over the characters (TexDevs = {} is TeX);    *)
(*   - between the glue nodes there are only characters, ligatures, font     *)
(*     kerns and empty discretionaries, and the characters together with the *)
(*     original characters of the ligatures spell the word;                  *)
(*   - an empty discretionary follows exactly the nodes that end with the    *)
(*     hyphen character (1039).                                              *)
EXTENDS SpaceFactor, TLC, Json, IOUtils
Rec == ndJsonDeserialize(IOEnv.TRACE)
VARIABLE l

Hyphen == 45
GlueNode(g) == [k |-> "glue", w |-> g.w, st |-> g.st, sto |-> g.sto, sh |-> g.sh, sho |-> g.sho, gk |-> 0]
EmptyDisc == [k |-> "disc", pre |-> <<>>, post |-> <<>>, rc |-> 0]

RECURSIVE Flatten(_)
Flatten(ss) == IF ss = <<>> THEN <<>> ELSE Head(ss) \o Flatten(Tail(ss))

\* the token sequence of the machine: the codes of word 1, a space, the codes of word 2, ...
Toks(sfc) == Flatten([j \in 1..Len(sfc) |-> IF j = 1 THEN sfc[j] ELSE <<SpaceTok>> \o sfc[j]])

\* positions of the glue nodes, and the segments between them
GluePos(ns) == SelectSeq([j \in 1..Len(ns) |-> j], LAMBDA j : ns[j].k = "glue")
Segments(ns) == LET g == GluePos(ns) m == Len(g) IN
                [j \in 1..(m + 1) |-> SubSeq(ns, IF j = 1 THEN 1 ELSE g[j - 1] + 1,
                                                 IF j = m + 1 THEN Len(ns) ELSE g[j] - 1)]

SpellNode(x) == IF x.k = "char" THEN <<x.c>> ELSE IF x.k = "lig" THEN x.o ELSE <<>>
Spell(seg) == Flatten([j \in 1..Len(seg) |-> SpellNode(seg[j])])

EndsWithHyphen(x) == \/ x.k = "char" /\ x.c = Hyphen
                     \/ x.k = "lig" /\ x.o # <<>> /\ x.o[Len(x.o)] = Hyphen

WordOk(seg, word, font) ==
  /\ \A m \in 1..Len(seg) :
        /\ seg[m].k \in {"char", "lig", "kern", "disc"}
        /\ seg[m].k \in {"char", "lig"} => seg[m].f = font
        /\ seg[m].k = "kern" => seg[m].kk = 0                       \* a font kern (1040)
        /\ seg[m].k = "disc" => (seg[m] = EmptyDisc /\ m > 1 /\ EndsWithHyphen(seg[m - 1]))
        /\ EndsWithHyphen(seg[m]) => (m < Len(seg) /\ seg[m + 1].k = "disc")
  /\ Spell(seg) = word

GlueSeq(ns) == LET g == GluePos(ns) IN [j \in 1..Len(g) |-> ns[g[j]]]

Clause(e, D) ==
  IF "panic" \in DOMAIN e THEN "panic"
  ELSE IF e.words = <<>> THEN (IF e.nodes = <<>> THEN "" ELSE "nodes_without_words")
  ELSE LET segs == Segments(e.nodes) IN
       IF Len(segs) # Len(e.words) THEN "one_glue_per_blank"
       ELSE IF \E j \in 1..Len(segs) : ~WordOk(segs[j], e.words[j], e.font) THEN "spelling"
       ELSE LET want == Glues(Toks(e.sfc), e.S, D) IN
            IF GlueSeq(e.nodes) # [j \in 1..Len(want) |-> GlueNode(want[j])] THEN "inter_word_glue"
            ELSE ""

Want(e) == IF "panic" \in DOMAIN e \/ e.words = <<>> THEN <<>>
           ELSE Glues(Toks(e.sfc), e.S, {})

TInit == l = 1 /\ S = [font |-> 0] /\ toks = <<>> /\ sf = 1000 /\ glues = <<>> /\ csf = 1000 /\ cglues = <<>>
TStep == /\ l <= Len(Rec) /\ l' = l + 1 /\ UNCHANGED vars
         /\ LET e == Rec[l] c == Clause(e, TexDevs) IN
            IF c = "" THEN TRUE
            ELSE PrintT(<<"VERDICT", ToJson([l |-> l, key |-> c, want_glue |-> Want(e)])>>)
TSpec == TInit /\ [][TStep]_<<vars, l>>
Matched == TLCGet("stats").diameter - 1
TraceAccepted == \/ Matched = Len(Rec)
                 \/ PrintT(<<"MATCHED", Matched>>) /\ FALSE

NoCodes == {}
NoSettings == {}
NoDevs == {}
WithDev == {DevSpaceSkip}
=============================================================================
