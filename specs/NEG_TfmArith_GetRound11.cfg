SPECIFICATION Spec
CONSTANTS
  Bug = "GetRound11"
  Blocks = 256
  Run = 256
  IntParts <- IntPartsCore
INVARIANTS RoundTrip MinFixRejected Shape
CHECK_DEADLOCK FALSE
