SPECIFICATION Spec
CONSTANTS
  Bug = "GetRound11"
  Blocks = 256
  Run = 128
  IntParts <- IntPartsCore
INVARIANTS RoundTrip MinFixRejected Shape
CHECK_DEADLOCK FALSE
