SPECIFICATION Spec
CONSTANTS
  Bug = ""
  Fix = FALSE
  Sigma = {97}
  PatLens = {1, 2, 3, 4, 5, 6, 7, 8, 9, 10, 11, 12, 13, 14, 15, 16, 17, 18, 19, 31, 32, 33, 34, 35, 36}
  Dg = {9}
  MaxDigits = 2
  WordAlphabet = {97, 98, 65}
  MaxWordLen = 3
  MaxMixedLen = 2
  MaxExcLen = 2
  CodecWordLens = {3, 18, 37}
  NSlices = 1
  Slice = 0
  MaxP = 1
  MaxE = 0
  Deviations = {"ExceptionAsScore67", "LaterPatternReplacesException"}
  PatTexts <- MCPatTexts
  ExcTexts <- MCExcTextsA
  ExcListTexts <- MCExcListsSmall
  Words <- MCWordsCodec
  Lc <- MCLc
INVARIANTS StateIsBuild Refines CodecRoundTrip
CHECK_DEADLOCK FALSE
