SPECIFICATION Spec
CONSTANTS
  N = 6
INVARIANTS StepwiseIsWhole Resumed
CHECK_DEADLOCK FALSE
