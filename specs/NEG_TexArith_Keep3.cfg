SPECIFICATION Spec
CONSTANTS
  Bug = "Keep3"
  FracStep = 256
  IntParts = {0, 1, 16383}
  Phases = {"trip"}
INVARIANTS FracLaw TripLaw MulLaw DivLaw XndLaw UnitLaw IntLaw GlueLaw WrapLaw
CHECK_DEADLOCK FALSE
