SPECIFICATION SpecLists
CONSTANTS
  Bug = ""
  N0 = 3
  N1 = 1
  N2 = 1
  L1 = 1
  L2 = 1
  MaxArgs = 0
  Fns = {}
  Rich = FALSE
  TextLen = 0
  Chars = {}
  IntParts = {}
  Sample = 1
  HiStep = 1
INVARIANTS InvTextRoundTrip
CHECK_DEADLOCK FALSE
