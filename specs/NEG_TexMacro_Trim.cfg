SPECIFICATION Spec
CONSTANTS
  N = 5
  KmpBug = ""
  Deviations = {"TrimLooksAtFirstAndLastOnly"}
INVARIANT AgreeInv
CHECK_DEADLOCK FALSE
