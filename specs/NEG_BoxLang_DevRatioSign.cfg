SPECIFICATION SpecLists
CONSTANTS
  Bug = ""
  N0 = 1
  N1 = 1
  N2 = 0
  L1 = 1
  L2 = 0
  MaxArgs = 0
  Fns = {}
  Rich = FALSE
  TextLen = 0
  Chars = {}
  IntParts = {}
  Sample = 1
  HiStep = 1
INVARIANTS InvRoundTripDevRatioSign
CHECK_DEADLOCK FALSE
