SPECIFICATION Spec
CONSTANTS
  Str = {1, 2, 3, 4}
  MaxKey = 5
INVARIANT Distinct
ACTION_CONSTRAINT Emit
VIEW View
CHECK_DEADLOCK FALSE
