SPECIFICATION Spec
CONSTANTS
  MaxOverrides = 2
  ValsAt <- ValsAtQuick
  Bases <- BasesQuick
  Lens <- LensQuick
  ImplDeviations = {}
  ImplBug = "NoEcCheck"
INVARIANTS ImplAgrees ImplOkIsSliceable
CHECK_DEADLOCK FALSE
