-------------------------- MODULE Trace_ScopedMap --------------------------
(* Binding T for the scoped map: a recorded history of the real container   *)
(* (GroupingHashMap / GroupingVec), one event per public call with its       *)
(* result and the full visible map afterwards, is accepted iff it is a      *)
(* behaviour of ScopedMap.  Both layers of the spec are stepped, so the     *)
(* design invariants are evaluated on every state of the real execution.    *)
EXTENDS ScopedMap, TLC, Json, IOUtils

Rec == ndJsonDeserialize(IOEnv.TRACE)

VARIABLE l
tvars == <<val, snaps, ival, saves, op, l>>

TKeys == 1..16
TVals == 1..9

E == Rec[l]
ObsOK == [k \in Keys |-> val'[k]] = E.obs

TInit == Init /\ l = 1

TReset == /\ E.ev = "reset"
          /\ val' = EmptyVal /\ snaps' = <<>> /\ ival' = EmptyVal /\ saves' = <<>>
          /\ op' = [k |-> "init"]

TStep == /\ l <= Len(Rec)
         /\ l' = l + 1
         /\ \/ TReset
            \/ E.ev = "begin" /\ Begin /\ ObsOK
            \/ E.ev = "end" /\ E.res = TRUE /\ End /\ ObsOK
            \/ E.ev = "end" /\ E.res = FALSE /\ EndErr /\ ObsOK
            \/ E.ev = "local" /\ Local(E.key, E.v) /\ E.res = op'.res /\ ObsOK
            \/ E.ev = "global" /\ Global(E.key, E.v) /\ E.res = op'.res /\ ObsOK
            \/ E.ev = "rebuild" /\ Rebuild /\ ObsOK

TSpec == TInit /\ [][TStep]_tvars

Matched == TLCGet("stats").diameter - 1
TraceAccepted == \/ Matched = Len(Rec)
                 \/ PrintT(<<"MATCHED", Matched>>) /\ FALSE
=============================================================================
