SPECIFICATION TSpec
CONSTANTS
  Deviations = {"StaleLeftBoundaryEntry"}
  Bug = ""
POSTCONDITION TraceAccepted
CHECK_DEADLOCK FALSE
