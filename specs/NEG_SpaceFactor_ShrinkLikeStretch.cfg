SPECIFICATION Spec
CONSTANTS
  Codes <- CodesQuick
  MaxLen = 4
  Settings <- SettingsQuick
  TexDevs <- NoDevs
  Bug = "ShrinkLikeStretch"
INVARIANTS GlueLaws
CHECK_DEADLOCK FALSE
