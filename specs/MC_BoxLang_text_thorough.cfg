SPECIFICATION SpecText
CONSTANTS
  Bug = ""
  N0 = 0
  N1 = 0
  N2 = 0
  L1 = 0
  L2 = 0
  MaxArgs = 0
  Fns = {}
  Rich = FALSE
  TextLen = 5
  Chars = {97, 49, 45, 46, 112, 116, 34, 92, 40, 41, 91, 93, 61, 44, 35, 10}
  IntParts = {}
  Sample = 1
  HiStep = 1
INVARIANTS InvLexTotal InvRelex InvReadRender InvCommentsAreBlank InvFormatText
CHECK_DEADLOCK FALSE
