SPECIFICATION Spec
CONSTANTS
  Keys = {1, 2}
  MapKeys = {1, 2}
  Vals = {1, 2}
  MaxDepth = 3
  Bug = "SaveAlways"
INVARIANTS TypeOK Refines UnwindAgree SaveShape
CONSTRAINT DepthBound
VIEW View
CHECK_DEADLOCK FALSE
