---------------------------- MODULE MC_TexMacro ----------------------------
EXTENDS TexMacro, TLC, Json
CONSTANT N
A == Tk("c", 1)
B == Tk("c", 2)
DelimChoices == { <<>>, <<A>>, <<B>>, <<A, B>>, <<A, A>> }
BodyFor(n) == <<Tk("c", 7)>> \o (IF n >= 1 THEN <<Tk("par", 1), Tk("c", 8)>> ELSE <<>>)
                             \o (IF n >= 2 THEN <<Tk("par", 2), Tk("c", 9)>> ELSE <<>>)
Defs == { [prefix |-> pre, params |-> ps, hb |-> hb, body |-> BodyFor(Len(ps))] :
            pre \in { <<>>, <<A>> },
            ps \in UNION { [1..n -> DelimChoices] : n \in 0..2 },
            hb \in BOOLEAN } \ { d \in [prefix : { <<>>, <<A>> }, params : { <<>> }, hb : {TRUE}, body : {BodyFor(0)}] : TRUE }
Inputs == UNION { [1..n -> {A, B, SP, LB, RB}] : n \in 0..N }
VARIABLES d, input
Init == d \in Defs /\ input \in Inputs
Next == UNCHANGED <<d, input>>
Spec == Init /\ [][Next]_<<d, input>>
AgreeInv == Agree(d, input)
EmitInv == InScope(d, input) =>
   PrintT(<<"REPLAY", ToJson([d |-> d, input |-> input, want |-> RefCall(d, input)])>>)
==============================================================================
