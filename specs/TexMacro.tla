------------------------------ MODULE TexMacro ------------------------------
(***************************************************************************)
(* Macro parameter binding and substitution (property C02).                *)
(*                                                                         *)
(* Tokens are records [t, c]: "c" (character c), "sp" (space), "lb"/"rb"   *)
(* (braces), "cs" (control sequence c), "hash" (a # that came from ##),    *)
(* "par" (parameter #c, only in bodies).                                   *)
(* A definition is [prefix, params, hb, body]: params[i] is the delimiter  *)
(* of parameter i (<<>> = undelimited); hb = the parameter text ends with  *)
(* #{ (TeXbook p.204: a { is appended to the last delimiter and to the     *)
(* replacement text).                                                      *)
(*                                                                         *)
(* Reference layer = the sentence of the property / TeX.2021.391-399:      *)
(*   delimited: the least k such that the delimiter stands at input[k+1..] *)
(*   with input[1..k] brace-balanced; undelimited: skip spaces, then one   *)
(*   token or one group; one pair of outer braces is removed iff the whole *)
(*   argument is a single group.                                           *)
(* Implementation layer = texmacro.rs: every token is fed to the streaming *)
(* matcher (KmpOps), a match counts when the running brace depth equals    *)
(* the closing depth (1 for #{), and the trim test.                        *)
(***************************************************************************)
EXTENDS KmpOps, Integers

CONSTANT Deviations

Tk(t, c) == [t |-> t, c |-> c]
LB == Tk("lb", 0)
RB == Tk("rb", 0)
SP == Tk("sp", 0)

Delta(tk) == IF tk.t = "lb" THEN 1 ELSE IF tk.t = "rb" THEN -1 ELSE 0

RECURSIVE DepthAt(_, _)
DepthAt(s, k) == IF k = 0 THEN 0 ELSE DepthAt(s, k - 1) + Delta(s[k])
NonNeg(s, k) == \A j \in 1..k : DepthAt(s, j) >= 0
Balanced(s) == NonNeg(s, Len(s)) /\ DepthAt(s, Len(s)) = 0

\* the whole list is exactly one group { ... }
SingleGroup(a) == /\ Len(a) >= 2 /\ a[1] = LB /\ a[Len(a)] = RB
                  /\ \A j \in 1..(Len(a) - 1) : DepthAt(a, j) > 0
Inner(a) == SubSeq(a, 2, Len(a) - 1)

Fail == [ok |-> FALSE, arg |-> <<>>, rest |-> <<>>]

------------------------------------------------------------------------------
(* Reference layer *)

\* delimiter as matched: with #{ the last delimiter gets a { appended
EffDelims(d) == [i \in 1..Len(d.params) |->
                   IF d.hb /\ i = Len(d.params) THEN Append(d.params[i], LB) ELSE d.params[i]]

RefDelimited(s, dl) ==
  LET n == Len(dl)
      hb == dl[n] = LB
      ks == { k \in 0..(Len(s) - n) :
                /\ SubSeq(s, k + 1, k + n) = dl
                /\ NonNeg(s, k) /\ DepthAt(s, k) = 0 }
  IN IF ks = {} THEN Fail
     ELSE LET k == CHOOSE x \in ks : \A y \in ks : x <= y
              raw == SubSeq(s, 1, k)
              \* no unmatched } may precede the delimiter: covered by NonNeg
              trimmed == IF SingleGroup(raw) THEN Inner(raw) ELSE raw
          IN [ok |-> TRUE, arg |-> trimmed, rest |-> SubSeq(s, k + n + 1, Len(s))]

RECURSIVE SkipSpaces(_)
SkipSpaces(s) == IF s # <<>> /\ s[1] = SP THEN SkipSpaces(Tail(s)) ELSE s

RefUndelimited(s0) ==
  LET s == SkipSpaces(s0) IN
  IF s = <<>> \/ s[1] = RB THEN Fail
  ELSE IF s[1] # LB THEN [ok |-> TRUE, arg |-> <<s[1]>>, rest |-> Tail(s)]
  ELSE LET js == { j \in 2..Len(s) : DepthAt(s, j) = 0 } IN
       IF js = {} THEN Fail
       ELSE LET j == CHOOSE x \in js : \A y \in js : x <= y IN
            [ok |-> TRUE, arg |-> SubSeq(s, 2, j - 1), rest |-> SubSeq(s, j + 1, Len(s))]

RECURSIVE RefArgs(_, _, _, _)
RefArgs(dls, i, s, acc) ==
  IF i > Len(dls) THEN [ok |-> TRUE, args |-> acc, rest |-> s]
  ELSE LET r == IF dls[i] = <<>> THEN RefUndelimited(s) ELSE RefDelimited(s, dls[i]) IN
       IF r.ok THEN RefArgs(dls, i + 1, r.rest, Append(acc, r.arg))
       ELSE [ok |-> FALSE, args |-> acc, rest |-> <<>>]

RECURSIVE Substitute(_, _)
Substitute(body, args) ==
  IF body = <<>> THEN <<>>
  ELSE (IF Head(body).t = "par" THEN args[Head(body).c] ELSE <<Head(body)>>) \o Substitute(Tail(body), args)

StartsWith(s, p) == Len(s) >= Len(p) /\ SubSeq(s, 1, Len(p)) = p

\* [ok, args, expansion, rest]
RefCall(d, input) ==
  IF ~StartsWith(input, d.prefix) THEN [ok |-> FALSE, args |-> <<>>, expansion |-> <<>>, rest |-> <<>>]
  ELSE LET r == RefArgs(EffDelims(d), 1, SubSeq(input, Len(d.prefix) + 1, Len(input)), <<>>) IN
       IF ~r.ok THEN [ok |-> FALSE, args |-> <<>>, expansion |-> <<>>, rest |-> <<>>]
       ELSE [ok |-> TRUE, args |-> r.args,
             expansion |-> Substitute(d.body, r.args) \o (IF d.hb THEN <<LB>> ELSE <<>>),
             rest |-> r.rest]

------------------------------------------------------------------------------
(* Implementation layer: texmacro.rs parse_delimited_argument *)

\* should_trim_outer_braces_if_present.  Deviation (known finding C02/trim-first-last): the code
\* only looks at the first and the last token, so {x}{y} loses its outer braces.
ImplTrim(a) == IF "TrimLooksAtFirstAndLastOnly" \in Deviations
               THEN Len(a) >= 2 /\ a[1] = LB /\ a[Len(a)] = RB
               ELSE SingleGroup(a)

RECURSIVE ImplScan(_, _, _, _, _, _, _)
ImplScan(s, i, dl, pf, q, depth, closing) ==
  IF i > Len(s) THEN Fail
  ELSE LET tk == s[i]
           depth1 == depth + Delta(tk)
           st == StepQ(dl, pf, q, tk)
       IN IF depth1 = closing /\ st.hit
          THEN LET raw == SubSeq(s, 1, i - Len(dl)) IN
               [ok |-> TRUE, arg |-> IF ImplTrim(raw) THEN Inner(raw) ELSE raw,
                rest |-> SubSeq(s, i + 1, Len(s))]
          ELSE ImplScan(s, i + 1, dl, pf, st.q, depth1, closing)

ImplDelimited(s, dl) ==
  ImplScan(s, 1, dl, PrefixFn(dl), 0, 0, IF dl[Len(dl)] = LB THEN 1 ELSE 0)

RECURSIVE ImplArgs(_, _, _, _)
ImplArgs(dls, i, s, acc) ==
  IF i > Len(dls) THEN [ok |-> TRUE, args |-> acc, rest |-> s]
  ELSE LET r == IF dls[i] = <<>> THEN RefUndelimited(s) ELSE ImplDelimited(s, dls[i]) IN
       IF r.ok THEN ImplArgs(dls, i + 1, r.rest, Append(acc, r.arg))
       ELSE [ok |-> FALSE, args |-> acc, rest |-> <<>>]

ImplCall(d, input) ==
  IF ~StartsWith(input, d.prefix) THEN [ok |-> FALSE, args |-> <<>>, expansion |-> <<>>, rest |-> <<>>]
  ELSE LET r == ImplArgs(EffDelims(d), 1, SubSeq(input, Len(d.prefix) + 1, Len(input)), <<>>) IN
       IF ~r.ok THEN [ok |-> FALSE, args |-> <<>>, expansion |-> <<>>, rest |-> <<>>]
       ELSE [ok |-> TRUE, args |-> r.args,
             expansion |-> Substitute(d.body, r.args) \o (IF d.hb THEN <<LB>> ELSE <<>>),
             rest |-> r.rest]

\* The quantifier of the property: calls that match, whose arguments are brace-balanced.
InScope(d, input) == LET r == RefCall(d, input) IN
                     r.ok /\ \A i \in 1..Len(r.args) : Balanced(r.args[i])

Agree(d, input) == InScope(d, input) => ImplCall(d, input) = RefCall(d, input)
==============================================================================
