SPECIFICATION TSpec
CONSTANTS
  Keys = {1, 2, 3}
  Vals = {1, 2}
  GD = 3
  Deviations = {}
  MapKeys = {1}
  MaxDepth = 3
  Bug = ""
INVARIANTS Refines UnwindAgree ScopeAgree StickyClear
CONSTRAINT DepthBound
VIEW TView
CHECK_DEADLOCK FALSE
