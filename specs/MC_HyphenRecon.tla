--------------------------- MODULE MC_HyphenRecon ---------------------------
(* Every font over a pool of rules x every word over {a, b, c} x every set  *)
(* of permitted positions x a few hyphen minimums: TeX's hyphenated list    *)
(* (HyphenRecon) satisfies the relation R1-R3 of HyphenList.                *)
EXTENDS HyphenRecon

CONSTANTS Pool, MaxWord, Mins

A == 97
B == 98
C == 99
Hy == 45
Bd == 66     \* the font's boundary character (not a letter of the words)
L(l, r, v) == [l |-> l, r |-> r, t |-> "lig", v |-> v]
Kn(l, r, v) == [l |-> l, r |-> r, t |-> "kern", v |-> v]

PoolQuick == { L(A, B, 120),      \* ab  =: x
               L(120, C, 121),    \* xc  =: y     (abc is one ligature)
               L(B, C, 122),      \* bc  =: z     (the post-break branch of a|bc differs from the main one)
               Kn(A, Hy, 3),      \* a - kern     (the hyphen interacts with the program)
               L(B, Hy, 119),     \* b-  =: w
               Kn(C, Bd, 9) }     \* c | kern     (right boundary)
PoolCore == PoolQuick \ { L(B, Hy, 119) }
PoolMid == PoolQuick \cup { Kn(B, A, 7), L(C, C, 117), L(B, Bd, 118) }
PoolThorough == PoolQuick \cup
             { Kn(B, A, 7),       \* b a kern
               Kn(A, C, 5),
               L(C, C, 117),      \* cc  =: u     (ccc, cccc)
               L(B, Bd, 118),     \* b|  =: v     (right-boundary ligature)
               Kn(120, A, 11) }   \* x a kern

RECURSIVE WordsUpTo(_)
WordsUpTo(n) == IF n = 0 THEN {<<>>}
                ELSE LET S == WordsUpTo(n - 1) IN S \cup {Append(x, c) : x \in {y \in S : Len(y) = n - 1}, c \in {A, B, C}}

MinsOne == {<<1, 1>>}
MinsQuick == {<<1, 1>>, <<2, 1>>}
MinsThorough == {<<1, 1>>, <<2, 1>>, <<1, 2>>, <<0, 3>>}

VARIABLES inst, res
mvars == <<inst, res, list, st>>

MInit == /\ inst \in {[rules |-> R, hu |-> w] : R \in SUBSET Pool, w \in {x \in WordsUpTo(MaxWord) : Len(x) >= 2}}
         /\ res = [done |-> FALSE]
         /\ list = <<>> /\ st = St0
Font(i) == [rules |-> i.rules, bchar |-> IF \E x \in i.rules : x.r = Bd THEN Bd ELSE NonChar]
Decide == /\ ~res.done
          /\ \E allowed \in SUBSET (1..(Len(inst.hu) - 1)), m \in Mins :
               res' = [done |-> TRUE, allowed |-> allowed, m |-> m,
                       v |-> RelationOnTeX(Font(inst), inst.hu, allowed, m[1], m[2]),
                       after |-> After(Font(inst), inst.hu, allowed, m[1], m[2])]
          /\ UNCHANGED <<inst, list, st>>
MSpec == MInit /\ [][Decide]_mvars

\* the list TeX builds satisfies the relation
TeXSatisfiesRelation == res.done => res.v.clause = ""
\* the transcription is not vacuous: with a permitted position in range a discretionary is inserted
Inserts == res.done /\ {p \in res.allowed : NormMin(res.m[1]) <= p /\ p <= Len(inst.hu) - NormMin(res.m[2])} # {}
             => \E q \in 1..Len(res.after) : res.after[q].k = "disc"
---------------------------------------------------------------------------
(* The transcription against real TeX: unit tests of boxworks-hyphenate whose fonts are in the modelled  *)
(* class; their expected lists were written by tex itself (TEXCRAFT_VERIFY=tex).                          *)
Cn(c) == CharNode(c)
D(pre, post, n) == [k |-> "disc", pre |-> pre, post |-> post, n |-> n]
Fnt(R) == [rules |-> R, bchar |-> NonChar]
Hyph(R, hu, hyf) == Hyphenate(Fnt(R), hu, Len(hu), hyf, NonChar)
a == 97  b == 98  c == 99  d == 100  e == 101  f == 102  g == 103  h == 104  i == 105
GoldenMostSimple == Hyph({}, <<a, b>>, {1}) = <<Cn(a), D(<<Cn(Hy)>>, <<>>, 0), Cn(b)>>
GoldenBigLig1 == Hyph({L(a, b, 120), L(120, c, 121)}, <<a, b, c>>, {1})
                   = <<D(<<Cn(a), Cn(Hy)>>, <<Cn(b), Cn(c)>>, 1), LigNode(121, <<a, b, c>>, FALSE)>>
GoldenBigLig2 == Hyph({L(a, b, 120), L(120, c, 121), L(b, c, 122)}, <<a, b, c>>, {1})
                   = <<D(<<Cn(a), Cn(Hy)>>, <<LigNode(122, <<b, c>>, FALSE)>>, 1), LigNode(121, <<a, b, c>>, FALSE)>>
GoldenBigLig3 == Hyph({L(a, b, 120), L(120, c, 121)}, <<a, b, c>>, {2})
                   = <<D(<<LigNode(120, <<a, b>>, FALSE), Cn(Hy)>>, <<Cn(c)>>, 1), LigNode(121, <<a, b, c>>, FALSE)>>
GoldenSimpleKern == Hyph({Kn(a, b, 100)}, <<a, b>>, {1})
                   = <<D(<<Cn(a), Cn(Hy)>>, <<>>, 2), Cn(a), KernNode(100), Cn(b)>>
GoldenSameKern == Hyph({Kn(a, b, 100), Kn(a, Hy, 100)}, <<a, b>>, {1})
                   = <<D(<<Cn(a), KernNode(100), Cn(Hy)>>, <<>>, 2), Cn(a), KernNode(100), Cn(b)>>
SyncRules == {L(a, b, 120), L(b, c, 121), L(c, d, 122), L(d, e, 119), L(e, f, 118)}
GoldenSync1 == Hyph(SyncRules, <<a, b, c, d, e, f, g, h>>, {1})
                   = <<D(<<Cn(a), Cn(Hy)>>, <<LigNode(121, <<b, c>>, FALSE), LigNode(119, <<d, e>>, FALSE), Cn(f)>>, 3),
                       LigNode(120, <<a, b>>, FALSE), LigNode(122, <<c, d>>, FALSE), LigNode(118, <<e, f>>, FALSE),
                       Cn(g), Cn(h)>>
GoldenSync2 == Hyph(SyncRules, <<a, b, c, d, e, f, g, h>>, {1, 4, 6})     \* the hyphen at 4 is forgotten
                   = <<D(<<Cn(a), Cn(Hy)>>, <<LigNode(121, <<b, c>>, FALSE), LigNode(119, <<d, e>>, FALSE), Cn(f)>>, 3),
                       LigNode(120, <<a, b>>, FALSE), LigNode(122, <<c, d>>, FALSE), LigNode(118, <<e, f>>, FALSE),
                       D(<<Cn(Hy)>>, <<>>, 0), Cn(g), Cn(h)>>
GoldenDifficult == Hyph({L(f, f, 48), L(48, i, 49)}, <<d, i, f, f, i, c, 117, 108, 116>>, {3, 5})
                   = <<Cn(d), Cn(i), D(<<Cn(f), Cn(Hy)>>, <<Cn(f), Cn(i)>>, 1), LigNode(49, <<f, f, i>>, FALSE),
                       D(<<Cn(Hy)>>, <<>>, 0), Cn(c), Cn(117), Cn(108), Cn(116)>>
ASSUME TeXGoldens == ReconBug # "" \/
                     /\ GoldenMostSimple /\ GoldenBigLig1 /\ GoldenBigLig2 /\ GoldenBigLig3 /\ GoldenSimpleKern
                     /\ GoldenSameKern /\ GoldenSync1 /\ GoldenSync2 /\ GoldenDifficult

NoNodes == {}
NoDevs == {}
=============================================================================
