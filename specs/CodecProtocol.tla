--------------------------- MODULE CodecProtocol ---------------------------
(* The call protocol of the two converters of crates/tfm/src/algorithms:     *)
(*                                                                           *)
(*   tfm_to_pl(bytes)  tftopl: File::deserialize, validate_and_fix, pl::File *)
(*                     display, rendering of every warning                   *)
(*   pl_to_tfm(text)   pltotf: pl::File::from_pl_source_code, File::from,    *)
(*                     serialize, rendering of every warning                 *)
(*                                                                           *)
(* Totality: every Call is followed by a Return whose outcome is documented: *)
(* for tfm_to_pl a property list or one of the DeserializationError kinds -- *)
(* and *which* one is fixed by the header decision table of TfmHeader,       *)
(* because TFtoPL aborts nowhere after section 21 (everything later is a     *)
(* "Bad TFM file" warning plus a repair); for pl_to_tfm always bytes.        *)
(* A panic, a hang or a crash is an event that no action of this spec        *)
(* matches.                                                                  *)
(*                                                                           *)
(* Round trip: what pl_to_tfm returns is a TFM file (serializer contract:    *)
(* the header table says Ok and the declared length is the length), and the  *)
(* next call hands exactly those bytes to tfm_to_pl, which must return a     *)
(* property list.  The contract is what makes that obligation satisfiable:   *)
(* TLC checks that the protocol never deadlocks (a deadlock is a pending     *)
(* tfm_to_pl call on serializer output that the reader spec rejects).        *)
(*                                                                           *)
(* A TFM byte string is represented by [len, hdr]: its length and its first  *)
(* Min(len, 24) bytes -- all that the outcome kind depends on.               *)
EXTENDS Integers, Sequences, FiniteSets, TLC

CONSTANTS Deviations,     \* subset of H!DeviationNames; {} = strict
          ContractBug     \* "" or a seeded weakening of the serializer contract (negative controls)

H == INSTANCE TfmHeader WITH len <- 0, b <- <<>>, pc <- "", ptr <- 0, val <- <<>>, junk <- FALSE, out <- ""

VARIABLES at,          \* "idle" | "tfm_to_pl" | "pl_to_tfm"
          arg,         \* the file given to the running tfm_to_pl call (None otherwise)
          oblig,       \* output of the last pl_to_tfm that has not been read back yet (or None)
          discharging  \* the running tfm_to_pl call reads back serializer output
cvars == <<at, arg, oblig, discharging>>

None == [len |-> -1, hdr |-> <<>>]
IsFile(f) == H!WellFormedFile(f.len, f.hdr)

Want(f) == H!Classify(f.len, f.hdr)

\* The serializer contract.
SerializerContract(f) ==
  /\ IsFile(f)
  /\ CASE ContractBug = "AllowsEmptyWidthTable" ->
            \* a serializer that may emit nw = 0: everything but the incomplete-subfiles row
            Want(f) \in {"Ok", "IncompleteSubFiles"}
       [] OTHER -> Want(f) = "Ok"
  /\ ContractBug = "AllowsJunk" \/ f.len = 4 * H!W(f.hdr, H!LF)

CInit == at = "idle" /\ arg = None /\ oblig = None /\ discharging = FALSE

\* Every action is a guard (a state predicate, also used by the trace spec to decide whether
\* a recorded event is a step of this protocol) and an effect.

CanCallTfmToPl(f) ==
  /\ at = "idle" /\ IsFile(f)
  /\ oblig # None => f = oblig          \* serializer output is read back first, unchanged
CallTfmToPl(f) ==
  /\ CanCallTfmToPl(f)
  /\ at' = "tfm_to_pl" /\ arg' = f /\ discharging' = (oblig # None) /\ oblig' = None

\* outcome: a kind of H!Kinds, or "panic:<message>" (never accepted strictly);
\* jk: whether the "extra junk" message was among the warnings
StrictRetTfmToPl(outcome, jk) ==
  /\ at = "tfm_to_pl"
  /\ outcome \in H!Kinds
  /\ H!Accepts(Want(arg), outcome)
  /\ Want(arg) # "InternalFileLengthIsTooSmall" =>
        jk = (H!PastSection20(outcome) /\ H!Junk(arg.len, arg.hdr))
  /\ discharging => outcome = "Ok" /\ ~jk
\* the enabled named deviations of the reader that explain an outcome the table rejects
\* (this includes a round trip broken by the reader: 256 extensible recipes make ne = 256,
\* which is a TFM file, and today's reader rejects it)
DevSetsFor(outcome) ==
  IF Deviations # {} /\ at = "tfm_to_pl" /\ ~H!Accepts(Want(arg), outcome)
  THEN {D \in H!Explains(arg.len, arg.hdr, outcome) : D \subseteq Deviations}
  ELSE {}
CanRetTfmToPl(outcome, jk) == StrictRetTfmToPl(outcome, jk) \/ DevSetsFor(outcome) # {}
RetTfmToPl(outcome, jk) ==
  /\ CanRetTfmToPl(outcome, jk)
  /\ at' = "idle" /\ arg' = None /\ discharging' = FALSE /\ UNCHANGED oblig

CanCallPlToTfm == at = "idle" /\ oblig = None
CallPlToTfm ==
  /\ CanCallPlToTfm
  /\ at' = "pl_to_tfm" /\ UNCHANGED <<arg, oblig, discharging>>

CanRetPlToTfm(f) == at = "pl_to_tfm" /\ SerializerContract(f)
RetPlToTfm(f) ==
  /\ CanRetPlToTfm(f)
  /\ at' = "idle" /\ oblig' = f /\ UNCHANGED <<arg, discharging>>

\* a run is complete when nothing is pending
Quiescent == at = "idle" /\ oblig = None

(* ---- properties ---- *)
CTypeOK == /\ at \in {"idle", "tfm_to_pl", "pl_to_tfm"}
           /\ (arg # None) = (at = "tfm_to_pl")
           /\ discharging => at = "tfm_to_pl"
           /\ oblig # None => at = "idle"
\* whatever the serializer hands over is a file the reader spec accepts, junk-free ...
ObligationIsReadable == oblig # None => Want(oblig) = "Ok" /\ ~H!Junk(oblig.len, oblig.hdr)
\* ... and so is what a discharging call is working on
DischargeIsReadable == discharging => Want(arg) = "Ok" /\ ~H!Junk(arg.len, arg.hdr)
\* with no deviation enabled, a discharging call can only return a property list
RoundTripHolds == Deviations = {} /\ discharging =>
                    \A o \in H!Kinds : \A jk \in BOOLEAN : CanRetTfmToPl(o, jk) => o = "Ok"
=============================================================================
