SPECIFICATION TSpec
CONSTANTS
  Deviations = {}
  Bug = ""
POSTCONDITION TraceAccepted
CHECK_DEADLOCK FALSE
