----------------------------- MODULE BoxLangLex -----------------------------
(***************************************************************************)
(* C18 -- the Box language (crates/boxworks/src/lang), lexical level.      *)
(*                                                                         *)
(* Text is a sequence of Unicode scalar values (code points).  This module *)
(* specifies                                                               *)
(*   - the token classes of the language (lexer.rs): punctuation ( ) [ ]   *)
(*     = , identifiers, strings with their escape rules, integers,         *)
(*     dimensions with TeX's units, infinite glue components, comments     *)
(*     and whitespace;                                                     *)
(*   - scanning a number: TeX's round_decimals (TeX.2021.102) and the unit *)
(*     conversion of TeX.2021.458 as common::Scaled::new performs it;      *)
(*   - printing a token: TeX's print_scaled (TeX.2021.103, the shortest    *)
(*     decimal that scans back to the same scaled value), print_int, and   *)
(*     the string escapes;                                                 *)
(*   - Lex, a TOTAL tokenizer: every text is mapped to a sequence of       *)
(*     tokens; what is not a token of the language becomes a token that    *)
(*     carries located errors (and scanning goes on behind it, as the      *)
(*     implementation does).                                               *)
(*                                                                         *)
(* A token is a record [t, a, b, n, o, s, errs, trig]:                     *)
(*   t     class: "(" ")" "[" "]" "=" "," "id" "str" "int" "dim" "inf"     *)
(*         "cmt" (comment) or "bad" (no token of the language)             *)
(*   a, b  the lexeme is text[a .. b-1]   (1-based, b exclusive)           *)
(*   n, o  value: integer / scaled points; o = order of infinity 1..3      *)
(*   s     identifier name or decoded string contents (code points)        *)
(*   errs  located errors <<[e, a, b]>>; a token of the language has none  *)
(*   trig  names of the conditions under which the implementation is known *)
(*         to fail instead of reporting an error (see Deviations in        *)
(*         BoxLang.tla); never consulted by the strict specification       *)
(*                                                                         *)
(* Error classes.  Those the implementation has an Error variant for keep  *)
(* its name: InvalidCharacter, UnknownEscapeSequence, InvalidDimensionUnit,*)
(* NumberWithoutUnits, MultipleDecimalPoints.  The language definition     *)
(* (mod.rs: integers in (-2^31, 2^31), dimensions as in TeX, "a subset of  *)
(* Rust escape characters") implies further lexical errors for which       *)
(* lexer.rs only has TODO comments: IntegerOutOfRange, DimensionOutOfRange,*)
(* MissingDigits, BadUnicodeEscape, UnterminatedString.                    *)
(***************************************************************************)
EXTENDS Integers, Sequences, FiniteSets

CONSTANT Bug        \* "" = the specification; otherwise the name of a seeded mutant

Unity    == 65536
Two      == 131072
MaxDimen == 1073741823          \* 2^30-1, TeX.2021.421
MaxInt   == 2147483647
MinInt   == -MaxInt - 1
Running  == MinInt              \* ds::Rule::RUNNING = -2 << 30
Abs(x)   == IF x < 0 THEN -x ELSE x

At(t, i) == IF i >= 1 /\ i <= Len(t) THEN t[i] ELSE -1      \* -1 = end of text

IsDigit(c)  == c >= 48 /\ c <= 57
IsLetter(c) == (c >= 97 /\ c <= 122) \/ (c >= 65 /\ c <= 90)
IsIdent(c)  == IsLetter(c) \/ c = 95
\* Unicode White_Space (what char::is_whitespace tests)
IsSpace(c)  == \/ c = 32 \/ c = 10
               \/ c \in {9, 11, 12, 13, 133, 160, 5760, 8232, 8233, 8239, 8287, 12288}
               \/ (c >= 8192 /\ c <= 8202)
IsHex(c)    == IsDigit(c) \/ (c >= 97 /\ c <= 102) \/ (c >= 65 /\ c <= 70)
HexVal(c)   == IF IsDigit(c) THEN c - 48 ELSE IF c >= 97 THEN c - 87 ELSE c - 55
IsScalar(v) == v >= 0 /\ v <= 1114111 /\ ~(v >= 55296 /\ v <= 57343)

---------------------------------------------------------------------------
(* Numbers: scanning.                                                      *)

(* TeX.2021.102 round_decimals: digits .d1 d2 ... dk -> scaled fraction    *)
RECURSIVE RDAcc(_, _)
RDAcc(dig, i) == IF i > Len(dig) THEN 0 ELSE (RDAcc(dig, i + 1) + dig[i] * Two) \div 10
RoundDecimals(dig) == IF Bug = "RoundHalfDown" THEN RDAcc(dig, 1) \div 2
                      ELSE (RDAcc(dig, 1) + 1) \div 2

\* value of the decimal digits t[a .. b-1]; -1 when it exceeds 2^31-1
RECURSIVE NatVal(_, _, _, _)
NatVal(t, a, b, acc) ==
  IF a >= b THEN acc
  ELSE LET d == t[a] - 48 IN
       IF acc > 214748364 \/ (acc = 214748364 /\ d > 7) THEN -1
       ELSE NatVal(t, a + 1, b, acc * 10 + d)

RECURSIVE DigitsEnd(_, _)
DigitsEnd(t, i) == IF IsDigit(At(t, i)) THEN DigitsEnd(t, i + 1) ELSE i
RECURSIVE IdentEnd(_, _)
IdentEnd(t, i) == IF IsIdent(At(t, i)) THEN IdentEnd(t, i + 1) ELSE i

\* After the integer digits: any run of points and digits.  Digits behind the first point
\* are fraction digits (TeX keeps 17: TeX.2021.452); p2 = position of the second point.
RECURSIVE FracScan(_, _, _, _, _)
FracScan(t, i, digs, pts, p2) ==
  LET c == At(t, i) IN
  IF c = 46 THEN FracScan(t, i + 1, digs, pts + 1, IF pts = 1 THEN i ELSE p2)
  ELSE IF IsDigit(c) /\ pts >= 1
       THEN FracScan(t, i + 1, IF Len(digs) < 17 THEN Append(digs, c - 48) ELSE digs, pts, p2)
       ELSE [e |-> i, digs |-> digs, pts |-> pts, p2 |-> p2]

\* physical units of TeX.2021.458 as [numerator, denominator] of points per unit
U_pt == <<112, 116>>    U_pc == <<112, 99>>     U_in == <<105, 110>>
U_bp == <<98, 112>>     U_cm == <<99, 109>>     U_mm == <<109, 109>>
U_dd == <<100, 100>>    U_cc == <<99, 99>>      U_sp == <<115, 112>>
U_fil   == <<102, 105, 108>>
U_fill  == <<102, 105, 108, 108>>
U_filll == <<102, 105, 108, 108, 108>>
UnitFrac(u) == IF u = U_pt THEN <<1, 1>>         ELSE IF u = U_pc THEN <<12, 1>>
          ELSE IF u = U_in THEN <<7227, 100>>    ELSE IF u = U_bp THEN <<7227, 7200>>
          ELSE IF u = U_cm THEN <<7227, 254>>    ELSE IF u = U_mm THEN <<7227, 2540>>
          ELSE IF u = U_dd THEN <<1238, 1157>>   ELSE IF u = U_cc THEN <<14856, 1157>>
          ELSE <<0, 0>>
IsPhysUnit(u) == UnitFrac(u)[1] # 0
InfOrder(u)   == IF u = U_fil THEN 1 ELSE IF u = U_fill THEN 2 ELSE IF u = U_filll THEN 3 ELSE 0

\* TeX.2021.458 (common::Scaled::new): ip units and the fraction f (0..2^16) in points, or -1
\* when the dimension is too large.  ip < 16384 keeps every product inside 31 bits; all units
\* are at least one point, so ip >= 16384 is too large whatever the unit.
ConvertUnit(ip, f, n, d) ==
  IF ip >= 16384 THEN -1
  ELSE LET x  == ip * n
           q  == x \div d
           r  == x % d
           ff == (f * n + Unity * r) \div d
           ipart == q + ff \div Unity
       IN IF ipart >= 16384 THEN -1 ELSE ipart * Unity + (ff % Unity)

Err(e, a, b) == [e |-> e, a |-> a, b |-> b]
Tok(ty, a, b) == [t |-> ty, a |-> a, b |-> b, n |-> 0, o |-> 0, s |-> <<>>, errs |-> <<>>, trig |-> {}]

(* A number lexeme starts with a digit or `-` (lexer.rs parse_number):     *)
(*   -? digit* ( . | digit )* ( letter (letter|_)* )?                      *)
ScanNumber(t, i) ==
  LET neg  == t[i] = 45
      a    == IF neg THEN i + 1 ELSE i
      b    == DigitsEnd(t, a)
      fr   == FracScan(t, b, <<>>, 0, 0)
      ue   == IF IsLetter(At(t, fr.e)) THEN IdentEnd(t, fr.e + 1) ELSE fr.e
      unit == SubSeq(t, fr.e, ue - 1)
      hasU == ue > fr.e
      ip   == NatVal(t, a, b, 0)
      f    == RoundDecimals(fr.digs)
      sg(v) == IF neg THEN -v ELSE v
      base == Tok("bad", i, ue)
      \* conditions under which lexer.rs fails instead of reporting (see BoxLang.tla, Deviations)
      trig == (IF ip = -1 THEN {"int_overflow"} ELSE {})
              \cup (IF hasU /\ ip >= 32768 THEN {"coef_overflow"} ELSE {})
              \cup (IF ip # -1 /\ ip < 32768 /\ IsPhysUnit(unit) /\
                       ConvertUnit(ip, f, UnitFrac(unit)[1], UnitFrac(unit)[2]) = -1
                    THEN {"dim_overflow"} ELSE {})
      bad(e, x, y) == [base EXCEPT !.errs = <<Err(e, x, y)>>, !.trig = trig]
  IN
  IF ip = -1 THEN bad("IntegerOutOfRange", i, b)
  ELSE IF fr.pts >= 2 THEN bad("MultipleDecimalPoints", fr.p2, fr.p2 + 1)
  ELSE IF b = a THEN bad("MissingDigits", i, ue)                 \* "-", "-pt", "-.5pt"
  ELSE IF ~hasU
       THEN IF fr.pts = 0 THEN [base EXCEPT !.t = "int", !.n = sg(ip)]
            ELSE bad("NumberWithoutUnits", i, ue)
  ELSE IF unit = U_sp
       THEN IF ip > MaxDimen THEN bad("DimensionOutOfRange", i, ue)
            ELSE [base EXCEPT !.t = "dim", !.n = sg(ip), !.trig = trig]     \* fraction of an sp is dropped
  ELSE IF IsPhysUnit(unit)
       THEN LET v == ConvertUnit(ip, f, UnitFrac(unit)[1], UnitFrac(unit)[2]) IN
            IF v = -1 THEN bad("DimensionOutOfRange", i, ue)
            ELSE [base EXCEPT !.t = "dim", !.n = sg(v), !.trig = trig]
  ELSE IF InfOrder(unit) > 0
       THEN IF ip >= 16384 \/ ip * Unity + f > MaxDimen THEN bad("DimensionOutOfRange", i, ue)
            ELSE [base EXCEPT !.t = "inf", !.n = sg(ip * Unity + f), !.o = InfOrder(unit)]
  ELSE bad("InvalidDimensionUnit", fr.e, ue)

---------------------------------------------------------------------------
(* Strings: "..." with the escapes \" \' \\ \n \t \0 \r \u{hex}.           *)

\* hex digits up to `}`: [e = index behind `}` or -1, v = value (saturated), nd = digits,
\* sig = significant digits, ok = only hex digits, quote = a `"` was met on the way]
RECURSIVE HexScan(_, _, _, _, _, _, _)
HexScan(t, i, v, nd, sig, ok, quote) ==
  LET c == At(t, i) IN
  IF c = -1 THEN [e |-> -1, v |-> v, nd |-> nd, sig |-> sig, ok |-> ok, quote |-> quote]
  ELSE IF c = 125 THEN [e |-> i + 1, v |-> v, nd |-> nd, sig |-> sig, ok |-> ok, quote |-> quote]
  ELSE IF IsHex(c)
       THEN LET h == HexVal(c)
                v2 == IF v > 1114111 THEN v ELSE v * 16 + h        \* saturates above the last scalar
            IN HexScan(t, i + 1, v2, nd + 1, IF sig > 0 \/ h > 0 THEN sig + 1 ELSE 0, ok, quote)
       ELSE HexScan(t, i + 1, v, nd, sig, FALSE, quote \/ c = 34)

\* i = index of the next character inside the string that opened at q
RECURSIVE ScanStr(_, _, _, _, _, _)
ScanStr(t, q, i, buf, errs, trig) ==
  LET c == At(t, i)
      fin2(e, closed, tr) == [Tok(IF errs = <<>> /\ closed THEN "str" ELSE "bad", q, e)
                           EXCEPT !.s = buf, !.trig = tr,
                                  !.errs = IF closed THEN errs
                                           ELSE Append(errs, Err("UnterminatedString", q, e))]
      fin(e, closed) == fin2(e, closed, trig)
  IN
  IF c = -1 THEN fin(i, FALSE)
  ELSE IF c = 34 THEN fin(i + 1, TRUE)
  ELSE IF c # 92 THEN ScanStr(t, q, i + 1, Append(buf, c), errs, trig)
  ELSE LET n == At(t, i + 1) IN
       IF n = -1 THEN fin(i + 1, FALSE)
       ELSE IF n \in {34, 39, 92} THEN ScanStr(t, q, i + 2, Append(buf, n), errs, trig)
       ELSE IF n = 110 THEN ScanStr(t, q, i + 2, Append(buf, IF Bug = "EscapeNIsLetter" THEN 110 ELSE 10), errs, trig)
       ELSE IF n = 116 THEN ScanStr(t, q, i + 2, Append(buf, 9), errs, trig)
       ELSE IF n = 114 THEN ScanStr(t, q, i + 2, Append(buf, 13), errs, trig)
       ELSE IF n = 48  THEN ScanStr(t, q, i + 2, Append(buf, 0), errs, trig)
       ELSE IF n = 117
            THEN IF At(t, i + 2) # 123
                 THEN ScanStr(t, q, i + 2, buf, Append(errs, Err("BadUnicodeEscape", i, i + 2)),
                              trig \cup {"u_no_brace"})
                 ELSE LET h == HexScan(t, i + 3, 0, 0, 0, TRUE, FALSE)
                          tr == trig \cup (IF h.sig > 8 THEN {"u_overflow"} ELSE {})
                                     \cup (IF h.e = -1 \/ h.quote THEN {"u_unclosed"} ELSE {})
                      IN
                      IF h.e = -1 THEN fin2(Len(t) + 1, FALSE, tr)
                      ELSE IF h.ok /\ h.nd >= 1 /\ IsScalar(h.v)
                           THEN ScanStr(t, q, h.e, Append(buf, h.v), errs, trig)
                           ELSE ScanStr(t, q, h.e, buf, Append(errs, Err("BadUnicodeEscape", i, h.e)), tr)
       ELSE ScanStr(t, q, i + 2, buf, Append(errs, Err("UnknownEscapeSequence", i, i + 2)), trig)

---------------------------------------------------------------------------
(* Lex: text -> tokens.  Total.                                            *)

RECURSIVE CommentEnd(_, _)
CommentEnd(t, i) == IF At(t, i) = -1 \/ At(t, i) = 10 THEN i ELSE CommentEnd(t, i + 1)

Punct(c) == IF c = 40 THEN "(" ELSE IF c = 41 THEN ")" ELSE IF c = 91 THEN "[" ELSE IF c = 93 THEN "]"
            ELSE IF c = 61 THEN "=" ELSE IF c = 44 THEN "," ELSE ""

RECURSIVE SkipBlanks(_, _)
SkipBlanks(t, i) == IF i <= Len(t) /\ IsSpace(t[i]) THEN SkipBlanks(t, i + 1) ELSE i

RECURSIVE LexFrom(_, _, _)
LexFrom(t, i0, acc) ==
  LET i == SkipBlanks(t, i0) IN
  IF i > Len(t) THEN acc
  ELSE LET c == t[i]
           p == Punct(c)
       IN
       IF p # "" THEN LexFrom(t, i + 1, Append(acc, Tok(p, i, i + 1)))
       ELSE IF IsLetter(c)
            THEN LET j == IdentEnd(t, i + 1)
                 IN LexFrom(t, j, Append(acc, [Tok("id", i, j) EXCEPT !.s = SubSeq(t, i, j - 1)]))
       ELSE IF c = 34 THEN LET k == ScanStr(t, i, i + 1, <<>>, <<>>, {}) IN LexFrom(t, k.b, Append(acc, k))
       ELSE IF IsDigit(c) \/ c = 45 THEN LET k == ScanNumber(t, i) IN LexFrom(t, k.b, Append(acc, k))
       ELSE IF c = 35 THEN LET j == CommentEnd(t, i) IN LexFrom(t, j, Append(acc, Tok("cmt", i, j)))
       ELSE LexFrom(t, i + 1, Append(acc, [Tok("bad", i, i + 1) EXCEPT !.errs = <<Err("InvalidCharacter", i, i + 1)>>]))

Lex(t) == LexFrom(t, 1, <<>>)

LexOk(toks)      == \A i \in 1..Len(toks) : toks[i].t # "bad"
RECURSIVE SelectNotCmt(_, _, _)
SelectNotCmt(toks, i, acc) == IF i > Len(toks) THEN acc
                              ELSE SelectNotCmt(toks, i + 1, IF toks[i].t = "cmt" THEN acc ELSE Append(acc, toks[i]))
NoComments(toks) == SelectNotCmt(toks, 1, <<>>)
Triggers(toks)   == UNION {toks[i].trig : i \in 1..Len(toks)}
RECURSIVE AllErrs(_, _, _)
AllErrs(toks, i, acc) == IF i > Len(toks) THEN acc ELSE AllErrs(toks, i + 1, acc \o toks[i].errs)
LexErrors(toks)  == AllErrs(toks, 1, <<>>)

\* what a token denotes (position-free)
TokVal(k) == [t |-> k.t, n |-> k.n, o |-> k.o, s |-> k.s]

---------------------------------------------------------------------------
(* Printing tokens.                                                        *)

(* TeX.2021.103 print_scaled, the fraction loop *)
RECURSIVE FracLoop(_, _)
FracLoop(s, delta) ==
  LET s1     == IF delta > Unity /\ Bug # "PrintNoRound" THEN s + 32768 - 50000 ELSE s
      d      == s1 \div Unity
      s2     == 10 * (s1 % Unity)
      delta2 == delta * 10
  IN IF (IF Bug = "PrintStopEarly" THEN s2 <= 2 * delta2 ELSE s2 <= delta2)
     THEN <<d>> ELSE <<d>> \o FracLoop(s2, delta2)
FracDigits(f) == FracLoop(10 * f + 5, 10)            \* 0 <= f < 2^16

RECURSIVE NatText(_)
NatText(n) == IF n < 10 THEN <<48 + n>> ELSE NatText(n \div 10) \o <<48 + (n % 10)>>

PrintInt(n) == IF n < 0 THEN <<45>> \o NatText(-n) ELSE NatText(n)             \* n > -2^31

PrintScaled(s) ==                                                              \* s > -2^31
  LET a  == Abs(s)
      fd == FracDigits(a % Unity)
  IN (IF s < 0 THEN <<45>> ELSE <<>>) \o NatText(a \div Unity) \o <<46>>
     \o [i \in 1..Len(fd) |-> 48 + fd[i]]

OrderUnit(o) == IF o = 0 THEN U_pt ELSE IF o = 1 THEN U_fil ELSE IF o = 2 THEN U_fill ELSE U_filll

RECURSIVE HexText(_)
HexDigit(h) == IF h < 10 THEN 48 + h ELSE 87 + h
HexText(n) == IF n < 16 THEN <<HexDigit(n)>> ELSE HexText(n \div 16) \o <<HexDigit(n % 16)>>

\* The escapes a printer MUST use, and the \u{..} form it MAY use for any other character
\* (cst.rs uses char::escape_debug, which picks \u{..} for what Unicode calls non-printable
\* or grapheme-extending -- a table the language does not depend on).
EscMust(c) == IF c = 34 THEN <<92, 34>> ELSE IF c = 92 /\ Bug # "NoEscapeBackslash" THEN <<92, 92>> ELSE <<c>>
EscNamed(c) == IF c = 10 THEN <<92, 110>> ELSE IF c = 9 THEN <<92, 116>> ELSE IF c = 13 THEN <<92, 114>>
               ELSE IF c = 0 THEN <<92, 48>> ELSE IF c = 39 THEN <<92, 39>> ELSE EscMust(c)
EscAll(c)  == IF c >= 97 /\ c <= 122 THEN <<c>> ELSE <<92, 117, 123>> \o HexText(c) \o <<125>>
RECURSIVE Flat(_)
Flat(ss) == IF ss = <<>> THEN <<>> ELSE Head(ss) \o Flat(Tail(ss))
\* esc = 0 minimal, 1 named escapes, 2 everything but a-z as \u{..}
PrintStr(s, esc) == <<34>> \o Flat([i \in 1..Len(s) |-> IF esc = 0 THEN EscMust(s[i])
                                                        ELSE IF esc = 1 THEN EscNamed(s[i]) ELSE EscAll(s[i])])
                    \o <<34>>

\* v = [t, n, o, s]
PrintTokVal(v, esc) ==
  IF v.t = "int" THEN PrintInt(v.n)
  ELSE IF v.t = "dim" THEN PrintScaled(v.n) \o (IF Bug = "DimPrintedWithoutUnit" THEN <<>> ELSE U_pt)
  ELSE IF v.t = "inf" THEN PrintScaled(v.n) \o OrderUnit(IF Bug = "InfPrintedAsPt" THEN 0 ELSE v.o)
  ELSE IF v.t = "str" THEN PrintStr(v.s, esc)
  ELSE IF v.t = "id"  THEN v.s
  ELSE IF v.t = "("  THEN <<40>> ELSE IF v.t = ")" THEN <<41>>
  ELSE IF v.t = "["  THEN <<91>> ELSE IF v.t = "]" THEN <<93>>
  ELSE IF v.t = "="  THEN <<61>> ELSE <<44>>

---------------------------------------------------------------------------
(* Laws of the lexical level (checked by TLC in MC_BoxLang).               *)

\* the tokens tile the text: ordered, inside it, only whitespace between them, errors inside
LexWellFormed(t) ==
  LET ks == Lex(t) IN
  /\ \A i \in 1..Len(ks) : /\ 1 <= ks[i].a /\ ks[i].a < ks[i].b /\ ks[i].b <= Len(t) + 1
                           /\ (ks[i].t = "bad") = (ks[i].errs # <<>>)
                           /\ \A j \in 1..Len(ks[i].errs) :
                                 /\ ks[i].a <= ks[i].errs[j].a /\ ks[i].errs[j].a <= ks[i].errs[j].b
                                 /\ ks[i].errs[j].b <= ks[i].b
  /\ \A i \in 1..(Len(ks) - 1) : ks[i].b <= ks[i + 1].a
  /\ \A p \in 1..Len(t) : (\E i \in 1..Len(ks) : ks[i].a <= p /\ p < ks[i].b) \/ IsSpace(t[p])

\* scan(print(v)) = v for a single token value
TokenRoundTrip(v, esc) ==
  LET ks == Lex(PrintTokVal(v, esc)) IN Len(ks) = 1 /\ TokVal(ks[1]) = v
=============================================================================
