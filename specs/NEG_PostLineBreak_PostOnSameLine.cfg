SPECIFICATION Spec
CONSTANTS
  NodeKinds <- KindsAll
  MaxLen = 1
  Configs <- ConfigsQuick
  TexDevs <- NoDevs
  Bug = "PostOnSameLine"
INVARIANTS Conservation
CHECK_DEADLOCK FALSE
