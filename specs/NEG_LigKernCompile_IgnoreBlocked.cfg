SPECIFICATION CSpec
CONSTANTS
  Letters = {97, 98}
  MaxRules = 2
  Ops = {0, 1, 2, 3, 7}
  Bug = "IgnoreBlocked"
  Deviations = {}
INVARIANTS TableIsRepl LeftoverIsLoop Conservation
CHECK_DEADLOCK FALSE
