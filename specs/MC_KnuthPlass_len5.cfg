SPECIFICATION Spec
CONSTANTS
  Alphabet <- AlphaQuick
  MaxLen = 5
  Tails <- OnlyParTail
  WidthSeqs <- WidthsQuick
  ParSets <- ParsQuick
  Devs <- NoDevs
  Bug = ""
INVARIANTS Refines NodesWitnessed ScanInv
CHECK_DEADLOCK FALSE
