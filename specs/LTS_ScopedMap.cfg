SPECIFICATION Spec
CONSTANTS
  Keys = {1, 2}
  MapKeys = {1, 2}
  Vals = {1, 2}
  MaxDepth = 5
  Bug = ""
INVARIANTS Refines UnwindAgree
CONSTRAINT DepthBound
ACTION_CONSTRAINT Emit
VIEW AbsView
CHECK_DEADLOCK FALSE
