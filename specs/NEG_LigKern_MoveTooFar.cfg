SPECIFICATION Spec
CONSTANTS
  Letters = {97, 98}
  MaxRules = 2
  MaxLen = 3
  Ops = {7, 128}
  StopAtHit = TRUE
  CheckFlags = TRUE
  Bug = "MoveTooFar"
  Deviations = {}
INVARIANTS RefinesCursor
CHECK_DEADLOCK FALSE
