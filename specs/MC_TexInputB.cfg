SPECIFICATION SSpec
CONSTANTS
  Limit = 101
  Deviations = {}
  Streams = {1, 2}
  RFiles <- TheFiles
INVARIANT StreamsOK

VIEW SView
CHECK_DEADLOCK FALSE
