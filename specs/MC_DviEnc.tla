----------------------------- MODULE MC_DviEnc -----------------------------
(* Exhaustive round-trip model for DviEnc: every op kind with operands at    *)
(* every width boundary, written in every width that can hold it, followed   *)
(* by ops chosen to provoke mis-framing (the byte 223, post_post, strings).  *)
EXTENDS DviEnc, TLC

MinI == -2147483647 - 1
MaxI == 2147483647
SB == {0, 1, -1, 127, 128, -128, -129, 32767, 32768, -32768, -32769,
       8388607, 8388608, -8388608, -8388609, MaxI, -MaxI, MinI}
UB == {<<0, 0>>, <<0, 63>>, <<0, 64>>, <<0, 127>>, <<0, 128>>, <<0, 255>>, <<0, 256>>, <<0, 65535>>,
       <<1, 0>>, <<255, 65535>>, <<256, 0>>, <<32767, 65535>>, <<32768, 0>>, <<65535, 65535>>}
Data(len) == [i \in 1..len |-> (i * 37 + 186) % 256]      \* Data(1) = <<223>>
FontNos == {<<0, 0>>, <<0, 255>>, <<0, 256>>, <<1, 0>>, <<256, 0>>, <<65535, 65535>>}

MCFirst ==
       {[k |-> "char", c |-> c, mv |-> mv] : c \in UB, mv \in BOOLEAN}
  \cup {[k |-> "rule", ht |-> hw[1], wd |-> hw[2], mv |-> mv] : hw \in {<<1, 2>>, <<-1, MinI>>, <<MaxI, 0>>}, mv \in BOOLEAN}
  \cup {[k |-> kk] : kk \in {"nop", "eop", "push", "pop"}}
  \cup {[k |-> "bop", p |-> [i \in 1..10 |-> IF i = 10 THEN -1 ELSE i], prev |-> 1],
        [k |-> "bop", p |-> <<MinI, MaxI, 0, -1, 128, -129, 32768, -8388609, 8388608, 255>>, prev |-> -1]}
  \cup {[k |-> kk, d |-> d] : kk \in {"right", "down"}, d \in SB}
  \cup {[k |-> "setvar", var |-> var, d |-> d] : var \in 0..3, d \in SB}
  \cup {[k |-> "move", var |-> var] : var \in 0..3}
  \cup {[k |-> "font", n |-> u] : u \in UB}
  \cup {[k |-> "xxx", data |-> Data(len)] : len \in {0, 1, 5, 255, 256, 300}}
  \cup {[k |-> "fontdef", n |-> u, ck |-> <<65535, 65535>>, at |-> <<0, 3>>, ds |-> <<32768, 4>>,
         area |-> Data(al[1]), name |-> Data(al[2])] : u \in FontNos, al \in {<<0, 0>>, <<0, 5>>, <<5, 0>>, <<2, 3>>, <<255, 255>>}}
  \cup {[k |-> "pre", fmt |-> 2, num |-> <<387, 38208>>, den |-> <<7227, 0>>, mag |-> <<0, 1000>>, comment |-> Data(len)] :
         len \in {0, 3, 255}}
  \cup {[k |-> "post", last |-> i, num |-> <<387, 38208>>, den |-> <<7227, 0>>, mag |-> <<65535, 65535>>,
         ht |-> <<0, 5>>, wd |-> <<32768, 0>>, depth |-> 65535, pages |-> 256] : i \in {-1, MaxI}}
  \cup {[k |-> "postpost", post |-> 2, fmt |-> 2, n223 |-> r] : r \in {0, 4, 7}}

MCFollow == {[k |-> "font", n |-> <<0, 52>>], [k |-> "nop"], [k |-> "postpost", post |-> -1, fmt |-> 223, n223 |-> 4],
             [k |-> "xxx", data |-> <<223>>], [k |-> "down", d |-> -129]}
=============================================================================
