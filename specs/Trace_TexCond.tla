---------------------------- MODULE Trace_TexCond ----------------------------
(* Binding F for conditionals: one event per generated token list run on the   *)
(* real VM.  {"toks": [...], "out": [ids of delivered plain tokens], "err": ""} *)
(* Accepted iff the list is well-formed, its delivered text is brace-balanced  *)
(* (else the instance is outside the property: counted as skipped) and the VM  *)
(* delivered exactly Plain(Deliver(toks)) without error.  The implementation-  *)
(* shaped layer is evaluated on the same input (Agree) so that a design slip   *)
(* on a real-size input is reported as such.                                   *)
EXTENDS TexCond, TLC, Json, IOUtils
Rec == ndJsonDeserialize(IOEnv.TRACE)
VARIABLE l

Ids(s) == [i \in 1..Len(s) |-> s[i].c]

Judge(e) ==
  IF ~WellFormed(e.toks) THEN "illformed"
  ELSE LET d == Deliver(e.toks) IN
       IF ~BraceDepthOK(d, 0) THEN "skip-unbalanced-delivery"
       ELSE IF ~Agree(e.toks) THEN "design-disagreement"
       ELSE IF e.err = "" /\ e.out = Ids(Plain(d)) THEN "ok" ELSE "mismatch"

TInit == l = 1
TStep == /\ l <= Len(Rec) /\ l' = l + 1
         /\ LET e == Rec[l] j == Judge(e) IN
            IF j = "ok" THEN TRUE
            ELSE PrintT(<<"VERDICT", ToJson([l |-> l, key |-> j,
                      want |-> IF j = "mismatch" THEN Ids(Plain(Deliver(e.toks))) ELSE <<>>])>>)
TSpec == TInit /\ [][TStep]_l
Matched == TLCGet("stats").diameter - 1
TraceAccepted == \/ Matched = Len(Rec)
                 \/ PrintT(<<"MATCHED", Matched>>) /\ FALSE
==============================================================================
