SPECIFICATION Spec
CONSTANTS
  N = 6
  Bug = ""
  Deviations = {}
INVARIANT ScannerInvariants
CHECK_DEADLOCK FALSE
