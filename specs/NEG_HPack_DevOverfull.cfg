SPECIFICATION Spec
CONSTANTS
  Alphabet <- AlphabetQuick
  MaxLen = 2
  Targets <- TargetsQuick
  TexDevs <- OnlyOverfull
  Bug = ""
INVARIANTS TexBoxLaws
CHECK_DEADLOCK FALSE
