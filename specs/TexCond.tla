------------------------------- MODULE TexCond -------------------------------
(***************************************************************************)
(* TeX conditionals (property C07, first half).                            *)
(*                                                                         *)
(* A token is a record.  t = "x" (a plain token, field c), "lb" / "rb"     *)
(* (braces), "if" (a two-way conditional: fields kind, a, rel, b give the  *)
(* condition), "case" (\ifcase, field a = the number), "or", "else", "fi". *)
(* \let-aliases of the conditional primitives are the *same* tokens here:  *)
(* TeX and texlang look at the meaning, not the name; the harness spells   *)
(* some of them through aliases.                                           *)
(*                                                                         *)
(* Reference layer: tree semantics.  A well-formed token list is parsed    *)
(* into conditionals; exactly the selected branch is delivered             *)
(* (Deliver).  Condition values are TeX's (Holds).                         *)
(* Implementation layer: conditional.rs - a stack of branch kinds          *)
(* (True / Else / Switch) and four skipping loops that count \if.../\fi    *)
(* by tag (Run).                                                           *)
(***************************************************************************)
EXTENDS Integers, Sequences, FiniteSets

CONSTANT Bug, Deviations

------------------------------------------------------------------------------
(* condition values, TeX.2021.501-509 *)
Holds(tok) ==
  CASE tok.kind = "iftrue"  -> TRUE
    [] tok.kind = "iffalse" -> FALSE
    [] tok.kind = "ifodd"   ->
         \* odd(n) also for negative n.  Deviation (known finding C07/ifodd-negative): n % 2 == 1
         \* in Rust is false for every negative n.
         IF "IfoddNegativeIsEven" \in Deviations /\ tok.a < 0 THEN FALSE ELSE tok.a % 2 = 1
    [] tok.kind = "ifnum"   ->
         CASE tok.rel = "<" -> tok.a < tok.b
           [] tok.rel = "=" -> tok.a = tok.b
           [] tok.rel = ">" -> tok.a > tok.b

IsIf(tok) == tok.t \in {"if", "case"}

------------------------------------------------------------------------------
(* Reference layer *)

\* index of the \fi matching the conditional that starts just before position i (1-based), or 0
RECURSIVE MatchFi(_, _, _)
MatchFi(s, i, depth) ==
  IF i > Len(s) THEN 0
  ELSE IF IsIf(s[i]) THEN MatchFi(s, i + 1, depth + 1)
  ELSE IF s[i].t = "fi" THEN (IF depth = 0 THEN i ELSE MatchFi(s, i + 1, depth - 1))
  ELSE MatchFi(s, i + 1, depth)

\* positions of depth-0 \or / \else between i and j (exclusive), in order
RECURSIVE Seps(_, _, _, _)
Seps(s, i, j, depth) ==
  IF i >= j THEN <<>>
  ELSE IF IsIf(s[i]) THEN Seps(s, i + 1, j, depth + 1)
  ELSE IF s[i].t = "fi" THEN Seps(s, i + 1, j, depth - 1)
  ELSE IF depth = 0 /\ s[i].t \in {"or", "else"} THEN <<i>> \o Seps(s, i + 1, j, depth)
  ELSE Seps(s, i + 1, j, depth)

\* Well-formed: \if...\fi properly nested; \or only directly inside \ifcase and before its \else;
\* at most one \else per conditional.  (This is the quantifier of the property: trees.)
RECURSIVE WellFormed(_)
WellFormed(s) ==
  IF s = <<>> THEN TRUE
  ELSE LET h == Head(s) IN
    IF h.t \in {"x", "lb", "rb"} THEN WellFormed(Tail(s))
    ELSE IF ~IsIf(h) THEN FALSE
    ELSE LET f == MatchFi(s, 2, 0) IN
      IF f = 0 THEN FALSE
      ELSE LET sp == Seps(s, 2, f, 0)
               n == Len(sp)
               elses == {k \in 1..n : s[sp[k]].t = "else"}
               bounds == <<1>> \o sp \o <<f>>
           IN /\ Cardinality(elses) <= 1
              /\ (elses # {} => elses = {n})
              /\ (h.t = "if" => \A k \in 1..n : s[sp[k]].t = "else")
              /\ \A k \in 1..(n + 1) : WellFormed(SubSeq(s, bounds[k] + 1, bounds[k + 1] - 1))
              /\ WellFormed(SubSeq(s, f + 1, Len(s)))

\* The tokens delivered for a well-formed list.
RECURSIVE Deliver(_)
Deliver(s) ==
  IF s = <<>> THEN <<>>
  ELSE LET h == Head(s) IN
    IF h.t \in {"x", "lb", "rb"} THEN <<h>> \o Deliver(Tail(s))
    ELSE LET f == MatchFi(s, 2, 0)
             sp == Seps(s, 2, f, 0)
             n == Len(sp)
             bounds == <<1>> \o sp \o <<f>>
             hasElse == n > 0 /\ s[sp[n]].t = "else"
             nOr == IF hasElse THEN n - 1 ELSE n
             seg(k) == SubSeq(s, bounds[k] + 1, bounds[k + 1] - 1)     \* k-th branch, 1-based
             sel == IF h.t = "if"
                    THEN (IF Holds(h) THEN seg(1) ELSE IF hasElse THEN seg(2) ELSE <<>>)
                    ELSE \* \ifcase n: branch n+1 of the nOr+1 \or-separated ones, else the \else part
                         IF h.a >= 0 /\ h.a <= nOr THEN seg(h.a + 1)
                         ELSE IF hasElse THEN seg(n + 1) ELSE <<>>
         IN Deliver(sel) \o Deliver(SubSeq(s, f + 1, Len(s)))

RECURSIVE BraceDepthOK(_, _)
BraceDepthOK(s, d) == IF s = <<>> THEN d = 0
                      ELSE IF Head(s).t = "lb" THEN BraceDepthOK(Tail(s), d + 1)
                      ELSE IF Head(s).t = "rb" THEN d > 0 /\ BraceDepthOK(Tail(s), d - 1)
                      ELSE BraceDepthOK(Tail(s), d)

Plain(s) == SelectSeq(s, LAMBDA tok : tok.t = "x")

------------------------------------------------------------------------------
(* Implementation layer: conditional.rs.  State = remaining input, branch stack, output.  *)
(* Result: [out |-> delivered tokens, err |-> "" or the error].                           *)

\* skip to the matching \fi (else_primitive_fn / or_primitive_fn loops); returns the rest or "eof"
RECURSIVE SkipToFi(_, _)
SkipToFi(s, depth) ==
  IF s = <<>> THEN [eof |-> TRUE, rest |-> <<>>]
  ELSE IF IsIf(Head(s)) THEN SkipToFi(Tail(s), depth + 1)
  ELSE IF Head(s).t = "fi" THEN
       (IF depth = 0 THEN [eof |-> FALSE, rest |-> Tail(s)] ELSE SkipToFi(Tail(s), depth - 1))
  ELSE SkipToFi(Tail(s), depth)

\* false_case: skip to a depth-0 \else (push Else) or to the matching \fi
RECURSIVE SkipFalse(_, _)
SkipFalse(s, depth) ==
  IF s = <<>> THEN [eof |-> TRUE, rest |-> <<>>, push |-> ""]
  ELSE LET h == Head(s) IN
    IF h.t = "else" /\ (depth = 0 \/ Bug = "ElseAnyDepth") THEN [eof |-> FALSE, rest |-> Tail(s), push |-> "Else"]
    ELSE IF IsIf(h) THEN SkipFalse(Tail(s), depth + 1)
    ELSE IF h.t = "fi" THEN
         (IF depth = 0 THEN [eof |-> FALSE, rest |-> Tail(s), push |-> ""] ELSE SkipFalse(Tail(s), depth - 1))
    ELSE SkipFalse(Tail(s), depth)

\* 32-bit decrement that wraps (TeX's decr(n) without range check; texlang: wrapping_sub)
Dec(n) == IF n = -2147483647 - 1 THEN 2147483647 ELSE n - 1

\* if_case_primitive_fn with n # 0
RECURSIVE SkipCase(_, _, _)
SkipCase(s, depth, left) ==
  IF s = <<>> THEN [eof |-> TRUE, rest |-> <<>>, push |-> ""]
  ELSE LET h == Head(s) IN
    IF h.t = "or" /\ (depth = 0 \/ Bug = "OrAnyDepth") THEN
         (IF Dec(left) = 0 THEN [eof |-> FALSE, rest |-> Tail(s), push |-> "Switch"]
          ELSE SkipCase(Tail(s), depth, Dec(left)))
    ELSE IF h.t = "else" /\ depth = 0 THEN [eof |-> FALSE, rest |-> Tail(s), push |-> "Else"]
    ELSE IF IsIf(h) THEN SkipCase(Tail(s), depth + 1, left)
    ELSE IF h.t = "fi" THEN
         (IF depth = 0 THEN [eof |-> FALSE, rest |-> Tail(s), push |-> ""] ELSE SkipCase(Tail(s), depth - 1, left))
    ELSE SkipCase(Tail(s), depth, left)

Push(st, k) == IF k = "" THEN st ELSE Append(st, k)
Top(st) == st[Len(st)]
Pop(st) == SubSeq(st, 1, Len(st) - 1)

RECURSIVE Run(_, _, _)
Run(s, st, out) ==
  IF s = <<>> THEN [out |-> out, err |-> ""]
  ELSE LET h == Head(s) r == Tail(s) IN
    CASE h.t \in {"x", "lb", "rb"} -> Run(r, st, Append(out, h))
      [] h.t = "if" ->
           IF Holds(h) THEN Run(r, Append(st, "True"), out)
           ELSE LET k == SkipFalse(r, 0) IN
                IF k.eof THEN [out |-> out, err |-> "eof"] ELSE Run(k.rest, Push(st, k.push), out)
      [] h.t = "case" ->
           IF h.a = 0 THEN Run(r, Append(st, "Switch"), out)
           ELSE LET k == SkipCase(r, 0, h.a) IN
                IF k.eof THEN [out |-> out, err |-> "eof"] ELSE Run(k.rest, Push(st, k.push), out)
      [] h.t = "or" ->
           IF st = <<>> \/ Top(st) # "Switch" THEN [out |-> out, err |-> "unexpected or"]
           ELSE LET k == SkipToFi(r, 0) IN
                IF k.eof THEN [out |-> out, err |-> "eof"] ELSE Run(k.rest, Pop(st), out)
      [] h.t = "else" ->
           IF st = <<>> \/ Top(st) \notin {"True", "Switch"} THEN [out |-> out, err |-> "unexpected else"]
           ELSE LET k == SkipToFi(r, 0) IN
                IF k.eof THEN [out |-> out, err |-> "eof"] ELSE Run(k.rest, Pop(st), out)
      [] h.t = "fi" ->
           IF st = <<>> THEN [out |-> out, err |-> "unexpected fi"] ELSE Run(r, Pop(st), out)

Impl(s) == Run(s, <<>>, <<>>)

\* refinement on one input
Agree(s) == WellFormed(s) => (Impl(s).err = "" /\ Impl(s).out = Deliver(s))
==============================================================================
