SPECIFICATION Spec
CONSTANTS
  Letters = {97, 98, 99}
  MaxRules = 2
  MaxLen = 3
  Ops = {1, 2, 3, 7, 128}
  StopAtHit = TRUE
  CheckFlags = TRUE
  Bug = ""
  Deviations = {}
INVARIANTS Spelling RefinesCursor NoHitIfDone HitIfBound PairExact LoopReportExact
CHECK_DEADLOCK FALSE
