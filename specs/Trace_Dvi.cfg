SPECIFICATION TSpec
CONSTANTS
  Chars = {}
  Fonts = {}
  Operands = {}
  VarSet = {}
  MaxDepth = 0
  MaxSteps = 0
  Bug = ""
POSTCONDITION TraceAccepted
CHECK_DEADLOCK FALSE
