---------------------------- MODULE MC_TexInputB ----------------------------
(* Part B: the read-stream automaton over two streams and three read files     *)
(* (a plain line, a line ended by a comment, a comment-only last line; a multi-line brace group, an unmatched }, an empty line;   *)
(* an empty file; a file whose last line is cut short by an unmatched })        *)
(* plus a nonexistent file (f = 0).  Dumped as an LTS for R.                    *)
EXTENDS TexInput, TLC, Json
T(t, c) == [t |-> t, c |-> c]
TheFiles == << << <<T("x", 1)>>, <<T("x", 2), T("cm", 0)>>, <<T("cm", 0)>> >>,
               << <<T("x", 1), T("lb", 0)>>, <<T("x", 2), T("rb", 0), T("x", 3)>>, <<T("x", 1), T("rb", 0), T("x", 2)>>, <<>> >>,
               << >>,
               << <<T("x", 3)>>, <<T("x", 1), T("lb", 0), T("x", 2), T("rb", 0), T("rb", 0), T("x", 3)>> >> >>
Emit == PrintT(<<"LTS", ToJson([f |-> [s |-> str, dead |-> dead], o |-> op', t |-> [s |-> str', dead |-> dead']])>>)
=============================================================================
