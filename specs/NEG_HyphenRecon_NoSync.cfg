SPECIFICATION MSpec
CONSTANTS
  MaxHn = 63
  Bug = ""
  Alphabet <- NoNodes
  MaxLen = 0
  LH = 1
  RH = 1
  Devs <- NoDevs
  HyfChar = 45
  ReconBug = "NoSync"
  Pool <- PoolQuick
  MaxWord = 3
  Mins <- MinsQuick
INVARIANTS TeXSatisfiesRelation Inserts
CHECK_DEADLOCK FALSE
