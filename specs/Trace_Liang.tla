----------------------------- MODULE Trace_Liang -----------------------------
(* Binding F for C13.  Each line of TRACE is one real hyphenate::Hyphenator:  *)
(*   ops   : the API calls that configured it, in order, with their exact     *)
(*           text arguments as code points  (k = "p" load_patterns,           *)
(*           "e" insert_exception, "E" insert_exceptions), or the single      *)
(*           pseudo call k = "plain" for Hyphenator::plain_tex_en_us()        *)
(*           (then the dictionary is the pattern / exception files of the     *)
(*           crate, passed once through PLAIN);                               *)
(*   lc    : the lower-case map handed to calculate_indices, as pairs         *)
(*           <<c, lower>> with lower = 0 for "not a letter", for every code   *)
(*           point that occurs in the event;                                  *)
(*   words : <<[w |-> code points, got |-> indices returned]>>  (or panic).   *)
(* A word is accepted iff `got` is exactly Liang.Model({}, ops, lower(w)) in  *)
(* ascending order.  Otherwise a VERDICT line is printed whose key is either  *)
(* the smallest set of named deviations (Liang.DeviationNames) under which    *)
(* the model does produce `got`, or "mismatch" if none does.                  *)
EXTENDS Liang, TLC, Json, IOUtils, SequencesExt

Rec   == ndJsonDeserialize(IOEnv.TRACE)
Plain == ndJsonDeserialize(IOEnv.PLAIN)    \* line 1: pattern texts, line 2: exception entries

VARIABLES l, cnt

PlainDict == [pats |-> {ParsePat(Plain[1][i]) : i \in 1..Len(Plain[1])},
              excs |-> {Plain[2][i] : i \in 1..Len(Plain[2])}]
PlainIndex == FirstLetterIndex(PlainDict.pats)

IsPlain(e) == Len(e.ops) > 0 /\ e.ops[1].k = "plain"
LcFun(e) == [c \in {e.lc[i][1] : i \in 1..Len(e.lc)} |->
                e.lc[CHOOSE i \in 1..Len(e.lc) : e.lc[i][1] = c][2]]

\* Scope of the property / of this module (a generator that leaves it is a tool error):
\* well-formed patterns with pairwise distinct keys; pattern and exception letters are
\* lower-case letters of the map (the loaders of the crate take no lower-case map; TeX
\* applies \lccode when \patterns / \hyphenation are read, tex.web 937 and 962).
CodePoints(e) == UNION ({{c.t[i] : i \in 1..Len(c.t)} : c \in {e.ops[j] : j \in 1..Len(e.ops)}}
                        \cup {{x.w[i] : i \in 1..Len(x.w)} : x \in {e.words[j] : j \in 1..Len(e.words)}})
EventOK(e, lcf) ==
  /\ CodePoints(e) \subseteq DOMAIN lcf
  /\ IsPlain(e) \/
     LET es == Entries({}, e.ops)
         ps == {i \in 1..Len(es) : es[i].k = "p"}
         xs == {i \in 1..Len(es) : es[i].k = "e"}
     IN /\ \A i \in ps : WellFormedPat(es[i].t)
        /\ \A i, j \in ps : i # j => PatKey(ParsePat(es[i].t)) # PatKey(ParsePat(es[j].t))
        /\ \A i \in ps : \A c \in {PatLetters(es[i].t)[k] : k \in 1..Len(PatLetters(es[i].t))} : lcf[c] = c
        /\ \A i \in xs : \A c \in {ExcLetters(es[i].t)[k] : k \in 1..Len(ExcLetters(es[i].t))} : lcf[c] = c

\* Tried in this order: a deviation that changes WHICH entries exist (list splitting, deleted
\* exception) is the more fundamental explanation than the way a surviving entry is scored.
\* ExceptionsSplitOnLinesOnly is fixed in the repository (insert_exceptions now splits on white
\* space); it is no longer offered as an explanation, so if it returns it is a plain mismatch.
DevOrder == << {},
               {"LaterPatternReplacesException"}, {"ExceptionAsScore67"},
               {"ExceptionAsScore67", "LaterPatternReplacesException"} >>
DevKey == << "", "LaterPatternReplacesException", "ExceptionAsScore67",
             "ExceptionAsScore67+LaterPatternReplacesException" >>
Explain(e, lw, got) ==
  IF IsPlain(e) THEN "mismatch"
  ELSE LET S == {i \in 2..Len(DevOrder) : SetToSortSeq(Model(DevOrder[i], e.ops, lw), <) = got}
       IN IF S = {} THEN "mismatch" ELSE DevKey[CHOOSE i \in S : \A j \in S : i <= j]

\* one word: [w, sk, nt, ex, bad] = counted / skipped / non-trivial / exception hit / not accepted
WordResult(e, lcf, dict, i) ==
  LET x == e.words[i] IN
  IF ~LettersOnly(lcf, x.w) THEN [w |-> 0, sk |-> 1, nt |-> 0, ex |-> 0, bad |-> 0]
  ELSE IF "panic" \in DOMAIN x
  THEN [w |-> 1, sk |-> 0, nt |-> 0, ex |-> 0,
        bad |-> IF PrintT(<<"VERDICT", ToJson([l |-> l, wi |-> i, key |-> "panic", got |-> x.panic])>>) THEN 1 ELSE 1]
  ELSE LET lw   == LowerWord(lcf, x.w)
           hit  == {t \in dict.excs : ExcLetters(t) = lw}
           C    == IF IsPlain(e) THEN IndexedContribs(PlainIndex, lw) ELSE AllContribs(dict.pats, lw)
           want == IF hit # {} THEN ExcBreaks(CHOOSE t \in hit : TRUE) \cap (1..(Len(lw) - 1))
                   ELSE HyphFrom(C, Len(lw))
           ws   == SetToSortSeq(want, <)
       IN [w |-> 1, sk |-> 0, nt |-> IF hit # {} \/ C # {} THEN 1 ELSE 0, ex |-> IF hit # {} THEN 1 ELSE 0,
           bad |-> IF x.got = ws THEN 0
                   ELSE IF PrintT(<<"VERDICT", ToJson([l |-> l, wi |-> i, key |-> Explain(e, lw, x.got), want |-> ws])>>)
                        THEN 1 ELSE 1]

RECURSIVE Tally(_, _, _, _, _)
Tally(e, lcf, dict, i, acc) ==
  IF i > Len(e.words) THEN acc
  ELSE LET r == WordResult(e, lcf, dict, i)
       IN Tally(e, lcf, dict, i + 1,
                [words |-> acc.words + r.w, skipped |-> acc.skipped + r.sk, nontrivial |-> acc.nontrivial + r.nt,
                 exchits |-> acc.exchits + r.ex, bad |-> acc.bad + r.bad])

EventTally(e) ==
  LET lcf == LcFun(e) IN
  IF "panic" \in DOMAIN e
  THEN IF PrintT(<<"VERDICT", ToJson([l |-> l, wi |-> 0, key |-> "panic", got |-> e.panic])>>)
       THEN [cnt EXCEPT !.bad = @ + 1] ELSE cnt
  ELSE IF ~EventOK(e, lcf)
  THEN IF PrintT(<<"VERDICT", ToJson([l |-> l, wi |-> 0, key |-> "malformed-event"])>>)
       THEN [cnt EXCEPT !.bad = @ + 1] ELSE cnt
  ELSE Tally(e, lcf, IF IsPlain(e) THEN PlainDict ELSE Dict({}, e.ops), 1, cnt)

TInit == /\ l = 1 /\ cnt = [words |-> 0, skipped |-> 0, nontrivial |-> 0, exchits |-> 0, bad |-> 0]
         /\ hy = EmptyHy /\ calls = <<>>
TStep == /\ l <= Len(Rec) /\ l' = l + 1 /\ UNCHANGED vars
         /\ cnt' = EventTally(Rec[l])
         /\ IF l = Len(Rec) THEN PrintT(<<"STATS", ToJson(cnt')>>) ELSE TRUE
TSpec == TInit /\ [][TStep]_<<vars, l, cnt>>
Matched == TLCGet("stats").diameter - 1
TraceAccepted == \/ Matched = Len(Rec)
                 \/ PrintT(<<"MATCHED", Matched>>) /\ FALSE
=============================================================================
