--------------------------- MODULE Trace_TexGroups ---------------------------
(* Binding T for C01 (and, with checkpoint events, C08): a TeX program run    *)
(* on the real VM, one event per operation ({ , } , assignment, checkpoint)   *)
(* followed by the values read back for every bound quantity, is accepted iff *)
(* it is a behaviour of TexGroups.  Depth is unbounded here.                  *)
EXTENDS TexGroups, TLC, Json, IOUtils

Rec == ndJsonDeserialize(IOEnv.TRACE)
VARIABLES l,        \* next line of the trace
          skipping  \* TRUE after a line no action matched: the rest of that trace (up to the next
                    \* reset) is consumed unchecked and the line is reported as a VERDICT
ttvars == <<val, snaps, ival, saves, op, sticky, agree, l, skipping>>

TKeys == 1..6
TMapKeys == {1, 2}
TVals == {1, 2}

E == Rec[l]
ObsOK == [k \in Keys |-> val'[k]] = E.obs

TTInit == TInit /\ l = 1 /\ skipping = FALSE

Reset == /\ E.ev = "reset"
         /\ val' = EmptyVal /\ snaps' = <<>> /\ ival' = EmptyVal /\ saves' = <<>>
         /\ op' = [k |-> "init"] /\ sticky' = FALSE /\ agree' = TRUE

Match == \/ Reset
         \/ E.ev = "begin" /\ TBegin /\ ObsOK
         \/ E.ev = "end" /\ TEnd /\ ObsOK
         \/ E.ev = "checkpoint" /\ Checkpoint /\ ObsOK
         \/ E.ev = "assign" /\ Assign(E.key, E.v, E.g) /\ ObsOK

TTStep == /\ l <= Len(Rec)
          /\ l' = l + 1
          /\ IF skipping /\ E.ev # "reset"
             THEN UNCHANGED <<val, snaps, ival, saves, op, sticky, agree, skipping>>
             ELSE IF ENABLED Match
                  THEN Match /\ skipping' = FALSE
                  ELSE /\ PrintT(<<"VERDICT", ToJson([l |-> l, key |-> "unmatched"])>>)
                       /\ skipping' = TRUE
                       /\ UNCHANGED <<val, snaps, ival, saves, op, sticky, agree>>

TTSpec == TTInit /\ [][TTStep]_ttvars

Matched == TLCGet("stats").diameter - 1
TraceAccepted == \/ Matched = Len(Rec)
                 \/ PrintT(<<"MATCHED", Matched>>) /\ FALSE
==============================================================================
