SPECIFICATION TSpec
CONSTANTS
  Deviations = {"PhantomLigature"}
  Bug = ""
POSTCONDITION TraceAccepted
CHECK_DEADLOCK FALSE
