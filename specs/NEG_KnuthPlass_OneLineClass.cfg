SPECIFICATION Spec
CONSTANTS
  Alphabet <- AlphaQuick
  MaxLen = 3
  Tails <- OnlyParTail
  WidthSeqs <- W7
  ParSets <- P_loose1
  Devs <- NoDevs
  Bug = "OneLineClass"
INVARIANTS Refines
CHECK_DEADLOCK FALSE
