SPECIFICATION Spec
CONSTANTS
  MaxOverrides = 2
  ValsAt <- ValsAtQuick
  Bases <- BasesQuick
  Lens <- LensQuick
  ImplDeviations = {"PanicShortHeader"}
  ImplBug = ""
INVARIANTS ImplAgrees
CHECK_DEADLOCK FALSE
