---------------------------- MODULE MC_TfmCanon ----------------------------
(***************************************************************************)
(* Exhaustive models of the TFM -> PL -> TFM conversion (TfmCanon.tla).    *)
(*                                                                         *)
(* A behaviour is the pipeline of the two programs applied twice:          *)
(*   Pick      an in-scope font of the chosen sub-domain                   *)
(*   Emit      TFtoPL:  pl := ToPl(f)                                      *)
(*   Build     PLtoTF:  g  := FromPl(pl)                                   *)
(*   Again     f := g, second trip                                         *)
(* Invariants at the end of the first trip: the written font describes the *)
(* same font (Same on every pair, the chains, TeX's main loop on every one-*)
(* and two-character word), is itself in scope (converts silently), every  *)
(* 8/16-bit field holds its value; at the end of the second trip g = f,    *)
(* the fixed point.  The property list in between is well formed (no       *)
(* STOP/SKIP without a step in front of it, every LABEL in front of a      *)
(* step).                                                                  *)
(*                                                                         *)
(* Sub-domains (constant Mode), each exhaustive within its constants:      *)
(*  "lk"    lig/kern programs as raw words: a body of <= MaxBody steps in  *)
(*          every SKIP/STOP pattern of SkipBytes, <= MaxPrefix redirect    *)
(*          words in front (any targets), with / without boundary          *)
(*          character, left boundary pointer (any target incl. itself),    *)
(*          every assignment of remainders <= DomT to the NC characters;   *)
(*          kern table with a repeated value.  Threshold is small, so      *)
(*          "more than 255 instructions" is met by 2-5 steps.              *)
(*  "dims"  dimension tables: unsorted, repetitions, unused entries, zero  *)
(*          in later positions; every index assignment; characters missing *)
(*  "tags"  NEXTLARGER chains, VARCHAR recipes (shared / unused), missing  *)
(*          first / last characters                                        *)
(*  "hdr"   header lengths 2..20, strings with blanks and small letters    *)
(***************************************************************************)
EXTENDS TfmCanon, Json

CONSTANTS Mode, NC, MaxBody, MaxPrefix, SkipBytes, Variants,
          DimVals, MaxW, MaxH,   \* "dims": the values of the tables, the largest number of widths / heights
          MaxE,                  \* "tags": the largest number of extensible recipes
          DomT,    \* largest remainder an input char_info carries (= Threshold, except in padded replays)
          PadK,    \* REPLAY only: padding steps put in front of the body (255 - DomT); else 0
          Waive    \* scope clauses waived (domains of the negative controls): "stops", "orphans", "longheader"

VARIABLES shape,   \* the part of the choice made by Init (so that TLC's workers share the enumeration)
          orig, f, pl, g, stage, trip
vars == <<shape, orig, f, pl, g, stage, trip>>

C == 1 .. NC
Hd0 == <<<<1, 2, 3, 4>>, <<0, 160, 0, 0>>>> \o EncStr(Unspecified, 10) \o EncStr(Unspecified, 5) \o <<<<0, 0, 0, 0>>>>
Plain == <<1, 0, 0, 0>>
Base == [hd |-> Hd0, bc |-> 1, ec |-> NC, ci |-> [c \in C |-> Plain], w |-> <<0, 5>>, h |-> <<0>>, d |-> <<0>>,
         i |-> <<0>>, lk |-> <<>>, k |-> <<>>, e |-> <<>>, p |-> <<>>]
Admit(x) == InScopeBut(x, Waive)

-----------------------------------------------------------------------------
(* "lk" *)
Content(j, v) ==
  LET x == (j + v) % 4 IN
  CASE x = 0 -> <<128, 0>> [] x = 1 -> <<128, 1>> [] x = 2 -> <<0, 1>> [] OTHER -> <<128, 2>>
BodyWord(sk, j, v) ==
  IF sk = 200 THEN <<200, 1, 0, 0>>                 \* an unconditional stop inside the body ("stops")
  ELSE LET ct == Content(j, v) IN <<sk, ((j + (v \div 4)) % NC) + 1, ct[1], ct[2]>>
Kerns == <<7, 5, 7>>
PadC == NC + 1                                       \* the character whose chain is the padding

\* n body length, sk its skip bytes, r prefix length, tg prefix targets, hasb boundary char (= NC),
\* lb left boundary target (-1: no pointer word), ent char -> -1 | remainder, v content variant,
\* ex the characters that exist, K padding steps.  Indices are those of the unpadded layout; Mv shifts them.
LkFontK(K, n, sk, r, tg, hasb, lb, ent, v, ex) ==
  LET Mv(x) == IF x < r THEN x ELSE x + K
      b    == IF hasb THEN NC ELSE 0
      pre  == [j \in 1 .. r |-> <<IF hasb THEN 255 ELSE 254, b, Hi(Mv(tg[j])), Lo(Mv(tg[j]))>>]
      pad  == [j \in 1 .. K |-> <<IF j = K THEN 128 ELSE 0, PadC, 0, PadC>>]
      body == [j \in 1 .. n |-> BodyWord(sk[j], j, v)]
      lbw  == IF lb < 0 THEN <<>> ELSE <<<<255, 0, Hi(Mv(lb)), Lo(Mv(lb))>>>>
      cw(c) == IF c = PadC THEN <<1, 0, 1, r>>
               ELSE <<IF c \in ex THEN 1 ELSE 0, 0, IF ent[c] < 0 THEN 0 ELSE 1, IF ent[c] < 0 THEN 0 ELSE Mv(ent[c])>>
  IN [Base EXCEPT !.lk = pre \o pad \o body \o lbw, !.k = Kerns,
                  !.ec = IF K > 0 THEN PadC ELSE NC,
                  !.ci = [c \in 1 .. (IF K > 0 THEN PadC ELSE NC) |-> cw(c)]]

LkShapes == (0 .. MaxBody) \X (0 .. MaxPrefix) \X BOOLEAN \X Variants
PickLk ==
  LET n == shape[1]   r == shape[2]   hasb == shape[3]   v == shape[4] IN
  \E sk \in [1 .. n -> (SkipBytes \cup (IF "stops" \in Waive THEN {200} ELSE {}))] :
  \E tg \in [1 .. r -> r .. (r + n)] :
  \E lb \in {-1} \cup (0 .. (r + n)) :
  \E ent \in [C -> {-1} \cup (0 .. DomT)] :
  \E ex \in SUBSET C :
    \* padding is in scope by construction: the scope of the font is decided without it
    /\ \A c \in C : ent[c] < r + n
    /\ Admit(LkFontK(0, n, sk, r, tg, hasb, lb, ent, v, ex))
    /\ f' = LkFontK(PadK, n, sk, r, tg, hasb, lb, ent, v, ex)

-----------------------------------------------------------------------------
(* "dims" *)
DimFont(wt, ht, dt, wi, hi, di) ==
  [Base EXCEPT !.w = <<0>> \o wt, !.h = <<0>> \o ht, !.d = <<0>> \o dt, !.i = <<0>> \o dt,
               !.ci = [c \in C |-> <<wi[c], 16 * hi[c] + di[c], 4 * di[c], 0>>]]
DV == DimVals \cup {-2}          \* a config file cannot write a negative number
DimShapes == (1 .. MaxW) \X (0 .. MaxH) \X (0 .. 1)
PickDims ==
  LET nw == shape[1]   nh == shape[2]   nd == shape[3] IN
  \E wt \in [1 .. nw -> DV], ht \in [1 .. nh -> DV], dt \in [1 .. nd -> DV] :
  \E wi \in [C -> 0 .. nw], hi \in [C -> 0 .. nh], di \in [C -> 0 .. nd] :
    LET x == DimFont(wt, ht, dt, wi, hi, di) IN Admit(x) /\ f' = x

-----------------------------------------------------------------------------
(* "tags" *)
Recipes == {<<0, 0, 0, 1>>, <<1, 0, 2, 2>>, <<0, NC, 0, NC>>}
\* ex: character -> width index (0: missing, 1: width 5, 2: width 0)
TagFont(ex, tg, rm, rec) ==
  [Base EXCEPT !.w = <<0, 5, 0>>, !.e = rec, !.ci = [c \in C |-> <<ex[c], 0, tg[c], rm[c]>>]]
TagShapes == [C -> {0, 1, 2}]
PickTags ==
  LET ex == shape IN
  \E tg \in [C -> {0, 2, 3}], rm \in [C -> 0 .. NC] :
  \E ne \in 0 .. MaxE : \E rec \in [1 .. ne -> Recipes] :
    LET x == TagFont(ex, tg, rm, rec) IN
    /\ \A c \in C : tg[c] = 0 => rm[c] = 0
    /\ Admit(x) /\ f' = x

-----------------------------------------------------------------------------
(* "hdr" *)
Strs == {<<>>, <<65>>, <<97, 32, 98>>, <<32, 32, 120>>, <<120, 32, 32>>}
HdrFont(lh, s1, s2, w17, extra) ==
  [Base EXCEPT !.hd = SubSeq(<<<<9, 8, 7, 6>>, <<0, 160, 0, 0>>>> \o EncStr(s1, 10) \o EncStr(s2, 5) \o <<w17>> \o extra, 1, lh)]
HdrShapes == {2, 3, 11, 12, 13, 16, 17, 18, 19, 20, 21, 22}
PickHdr ==
  LET lh == shape IN
  \E s1 \in Strs, s2 \in Strs, w17 \in {<<0, 0, 0, 0>>, <<128, 0, 0, 3>>, <<0, 9, 9, 200>>, <<255, 1, 0, 17>>} :
    LET x == HdrFont(lh, s1, s2, w17, <<<<0, 0, 0, 1>>, <<255, 254, 253, 252>>, <<0, 0, 0, 3>>, <<0, 0, 0, 4>>>>)
    IN Admit(x) /\ f' = x

-----------------------------------------------------------------------------
Init == /\ shape \in (CASE Mode = "lk" -> LkShapes [] Mode = "dims" -> DimShapes [] Mode = "tags" -> TagShapes
                          [] OTHER -> HdrShapes)
        /\ orig = Base /\ f = Base /\ pl = <<>> /\ g = Base /\ trip = 1 /\ stage = "pick"

Pick == /\ stage = "pick"
        /\ CASE Mode = "lk" -> PickLk [] Mode = "dims" -> PickDims [] Mode = "tags" -> PickTags [] OTHER -> PickHdr
        /\ orig' = f' /\ stage' = "tfm" /\ UNCHANGED <<shape, pl, g, trip>>

Emit  == /\ stage = "tfm" /\ pl' = ToPl(f) /\ stage' = "pl" /\ UNCHANGED <<shape, orig, f, g, trip>>
Build == /\ stage = "pl" /\ g' = FromPl(pl) /\ stage' = "done" /\ UNCHANGED <<shape, orig, f, pl, trip>>
Again == /\ stage = "done" /\ trip = 1 /\ f' = g /\ trip' = 2 /\ stage' = "tfm" /\ UNCHANGED <<shape, orig, pl, g>>

Next == Pick \/ Emit \/ Build \/ Again
Spec == Init /\ [][Next]_vars

-----------------------------------------------------------------------------
Done1 == stage = "done" /\ trip = 1
Done2 == stage = "done" /\ trip = 2

Idempotent  == Done2 => g = f
SameFont    == Done1 => Same(orig, g, AllPairs(orig) \cup AllPairs(g))
SameChains  == Done1 => ChainsSame(orig, g)
Fits        == stage = "done" => FieldsFit(g)
Closed      == Done1 => InScope(g)

\* TeX's main loop (LigKern.tla, sections 1034-1040) on every one- and two-character word
MainLoopSame ==
  Done1 =>
    LET PF == Prog(orig)   PG == Prog(g)   E == Existing(orig) IN
    /\ \A l \in E, r \in E, nl \in {0, 1} :
         LK!RefRun(PF, {}, <<l, r>>, nl, PF.rbc).out = LK!RefRun(PG, {}, <<l, r>>, nl, PG.rbc).out
    /\ \A l \in E : LK!RefRun(PF, {}, <<l>>, 0, PF.rbc).out = LK!RefRun(PG, {}, <<l>>, 0, PG.rbc).out

\* the property list in between: PLtoTF would not complain about it
PlWellFormed ==
  stage = "pl" =>
    LET it == pl.lig IN
    \A j \in 1 .. Len(it) :
      /\ it[j][1] \in {5, 6} => (j > 1 /\ it[j - 1][1] \in {3, 4})                   \* "STOP/SKIP must follow LIG or KRN"
      /\ it[j][1] \in {1, 2} => \E m \in (j + 1) .. Len(it) : it[m][1] \in {3, 4}    \* a label labels a step
      /\ it[j][1] = 6 => Cardinality({m \in (j + 1) .. Len(it) : it[m][1] \in {3, 4}}) > it[j][2]   \* SKIP lands on a step

-----------------------------------------------------------------------------
(* REPLAY (binding R): one case per font of the domain.  With PadK > 0 the body sits behind PadK    *)
(* padding steps so that the small remainders of the domain meet the real threshold of 255.         *)
RunLen(s) == LET RECURSIVE Go(_)
                 Go(m) == IF m <= Len(s) /\ s[m] = s[1] THEN Go(m + 1) ELSE m - 1
             IN Go(1)
RECURSIVE Rle(_)
\* runs of >= 6 equal words as <<-1, count, word...>> (a notation, expanded again by the harness)
Rle(s) == IF s = <<>> THEN <<>>
          ELSE LET n == RunLen(s) IN
               IF n >= 6 THEN <<<<-1, n>> \o s[1]>> \o Rle(SubSeq(s, n + 1, Len(s)))
               ELSE <<s[1]>> \o Rle(Tail(s))
Show(x) == [x EXCEPT !.lk = Rle(x.lk)]

FirstTripOnly == trip = 1            \* REPLAY configs: nothing to print on the second trip
EmitCase == Done1 => PrintT(<<"REPLAY", ToJson([f |-> Show(orig), want |-> Show(g)])>>)
=============================================================================
