SPECIFICATION TSpec
CONSTANTS
  MaxHn = 63
  Bug = ""
  Alphabet <- NoNodes
  MaxLen = 0
  LH = 1
  RH = 1
  Devs <- NoDevs
POSTCONDITION TraceAccepted
CHECK_DEADLOCK FALSE
