SPECIFICATION CSpec
CONSTANTS
  Letters = {97, 98}
  MaxRules = 4
  Ops = {0, 1, 2, 3}
  Bug = ""
  Deviations = {}
INVARIANTS TableIsRepl LeftoverIsLoop Conservation
CHECK_DEADLOCK FALSE
