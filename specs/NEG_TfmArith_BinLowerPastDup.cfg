SPECIFICATION Spec
CONSTANTS
  Bug = "BinLowerPastDup"
  Lo <- LoQuick
  Hi = 5
  MaxN = 5
INVARIANTS GreedyIsOptimal Monotone NextD Least MeetContract Tight
CHECK_DEADLOCK FALSE
