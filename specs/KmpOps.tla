------------------------------ MODULE KmpOps ------------------------------
(* Streaming substring matcher (texcraft-stdext algorithms::substringsearch), *)
(* used by macro parameter matching (C02) to find delimiters.               *)
(*                                                                          *)
(* Reference layer: MatchEnds(p, t) -- the positions i of t at which an     *)
(* occurrence of p ends (overlaps included).                                *)
(* Implementation layer: the prefix function built by Matcher::new and the  *)
(* state q of Search::next, fed one character at a time.                    *)
EXTENDS Naturals, Sequences, FiniteSets

CONSTANT KmpBug   \* "" or a seeded design mutant of the matcher (negative controls)

------------------------------------------------------------------------------
(* reference *)
SuffixOf(s, t) == Len(s) <= Len(t) /\ SubSeq(t, Len(t) - Len(s) + 1, Len(t)) = s
Prefix(p, n) == SubSeq(p, 1, n)

MatchEnds(p, t) == { i \in 1..Len(t) : i >= Len(p) /\ SubSeq(t, i - Len(p) + 1, i) = p }

\* longest proper border of p[1..n]
Border(p, n) == CHOOSE k \in 0..(n - 1) :
                  /\ Prefix(p, k) = SubSeq(p, n - k + 1, n)
                  /\ \A j \in (k + 1)..(n - 1) : Prefix(p, j) # SubSeq(p, n - j + 1, n)

\* longest prefix of p, shorter than p, that is a suffix of t
Overlap(p, t) == CHOOSE k \in 0..(Len(p) - 1) :
                   /\ SuffixOf(Prefix(p, k), t)
                   /\ \A j \in (k + 1)..(Len(p) - 1) : ~SuffixOf(Prefix(p, j), t)

------------------------------------------------------------------------------
(* implementation: Matcher::new.  pf[i] is prefix_fn[i-1] of the Rust code *)
RECURSIVE FallNew(_, _, _, _)
FallNew(p, pf, k, i) == IF k > 0 /\ p[k + 1] # p[i] THEN FallNew(p, pf, pf[k], i) ELSE k

RECURSIVE Build(_, _, _, _)
Build(p, pf, k, i) ==       \* i = 1-based index of the character being added
  IF i > Len(p) THEN pf
  ELSE LET k1 == FallNew(p, pf, k, i)
           k2 == IF p[k1 + 1] = p[i] THEN k1 + 1 ELSE k1
       IN Build(p, Append(pf, k2), k2, i + 1)

PrefixFn(p) == Build(p, <<0>>, 0, 2)

(* Search::next *)
RECURSIVE Fall(_, _, _, _)
Fall(p, pf, q, c) == IF q > 0 /\ p[q + 1] # c
                     THEN Fall(p, pf, IF KmpBug = "FallbackQ" THEN (IF q > 1 THEN pf[q - 1] ELSE 0) ELSE pf[q], c)
                     ELSE q

StepQ(p, pf, q, c) ==
  LET q1 == Fall(p, pf, q, c)
      q2 == IF p[q1 + 1] = c THEN q1 + 1 ELSE q1
  IN IF q2 = Len(p) THEN [q |-> IF KmpBug = "NoOverlap" THEN 0 ELSE pf[q2], hit |-> TRUE]
                    ELSE [q |-> q2, hit |-> FALSE]

------------------------------------------------------------------------------
=============================================================================
