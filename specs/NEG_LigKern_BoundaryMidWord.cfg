SPECIFICATION Spec
CONSTANTS
  Letters = {97, 98}
  MaxRules = 2
  MaxLen = 3
  Ops = {0, 128}
  StopAtHit = TRUE
  CheckFlags = TRUE
  Bug = "BoundaryMidWord"
  Deviations = {}
INVARIANTS Spelling RefinesCursor NoHitIfDone HitIfBound PairExact LoopReportExact
CHECK_DEADLOCK FALSE
