----------------------------- MODULE ScopedMap -----------------------------
(***************************************************************************)
(* The scoped ("grouping") map behind TeX grouping.                        *)
(*                                                                         *)
(* Two layers, checked against each other by TLC:                          *)
(*                                                                         *)
(*  reference layer       val, snaps : TeX's meaning.  A group is a full   *)
(*                        snapshot of every value; a global insert writes  *)
(*                        through every snapshot.                          *)
(*  implementation layer  ival, saves : what groupingmap.rs does.  One     *)
(*                        partial map per open group holding an            *)
(*                        end-of-group action (Delete / Revert(v)) for the *)
(*                        keys first touched in that group; a global       *)
(*                        insert purges the key from every group.          *)
(*                                                                         *)
(* Rebuild models iter_all() followed by collect(): it must be a           *)
(* stuttering step of the reference layer.                                 *)
(*                                                                         *)
(* Used by C20 (bound directly to GroupingHashMap / GroupingVec) and, via  *)
(* TexGroups, by C01 and C08.                                              *)
(***************************************************************************)
EXTENDS Integers, Sequences, FiniteSets

CONSTANTS Keys,      \* a finite set of naturals 1..n
          Vals,      \* a finite set of positive naturals
          MapKeys,   \* keys with map semantics: value None = key absent (Delete actions);
                     \* for the other keys None is an ordinary value (TeX variables)
          MaxDepth,  \* bound on open groups (state constraint of the model)
          Bug        \* "" or the name of a seeded design mutant (negative controls)

None  == 0           \* key absent
NoAct == -1          \* no end-of-group action recorded for the key in that group
Del   == -2          \* EndOfGroupAction::Delete ; Revert(v) is represented by v itself

VARIABLES val, snaps, ival, saves, op

vars == <<val, snaps, ival, saves, op>>
Depth == Len(snaps)

Values == [Keys -> Vals \cup {None}]
Group  == [Keys -> Vals \cup {NoAct, Del}]

EmptyVal   == [k \in Keys |-> None]
EmptyGroup == [k \in Keys |-> NoAct]

TypeOK == /\ val \in Values /\ ival \in Values
          /\ snaps \in Seq(Values) /\ saves \in Seq(Group)
          /\ Len(snaps) = Len(saves)

---------------------------------------------------------------------------
(* Implementation layer as pure operators on a record [iv, sv].            *)

IBegin(s) == [iv |-> s.iv, sv |-> Append(s.sv, EmptyGroup)]

Undo(iv, g) == [k \in Keys |-> IF g[k] = NoAct THEN iv[k]
                               ELSE IF g[k] = Del THEN None ELSE g[k]]

IEnd(s) == LET n == Len(s.sv) IN
           [iv |-> Undo(s.iv, s.sv[n]), sv |-> SubSeq(s.sv, 1, n - 1)]

ILocal(s, k, v) ==
  LET n == Len(s.sv) IN
  IF n = 0 THEN [iv |-> [s.iv EXCEPT ![k] = v], sv |-> s.sv]
  ELSE IF s.iv[k] = None /\ k \in MapKeys
       THEN \* (None, Some(group)): group.insert(key, Delete)
            [iv |-> [s.iv EXCEPT ![k] = v], sv |-> [s.sv EXCEPT ![n][k] = Del]]
       ELSE \* (Some, Some(group)): save the old value only if the entry is vacant
            [iv |-> [s.iv EXCEPT ![k] = v],
             sv |-> [s.sv EXCEPT ![n][k] =
                        IF @ = NoAct \/ Bug = "SaveAlways" THEN s.iv[k] ELSE @]]

IGlobal(s, k, v) ==
  [iv |-> [s.iv EXCEPT ![k] = v],
   sv |-> [i \in 1..Len(s.sv) |->
             IF Bug = "PurgeOnlyOuter" /\ i > 1 THEN s.sv[i]
             ELSE [s.sv[i] EXCEPT ![k] = NoAct]]]

(* Value function visible at nesting level i (0 = global level) of state s. *)
RECURSIVE Vis(_, _)
Vis(s, i) == IF i = Len(s.sv) THEN s.iv ELSE Undo(Vis(s, i + 1), s.sv[i + 1])

(* iter_all(): global-level values of the visible keys first, then for     *)
(* each group (outermost first) a BeginGroup and one local insert per key  *)
(* with an end-of-group action, carrying the value visible at that level.  *)
(* collect() replays these with local inserts into an empty container.     *)
RECURSIVE InsertAll(_, _, _, _)
InsertAll(s, ks, f, touched) ==
  IF ks = {} THEN s
  ELSE LET k == CHOOSE x \in ks : TRUE IN
       InsertAll(IF touched[k] THEN ILocal(s, k, f[k]) ELSE s, ks \ {k}, f, touched)

RECURSIVE ReplayGroups(_, _, _)
ReplayGroups(acc, s, i) ==
  IF i > Len(s.sv) THEN acc
  ELSE ReplayGroups(
         InsertAll(IBegin(acc), Keys, Vis(s, i), [k \in Keys |-> s.sv[i][k] # NoAct]),
         s, i + 1)

IRebuild(s) ==
  LET g0 == IF Bug = "IterAllVisible" THEN s.iv ELSE Vis(s, 0)
      base == InsertAll([iv |-> EmptyVal, sv |-> <<>>], Keys, g0,
                        [k \in Keys |-> g0[k] # None /\ s.iv[k] # None])
  IN ReplayGroups(base, s, 1)

(* Rebuild only the keys in ks (the others are carried over unchanged):    *)
(* used by TexGroups, where only command-map keys are serialised through   *)
(* iter_all.  Keys are independent in the replay, so this is a projection. *)
IRebuildKeys(s, ks) ==
  LET r == IRebuild(s) IN
  [iv |-> [k \in Keys |-> IF k \in ks THEN r.iv[k] ELSE s.iv[k]],
   sv |-> [i \in 1..Len(s.sv) |-> [k \in Keys |-> IF k \in ks THEN r.sv[i][k] ELSE s.sv[i][k]]]]

---------------------------------------------------------------------------
(* Actions: both layers move together.                                     *)

Impl == [iv |-> ival, sv |-> saves]
SetImpl(s) == ival' = s.iv /\ saves' = s.sv

Init == /\ val = EmptyVal /\ snaps = <<>> /\ ival = EmptyVal /\ saves = <<>>
        /\ op = [k |-> "init"]

Begin == /\ snaps' = Append(snaps, val) /\ UNCHANGED val
         /\ SetImpl(IBegin(Impl))
         /\ op' = [k |-> "begin", res |-> TRUE]

End == /\ Depth > 0
       /\ val' = snaps[Depth] /\ snaps' = SubSeq(snaps, 1, Depth - 1)
       /\ SetImpl(IEnd(Impl))
       /\ op' = [k |-> "end", res |-> TRUE]

EndErr == /\ Depth = 0           \* end_group with no group open: error, no change
          /\ UNCHANGED <<val, snaps, ival, saves>>
          /\ op' = [k |-> "end", res |-> FALSE]

Local(k, v) == /\ val' = [val EXCEPT ![k] = v] /\ UNCHANGED snaps
               /\ SetImpl(ILocal(Impl, k, v))
               /\ op' = [k |-> "local", key |-> k, v |-> v, res |-> (val[k] # None)]

Global(k, v) == /\ val' = [val EXCEPT ![k] = v]
                /\ snaps' = [i \in 1..Depth |-> [snaps[i] EXCEPT ![k] = v]]
                /\ SetImpl(IGlobal(Impl, k, v))
                /\ op' = [k |-> "global", key |-> k, v |-> v, res |-> (val[k] # None)]

Rebuild == /\ UNCHANGED <<val, snaps>>     \* stuttering step of the reference layer
           /\ SetImpl(IRebuild(Impl))
           /\ op' = [k |-> "rebuild", res |-> TRUE]

Next == \/ Begin \/ End \/ EndErr \/ Rebuild
        \/ \E k \in Keys, v \in Vals : Local(k, v) \/ Global(k, v)

Spec == Init /\ [][Next]_vars

---------------------------------------------------------------------------
(* Properties of the design.                                               *)

Refines == ival = val
UnwindAgree == \A i \in 0..(Depth - 1) : Vis(Impl, i) = snaps[i + 1]

(* iter_all relies on it: a key with a Delete action in group i is absent  *)
(* at level i-1, and a key absent now has no pending action anywhere.      *)
SaveShape == \A i \in 1..Depth : \A k \in Keys :
               /\ saves[i][k] = Del => Vis(Impl, i - 1)[k] = None
               /\ saves[i][k] # NoAct => Vis(Impl, i)[k] # None

DepthBound == Depth <= MaxDepth
View == <<val, snaps, ival, saves>>
=============================================================================
