SPECIFICATION SpecCalls
CONSTANTS
  Bug = ""
  N0 = 0
  N1 = 0
  N2 = 0
  L1 = 0
  L2 = 0
  MaxArgs = 2
  Fns = {"chars", "glue", "rule", "disc", "lig", "hbox", "insertion", "math", "mark", "kern", "penalty", "vbox", "adjust"}
  Rich = FALSE
  TextLen = 0
  Chars = {}
  IntParts = {}
  Sample = 3
  HiStep = 1
INVARIANTS EmitCall
CHECK_DEADLOCK FALSE
