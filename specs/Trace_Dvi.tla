----------------------------- MODULE Trace_Dvi -----------------------------
(* Binding T for transforms::VarRemover and dvi::Values.  One trace = one op  *)
(* stream pushed through the real VarRemover: a `reset`, then one event per   *)
(* op with the input op, the op the remover produced for it and the registers *)
(* dvi::Values reports after the input op, then an `end` event with the       *)
(* lengths of both streams.  The trace is accepted iff                        *)
(*   - the output op is not a w/x/y/z command,                                *)
(*   - an input op that is not a w/x/y/z command is passed through unchanged, *)
(*   - the reference machine run on the output stream is, after every op, at  *)
(*     the same page position with the same font as the reference machine run *)
(*     on the input stream (so every character and rule keeps its place),     *)
(*     on the current level and on every stacked level,                       *)
(*   - dvi::Values agrees with the reference machine on h, v, w, x, y, z (and *)
(*     on f wherever DVI defines f: after a bop f is undefined until fnt),    *)
(*   - both streams have the same length.                                     *)
(* A `panic` event is matched by no action.  What the remover must output is  *)
(* not looked up from Out(): only the property's statement is demanded here   *)
(* (the op-for-op form is demanded by the table walk, binding R).             *)
EXTENDS Dvi, TLC, Json, IOUtils

Rec == ndJsonDeserialize(IOEnv.TRACE)

VARIABLE l
tvars == <<a, t, b, n, op, l>>

E == Rec[l]

FontOK(want, got) == want = Undef \/ want = got
ValOK(m, val) ==
  /\ val.h = m.top.h /\ val.v = m.top.v
  /\ val.vars = <<m.top.vars[0], m.top.vars[1], m.top.vars[2], m.top.vars[3]>>
  /\ Len(val.cs) = Len(m.top.cs)
  /\ \A i \in 1..Len(val.cs) : val.cs[i][1] = m.top.cs[i][1] /\ FontOK(m.top.cs[i][2], val.cs[i][2])
  /\ FontOK(m.f, val.f)

TInit == Init /\ l = 1

TReset == /\ E.ev = "reset"
          /\ a' = M0 /\ t' = T0 /\ b' = M0 /\ n' = 0
          /\ op' = [o |-> [k |-> "init"], res |-> [k |-> "init"]]

TOp == /\ E.ev = "op"
       /\ a' = Step(a, E.in)
       /\ t' = Track(t, E.in)
       /\ b' = Step(b, E.out)
       /\ n' = n + 1
       /\ op' = [o |-> E.in, res |-> E.out]
       /\ ~IsVarOp(E.out)
       /\ IsVarOp(E.in) \/ E.out = E.in
       /\ Place(a') = Place(b')
       /\ Len(a'.stack) = Len(b'.stack)
       /\ \A i \in 1..Len(a'.stack) : PlaceOfFrame(a'.stack[i]) = PlaceOfFrame(b'.stack[i])
       /\ ValOK(a', E.val)

TEnd == /\ E.ev = "end"
        /\ E.nin = n /\ E.nout = n
        /\ UNCHANGED <<a, t, b, n, op>>

TStep == /\ l <= Len(Rec)
         /\ l' = l + 1
         /\ (TReset \/ TOp \/ TEnd)

TSpec == TInit /\ [][TStep]_tvars

Matched == TLCGet("stats").diameter - 1
TraceAccepted == \/ Matched = Len(Rec)
                 \/ PrintT(<<"MATCHED", Matched>>) /\ FALSE
=============================================================================
