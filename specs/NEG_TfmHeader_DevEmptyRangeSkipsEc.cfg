SPECIFICATION Spec
CONSTANTS
  MaxOverrides = 2
  ValsAt <- ValsAtQuick
  Bases <- BasesQuick
  Lens <- LensQuick
  ImplDeviations = {"EmptyRangeSkipsEc"}
  ImplBug = ""
INVARIANTS ImplAgrees
CHECK_DEADLOCK FALSE
