-------------------------------- MODULE Tags --------------------------------
(* Command tags (texlang::command::Tag / StaticTag).                         *)
(*                                                                           *)
(* Tag::new takes a global mutex, reads the counter, writes counter + 1 and  *)
(* releases the mutex.  Each of these is a separate step so that TLC         *)
(* explores every interleaving; with UseLock = FALSE (negative control) two  *)
(* threads can read the same counter value.                                  *)
(* StaticTag::get is a once-cell around Tag::new: exactly one caller runs    *)
(* the initialiser, everyone returns the stored tag.                         *)
EXTENDS Naturals, Sequences, FiniteSets

CONSTANTS Threads, N, UseLock

VARIABLES next,      \* NEXT_TAG_VALUE
          lock,      \* 0 = free, else the holder
          pc, tmp, cnt,
          issued,    \* sequence of <<thread, value>> in issue order (history variable)
          once,      \* 0 = unset, -1 = being initialised ... modelled as "init" owner below
          owner,     \* thread running the once-initialiser, 0 if none
          got        \* got[t] = sequence of values StaticTag::get returned to t

vars == <<next, lock, pc, tmp, cnt, issued, once, owner, got>>

Init == /\ next = 1 /\ lock = 0
        /\ pc = [t \in Threads |-> "static1"]
        /\ tmp = [t \in Threads |-> 0]
        /\ cnt = [t \in Threads |-> 0]
        /\ issued = <<>> /\ once = 0 /\ owner = 0
        /\ got = [t \in Threads |-> <<>>]

\* ---- Tag::new, entered from "acq" and returning to ret[t] -----------------------------
Acquire(t) == /\ pc[t] \in {"acq", "sacq"}
              /\ IF UseLock THEN lock = 0 /\ lock' = t ELSE UNCHANGED lock
              /\ pc' = [pc EXCEPT ![t] = IF pc[t] = "acq" THEN "rd" ELSE "srd"]
              /\ UNCHANGED <<next, tmp, cnt, issued, once, owner, got>>

Read(t) == /\ pc[t] \in {"rd", "srd"}
           /\ tmp' = [tmp EXCEPT ![t] = next]
           /\ pc' = [pc EXCEPT ![t] = IF pc[t] = "rd" THEN "wr" ELSE "swr"]
           /\ UNCHANGED <<next, lock, cnt, issued, once, owner, got>>

Write(t) == /\ pc[t] \in {"wr", "swr"}
            /\ next' = tmp[t] + 1
            /\ pc' = [pc EXCEPT ![t] = IF pc[t] = "wr" THEN "rel" ELSE "srel"]
            /\ UNCHANGED <<lock, tmp, cnt, issued, once, owner, got>>

Release(t) == /\ pc[t] = "rel"
              /\ IF UseLock THEN lock' = 0 ELSE UNCHANGED lock
              /\ issued' = Append(issued, <<t, tmp[t]>>)
              /\ cnt' = [cnt EXCEPT ![t] = @ + 1]
              /\ pc' = [pc EXCEPT ![t] = IF cnt[t] + 1 < N THEN "acq" ELSE "static2"]
              /\ UNCHANGED <<next, tmp, once, owner, got>>

\* the once-initialiser's Tag::new
SRelease(t) == /\ pc[t] = "srel"
               /\ IF UseLock THEN lock' = 0 ELSE UNCHANGED lock
               /\ issued' = Append(issued, <<t, tmp[t]>>)
               /\ once' = tmp[t] /\ owner' = 0
               /\ pc' = [pc EXCEPT ![t] = "sret"]
               /\ UNCHANGED <<next, tmp, cnt, got>>

\* ---- StaticTag::get --------------------------------------------------------------------
StaticGet(t) == /\ pc[t] \in {"static1", "static2"}
                /\ \/ /\ once # 0                     \* already initialised: return it
                      /\ got' = [got EXCEPT ![t] = Append(@, once)]
                      /\ pc' = [pc EXCEPT ![t] = IF pc[t] = "static1" THEN "acq" ELSE "done"]
                      /\ UNCHANGED <<owner, tmp>>
                   \/ /\ once = 0 /\ owner = 0        \* this caller runs the initialiser
                      /\ owner' = t
                      /\ tmp' = [tmp EXCEPT ![t] = IF pc[t] = "static1" THEN 1 ELSE 2]
                      /\ pc' = [pc EXCEPT ![t] = "sacq"]
                      /\ UNCHANGED got
                /\ UNCHANGED <<next, lock, cnt, issued, once>>

\* after initialising, deliver the value and continue where get() was called from.
\* (tmp was overwritten by Tag::new, so the call site is recovered from cnt.)
SReturn(t) == /\ pc[t] = "sret"
              /\ got' = [got EXCEPT ![t] = Append(@, once)]
              /\ pc' = [pc EXCEPT ![t] = IF cnt[t] = 0 THEN "acq" ELSE "done"]
              /\ UNCHANGED <<next, lock, tmp, cnt, issued, once, owner>>

Next == \E t \in Threads : \/ Acquire(t) \/ Read(t) \/ Write(t) \/ Release(t)
                           \/ SRelease(t) \/ StaticGet(t) \/ SReturn(t)

Spec == Init /\ [][Next]_vars /\ WF_vars(Next)

\* every tag handed out (including the static tag's) is distinct from every other one
Distinct == \A i, j \in 1..Len(issued) : issued[i][2] = issued[j][2] => i = j
\* a static tag resolves to a single value
StaticSingle == \A s, t \in Threads : \A i \in 1..Len(got[s]) : \A j \in 1..Len(got[t]) :
                   got[s][i] = got[t][j]
MutexOK == UseLock => Cardinality({t \in Threads : pc[t] \in {"rd", "wr", "rel", "srd", "swr", "srel"}}) <= 1
AllDone == <>(\A t \in Threads : pc[t] = "done")
=============================================================================
