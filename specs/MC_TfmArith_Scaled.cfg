SPECIFICATION Spec
CONSTANTS
  Bug = ""
INVARIANTS MatchesExact Rejects Continuous Identities
CHECK_DEADLOCK FALSE
