----------------------------- MODULE MC_BoxLang -----------------------------
(***************************************************************************)
(* TLC models of BoxLang.tla.  One variable x; each model is a tree of     *)
(* states (the thing under construction grows by one element per step) so  *)
(* that TLC's workers share the enumeration.  The cfg picks the model      *)
(* through SPECIFICATION and INVARIANTS.                                   *)
(*                                                                         *)
(*  SpecLists   every list over a node alphabet, nesting depth 0..2        *)
(*              invariants: InvRoundTrip (both printers), InvPrintInMode,  *)
(*              InvWellFormed, InvRoundTripD; InvTextRoundTrip (the whole  *)
(*              way through Render and Lex; its own, smaller cfg)          *)
(*  SpecCalls   every call f(args) with up to MaxArgs arguments over a     *)
(*              value / keyword alphabet (wrong types, near misses,        *)
(*              unknown keywords, duplicates, too many, nested lists with  *)
(*              errors), in every list mode                                *)
(*              invariants: InvCallTotal, InvNormalForm, InvModeDiscipline,*)
(*              InvBindingIsFunction, InvOkMeansEachParameterOnce,         *)
(*              InvPositionalFirst, InvRenderReads, InvFormat              *)
(*  SpecText    every text over a character alphabet up to TextLen         *)
(*              invariants: InvLexTotal, InvRelex, InvReadRender,          *)
(*              InvCommentsAreBlank, InvFormatText                         *)
(*  SpecNums    every 16-bit fraction x the integer parts IntParts x both  *)
(*              signs, and integers up to +-(2^31-1)                       *)
(*              invariants: InvScanPrint, InvUnitsAsInTeX                  *)
(*  SpecStr     every string over awkward characters up to TextLen         *)
(*              invariant: InvStrRoundTrip (three escape styles)           *)
(* REPLAY_*.cfg add an invariant that prints one replay case per state     *)
(* (binding R).                                                            *)
(***************************************************************************)
EXTENDS BoxLang, TLC, Json

CONSTANTS N0, N1, N2,      \* lists: longest list whose deepest node has nesting depth 0 / 1 / 2
          L1, L2,          \* lists: longest content list of a depth-1 / depth-2 container
          MaxArgs,         \* calls: most arguments of a call
          Fns,             \* calls: the functions called
          Rich,            \* calls: TRUE = the larger value alphabet
          TextLen, Chars,  \* text: longest text, its alphabet (code points)
          IntParts,        \* nums: integer parts combined with every fraction
          Sample,          \* replay: one case in Sample is printed (1 = all)
          HiStep           \* numbers: every HiStep-th block of 256 fractions (1 = every 16-bit fraction)

VARIABLE x

---------------------------------------------------------------------------
(* lists *)
Ch(c, fnt) == [k |-> "char", c |-> c, f |-> fnt]
Gl(w, st, sto, sh, sho) == [k |-> "glue", w |-> w, st |-> st, sto |-> sto, sh |-> sh, sho |-> sho]
Kn(w) == [k |-> "kern", w |-> w]
Ru(h, w, d) == [k |-> "rule", h |-> h, w |-> w, d |-> d]
Lg == [k |-> "lig", c |-> 64259, orig |-> <<102, 102, 105>>, f |-> 1, lb |-> FALSE, rb |-> TRUE]
Mk == [k |-> "mark"]
Ma(b) == [k |-> "math", after |-> b]
Pn(v) == [k |-> "penalty", v |-> v]
HB(var, l) == IF var = 0 THEN [k |-> "hbox", h |-> 0, w |-> 0, d |-> 0, s |-> 0, gr |-> 0, go |-> 0, list |-> l]
              ELSE [k |-> "hbox", h |-> 1, w |-> 2, d |-> 3, s |-> -4, gr |-> 32768, go |-> 2, list |-> l]
\* a shrinking box: the glue ratio is negative
HBneg == [k |-> "hbox", h |-> 0, w |-> 65536, d |-> 0, s |-> 0, gr |-> -21845, go |-> 1, list |-> <<>>]
VB(var, l) == IF var = 0 THEN [k |-> "vbox", h |-> 0, w |-> 0, d |-> 0, s |-> 0, list |-> l]
              ELSE [k |-> "vbox", h |-> 5, w |-> 6, d |-> 7, s |-> 8, list |-> l]
Dc(pre, post, n) == [k |-> "disc", pre |-> pre, post |-> post, n |-> n]
Ad(l) == [k |-> "adjust", list |-> l]
In(var, l) == IF var = 0 THEN [k |-> "ins", box |-> 0, h |-> 0, smd |-> 0, tw |-> 0, tst |-> 0, tsto |-> 0,
                               tsh |-> 0, tsho |-> 0, fp |-> 0, list |-> l]
              ELSE [k |-> "ins", box |-> 255, h |-> 1, smd |-> 2, tw |-> 3, tst |-> 4, tsto |-> 3,
                    tsh |-> 5, tsho |-> 1, fp |-> -1, list |-> l]

ListsUpTo(S, n) == UNION {[1..j -> S] : j \in 0..n}

Common0 == {Kn(-65536), Ru(1, 2, 3), Ru(Running, 2, Running)}
HV0 == {Gl(0, 0, 0, 0, 0), Gl(1, 2, 1, -3, 3), Pn(-10000), Mk, Ma(FALSE), Ma(TRUE)}
Chars0 == {Ch(97, 0), Ch(98, 0), Ch(97, 7)}
H0 == Common0 \cup HV0 \cup Chars0 \cup {Lg}
V0 == Common0 \cup HV0
D0 == Common0 \cup Chars0 \cup {Lg}

Boxes(HS, VS, n) == {HBneg} \cup {HB(var, l) : var \in {0, 1}, l \in ListsUpTo(HS, n)}
                    \cup {VB(var, l) : var \in {0, 1}, l \in ListsUpTo(VS, n)}
Inserts(VS, n) == {In(var, l) : var \in {0, 1}, l \in ListsUpTo(VS, n)}
\* discretionaries: both lists vary at depth 1; deeper, one of them is empty
Discs1(DS) == {Dc(pre, post, n) : pre \in ListsUpTo(DS, 1), post \in ListsUpTo(DS, 1), n \in {0, 2}}
Discs2(DS) == {Dc(pre, <<>>, 0) : pre \in ListsUpTo(DS, 1)} \cup {Dc(<<>>, post, 1) : post \in ListsUpTo(DS, 1)}

H1 == H0 \cup Boxes(H0, V0, L1) \cup Inserts(V0, L1) \cup Discs1(D0) \cup {Ad(l) : l \in ListsUpTo(V0, L1)}
V1 == V0 \cup Boxes(H0, V0, L1) \cup Inserts(V0, L1)
D1 == D0 \cup Boxes(H0, V0, L1)
H2 == Boxes(H1 \ H0, V1 \ V0, L2) \cup Inserts(V1 \ V0, L2) \cup Discs2(D1 \ D0) \cup {Ad(l) : l \in ListsUpTo(V1 \ V0, L2)}
V2 == Boxes(H1 \ H0, V1 \ V0, L2) \cup Inserts(V1 \ V0, L2)

NodesOf(m, d) == IF m = "h" THEN (IF d = 0 THEN H0 ELSE IF d = 1 THEN H1 \ H0 ELSE H2)
                 ELSE (IF d = 0 THEN V0 ELSE IF d = 1 THEN V1 \ V0 ELSE V2)
Cap(d) == IF d = 0 THEN N0 ELSE IF d = 1 THEN N1 ELSE N2
Max2(a, b) == IF a > b THEN a ELSE b

InitLists == \E m \in {"h", "v"} : x = [m |-> m, l |-> <<>>, dp |-> 0]
NextLists == \E d \in 0..2 : /\ Len(x.l) + 1 <= Cap(Max2(d, x.dp))
                             /\ \E nd \in NodesOf(x.m, d) :
                                   x' = [m |-> x.m, l |-> Append(x.l, nd), dp |-> Max2(d, x.dp)]
SpecLists == InitLists /\ [][NextLists]_x

InvWellFormed  == WellFormed(x.m, x.l)
InvRoundTrip   == RoundTrip(x.m, "vec", x.l) /\ RoundTrip(x.m, "elem", x.l)
InvPrintInMode == PrintInMode(x.m, x.l)
InvTextRoundTrip == TextRoundTrip(x.m, "vec", x.l, Len(x.l) % 4)
\* negative control: with the recorded deviation of the printer the round trip fails
InvRoundTripDevRatioSign == FromProg(x.m, ToCalls(x.m, "vec", x.l, {DevRatioSign})).list = x.l
\* discretionary lists are exercised as the lists of a disc node; directly too:
InvRoundTripD  == x.m = "h" => \A i \in 1..Len(x.l) : x.l[i].k = "disc" => RoundTrip("d", "vec", x.l[i].pre)

EmitList == (Len(x.l) <= 1 /\ x.dp = 0) \/ PrintT(<<"REPLAY", ToJson([t |-> "list", m |-> x.m, list |-> x.l,
                                       calls |-> ToCalls(x.m, "vec", x.l, {})])>>)

---------------------------------------------------------------------------
(* calls *)
Bogus == <<122>>                                  \* the name z: no function, no parameter
KernCall == Call(CP.kern, <<Arg(<<>>, VDim(65536))>>)
\* (84 114 117 101 = "True": a near miss of a special string)
ValsBase == {VInt(3), VDim(5), VInf(-7, 2), VStr(<<97>>), VStr(<<97, 98>>), VStr(CP.true), VStr(<<84, 114, 117, 101>>),
             VList(<<>>), VList(<<KernCall>>), VList(<<Call(Bogus, <<>>)>>)}
ValsRich == ValsBase \cup {VInt(-1), VInt(300), VDim(0), VStr(<<>>), VStr(CP.running), VStr(CP.fill), VStr(CP.after),
                           VStr(<<45, 48, 46, 53>>),                                    \* "-0.5"
                           VStr(<<70, 105, 108>>), VStr(CP.running \o <<32>>), VStr(<<49, 101, 51>>),   \* "Fil" "running " "1e3"
                           VList(<<Call(CP.glue, <<>>)>>), VList(<<Call(CP.chars, <<Arg(<<>>, VStr(<<97, 98>>))>>)>>),
                           VList(<<KernCall, Call(CP.kern, <<Arg(CP.width, VInt(1))>>)>>)}
Vals == IF Rich THEN ValsRich ELSE ValsBase
KeysOf(fn) == {<<>>, Bogus} \cup {CP[Sig[fn][i].n] : i \in 1..Len(Sig[fn])}
ArgsOf(fn) == {Arg(key, v) : key \in KeysOf(fn), v \in Vals}
CapArgs(fn) == IF Len(Sig[fn]) <= 3 THEN MaxArgs ELSE MaxArgs - 1

InitCalls == \E fn \in Fns, m \in {"h", "v", "d"} : x = [m |-> m, f |-> fn, c |-> Call(CP[fn], <<>>)]
NextCalls == /\ x.m = "h" /\ Len(x.c.args) < CapArgs(x.f)
             /\ \E a \in ArgsOf(x.f) : x' = [x EXCEPT !.c.args = Append(@, a)]
SpecCalls == InitCalls /\ [][NextCalls]_x

Prog == <<x.c>>
Res  == FromProg(x.m, Prog)
InvCallTotal  == CallTotal(x.m, Prog)
InvNormalForm == NormalForm(x.m, Prog)
\* an unknown or misplaced function is exactly one NoSuchFunction error
InvModeDiscipline == (x.m \notin FnModes[x.f]) => Res = [list |-> <<>>, errs |-> <<AErr("NoSuchFunction", CP[x.f], <<>>, "")>>]

\* The binding rule is a function of the assignment, not of its presentation: keyword arguments
\* in any order, trailing positional arguments turned into keyword arguments, arguments that
\* repeat the default left out -- all denote the same list.
Perms(n) == {f \in [1..n -> 1..n] : \A i, j \in 1..n : f[i] = f[j] => i = j}
NumPositional(args) == Cardinality({i \in 1..Len(args) : args[i].key = <<>>})
IsDefault(fn, a) ==
  LET k == ParamIdx(fn, a.key) IN
  k # 0 /\ (IF IsListTy(Sig[fn][k].ty) THEN a.v.t = "list" /\ a.v.p = <<>>
            ELSE CastScalar(Sig[fn][k].ty, a.v).ok /\ CastScalar(Sig[fn][k].ty, a.v).val = Default(Sig[fn][k].ty))
Presentations(fn, args) ==
  LET np == NumPositional(args)
      kws == SubSeq(args, np + 1, Len(args))
      tail(j) == [i \in 1..(np - j + 1) |-> Arg(CP[Sig[fn][j + i - 1].n], args[j + i - 1].v)] \o kws
      keep(t) == SelectSeq(t, LAMBDA a : ~IsDefault(fn, a))
  IN UNION { {SubSeq(args, 1, j - 1) \o [i \in 1..Len(tail(j)) |-> tail(j)[pi[i]]] : pi \in Perms(Len(tail(j)))}
             \cup {SubSeq(args, 1, j - 1) \o keep(tail(j))} : j \in 1..(np + 1) }
InvBindingIsFunction ==
  (x.m = "h" /\ Res.errs = <<>>) =>
     \A q \in Presentations(x.f, x.c.args) : FromProg("h", <<Call(x.c.fn, q)>>) = Res
\* no argument is silently lost: a call without errors gives each parameter at most once
InvOkMeansEachParameterOnce ==
  (x.m = "h" /\ Res.errs = <<>>) =>
     /\ Len(x.c.args) <= Len(Sig[x.f])
     /\ \A i, j \in 1..Len(x.c.args) : (i # j /\ x.c.args[i].key # <<>>) => x.c.args[i].key # x.c.args[j].key
     /\ \A i \in 1..Len(x.c.args) : x.c.args[i].key = <<>> => ~\E j \in 1..Len(x.c.args) : x.c.args[j].key = CP[Sig[x.f][i].n]
\* mod.rs: "all positional arguments must be provided before keyword arguments"
InvPositionalFirst ==
  Res.errs = <<>> => \A i, j \in 1..Len(x.c.args) : (x.c.args[i].key # <<>> /\ x.c.args[j].key = <<>>) => j < i
InvRenderReads == x.m = "h" => \A st \in 0..3 : RenderReads(Prog, st)
InvFormat == x.m = "h" => \A st \in 0..3 : FormatLaws(Render(Prog, st)) /\ FormatCanonical(Prog, st)

ValHash(v) == v.n + v.o + Len(v.s) + Len(v.p)
CallHash(c) == Len(c.args) + (IF c.args = <<>> THEN 0 ELSE ValHash(c.args[Len(c.args)].v) + Len(c.args[1].key))
\* a call in a discretionary list is replayed inside disc(pre_break=[...]) (no public entry point parses one)
EmitCall == LET st   == CallHash(x.c) % 4
                prog == IF x.m = "d" THEN <<Call(CP.disc, <<Arg(CP.pre_break, VList(Prog))>>)>> ELSE Prog
                m    == IF x.m = "d" THEN "h" ELSE x.m
            IN (CallHash(x.c) + Len(x.c.fn)) % Sample # 0 \/
               PrintT(<<"REPLAY", ToJson([t |-> "prog", m |-> m, p |-> prog, st |-> st,
                                          text |-> Render(prog, st), want |-> FromProg(m, prog)])>>)

---------------------------------------------------------------------------
(* text *)
InitText == x = <<>>
NextText == Len(x) < TextLen /\ \E c \in Chars : x' = Append(x, c)
SpecText == InitText /\ [][NextText]_x

InvLexTotal == LexWellFormed(x)
\* printing the tokens of a text (one blank between them) and scanning again gives the same tokens
PrintToks(ks, esc) == Flat([i \in 1..Len(ks) |-> <<32>> \o PrintTokVal(TokVal(ks[i]), esc)])
InvRelex == LET ks == NoComments(Lex(x)) IN
            LexOk(ks) => \A esc \in 0..2 :
               LET k2 == Lex(PrintToks(ks, esc)) IN
               Len(k2) = Len(ks) /\ \A i \in 1..Len(ks) : TokVal(k2[i]) = TokVal(ks[i])
\* a text that reads as a program reads as the same program in every layout
InvReadRender == LET r == Read(x) IN r.ok => \A st \in 0..3 : RenderReads(r.p, st)
InvFormatText == FormatLaws(x)
\* a comment put between two tokens never changes what a text reads as
InvCommentsAreBlank ==
  LET ks == Lex(x) IN
  \A i \in 1..(Len(x) + 1) :
     (~\E k \in 1..Len(ks) : ks[k].a < i /\ i < ks[k].b)
       => Read(SubSeq(x, 1, i - 1) \o <<35, 33, 10>> \o SubSeq(x, i, Len(x))) = Read(x)

---------------------------------------------------------------------------
(* numbers *)
\* x = [s, v]: sign and magnitude; a two-level tree so that the workers share the sample
Num == x.s * x.v
InitNums == \E ip \in IntParts, hi \in {h \in 0..255 : h % HiStep = 0}, sgn \in {1, -1} :
              x = [s |-> sgn, v |-> ip * Unity + 256 * hi]
NextNums == x.v % 256 = 0 /\ \E lo \in 1..255 : x' = [x EXCEPT !.v = @ + lo]
SpecNums == InitNums /\ [][NextNums]_x

InvScanPrint ==
  /\ TokenRoundTrip([t |-> "dim", n |-> Num, o |-> 0, s |-> <<>>], 0)
  \* (the order of infinity and the size of the integer rotate with the value: every order and both
  \* integer ranges meet every 16-bit fraction pattern many times over)
  /\ TokenRoundTrip([t |-> "inf", n |-> Num, o |-> 1 + (x.v % 3), s |-> <<>>], 0)
  /\ TokenRoundTrip([t |-> "int", n |-> (IF x.v % 2 = 0 THEN Num ELSE IF Num >= 0 THEN MaxInt - Num ELSE -MaxInt - Num),
                     o |-> 0, s |-> <<>>], 0)
  /\ ScanRatio(PrintScaled(Num)) = [ok |-> TRUE, n |-> Num]
  \* print_scaled never needs more than five digits
  /\ Len(FracDigits(x.v % Unity)) <= 5
  \* the sp form is exact as well
  /\ LET ks == Lex(PrintInt(Num) \o U_sp) IN Len(ks) = 1 /\ ks[1].t = "dim" /\ ks[1].n = Num

\* strings: every string over a small alphabet of awkward characters, in the three escape styles
StrChars == {97, 34, 92, 10, 0, 39, 233, 769, 1114111, 117, 123}
InitStr == x = <<>>
NextStr == Len(x) < TextLen /\ \E c \in StrChars : x' = Append(x, c)
SpecStr == InitStr /\ [][NextStr]_x
InvStrRoundTrip == \A esc \in 0..2 : TokenRoundTrip([t |-> "str", n |-> 0, o |-> 0, s |-> x], esc)

\* TeX's unit table (TeX.2021.458): one unit in scaled points, and a few conversions that were
\* cross-checked against common::Scaled::new
Txt(digits) == [i \in 1..Len(digits) |-> IF digits[i] = -1 THEN 46 ELSE 48 + digits[i]]
InvUnitsAsInTeX ==
  LET val(txt) == Lex(txt)[1].n IN
  /\ val(<<49>> \o U_in) = 4736286 /\ val(<<49>> \o U_cm) = 1864679 /\ val(<<49>> \o U_mm) = 186467
  /\ val(<<49>> \o U_bp) = 65781   /\ val(<<49>> \o U_dd) = 70124   /\ val(<<49>> \o U_cc) = 841489
  /\ val(<<49>> \o U_pc) = 786432  /\ val(<<49>> \o U_pt) = 65536   /\ val(<<49>> \o U_sp) = 1
  /\ val(Txt(<<0, -1, 0, 7, 5>>) \o U_in) = 355207                 \* 0.075in (the example of mod.rs)
  /\ val(Txt(<<2, -1, 5>>) \o U_cc) = 2103722
  /\ val(Txt(<<2, 2, 6, -1, 4, 5>>) \o U_in) = 1072532113
  /\ val(<<45>> \o Txt(<<0, -1, 3, 3, 3, 3, 3, 3, 3, 3, 3, 3, 3, 3, 3, 3, 3, 3, 3, 3, 3, 3, 3, 3>>) \o U_cm) = -621550
  /\ val(Txt(<<1, 6, 3, 8, 3, -1, 9, 9, 9, 9, 9>>) \o U_pt) = MaxDimen
  /\ Lex(Txt(<<1, 6, 3, 8, 3, -1, 9, 9, 9, 9, 9, 9>>) \o U_pt)[1].t = "bad"     \* rounds up to 2^30
  /\ Lex(Txt(<<2, 2, 7, -1, 4, 5>>) \o U_in)[1].errs[1].e = "DimensionOutOfRange"
=============================================================================
