---------------------------- MODULE LigKernSpace ----------------------------
(* The small exhaustive space of lig/kern programs shared by MC_LigKern and   *)
(* LigKernCompile: at most MaxRules rules on distinct pairs (left in Letters  *)
(* + left boundary, right in Letters; kern or a ligature form of Ops          *)
(* inserting a letter), laid out as one SKIP-0 chain per left character.      *)
EXTENDS LigKernImpl
CONSTANTS Letters, MaxRules,
          Ops             \* op bytes the programs may use (ValidOps + KernOp = all)

MaxLetter == CHOOSE x \in Letters : \A y \in Letters : y <= x
MinLetter == CHOOSE x \in Letters : \A y \in Letters : x <= y
Pairs == (Letters \cup {NonChar}) \X Letters
Acts  == (IF KernOp \in Ops THEN {<<KernOp, 0>>} ELSE {}) \cup ((ValidOps \cap Ops) \X Letters)

RECURSIVE SortInts(_)
SortInts(S) == IF S = {} THEN <<>>
               ELSE LET m == CHOOSE x \in S : \A y \in S : x <= y IN <<m>> \o SortInts(S \ {m})

LeftKey(x) == IF x = NonChar THEN -1 ELSE x      \* the boundary's chain comes first

\* rules S (set of pairs) with actions a (function on S): one chain per left character
Layout(S, a, rb) ==
  LET keys  == SortInts({LeftKey(p[1]) : p \in S})
      lefts == [j \in 1..Len(keys) |-> IF keys[j] = -1 THEN NonChar ELSE keys[j]]
      group(l) == LET rs == SortInts({p[2] : p \in {q \in S : q[1] = l}})
                  IN [j \in 1..Len(rs) |-> <<IF j = Len(rs) THEN -1 ELSE 0, rs[j], a[<<l, rs[j]>>][1], a[<<l, rs[j]>>][2]>>]
      RECURSIVE Build(_, _, _, _)
      Build(j, ins, ep, lbe) ==
        IF j > Len(lefts) THEN [ins |-> ins, ep |-> ep, lbe |-> lbe]
        ELSE LET l == lefts[j] IN
             IF l = NonChar THEN Build(j + 1, ins \o group(l), ep, Len(ins))
             ELSE Build(j + 1, ins \o group(l), Append(ep, <<l, Len(ins)>>), lbe)
      b == Build(1, <<>>, <<>>, -1)
  IN [ins |-> [j \in 1..Len(b.ins) |-> IF b.ins[j][3] = KernOp THEN <<b.ins[j][1], b.ins[j][2], KernOp, j>> ELSE b.ins[j]],
      ep |-> b.ep, packed |-> 0, lbe |-> b.lbe, rbc |-> rb]


RuleSets == {S \in SUBSET Pairs : Cardinality(S) <= MaxRules}
=============================================================================
