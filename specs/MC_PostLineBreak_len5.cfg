SPECIFICATION Spec
CONSTANTS
  NodeKinds <- KindsCore
  MaxLen = 5
  Configs <- ConfigsOne
  TexDevs <- NoDevs
  Bug = ""
INVARIANTS Conservation DropsOnlyDiscardables NoDiscardableStart PrunedCompletely Geometry Skips Penalties ParEndLaw MachineIsFunction CodeIsTexPlusDeviations DeviationIsLocal
CHECK_DEADLOCK FALSE
