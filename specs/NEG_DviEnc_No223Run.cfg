SPECIFICATION Spec
CONSTANTS
  FirstOps <- MCFirst
  Followers <- MCFollow
  MaxOps = 2
  Bug = "No223Run"
INVARIANTS RoundTrip TruncationLaw MinimalIsLeast
CHECK_DEADLOCK FALSE
