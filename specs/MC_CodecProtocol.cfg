SPECIFICATION CSpec
CONSTANTS
  Deviations = {}
  ContractBug = ""
INVARIANTS CTypeOK ObligationIsReadable DischargeIsReadable RoundTripHolds
CHECK_DEADLOCK TRUE
