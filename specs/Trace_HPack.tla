----------------------------- MODULE Trace_HPack -----------------------------
(* Binding F: each event is one call of the real boxworks::ds::HBox::pack.    *)
(*   items  the list as hpack reads it (kinds and resolved dimensions)        *)
(*   m, t   "exact" / "additional" and the dimension                          *)
(*   res    the fields of the returned ds::HBox  (w h d s o num den)          *)
(*   panic  [source file, message] instead of res when the call panicked      *)
(* The event is accepted iff res is TeX's box: View(HPackD(items, m, t, {})). *)
(* Otherwise the smallest set D of named deviations with                      *)
(* res = View(HPackD(items, m, t, D)) names the finding (key = the names      *)
(* joined with "+"); if there is none the key is "mismatch".                  *)
EXTENDS HPack, TLC, Json, IOUtils
Rec == ndJsonDeserialize(IOEnv.TRACE)
VARIABLE l

OverflowPanic(e) ==
  /\ e.panic[1] = "crates/common/src/lib.rs"
  /\ e.panic[2] \in {"attempt to add with overflow", "attempt to subtract with overflow",
                     "attempt to negate with overflow"}

\* does the recorded outcome equal the box b of the specification?
Agrees(e, b) ==
  IF "panic" \in DOMAIN e THEN b.ovf /\ OverflowPanic(e)
  ELSE /\ ~b.ovf
       /\ e.res.w = b.w /\ e.res.h = b.h /\ e.res.d = b.d
       /\ e.res.s = 0                                   \* 649: shift_amount(r) := 0
       /\ e.res.o = b.o
       /\ e.res.den # 0
       /\ Reduce(e.res.num, e.res.den) = Reduce(b.rn, b.rd)

\* candidate explanations, smallest first
DevSets == << {DevSwap}, {DevPresence}, {DevOverfull},
              {DevSwap, DevPresence}, {DevSwap, DevOverfull}, {DevPresence, DevOverfull},
              {DevSwap, DevPresence, DevOverfull} >>
DevKeys == << DevSwap, DevPresence, DevOverfull,
              DevSwap \o "+" \o DevPresence, DevSwap \o "+" \o DevOverfull,
              DevPresence \o "+" \o DevOverfull,
              DevSwap \o "+" \o DevPresence \o "+" \o DevOverfull >>

RECURSIVE Explain(_, _)
Explain(e, i) == IF i > Len(DevSets) THEN "mismatch"
                 ELSE IF Agrees(e, HPackD(e.items, e.m, e.t, DevSets[i])) THEN DevKeys[i]
                 ELSE Explain(e, i + 1)

Want(e) == LET b == HPackD(e.items, e.m, e.t, {}) IN
           IF b.ovf THEN [ovf |-> TRUE]
           ELSE [w |-> b.w, h |-> b.h, d |-> b.d, o |-> b.o, sign |-> b.sign, ratio |-> Reduce(b.rn, b.rd)]

TInit == l = 1 /\ list = <<>> /\ tex = Scan0 /\ code = Code0 /\ out = Scanning
TStep == /\ l <= Len(Rec) /\ l' = l + 1 /\ UNCHANGED vars
         /\ LET e == Rec[l] IN
            IF Agrees(e, HPackD(e.items, e.m, e.t, {})) THEN TRUE
            ELSE LET key == Explain(e, 1) IN
                 IF key = "mismatch"
                 THEN PrintT(<<"VERDICT", ToJson([l |-> l, key |-> key, want |-> Want(e)])>>)
                 ELSE PrintT(<<"VERDICT", ToJson([l |-> l, key |-> key])>>)
TSpec == TInit /\ [][TStep]_<<vars, l>>
Matched == TLCGet("stats").diameter - 1
TraceAccepted == \/ Matched = Len(Rec)
                 \/ PrintT(<<"MATCHED", Matched>>) /\ FALSE

NoItems == {}
NoTargets == {}
NoDevs == {}
=============================================================================
