----------------------------- MODULE Trace_HPack -----------------------------
(* Binding F: each event is one call of the real boxworks::ds::HBox::pack.    *)
(*   items  the list as hpack reads it (kinds and resolved dimensions)        *)
(*   m, t   "exact" / "additional" and the dimension                          *)
(*   res    the fields of the returned ds::HBox  (w h d s o num den)          *)
(*   panic  [source file, message] instead of res when the call panicked      *)
(* The event is accepted iff res is TeX's box: View(HPackD(items, m, t, {})). *)
(* Otherwise every set D of named deviations with                             *)
(* res = View(HPackD(items, m, t, D)) is a candidate explanation (keys = the  *)
(* names joined with "+", smallest set first); if there is none the key is    *)
(* "mismatch".  The driver accepts an explanation only if every deviation in  *)
(* it is an open known finding.                                               *)
EXTENDS HPack, TLC, Json, IOUtils
Rec == ndJsonDeserialize(IOEnv.TRACE)
VARIABLE l

OverflowPanic(e) ==
  /\ e.panic[1] = "crates/common/src/lib.rs"
  /\ e.panic[2] \in {"attempt to add with overflow", "attempt to subtract with overflow",
                     "attempt to negate with overflow"}

\* does the recorded outcome equal the box b of the specification?
Agrees(e, b) ==
  IF "panic" \in DOMAIN e THEN b.ovf /\ OverflowPanic(e)
  ELSE /\ ~b.ovf
       /\ e.res.w = b.w /\ e.res.h = b.h /\ e.res.d = b.d
       /\ e.res.s = 0                                   \* 649: shift_amount(r) := 0
       /\ e.res.o = b.o
       /\ e.res.den # 0
       /\ Reduce(e.res.num, e.res.den) = Reduce(b.rn, b.rd)

\* candidate explanations, smallest first
DevSets == << {DevSwap}, {DevPresence}, {DevOverfull},
              {DevSwap, DevPresence}, {DevSwap, DevOverfull}, {DevPresence, DevOverfull},
              {DevSwap, DevPresence, DevOverfull} >>
DevKeys == << DevSwap, DevPresence, DevOverfull,
              DevSwap \o "+" \o DevPresence, DevSwap \o "+" \o DevOverfull,
              DevPresence \o "+" \o DevOverfull,
              DevSwap \o "+" \o DevPresence \o "+" \o DevOverfull >>

\* every candidate that reproduces the recorded outcome exactly (smallest first); <<>> = none
Explain(e) == LET hit == { i \in 1..Len(DevSets) : Agrees(e, HPackD(e.items, e.m, e.t, DevSets[i])) }
              IN [j \in 1..Cardinality(hit) |->
                    DevKeys[CHOOSE i \in hit : Cardinality({k \in hit : k < i}) = j - 1]]

Want(e) == LET b == HPackD(e.items, e.m, e.t, {}) IN
           IF b.ovf THEN [ovf |-> TRUE]
           ELSE [w |-> b.w, h |-> b.h, d |-> b.d, o |-> b.o, sign |-> b.sign, ratio |-> Reduce(b.rn, b.rd)]

---------------------------------------------------------------------------
(* Golden lines: events that carry `tex`, the box real TeX made of the same *)
(* list (the repository's *_want.txt files).  Here the *specification* is   *)
(* on trial: its box must be TeX's, the ratio to the precision TeX prints   *)
(* (186: round(unity * g) as a scaled number, sign-less in the goldens).    *)
RECURSIVE FracBits(_, _, _, _)     \* k more binary digits of b / d  (0 <= b < d < 2^30)
FracBits(b, d, k, acc) ==
  IF k = 0 THEN acc
  ELSE IF 2 * b >= d THEN FracBits(2 * b - d, d, k - 1, 2 * acc + 1)
       ELSE FracBits(2 * b, d, k - 1, 2 * acc)
\* round(65536 * n / d) for n, d > 0 and n / d < 20000
Unity(n, d) == (n \div d) * 65536 + (FracBits(n % d, d, 17, 0) + 1) \div 2

GoldenOk(e, b) ==
  /\ ~b.ovf
  /\ e.tex.w = b.w /\ e.tex.h = b.h /\ e.tex.d = b.d /\ e.tex.o = b.o
  /\ LET r == Reduce(b.rn, b.rd)
         n == Abs(r[1])
     IN IF n \div r[2] >= 20000 THEN TRUE
        ELSE Abs(Unity(n, r[2]) - Abs(e.tex.num)) <= 1 /\ e.tex.den = 65536

TInit == l = 1 /\ list = <<>> /\ tex = Scan0 /\ code = Code0 /\ out = Scanning
TStep == /\ l <= Len(Rec) /\ l' = l + 1 /\ UNCHANGED vars
         /\ LET e == Rec[l] IN
            IF "tex" \in DOMAIN e /\ ~GoldenOk(e, HPackD(e.items, e.m, e.t, {}))
            THEN PrintT(<<"VERDICT", ToJson([l |-> l, key |-> "spec_disagrees_with_tex_golden", want |-> Want(e)])>>)
            ELSE TRUE
         /\ LET e == Rec[l] IN
            IF Agrees(e, HPackD(e.items, e.m, e.t, {})) THEN TRUE
            ELSE LET keys == Explain(e) IN
                 IF keys = <<>>
                 THEN PrintT(<<"VERDICT", ToJson([l |-> l, key |-> "mismatch", want |-> Want(e),
                                                  with_all_recorded_deviations |-> View(HPackD(e.items, e.m, e.t, AllDevs))])>>)
                 ELSE PrintT(<<"VERDICT", ToJson([l |-> l, key |-> keys[1], keys |-> keys])>>)
TSpec == TInit /\ [][TStep]_<<vars, l>>
Matched == TLCGet("stats").diameter - 1
TraceAccepted == \/ Matched = Len(Rec)
                 \/ PrintT(<<"MATCHED", Matched>>) /\ FALSE

NoItems == {}
NoTargets == {}
NoDevs == {}
=============================================================================
