SPECIFICATION SpecText
CONSTANTS
  Bug = ""
  N0 = 0
  N1 = 0
  N2 = 0
  L1 = 0
  L2 = 0
  MaxArgs = 0
  Fns = {}
  Rich = FALSE
  TextLen = 4
  Chars = {97, 95, 49, 45, 46, 112, 116, 34, 92, 117, 123, 125, 40, 41, 91, 93, 61, 44, 35, 32, 10, 233}
  IntParts = {}
INVARIANTS InvLexTotal InvRelex InvReadRender InvCommentsAreBlank
CHECK_DEADLOCK FALSE
