SPECIFICATION SpecText
CONSTANTS
  Bug = ""
  N0 = 0
  N1 = 0
  N2 = 0
  L1 = 0
  L2 = 0
  MaxArgs = 0
  Fns = {}
  Rich = FALSE
  TextLen = 4
  Chars = {97, 49, 45, 46, 112, 116, 34, 92, 117, 123, 40, 41, 91, 93, 61, 44, 35, 32, 10, 233}
  IntParts = {}
  Sample = 1
  HiStep = 1
INVARIANTS InvLexTotal InvRelex InvReadRender InvCommentsAreBlank InvFormatText
CHECK_DEADLOCK FALSE
