SPECIFICATION Spec
CONSTANTS
  Alphabet <- AlphabetThorough
  MaxLen = 3
  Targets <- TargetsThorough
  TexDevs <- NoDevs
  Bug = ""
INVARIANTS LoopInv TopOrderIsHighestNonZero TexBoxLaws TexIsFunction CodeTotalsInv CodeIsTexPlusDeviations DeviationsAreLocal
CHECK_DEADLOCK FALSE
