SPECIFICATION TSpec
CONSTANTS
  Limit = 101
  Deviations = {"EndinputDropsRestOfLine"}
  Streams = {1}
  RFiles <- NoFiles
POSTCONDITION TraceAccepted
CHECK_DEADLOCK FALSE
