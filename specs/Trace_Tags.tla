------------------------------ MODULE Trace_Tags ------------------------------
(* Binding T for command tags: events of real multi-threaded runs.            *)
(*   {"ev":"tag","th":t,"val":r}     Tag::new() returned the tag with rank r  *)
(*   {"ev":"static","th":t,"val":r}  StaticTag::get() returned rank r         *)
(* Tags are opaque; the harness identifies them by equality class only (rank  *)
(* among the distinct tags of the repetition), so any implementation whose    *)
(* tags are pairwise distinct is accepted whatever numbers it uses.  The      *)
(* observable abstraction of Tags.tla is: `issued` never repeats a value and  *)
(* the static tag is a single value.                                          *)
EXTENDS Naturals, Sequences, FiniteSets, TLC, Json, IOUtils
Rec == ndJsonDeserialize(IOEnv.TRACE)
VARIABLES l, issued, static
tvars == <<l, issued, static>>
E == Rec[l]
TInit == l = 1 /\ issued = {} /\ static = 0
TStep == /\ l <= Len(Rec) /\ l' = l + 1
         /\ \/ E.ev = "reset" /\ issued' = {} /\ static' = 0
            \/ /\ E.ev = "tag" /\ E.val \notin issued
               /\ issued' = issued \cup {E.val} /\ UNCHANGED static
            \/ /\ E.ev = "static" /\ static = 0 /\ E.val \notin issued
               /\ issued' = issued \cup {E.val} /\ static' = E.val
            \/ /\ E.ev = "static" /\ static # 0 /\ E.val = static
               /\ UNCHANGED <<issued, static>>
TSpec == TInit /\ [][TStep]_tvars
Matched == TLCGet("stats").diameter - 1
TraceAccepted == \/ Matched = Len(Rec)
                 \/ PrintT(<<"MATCHED", Matched>>) /\ FALSE
=============================================================================
