SPECIFICATION TSpec
CONSTANTS
  Deviations = {"DecideC07", "NoRelaxBeforeEarlyElse"}
POSTCONDITION TraceAccepted
CHECK_DEADLOCK FALSE
