----------------------------- MODULE HyphenList -----------------------------
(***************************************************************************)
(* C14 -- hyphenating a horizontal list changes nothing unless a break is  *)
(* taken.                                                                  *)
(*                                                                         *)
(* PART 1  TeX's word-discovery machine (tex.web 891, 894-899) over the    *)
(* nodes of a horizontal list: which words does the hyphenation pass try?  *)
(*   - reference layer  RefWords(L): the definition ("a maximal run of     *)
(*     letters of one font following glue ...") written with quantifiers;  *)
(*   - machine layer: the state machine of 894-899 with an index, one      *)
(*     action per phase (Outer / Prefix 896 / Collect 897-898 / Check and  *)
(*     Suffix 899).  TLC checks that the machine reports exactly RefWords  *)
(*     on every list over a small alphabet (MC_HyphenList).                *)
(*                                                                         *)
(* PART 2  the relation the property states between the list `before` and  *)
(* the list `after` the pass (operators, used by Trace_HyphenList on the   *)
(* real lists and by MC_HyphenRecon on a transcription of TeX 903-918):    *)
(*   R1  deleting the inserted discretionaries from `after` gives `before` *)
(*       node for node;                                                    *)
(*   R2  every inserted discretionary lies in a tried word, its lists hold *)
(*       characters/ligatures/font kerns of the word's font, its pre-break *)
(*       letters end with the hyphen character, and                        *)
(*         letters(pre) minus the hyphen ++ letters(post)                  *)
(*             = letters(the replace_count nodes that follow it),          *)
(*       all of them nodes of that word;                                   *)
(*   R3  per tried word the positions realised are permitted positions     *)
(*       (Liang/exception positions j with l_hyf <= j <= hn - r_hyf, 902), *)
(*       none twice, and a permitted position is missing only if it falls  *)
(*       strictly inside the letters a realised discretionary replaces,    *)
(*       after its hyphen (TeX 913-916 develops both branches of a         *)
(*       discretionary up to the next common cut; hyphens passed on the    *)
(*       way are dropped -- "we may have to forget some", 914).            *)
(*                                                                         *)
(* Named deviations (what the code does instead; selected by the set D):   *)
(*   DevAbort   896 `goto done1` consumes the node that stopped the search *)
(*              for the first letter: a glue that ends a letterless token  *)
(*              does not start a search ("3.0 Contents")                   *)
(*   DevLeft    the word is always rebuilt with left-boundary processing,  *)
(*              even when the node before its first letter is a font kern, *)
(*              a character or a ligature of the font (TeX 903 keeps that  *)
(*              node as left context and runs no boundary program)         *)
(*   DevSyncRb  a ligature rebuilt while the two branches of a             *)
(*              discretionary are synchronised gets its right-boundary     *)
(*              flag from its left-boundary flag                           *)
(*   DevRebuild every word found by 894-898 is rebuilt from its letters,    *)
(*              also one shorter than l_hyf + r_hyf (899 goto done1) or    *)
(*              without a permitted position (902 return): invisible by    *)
(*              itself, but the rebuild's other deviations then show in    *)
(*              words TeX would not touch                                  *)
(*   DevEmpty   a word whose first ligature holds a non-letter after its   *)
(*              first letter has hn = 0 (898 goto done3, then done1); the  *)
(*              code asserts that the word is not empty and panics         *)
(*   DevBchar   (TeX itself, 897/903) the character after the word is used *)
(*              as right boundary of the rebuilt word; a LIGATURE          *)
(*              instruction with it leaves a boundary ligature /           *)
(*              right-boundary flag that the original list does not have   *)
(***************************************************************************)
EXTENDS Integers, Sequences, FiniteSets, TLC

CONSTANTS MaxHn,   \* 63 in TeX ("if hn=63 then goto done3", 897); small in the model
          Bug      \* "" or the name of a seeded mutant of the machine (negative controls)

DevAbort  == "abort_consumes_glue"
DevLeft   == "left_boundary_rerun"
DevSyncRb == "sync_ligature_rb_from_lb"
DevBchar  == "bchar_ligature_as_in_tex"
DevRebuild == "rebuilds_words_without_hyphens"
DevEmpty  == "empty_word_assertion_panic"
AllDevs   == {DevAbort, DevLeft, DevSyncRb, DevBchar, DevRebuild}

NonChar == -1    \* hyf_bchar = non_char
FontB   == -2    \* hyf_bchar = font_bchar[hf]
UcHyph  == TRUE  \* plain TeX: \uchyph=1

\* plain TeX's \lccode table (INITEX): letters only
LcCode(c) == IF c >= 65 /\ c <= 90 THEN c + 32 ELSE IF c >= 97 /\ c <= 122 THEN c ELSE 0
IsLetter(c) == LcCode(c) # 0
NormMin(h) == IF h <= 0 THEN 1 ELSE IF h >= 64 THEN 63 ELSE h      \* 1091 norm_min

NormalKern(n) == n.k = "kern" /\ n.x = 0
\* the original characters a node stands for (143: lig_ptr)
Letters(n) == IF n.k = "char" THEN <<n.c>> ELSE IF n.k = "lig" THEN n.o ELSE <<>>

RECURSIVE LettersOf(_, _, _)
LettersOf(S, a, b) == IF a > b THEN <<>> ELSE Letters(S[a]) \o LettersOf(S, a + 1, b)

---------------------------------------------------------------------------
(* PART 1a: the machine.  A state is a record; Step is one transition.     *)

St0 == [ph |-> "outer", cur |-> 1, s |-> 0, prev |-> 0, hf |-> 0, hn |-> 0, hc |-> <<>>,
        first |-> 0, hb |-> 0, bchar |-> NonChar, auto |-> TRUE, words |-> <<>>, searched |-> {},
        empty |-> FALSE]

AbortTo(st, c) == [st EXCEPT !.ph = "outer", !.cur = c]

\* 866: the main loop of line_break visits every node; at glue it tries the following word
OuterStep(st, L) ==
  IF st.cur > Len(L) THEN [st EXCEPT !.ph = "done"]
  ELSE LET n == L[st.cur] IN
       IF n.k = "math" THEN [st EXCEPT !.auto = (n.m = 1), !.cur = @ + 1]      \* 866 auto_breaking
       ELSE IF n.k = "glue" /\ st.auto
            THEN [st EXCEPT !.ph = "prefix", !.prev = st.cur, !.s = st.cur + 1,
                            !.searched = @ \cup {st.cur}]                        \* 894
            ELSE [st EXCEPT !.cur = @ + 1]

\* 896: skip to node ha, or goto done1 if no hyphenation should be attempted
PrefixStep(st, L, D) ==
  IF st.s > Len(L) THEN AbortTo(st, st.cur + 1)
  ELSE LET n == L[st.s]
           cont == [st EXCEPT !.prev = st.s, !.s = @ + 1]
           \* done1 leaves the list alone: the main loop goes on with the node after the glue.
           \* DevAbort: the node that stopped the search is consumed.
           abort == AbortTo(st, IF DevAbort \in D THEN st.s + 1 ELSE st.cur + 1)
           start(f) == [st EXCEPT !.ph = "collect", !.hf = f, !.first = st.s, !.hn = 0,
                                  !.hc = <<>>, !.hb = st.prev, !.bchar = NonChar]     \* done2, ha = prev_s
           try(c, f) == IF LcCode(c) # 0
                        THEN IF LcCode(c) = c \/ UcHyph THEN start(f) ELSE abort
                        ELSE cont
       IN IF n.k = "char" THEN try(n.c, n.f)
          ELSE IF n.k = "lig"
               THEN IF n.o = <<>> THEN cont
                    ELSE IF Bug = "LigNeverStarts" THEN cont ELSE try(n.o[1], n.f)
          ELSE IF NormalKern(n) \/ n.k = "what" THEN cont
          ELSE abort

\* 897-898: skip to node hb, putting letters into hu and hc
CollectStep(st, L) ==
  LET done3 == [st EXCEPT !.ph = "check"]
      limit == IF Bug = "Limit64" THEN MaxHn + 1 ELSE MaxHn
  IN IF st.s > Len(L) THEN done3
     ELSE LET n == L[st.s] IN
       IF n.k = "char"
       THEN IF n.f # st.hf THEN done3
            ELSE IF LcCode(n.c) = 0 \/ st.hn = limit THEN [done3 EXCEPT !.bchar = n.c]
            ELSE [st EXCEPT !.hb = st.s, !.hn = @ + 1, !.hc = Append(@, LcCode(n.c)),
                            !.bchar = NonChar, !.s = @ + 1]
       ELSE IF n.k = "lig"
       THEN IF n.f # st.hf THEN done3
            ELSE IF \E q \in 1..Len(n.o) :
                       \/ LcCode(n.o[q]) = 0 /\ ~(Bug = "LigFirstCharOnly" /\ q > 1)
                       \/ st.hn + q > limit
                 THEN [done3 EXCEPT !.bchar = n.o[1]]
                 ELSE [st EXCEPT !.hb = st.s, !.hn = @ + Len(n.o),
                                 !.hc = @ \o [q \in 1..Len(n.o) |-> LcCode(n.o[q])],
                                 !.bchar = IF n.rb = 1 THEN FontB ELSE NonChar, !.s = @ + 1]
       ELSE IF NormalKern(n) THEN [st EXCEPT !.hb = st.s, !.bchar = FontB, !.s = @ + 1]
       ELSE done3

\* 899 (first line) and 894: enough letters?
\* DevRebuild: the test is missing (a word of no letters at all is where the code's assertion sits).
CheckStep(st, lh, rh, D) ==
  LET need == NormMin(lh) + NormMin(rh) - (IF Bug = "MinOffByOne" THEN 1 ELSE 0)
  IN IF st.hn = 0 THEN [AbortTo(st, st.cur + 1) EXCEPT !.empty = TRUE]
     ELSE IF DevRebuild \in D THEN [st EXCEPT !.ph = "suffix"]
     ELSE IF st.hn < need \/ NormMin(lh) + NormMin(rh) > 63
          THEN AbortTo(st, st.cur + 1) ELSE [st EXCEPT !.ph = "suffix"]

\* 899: check that the nodes following hb permit hyphenation
SuffixStep(st, L) ==
  LET report == [st EXCEPT !.ph = "outer", !.cur = @ + 1,
                   !.words = Append(@, [g |-> st.cur, first |-> st.first, hb |-> st.hb, hf |-> st.hf,
                                        hn |-> st.hn, hc |-> st.hc, bchar |-> st.bchar])]
  IN IF st.s > Len(L) THEN report        \* TeX's paragraphs end with penalty + glue; a bare end counts as that
     ELSE LET n == L[st.s] IN
       IF n.k = "char" THEN (IF Bug = "SuffixCharAborts" THEN AbortTo(st, st.cur + 1) ELSE [st EXCEPT !.s = @ + 1])
       ELSE IF n.k = "lig" THEN [st EXCEPT !.s = @ + 1]
       ELSE IF n.k = "kern"
            THEN IF n.x # 0 THEN (IF Bug = "ExplicitKernAborts" THEN AbortTo(st, st.cur + 1) ELSE report)
                 ELSE [st EXCEPT !.s = @ + 1]
       ELSE IF n.k \in {"what", "glue", "pen", "ins", "adjust", "mark"} THEN report
       ELSE AbortTo(st, st.cur + 1)       \* hlist, vlist, rule, disc, math: done1

Step(st, L, lh, rh, D) ==
  CASE st.ph = "outer"   -> OuterStep(st, L)
    [] st.ph = "prefix"  -> PrefixStep(st, L, D)
    [] st.ph = "collect" -> CollectStep(st, L)
    [] st.ph = "check"   -> CheckStep(st, lh, rh, D)
    [] st.ph = "suffix"  -> SuffixStep(st, L)

RECURSIVE RunFrom(_, _, _, _, _)
RunFrom(st, L, lh, rh, D) == IF st.ph = "done" THEN st ELSE RunFrom(Step(st, L, lh, rh, D), L, lh, rh, D)
\* the words TeX tries in L (in list order)
Words(L, lh, rh, D) == RunFrom(St0, L, lh, rh, D).words

---------------------------------------------------------------------------
(* PART 1b: the definition.                                                *)

Skippable(n) == \/ n.k = "char" /\ ~IsLetter(n.c)
                \/ n.k = "lig" /\ (n.o = <<>> \/ ~IsLetter(n.o[1]))
                \/ NormalKern(n)
                \/ n.k = "what"
StartsWord(n) == \/ n.k = "char" /\ IsLetter(n.c)
                 \/ n.k = "lig" /\ n.o # <<>> /\ IsLetter(n.o[1])
FontOf(n) == n.f
InWord(n, f) == \/ n.k = "char" /\ n.f = f /\ IsLetter(n.c)
                \/ n.k = "lig" /\ n.f = f /\ \A q \in 1..Len(n.o) : IsLetter(n.o[q])
                \/ NormalKern(n)
Passable(n) == n.k \in {"char", "lig"} \/ NormalKern(n)
Permits(n) == \/ n.k \in {"what", "glue", "pen", "ins", "adjust", "mark"}
              \/ n.k = "kern" /\ n.x # 0

AutoAt(L, g) == LET ms == {m \in 1..(g - 1) : L[m].k = "math"}
                IN ms = {} \/ L[CHOOSE m \in ms : \A m2 \in ms : m2 <= m].m = 1

\* the word after glue g, as a set with at most one element
RefWordAt(L, g, lh, rh) ==
  LET n == Len(L)
      \* first node after the glue that is not skipped
      cand == {f \in (g + 1)..n : ~Skippable(L[f])}
  IN IF cand = {} THEN {}
     ELSE LET f == CHOOSE x \in cand : \A y \in cand : x <= y IN
       IF ~StartsWord(L[f]) THEN {}
       ELSE LET hf == FontOf(L[f])
                Cnt(e) == Len(LettersOf(L, f, e))
                \* maximal run of letters of font hf (and font kerns) holding at most MaxHn letters
                runs == {e \in (f - 1)..n : \A k \in f..e : InWord(L[k], hf) /\ Cnt(k) <= MaxHn}
                hb == CHOOSE x \in runs : \A y \in runs : y <= x
                hn == Cnt(hb)
                stops == {t \in (hb + 1)..n : ~Passable(L[t])}
                okEnd == stops = {} \/ Permits(L[CHOOSE x \in stops : \A y \in stops : x <= y])
                nx == IF hb + 1 <= n THEN L[hb + 1] ELSE [k |-> "end"]
                bchar == IF nx.k = "char" /\ nx.f = hf THEN nx.c
                         ELSE IF nx.k = "lig" /\ nx.f = hf THEN nx.o[1]
                         ELSE IF hb < f THEN NonChar
                         ELSE IF L[hb].k = "kern" THEN FontB
                         ELSE IF L[hb].k = "lig" /\ L[hb].rb = 1 THEN FontB
                         ELSE NonChar
            IN IF hn >= NormMin(lh) + NormMin(rh) /\ NormMin(lh) + NormMin(rh) <= 63 /\ okEnd
               THEN {[g |-> g, first |-> f, hb |-> hb, hf |-> hf, hn |-> hn,
                      hc |-> [q \in 1..hn |-> LcCode(LettersOf(L, f, hb)[q])], bchar |-> bchar]}
               ELSE {}

RefWords(L, lh, rh) ==
  UNION {RefWordAt(L, g, lh, rh) : g \in {x \in 1..Len(L) : L[x].k = "glue" /\ AutoAt(L, x)}}

---------------------------------------------------------------------------
(* PART 1c: the machine as a TLA+ system, for TLC.                         *)
CONSTANTS Alphabet, MaxLen, LH, RH, Devs
VARIABLES list, st
vars == <<list, st>>

RECURSIVE SeqsUpTo(_)
SeqsUpTo(n) == IF n = 0 THEN {<<>>}
               ELSE LET S == SeqsUpTo(n - 1) IN S \cup {Append(x, a) : x \in {y \in S : Len(y) = n - 1}, a \in Alphabet}

Init == list \in SeqsUpTo(MaxLen) /\ st = St0
Outer   == st.ph = "outer"   /\ st' = OuterStep(st, list)        /\ UNCHANGED list
Prefix  == st.ph = "prefix"  /\ st' = PrefixStep(st, list, Devs) /\ UNCHANGED list
Collect == st.ph = "collect" /\ st' = CollectStep(st, list)      /\ UNCHANGED list
Check   == st.ph = "check"   /\ st' = CheckStep(st, LH, RH, Devs) /\ UNCHANGED list
Suffix  == st.ph = "suffix"  /\ st' = SuffixStep(st, list)       /\ UNCHANGED list
Next == Outer \/ Prefix \/ Collect \/ Check \/ Suffix
Spec == Init /\ [][Next]_vars

Range(s) == {s[q] : q \in 1..Len(s)}

\* the machine reports exactly the words of the definition, in list order, each once
MachineIsDefinition ==
  st.ph = "done" =>
    /\ Range(st.words) = RefWords(list, LH, RH)
    /\ \A a, b \in 1..Len(st.words) : a < b => st.words[a].g < st.words[b].g
\* done1 does not consume anything: every glue outside math starts a search
EveryGlueSearched ==
  st.ph = "done" => st.searched = {g \in 1..Len(list) : list[g].k = "glue" /\ AutoAt(list, g)}
\* a search never looks past the next glue, so searches are independent of each other (and of what
\* hyphenating an earlier word did to the list)
SearchStaysBeforeNextGlue ==
  st.ph \in {"prefix", "collect", "check", "suffix"} =>
    \A k \in (st.cur + 1)..(st.s - 1) : k <= Len(list) => list[k].k # "glue"
\* loop invariants of 897
CollectInv ==
  st.ph \in {"collect", "check", "suffix"} =>
    /\ st.hn <= MaxHn /\ st.hn = Len(st.hc)
    /\ st.first > st.cur /\ st.hb >= st.first - 1
    /\ st.ph = "collect" => st.hn = Len(LettersOf(list, st.first, st.s - 1))
    /\ \A k \in (st.cur + 1)..(st.first - 1) : Skippable(list[k])
\* every reported word is a run of at least l_hyf + r_hyf letters in one font
WordsAreRuns ==
  \A q \in 1..Len(st.words) :
    LET w == st.words[q] IN
      /\ list[w.g].k = "glue" /\ w.first > w.g /\ w.hb >= w.first
      /\ w.hn >= NormMin(LH) + NormMin(RH) /\ w.hn <= MaxHn
      /\ \A k \in w.first..w.hb : InWord(list[k], w.hf)
      /\ w.hc = [x \in 1..w.hn |-> LcCode(LettersOf(list, w.first, w.hb)[x])]

---------------------------------------------------------------------------
(* PART 2: the relation between `before` and `after`.                      *)
(* P = [exc, lh, rh, hc, D]: exception dictionary, hyphen minimums, hyphen *)
(* character, enabled deviations.                                          *)

\* positions Liang's algorithm (here: the exception dictionary, 930-931) permits in the word hc
Allowed(exc, hc) ==
  LET hit == {x \in 1..Len(exc) : exc[x].w = hc}
  IN IF hit = {} THEN {} ELSE LET x == CHOOSE y \in hit : TRUE IN Range(exc[x].p)
\* 902 / 923: hyf[j] is cleared for j < l_hyf and j > hn - r_hyf
Permitted(exc, w, lh, rh) == {p \in Allowed(exc, w.hc) : NormMin(lh) <= p /\ p <= w.hn - NormMin(rh)}

\* 902: TeX rebuilds the nodes of a word only if a permitted position was found
Rebuilt(P, w) == DevRebuild \in P.D \/ Permitted(P.exc, w, P.lh, P.rh) # {}

WordNode(n, f) == (n.k \in {"char", "lig"} /\ n.f = f) \/ NormalKern(n)
AllWordNodes(S, f) == \A q \in 1..Len(S) : WordNode(S[q], f)

\* does the node before the first letter make TeX 903 rebuild the word without boundary processing?
LeftContext(B, w) ==
  LET ha == B[w.first - 1] IN
    w.first - 1 > w.g /\ (NormalKern(ha) \/ (ha.k \in {"char", "lig"} /\ ha.f = w.hf))

(* The walk.  ws: i, j  next node of before / after;  w  word being walked (0 none);
   lc  letters of word w already passed on the after side;  lbc  the same on the before side
   (differs from lc only in desync mode);  cover  last index of `after` replaced by the most recent
   inserted discretionary;  cw  its word;  discs  the inserted discretionaries found so far as
   [w, a, x, r] = word, letters before it, letters of pre minus hyphen, letters replaced;
   fail  "" or the name of the clause that failed.                                          *)
Ws0 == [i |-> 1, j |-> 1, w |-> 0, lc |-> 0, lbc |-> 0, mode |-> "norm", cover |-> 0, cw |-> 0,
        discs |-> <<>>, fail |-> "", at |-> <<0, 0>>]
Fail(ws, why) == [ws EXCEPT !.fail = why, !.at = <<ws.i, ws.j>>]

WordOf(W, i) == LET hit == {q \in 1..Len(W) : W[q].first <= i /\ i <= W[q].hb}
                IN IF hit = {} THEN 0 ELSE CHOOSE q \in hit : TRUE

\* before[i] and after[j] are taken as the same node
Match(ws, B, W) ==
  LET wd == WordOf(W, ws.i)
      nl == Len(Letters(B[ws.i]))
  IN IF ws.cover >= ws.j /\ wd # ws.cw THEN Fail(ws, "replaced-nodes-outside-word")
     ELSE IF wd = 0 THEN [ws EXCEPT !.i = @ + 1, !.j = @ + 1, !.w = 0]
     ELSE IF wd # ws.w \/ ws.i = W[wd].first
          THEN [ws EXCEPT !.i = @ + 1, !.j = @ + 1, !.w = wd, !.lc = nl, !.lbc = nl]
          ELSE [ws EXCEPT !.i = @ + 1, !.j = @ + 1, !.lc = @ + nl, !.lbc = @ + nl]

\* after[j] is an inserted discretionary of word wd; a = letters of the word before it
Inserted(ws, A, W, P, wd, a) ==
  LET d == A[ws.j]
      lp == LettersOf(d.pre, 1, Len(d.pre))
      x == SubSeq(lp, 1, Len(lp) - 1)
      lq == LettersOf(d.post, 1, Len(d.post))
  IN IF wd = 0 THEN Fail(ws, "discretionary-outside-word")
     ELSE IF ws.cover >= ws.j THEN Fail(ws, "discretionary-inside-replaced-nodes")
     ELSE IF ~AllWordNodes(d.pre, W[wd].hf) \/ ~AllWordNodes(d.post, W[wd].hf) THEN Fail(ws, "discretionary-content")
     ELSE IF lp = <<>> \/ lp[Len(lp)] # P.hc THEN Fail(ws, "pre-break-without-hyphen")
     ELSE IF ws.j + d.n > Len(A) THEN Fail(ws, "replace-count-overrun")
     ELSE LET r == LettersOf(A, ws.j + 1, ws.j + d.n) IN
          IF x \o lq # r THEN Fail(ws, "letters-at-discretionary")
          ELSE [ws EXCEPT !.j = @ + 1, !.cover = ws.j + d.n, !.cw = wd,
                          !.discs = Append(@, [w |-> wd, a |-> a, x |-> Len(x), r |-> Len(r)])]

NormStep(ws, B, A, W, P) ==
  LET i == ws.i
      j == ws.j
      D == P.D
      an == A[j]
      bn == B[i]
      inB == i <= Len(B)
      wd == IF inB THEN WordOf(W, i) ELSE 0
      pw == IF i > 1 /\ i - 1 <= Len(B) THEN WordOf(W, i - 1) ELSE 0     \* word of the node just passed
      lcNow == IF wd # 0 /\ wd = ws.w /\ i > W[wd].first THEN ws.lc ELSE 0
  IN IF inB /\ an = bn THEN Match(ws, B, W)
     ELSE IF an.k = "disc" THEN Inserted(ws, A, W, P, wd, lcNow)
     \* DevSyncRb: inside the nodes a discretionary replaces, rb := lb
     ELSE IF /\ DevSyncRb \in D /\ inB /\ an.k = "lig" /\ bn.k = "lig" /\ ws.cover >= j
             /\ an = [bn EXCEPT !.rb = bn.lb]
          THEN Match(ws, B, W)
     \* DevBchar (ii): the ligature holding (or following) the last letter gets the right-boundary flag
     ELSE IF /\ DevBchar \in D /\ inB /\ an.k = "lig" /\ bn.k = "lig" /\ wd # 0
             /\ W[wd].bchar >= 0 /\ an = [bn EXCEPT !.rb = 1]
             /\ lcNow + Len(bn.o) = W[wd].hn /\ Rebuilt(P, W[wd])
          THEN Match(ws, B, W)
     \* DevBchar (i): boundary ligatures appended to the rebuilt word
     ELSE IF /\ DevBchar \in D /\ pw # 0 /\ i - 1 = W[pw].hb /\ W[pw].bchar >= 0
             /\ an.k = "lig" /\ an.o = <<>> /\ an.f = W[pw].hf /\ Rebuilt(P, W[pw])
             /\ (an.rb = 1 \/ (DevSyncRb \in D /\ ws.cover >= j /\ an.rb = an.lb))
          THEN [ws EXCEPT !.j = @ + 1]
     \* DevLeft: the head of the word was rebuilt with the left boundary
     ELSE IF /\ DevLeft \in D /\ wd # 0 /\ i = W[wd].first /\ LeftContext(B, W[wd]) /\ Rebuilt(P, W[wd])
          THEN [ws EXCEPT !.mode = "desync", !.w = wd, !.lc = 0, !.lbc = 0]
     ELSE Fail(ws, "node-differs")

\* DevLeft only: the rebuilt head of word w and its original nodes, until both sides meet again.
\* The side that is behind in letters moves; when level, a node without letters moves first.
DesyncStep(ws, B, A, W, P) ==
  LET i == ws.i
      j == ws.j
      w == W[ws.w]
      inA == j <= Len(A)
      inB == i <= Len(B)
      okA == inA /\ WordNode(A[j], w.hf) /\ (Letters(A[j]) = <<>> \/ ws.lc < w.hn)
      okB == inB /\ i <= w.hb
      takeA == [ws EXCEPT !.j = @ + 1, !.lc = @ + Len(Letters(A[j]))]
      takeB == [ws EXCEPT !.i = @ + 1, !.lbc = @ + Len(Letters(B[i]))]
  IN IF ws.lc = ws.lbc /\ ((inA /\ inB /\ A[j] = B[i]) \/ (~inA /\ ~inB)) THEN [ws EXCEPT !.mode = "norm"]
     ELSE IF inA /\ A[j].k = "disc" THEN Inserted(ws, A, W, P, ws.w, ws.lc)
     ELSE IF ws.lc < ws.lbc THEN (IF okA THEN takeA ELSE Fail(ws, "node-differs"))
     ELSE IF ws.lc > ws.lbc THEN (IF okB THEN takeB ELSE Fail(ws, "node-differs"))
     ELSE IF okA /\ Letters(A[j]) = <<>> THEN takeA
     ELSE IF okB /\ Letters(B[i]) = <<>> THEN takeB
     ELSE IF okA THEN takeA
     ELSE IF okB THEN takeB
     ELSE Fail(ws, "node-differs")

RECURSIVE Walk(_, _, _, _, _)
Walk(ws, B, A, W, P) ==
  IF ws.fail # "" THEN ws
  ELSE IF ws.mode = "desync" THEN Walk(DesyncStep(ws, B, A, W, P), B, A, W, P)
  ELSE IF ws.j > Len(A)
       THEN IF ws.i > Len(B) THEN ws ELSE Fail(ws, "nodes-missing")
       ELSE Walk(NormStep(ws, B, A, W, P), B, A, W, P)

\* R3 for word q
PositionsVerdict(ws, W, P, q) ==
  LET w == W[q]
      ds == {k \in 1..Len(ws.discs) : ws.discs[k].w = q}
      pos(k) == ws.discs[k].a + ws.discs[k].x
      endOf(k) == ws.discs[k].a + ws.discs[k].r
      real == {pos(k) : k \in ds}
      perm == Permitted(P.exc, w, P.lh, P.rh)
      all == Allowed(P.exc, w.hc)
  IN IF \E p \in real : p \notin all THEN "position-not-permitted-by-liang"
     ELSE IF \E p \in real : p \notin perm THEN "position-violates-hyphen-min"
     ELSE IF Cardinality(real) # Cardinality(ds) THEN "position-twice"
     ELSE IF \E p \in perm \ real : Bug = "AllPositions" \/ ~\E k \in ds : pos(k) < p /\ p < endOf(k)
          THEN "position-missing"
     ELSE ""

\* clause = "" if the relation holds between before B and after A, else the failed clause
Verdict(B, A, P) ==
  LET W == Words(B, P.lh, P.rh, P.D)
      ws == Walk(Ws0, B, A, W, P)
  IN IF ws.fail # "" THEN [clause |-> ws.fail, at |-> ws.at, word |-> 0]
     ELSE LET bad == {q \in 1..Len(W) : PositionsVerdict(ws, W, P, q) # ""} IN
          IF bad = {} THEN [clause |-> "", at |-> <<0, 0>>, word |-> 0]
          ELSE LET q == CHOOSE x \in bad : \A y \in bad : x <= y
               IN [clause |-> PositionsVerdict(ws, W, P, q), at |-> <<W[q].first, 0>>, word |-> q]

\* DevEmpty: the machine reaches 899 with hn = 0 (where the code asserts the word is not empty)
ReachesEmptyWord(B, lh, rh) == RunFrom(St0, B, lh, rh, {}).empty
=============================================================================
