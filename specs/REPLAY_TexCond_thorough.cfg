SPECIFICATION Spec
CONSTANTS
  N = 6
  Bug = ""
  Deviations = {}
INVARIANT AgreeInv
INVARIANT EmitInv
CHECK_DEADLOCK FALSE
