SPECIFICATION Spec
CONSTANTS
  N = 7
  Bug = ""
  Deviations = {"NoexpandLostUnderExpandOnce"}
INVARIANT SimpleEqOptimized
INVARIANT ImplEqRef
CHECK_DEADLOCK FALSE
