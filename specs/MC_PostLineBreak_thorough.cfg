SPECIFICATION Spec
CONSTANTS
  NodeKinds <- KindsAll
  MaxLen = 4
  Configs <- ConfigsTwo
  TexDevs <- NoDevs
  Bug = ""
INVARIANTS Conservation DropsOnlyDiscardables NoDiscardableStart PrunedCompletely Geometry Skips Penalties ParEndLaw MachineIsFunction CodeIsTexPlusDeviations DeviationIsLocal
CHECK_DEADLOCK FALSE
