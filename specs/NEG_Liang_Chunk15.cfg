SPECIFICATION Spec
CONSTANTS
  Bug = "Chunk15"
  Fix = FALSE
  Sigma = {97}
  PatLens = {15, 16}
  Dg = {9}
  MaxDigits = 1
  WordAlphabet = {97, 98, 65}
  MaxWordLen = 3
  MaxMixedLen = 2
  MaxExcLen = 2
  CodecWordLens = {3, 17, 19}
  NSlices = 1
  Slice = 0
  MaxP = 1
  MaxE = 0
  Deviations = {"ExceptionAsScore67", "LaterPatternReplacesException"}
  PatTexts <- MCPatTexts
  ExcTexts <- MCExcTextsA
  ExcListTexts <- MCExcListsSmall
  Words <- MCWordsCodec
  Lc <- MCLc
INVARIANTS StateIsBuild Refines CodecRoundTrip
CHECK_DEADLOCK FALSE
