SPECIFICATION Spec
CONSTANTS
  MaxOverrides = 3
  ValsAt <- ValsAtWrap
  Bases <- BasesQuick
  Lens <- LensQuick
  ImplDeviations = {}
  ImplBug = "SumWraps16"
INVARIANTS ImplOkIsSliceable
CHECK_DEADLOCK FALSE
