--------------------------- MODULE Trace_TexExpand ---------------------------
(* Binding F for \expandafter / \noexpand: each event is one token stream run  *)
(* on two real VMs that differ only in the installed \expandafter built-in.    *)
(* Both deliveries must equal what TeX delivers (RefRun).  Streams on which    *)
(* TeX itself runs out of input are outside the property (counted as skipped). *)
EXTENDS TexExpand, TLC, Json, IOUtils
Rec == ndJsonDeserialize(IOEnv.TRACE)
VARIABLE l
Judge(e) ==
  LET r == RefRun(e.toks) IN
  IF r.err # "" THEN "skip-eof"
  ELSE LET s == e.simple.err = "" /\ e.simple.out = r.out
           o == e.optimized.err = "" /\ e.optimized.out = r.out
       IN IF s /\ o THEN "ok" ELSE IF s THEN "mismatch-optimized" ELSE IF o THEN "mismatch-simple" ELSE "mismatch-both"
TInit == l = 1
TStep == /\ l <= Len(Rec) /\ l' = l + 1
         /\ LET e == Rec[l] j == Judge(e) IN
            IF j = "ok" THEN TRUE
            ELSE PrintT(<<"VERDICT", ToJson([l |-> l, key |-> j, want |-> RefRun(e.toks).out])>>)
TSpec == TInit /\ [][TStep]_l
Matched == TLCGet("stats").diameter - 1
TraceAccepted == \/ Matched = Len(Rec)
                 \/ PrintT(<<"MATCHED", Matched>>) /\ FALSE
==============================================================================
