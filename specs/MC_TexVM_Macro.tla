--------------------------- MODULE MC_TexVM_Macro ---------------------------
(* Consistency of the composed model with TexMacro: for every definition of   *)
(* MC_TexMacro's domain (without #{ , which TexVM leaves out) and every input  *)
(* up to N tokens, defining the macro with TexVM's \def and calling it gives   *)
(* exactly the expansion followed by the rest that TexMacro's reference rule   *)
(* RefCall computes; where RefCall does not bind, TexVM does not expand.       *)
EXTENDS Integers, Sequences, TLC
CONSTANT N
M == INSTANCE TexMacro WITH Deviations <- {}, KmpBug <- ""
V == INSTANCE TexVM WITH Deviations <- {}

A == M!Tk("c", 1)
B == M!Tk("c", 2)
DelimChoices == { << >>, <<A>>, <<B>>, <<A, B>>, <<A, A>> }
BodyFor(n) == <<M!Tk("c", 7)>> \o (IF n >= 1 THEN <<M!Tk("par", 1), M!Tk("c", 8)>> ELSE << >>)
                               \o (IF n >= 2 THEN <<M!Tk("par", 2), M!Tk("c", 9)>> ELSE << >>)
Defs == { [prefix |-> pre, params |-> ps, hb |-> FALSE, body |-> BodyFor(Len(ps))] :
            pre \in { << >>, <<A>> }, ps \in UNION { [1..n -> DelimChoices] : n \in 0..2 } }

Map(tk) == CASE tk.t = "c"  -> << V!Tok("ch", 96 + tk.c) >>
             [] tk.t = "sp" -> << V!SP >>
             [] tk.t = "lb" -> << V!Tok("lb", 0) >>
             [] tk.t = "rb" -> << V!Tok("rb", 0) >>
             [] tk.t = "par" -> << V!Tok("ha", 35), V!Tok("ch", 48 + tk.c) >>
RECURSIVE Flat(_)
Flat(s) == IF s = << >> THEN << >> ELSE Map(Head(s)) \o Flat(Tail(s))
RECURSIVE ParText(_, _)
ParText(ps, i) == IF i > Len(ps) THEN << >>
                  ELSE << V!Tok("ha", 35), V!Tok("ch", 48 + i) >> \o Flat(ps[i]) \o ParText(ps, i + 1)
Name == V!Tok("cs", V!NPrim + 1)

VARIABLES d, input
Init == d \in Defs /\ input = << >>
Next == Len(input) < N /\ \E t \in {A, B, M!SP, M!LB, M!RB} : input' = Append(input, t) /\ UNCHANGED d
Spec == Init /\ [][Next]_<<d, input>>

Defined == V!Def(V!InitState(<< Name >> \o Flat(d.prefix) \o ParText(d.params, 1) \o << V!Tok("lb", 0) >>
                              \o Flat(d.body) \o << V!Tok("rb", 0), Name >> \o Flat(input), 100), FALSE)
Called == LET g == V!GetTok(Defined) IN V!CallMacro(g.s, 1)

Agrees ==
  LET r == M!RefCall(d, input) IN
  /\ ~V!Stopped(Defined) /\ Defined.mean[V!NPrim + 1] = V!Macro(1)
  /\ IF r.ok /\ M!InScope(d, input)
     THEN ~V!Stopped(Called) /\ Called.inp = Flat(r.expansion \o r.rest)
     ELSE r.ok \/ V!Stopped(Called)
SomeBound == ~(Len(input) = N /\ Len(d.params) = 2 /\ M!RefCall(d, input).ok /\ M!InScope(d, input))
==============================================================================
