----------------------------- MODULE TfmHeader -----------------------------
(* The TFM preamble decision procedure: TFtoPL.2014 sections 20-21           *)
(* ("Read the whole font metric file", "Set subfile sizes and base           *)
(* addresses"), the part of tfm::File::deserialize that decides whether a    *)
(* byte string is a TFM file at all and, if not, which abort it gets.        *)
(*                                                                           *)
(* A file is seen through (len, b): its length in bytes and its first        *)
(* Min(len, 24) bytes b (1-based tuple; tfm[i] of the WEB program is b[i+1]).*)
(*                                                                           *)
(* Three layers:                                                             *)
(*   Classify      reference decision table: the first failing check in      *)
(*                 Knuth's order, in unbounded integers, or "Ok".            *)
(*   Knuth machine the WEB program of sections 20-21 transcribed statement   *)
(*                 by statement as a state machine (pc, tfm_ptr, eof test,   *)
(*                 eval_two_bytes, the six abort tests).  TLC checks that it *)
(*                 terminates with out = Classify on every explored file.    *)
(*   ClassifyImpl  the shape of crates/tfm/src/deserialize.rs                *)
(*                 (RawFile::deserialize): signed 16-bit words, checks in    *)
(*                 the order of the Rust code, the slice of the first 24     *)
(*                 bytes, valid_lf.  It is parameterised by a set D of       *)
(*                 *named deviations*: with D = {} it is the code with the   *)
(*                 proposed fixes applied and TLC checks it equals Classify; *)
(*                 each deviation name switches one clause to what the code  *)
(*                 does today (known_findings/C10.json).                     *)
(*                                                                           *)
(* Limits of Knuth's program that depend on compile-time table sizes         *)
(* ("The file is bigger than I can handle!" for 4*lf-1 > tfm_size, "The      *)
(* lig/kern program is longer than I can handle!" for nl > 4*lig_size) are   *)
(* not part of the format and are left out: tfm_size and lig_size are taken  *)
(* to be unbounded (web2c allocates them dynamically / sets lig_size=32510,  *)
(* so that nl <= 32767 < 4*lig_size always).                                 *)
EXTENDS Integers, Sequences, FiniteSets, TLC

Min(x, y) == IF x < y THEN x ELSE y

(* ------------------------------------------------------------------------ *)
(* bytes and 16-bit quantities                                               *)
(* ------------------------------------------------------------------------ *)
B(b, i) == b[i + 1]                              \* tfm[i]
W(b, k) == 256 * B(b, 2 * k) + B(b, 2 * k + 1)   \* k-th 16-bit word, unsigned
HiBit(b, k) == B(b, 2 * k) > 127                 \* "tfm[tfm_ptr] > 127"
Signed(x) == IF x > 32767 THEN x - 65536 ELSE x  \* i16::from_be_bytes

\* word numbers
LF == 0  LH == 1  BC == 2  EC == 3  NW == 4  NH == 5
ND == 6  NI == 7  NL == 8  NK == 9  NE == 10 NP == 11

\* 6+lh+(ec-bc+1)+nw+nh+nd+ni+nl+nk+ne+np over the unsigned words (all <= 65535,
\* so the sum is below 2^20: no overflow in TLC's 32-bit integers)
SumOf(lh, bc, ec, nw, nh, nd, ni, nl, nk, ne, np) ==
  6 + lh + (ec - bc + 1) + nw + nh + nd + ni + nl + nk + ne + np
Sum(b) == SumOf(W(b, LH), W(b, BC), W(b, EC), W(b, NW), W(b, NH), W(b, ND),
                W(b, NI), W(b, NL), W(b, NK), W(b, NE), W(b, NP))

Kinds == {"FileIsEmpty", "FileHasOneByte", "InternalFileLengthIsNegative",
          "InternalFileLengthIsZero", "InternalFileLengthIsTooBig",
          "InternalFileLengthIsTooSmall", "SubFileSizeIsNegative",
          "HeaderLengthIsTooSmall", "InvalidCharacterRange", "IncompleteSubFiles",
          "TooManyExtensibleCharacters", "InconsistentSubFileSizes", "Ok"}

\* aborts of section 21 (reached only after the whole declared file has been read)
Section21 == {"InternalFileLengthIsTooSmall", "SubFileSizeIsNegative",
              "HeaderLengthIsTooSmall", "InvalidCharacterRange", "IncompleteSubFiles",
              "TooManyExtensibleCharacters", "InconsistentSubFileSizes"}

WellFormedFile(len, b) ==
  /\ len \in Nat
  /\ Len(b) = Min(len, 24)
  /\ \A i \in 1..Len(b) : b[i] \in 0..255

(* ------------------------------------------------------------------------ *)
(* Reference layer: the decision table                                       *)
(* ------------------------------------------------------------------------ *)
\* Each row: the guard under which the row fires, given that no earlier row fired.
\* "InternalFileLengthIsTooSmall" is the one row Knuth's program does not have: with
\* lf < 6 the eleven sub-file sizes are not inside the bytes that were read, so
\* section 21 evaluates undefined memory.  The property demands *a documented error*
\* there; which of the section-21 aborts is printed is not defined (see Accepts).
RowKind == <<"FileIsEmpty", "FileHasOneByte", "InternalFileLengthIsNegative",
            "InternalFileLengthIsZero", "InternalFileLengthIsTooBig",
            "InternalFileLengthIsTooSmall", "SubFileSizeIsNegative", "HeaderLengthIsTooSmall",
            "InvalidCharacterRange", "IncompleteSubFiles", "TooManyExtensibleCharacters",
            "InconsistentSubFileSizes", "Ok">>
RowGuard(i, len, b) ==
  CASE i = 1  -> len = 0
    [] i = 2  -> len = 1
    [] i = 3  -> B(b, 0) > 127
    [] i = 4  -> W(b, LF) = 0
    [] i = 5  -> len < 4 * W(b, LF)
    [] i = 6  -> W(b, LF) < 6
    [] i = 7  -> \E k \in 1..11 : HiBit(b, k)
    [] i = 8  -> W(b, LH) < 2
    [] i = 9  -> W(b, BC) > W(b, EC) + 1 \/ W(b, EC) > 255
    [] i = 10 -> W(b, NW) = 0 \/ W(b, NH) = 0 \/ W(b, ND) = 0 \/ W(b, NI) = 0
    [] i = 11 -> W(b, NE) > 256
    [] i = 12 -> W(b, LF) # Sum(b)
    [] i = 13 -> TRUE

RECURSIVE FirstRow(_, _, _)
FirstRow(len, b, i) == IF RowGuard(i, len, b) THEN RowKind[i] ELSE FirstRow(len, b, i + 1)

Classify(len, b) == FirstRow(len, b, 1)

\* The same table in closed form: the exact condition of every kind, without reference to
\* order.  TLC checks (MC_TfmHeader) that these conditions are mutually exclusive, that
\* exactly one holds for every file, and that it is the one Classify returns.
Cond(len, b) ==
  LET two    == len >= 2 /\ B(b, 0) <= 127
      lf     == W(b, LF)
      read   == two /\ lf > 0 /\ len >= 4 * lf          \* section 20 completed
      hdr    == read /\ lf >= 6                         \* all 12 words are inside the file
      nonneg == hdr /\ \A k \in 1..11 : ~HiBit(b, k)
      lhok   == nonneg /\ W(b, LH) >= 2
      rng    == lhok /\ W(b, BC) <= W(b, EC) + 1 /\ W(b, EC) <= 255
      dims   == rng /\ W(b, NW) > 0 /\ W(b, NH) > 0 /\ W(b, ND) > 0 /\ W(b, NI) > 0
      ext    == dims /\ W(b, NE) <= 256
  IN [ FileIsEmpty                  |-> len = 0,
       FileHasOneByte               |-> len = 1,
       InternalFileLengthIsNegative |-> len >= 2 /\ B(b, 0) > 127,
       InternalFileLengthIsZero     |-> two /\ lf = 0,
       InternalFileLengthIsTooBig   |-> two /\ lf > 0 /\ len < 4 * lf,
       InternalFileLengthIsTooSmall |-> read /\ lf < 6,
       SubFileSizeIsNegative        |-> hdr /\ ~nonneg,
       HeaderLengthIsTooSmall       |-> nonneg /\ ~lhok,
       InvalidCharacterRange        |-> lhok /\ ~rng,
       IncompleteSubFiles           |-> rng /\ ~dims,
       TooManyExtensibleCharacters  |-> dims /\ ~ext,
       InconsistentSubFileSizes     |-> ext /\ lf # Sum(b),
       Ok                           |-> ext /\ lf = Sum(b) ]

\* Why the checks suffice: an accepted file can be cut into its eleven parts without ever
\* indexing outside the bytes that exist (RawFile::finish_deserialization slices b[..4*n]
\* for n = 6, lh, ec-bc+1, nw, ..., np in turn), every size fits a non-negative i16, the
\* character range is a sub-range of 0..255 or empty, and at most 256 recipes exist.
Parts(b) == <<6, W(b, LH), W(b, EC) - W(b, BC) + 1, W(b, NW), W(b, NH), W(b, ND),
              W(b, NI), W(b, NL), W(b, NK), W(b, NE), W(b, NP)>>
RECURSIVE PartSum(_, _)
PartSum(p, n) == IF n = 0 THEN 0 ELSE PartSum(p, n - 1) + p[n]
SliceSafe(len, b) ==
  LET p == Parts(b) IN
  /\ Len(b) = 24
  /\ \A i \in 1..11 : p[i] >= 0 /\ p[i] <= 32767 /\ 4 * PartSum(p, i) <= len
  /\ PartSum(p, 11) = W(b, LF)
  /\ \/ W(b, BC) <= W(b, EC) /\ W(b, EC) <= 255
     \/ W(b, BC) = W(b, EC) + 1
  /\ W(b, NW) >= 1 /\ W(b, NH) >= 1 /\ W(b, ND) >= 1 /\ W(b, NI) >= 1 /\ W(b, LH) >= 2
  /\ W(b, NE) <= 256

\* "There's some extra junk at the end of the TFM file" is printed at the end of
\* section 20, i.e. for every file whose declared length was read completely.
PastSection20(kind) == kind \in Section21 \cup {"Ok"}
Junk(len, b) == len > 4 * W(b, LF)

(* ------------------------------------------------------------------------ *)
(* TFtoPL's abort texts (first line; the second line is always               *)
(* "Sorry, but I can't go on; are you sure this is a TFM?")                  *)
(* ------------------------------------------------------------------------ *)
MsgFirstByte == "The first byte of the input file exceeds 127!"
MsgOneByte   == "The input file is only one byte long!"
MsgNegative  == "One of the subfile sizes is negative!"
AbortText(kind, len, b) ==
  CASE kind = "FileHasOneByte" -> IF B(b, 0) > 127 THEN MsgFirstByte ELSE MsgOneByte
    [] kind = "InternalFileLengthIsNegative" -> MsgFirstByte
    [] kind = "InternalFileLengthIsZero" -> "The file claims to have length zero, but that's impossible!"
    [] kind = "InternalFileLengthIsTooBig" -> "The file has fewer bytes than it claims!"
    [] kind = "SubFileSizeIsNegative" -> MsgNegative
    [] kind = "HeaderLengthIsTooSmall" -> "The header length is only " \o ToString(W(b, LH)) \o "!"
    [] kind = "InvalidCharacterRange" ->
         "The character code range " \o ToString(W(b, BC)) \o ".." \o ToString(W(b, EC)) \o " is illegal!"
    [] kind = "IncompleteSubFiles" -> "Incomplete subfiles for character dimensions!"
    [] kind = "TooManyExtensibleCharacters" -> "There are " \o ToString(W(b, NE)) \o " extensible recipes!"
    [] kind = "InconsistentSubFileSizes" -> "Subfile sizes don't add up to the stated total!"
    [] OTHER -> ""    \* FileIsEmpty, InternalFileLengthIsTooSmall: undefined in TFtoPL; Ok: none

(* ------------------------------------------------------------------------ *)
(* Implementation-shaped layer: RawFile::deserialize                         *)
(* ------------------------------------------------------------------------ *)
DeviationNames == {"PanicShortHeader", "PanicSumOverflowsI16", "NeLimit255", "EmptyRangeSkipsEc"}
\*  PanicShortHeader      `if lf <= 3` guards `b.get(0..24).expect(..)`: lf in {4,5} with a
\*                        16..23-byte file reaches the expect and panics; with >= 24 bytes the
\*                        sizes are read from beyond the declared length.  Fix: `lf <= 5`.
\*  PanicSumOverflowsI16  valid_lf() adds the sizes in i16: panics ("attempt to add with
\*                        overflow") when a partial sum exceeds 32767 (and, built without
\*                        overflow checks, wraps -- see Bug "SumWraps16").  Fix: add in i32.
\*  NeLimit255            `if s.ne > 255`: ne = 256 is rejected; TFtoPL tests ne > 256 (and the
\*                        variant's own documentation says "more than 256").
\*  EmptyRangeSkipsEc     bc = ec+1 (empty range) skips the ec > 255 test, and ec+1 saturates
\*                        at 32767, so bc = ec = 32767 also counts as "empty".

PanicExpect24 == "panic:3 < lf <= b.len()"
PanicAddOverflow == "panic:attempt to add with overflow"

\* left-to-right i16 addition of valid_lf(); -1 stands for "a partial sum left the i16 range"
RECURSIVE AddI16(_, _, _)
AddI16(acc, terms, i) ==
  IF i > Len(terms) THEN acc
  ELSE LET s == acc + terms[i] IN
       IF s > 32767 \/ s < -32768 THEN -1 ELSE AddI16(s, terms, i + 1)
Wrap16(x) == Signed(x % 65536)

RECURSIVE FirstOf(_, _)
FirstOf(rows, i) == IF i > Len(rows) THEN "Ok"
                    ELSE IF rows[i][2] THEN rows[i][1] ELSE FirstOf(rows, i + 1)

\* Bug (negative controls of the model, never used by the binding):
\*   "NoNegativeCheck"  the eleven sign tests are dropped
\*   "NoEcCheck"        ec > 255 is never tested
\*   "NiMayBeZero"      the incomplete-subfiles test forgets ni
\*   "SumBeforeRange"   the sum test is made before the range/dimension/recipe tests
\*   "SumWraps16"       valid_lf() wraps modulo 2^16 (a build without overflow checks)
ClassifyImpl(len, b, D, Bug) ==
  IF len = 0 THEN "FileIsEmpty"
  ELSE IF len = 1 THEN "FileHasOneByte"
  ELSE LET lf == Signed(W(b, LF)) IN
  IF lf < 0 THEN "InternalFileLengthIsNegative"
  ELSE IF lf = 0 THEN "InternalFileLengthIsZero"
  ELSE IF len < 4 * lf THEN "InternalFileLengthIsTooBig"
  ELSE IF lf <= (IF "PanicShortHeader" \in D THEN 3 ELSE 5) THEN "InternalFileLengthIsTooSmall"
  ELSE IF len < 24 THEN PanicExpect24                      \* b.get(0..24).expect("3 < lf <= b.len()")
  ELSE LET s(k) == Signed(W(b, k))
           \* s.ec.saturating_add(1)
           ec1  == IF s(EC) = 32767 THEN 32767 ELSE s(EC) + 1
           \* the terms of valid_lf() after the leading 6, in the order they are added
           terms == <<s(LH), s(EC) - s(BC) + 1, s(NW), s(NH), s(ND), s(NI), s(NL), s(NK), s(NE), s(NP)>>
           exact == SumOf(s(LH), s(BC), s(EC), s(NW), s(NH), s(ND), s(NI), s(NL), s(NK), s(NE), s(NP))
           sumOutcome ==
             IF Bug = "SumWraps16" THEN (IF lf # Wrap16(exact) THEN "InconsistentSubFileSizes" ELSE "Ok")
             ELSE IF "PanicSumOverflowsI16" \in D /\ AddI16(6, terms, 1) = -1 THEN PanicAddOverflow
             ELSE IF lf # exact THEN "InconsistentSubFileSizes" ELSE "Ok"
           neg == <<"SubFileSizeIsNegative", Bug # "NoNegativeCheck" /\ \E k \in 1..11 : s(k) < 0>>
           lhr == <<"HeaderLengthIsTooSmall", s(LH) < 2>>
           rng == <<"InvalidCharacterRange",
                    IF "EmptyRangeSkipsEc" \in D
                    THEN \* match s.bc.cmp(&ec1): Less => ec must fit a u8; Equal => empty; Greater => error
                         s(BC) > ec1 \/ (s(BC) < ec1 /\ s(EC) > 255 /\ Bug # "NoEcCheck")
                    ELSE s(BC) > s(EC) + 1 \/ (s(EC) > 255 /\ Bug # "NoEcCheck")>>
           inc == <<"IncompleteSubFiles",
                    s(NW) = 0 \/ s(NH) = 0 \/ s(ND) = 0 \/ (s(NI) = 0 /\ Bug # "NiMayBeZero")>>
           ext == <<"TooManyExtensibleCharacters", s(NE) > (IF "NeLimit255" \in D THEN 255 ELSE 256)>>
           sum == <<sumOutcome, sumOutcome # "Ok">>
  IN FirstOf(IF Bug = "SumBeforeRange" THEN <<neg, lhr, sum, rng, inc, ext>>
             ELSE <<neg, lhr, rng, inc, ext, sum>>, 1)

\* What the binding accepts for a file whose reference classification is `want`:
\* the same kind, except in the region where TFtoPL reads undefined memory, where every
\* section-21 abort is as good as another (never "Ok", never a panic).
Accepts(want, got) ==
  IF want = "InternalFileLengthIsTooSmall" THEN got \in Section21 ELSE got = want

\* The smallest sets of named deviations that explain an outcome the reference rejects.
DevSets(n) == {D \in SUBSET DeviationNames : Cardinality(D) = n}
DevSets1 == DevSets(1)  DevSets2 == DevSets(2)  DevSets3 == DevSets(3)
Explains(len, b, got) ==
  LET hits(S) == {D \in S : ClassifyImpl(len, b, D, "") = got}
      h1 == hits(DevSets1) h2 == hits(DevSets2) h3 == hits(DevSets3) h4 == hits({DeviationNames})
  IN IF h1 # {} THEN h1 ELSE IF h2 # {} THEN h2 ELSE IF h3 # {} THEN h3 ELSE h4

\* The input classes in which today's code may leave the reference (closed form; these are
\* the "input class" component of the keys in known_findings/C10.json).
DevClass(d, len, b) ==
  LET past20 == len >= 2 /\ B(b, 0) <= 127 /\ W(b, LF) > 0 /\ len >= 4 * W(b, LF)
      words  == past20 /\ W(b, LF) >= 4 /\ len >= 24 /\ \A k \in 1..11 : ~HiBit(b, k)
  IN CASE d = "PanicShortHeader"     -> past20 /\ W(b, LF) \in {4, 5}
       [] d = "NeLimit255"           -> words /\ W(b, NE) = 256
       [] d = "EmptyRangeSkipsEc"    -> words /\ W(b, EC) > 255
                                        /\ (W(b, BC) = W(b, EC) + 1 \/ (W(b, BC) = 32767 /\ W(b, EC) = 32767))
       [] d = "PanicSumOverflowsI16" -> words /\ W(b, BC) <= W(b, EC) + 1 /\ Sum(b) > 32767

(* ------------------------------------------------------------------------ *)
(* Knuth's program (TFtoPL.2014.20-21) as a state machine                    *)
(* ------------------------------------------------------------------------ *)
VARIABLES len, b,        \* the file (constant during a behaviour)
          pc,            \* control point
          ptr,           \* tfm_ptr
          val,           \* val[k] = k-th evaluated quantity (lf, lh, ..., np); -1 = not yet
          junk,          \* the "extra junk" message was printed
          out            \* "" while running, else the abort kind or "Ok"
vars == <<len, b, pc, ptr, val, junk, out>>

Abort(kind) == out' = kind /\ pc' = "done"
NoVal == [k \in 0..11 |-> -1]

\* read(tfm_file,tfm[0]); if tfm[0]>127 then abort('The first byte...');
\* if eof(tfm_file) then abort('The input file is only one byte long!');
\* (reading from an empty file is an error of the Pascal run time: own kind)
S20_First ==
  /\ pc = "s20_first"
  /\ IF len = 0 THEN Abort("FileIsEmpty") /\ UNCHANGED <<ptr, val, junk>>
     ELSE IF B(b, 0) > 127
          THEN Abort(IF len = 1 THEN "FileHasOneByte" ELSE "InternalFileLengthIsNegative")
               /\ UNCHANGED <<ptr, val, junk>>
     ELSE IF len = 1 THEN Abort("FileHasOneByte") /\ UNCHANGED <<ptr, val, junk>>
     ELSE pc' = "s20_lf" /\ UNCHANGED <<ptr, val, junk, out>>
  /\ UNCHANGED <<len, b>>

\* read(tfm_file,tfm[1]); lf:=tfm[0]*@'400+tfm[1]; if lf=0 then abort(...)
S20_Lf ==
  /\ pc = "s20_lf"
  /\ val' = [val EXCEPT ![LF] = B(b, 0) * 256 + B(b, 1)]
  /\ IF val'[LF] = 0 THEN Abort("InternalFileLengthIsZero") ELSE pc' = "s20_rest" /\ UNCHANGED out
  /\ UNCHANGED <<len, b, ptr, junk>>

\* for tfm_ptr:=2 to 4*lf-1 do begin if eof(tfm_file) then abort('The file has fewer bytes...');
\*   read(tfm_file,tfm[tfm_ptr]); end;  if not eof(tfm_file) then print_ln('There''s some extra junk...')
\* (the loop is taken in one step: it aborts iff fewer than 4*lf bytes exist)
S20_Rest ==
  /\ pc = "s20_rest"
  /\ IF len < 4 * val[LF] THEN Abort("InternalFileLengthIsTooBig") /\ UNCHANGED <<ptr, junk>>
     ELSE /\ junk' = (len > 4 * val[LF])
          /\ ptr' = 2
          /\ pc' = "s21_eval" /\ UNCHANGED out
  /\ UNCHANGED <<len, b, val>>

\* eval_two_bytes(#) == begin if tfm[tfm_ptr]>127 then abort('One of the subfile sizes is negative!');
\*   #:=tfm[tfm_ptr]*@'400+tfm[tfm_ptr+1]; tfm_ptr:=tfm_ptr+2; end
\* executed for lh, bc, ec, nw, nh, nd, ni, nl, nk, ne, np.  A read at or beyond 4*lf touches
\* memory the program never wrote: modelled as the abort kind InternalFileLengthIsTooSmall.
S21_Eval ==
  /\ pc = "s21_eval"
  /\ IF ptr + 1 >= 4 * val[LF]
     THEN Abort("InternalFileLengthIsTooSmall") /\ UNCHANGED <<ptr, val>>
     ELSE IF B(b, ptr) > 127 THEN Abort("SubFileSizeIsNegative") /\ UNCHANGED <<ptr, val>>
     ELSE /\ val' = [val EXCEPT ![ptr \div 2] = B(b, ptr) * 256 + B(b, ptr + 1)]
          /\ ptr' = ptr + 2
          /\ pc' = IF ptr' = 24 THEN "s21_tests" ELSE "s21_eval"
          /\ UNCHANGED out
  /\ UNCHANGED <<len, b, junk>>

\* the abort tests that follow the eleven evaluations, in order
S21_Tests ==
  /\ pc = "s21_tests"
  /\ LET lf == val[LF] lh == val[LH] bc == val[BC] ec == val[EC] nw == val[NW] nh == val[NH]
         nd == val[ND] ni == val[NI] nl == val[NL] nk == val[NK] ne == val[NE] np == val[NP] IN
     IF lh < 2 THEN Abort("HeaderLengthIsTooSmall")
     ELSE IF (bc > ec + 1) \/ (ec > 255) THEN Abort("InvalidCharacterRange")
     ELSE IF (nw = 0) \/ (nh = 0) \/ (nd = 0) \/ (ni = 0) THEN Abort("IncompleteSubFiles")
     ELSE IF ne > 256 THEN Abort("TooManyExtensibleCharacters")
     ELSE IF lf # 6 + lh + (ec - bc + 1) + nw + nh + nd + ni + nl + nk + ne + np
          THEN Abort("InconsistentSubFileSizes")
     ELSE Abort("Ok")
  /\ UNCHANGED <<len, b, ptr, val, junk>>

KnuthNext == S20_First \/ S20_Lf \/ S20_Rest \/ S21_Eval \/ S21_Tests

MachineInit(l, bytes) ==
  /\ len = l /\ b = bytes
  /\ pc = "s20_first" /\ ptr = 0 /\ val = NoVal /\ junk = FALSE /\ out = ""

(* ---- what TLC checks on the machine ---- *)
Done == pc = "done"
\* the transcribed program and the decision table agree
\* (inside the region where section 21 reads undefined memory the literal program is finer
\* than the table: a high bit in a word that *was* read gives "negative"; see Accepts)
MachineMatchesTable == Done => Accepts(Classify(len, b), out) /\ (out = "Ok") = (Classify(len, b) = "Ok")
\* the closed-form conditions partition the files and select the same row
TableIsPartition ==
  LET c == Cond(len, b)
      k0 == Classify(len, b) IN
  \A k \in Kinds : c[k] = (k = k0)
\* acceptance implies that slicing is safe
OkIsSliceSafe == Classify(len, b) = "Ok" => SliceSafe(len, b)
\* the junk message is printed exactly for over-long files that get past section 20
JunkRule == Done => (junk = (PastSection20(out) /\ Junk(len, b)))
\* the machine never reads a byte that is not in (len, b): every index used is < Len(b)
ReadsInBounds == pc = "s21_eval" /\ ptr + 1 < 4 * val[LF] => ptr + 2 <= Len(b)
\* the program always terminates: no state other than "done" is without a successor
Terminates == ~Done => ENABLED KnuthNext
=============================================================================
