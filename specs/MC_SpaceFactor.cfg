SPECIFICATION Spec
CONSTANTS
  Codes <- CodesQuick
  MaxLen = 5
  Settings <- SettingsQuick
  TexDevs <- NoDevs
  Bug = ""
INVARIANTS SfLaw CapitalRule SfBounds GlueLaws MachineIsFunction CodeIsTexPlusDeviations DeviationIsLocal
CHECK_DEADLOCK FALSE
