SPECIFICATION TSpec
CONSTANTS
  NodeKinds <- NoKinds
  MaxLen = 0
  Configs <- NoConfigs
  TexDevs <- WithDev
  Bug = ""
POSTCONDITION TraceAccepted
CHECK_DEADLOCK FALSE
