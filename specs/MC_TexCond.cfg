SPECIFICATION Spec
CONSTANTS
  N = 5
  Bug = ""
  Deviations = {}
INVARIANT AgreeInv
CHECK_DEADLOCK FALSE
