-------------------------- MODULE Trace_HyphenList --------------------------
(* Binding F: each event is one run of the real hyphenation pass            *)
(* (boxworks_hyphenate::Hyphenator::hyphenate) on a list built by the real  *)
(* text -> hlist path.                                                      *)
(*   before, after   the list before / after the pass (node records)        *)
(*   exc             the exception dictionary loaded (no patterns): w = the *)
(*                   word's letters, p = permitted positions                *)
(*   lh, rh, hc      \lefthyphenmin, \righthyphenmin, the hyphen character  *)
(*   panic           [file, message] instead of `after` when the pass       *)
(*                   panicked -- accepted by nothing                        *)
(* The event is accepted iff Verdict(before, after, ..., {}) finds no       *)
(* failed clause: Words(before) is recomputed by the machine of 894-899 and *)
(* the clauses R1-R3 of HyphenList are evaluated.  Otherwise the smallest   *)
(* set of named deviations under which the relation holds is the key (names *)
(* joined by "+"); if there is none the key is the failed clause.           *)
EXTENDS HyphenList, Json, IOUtils
Rec == ndJsonDeserialize(IOEnv.TRACE)
VARIABLE l

DevSeq == <<DevAbort, DevLeft, DevSyncRb, DevBchar, DevRebuild>>
\* all non-empty subsets of the deviations, smallest first
SetsOfSize(n) == {S \in SUBSET AllDevs : Cardinality(S) = n}
RECURSIVE SetToSeq(_)
SetToSeq(S) == IF S = {} THEN <<>> ELSE LET x == CHOOSE y \in S : TRUE IN <<x>> \o SetToSeq(S \ {x})
DevSets == SetToSeq(SetsOfSize(1)) \o SetToSeq(SetsOfSize(2)) \o SetToSeq(SetsOfSize(3))
           \o SetToSeq(SetsOfSize(4)) \o SetToSeq(SetsOfSize(5))
RECURSIVE Join(_)
Join(s) == IF Len(s) = 0 THEN "" ELSE IF Len(s) = 1 THEN s[1] ELSE s[1] \o "+" \o Join(Tail(s))
KeyOf(D) == Join(SelectSeq(DevSeq, LAMBDA d : d \in D))

V(e, D) == Verdict(e.before, e.after, [exc |-> e.exc, lh |-> e.lh, rh |-> e.rh, hc |-> e.hc, D |-> D])

Describe(e, v) ==
  LET W == Words(e.before, e.lh, e.rh, {})
  IN [clause |-> v.clause, before_index |-> v.at[1], after_index |-> v.at[2],
      words |-> [q \in 1..Len(W) |-> [first |-> W[q].first, hb |-> W[q].hb, hc |-> W[q].hc,
                                      permitted |-> Permitted(e.exc, W[q], e.lh, e.rh)]]]

\* index of the first (smallest) set of deviations under which the event is accepted, 0 if none
RECURSIVE FirstHit(_, _)
FirstHit(e, x) == IF x > Len(DevSets) THEN 0
                  ELSE IF V(e, DevSets[x]).clause = "" THEN x ELSE FirstHit(e, x + 1)

EmptyWordPanic(e) ==
  /\ e.panic[1] = "crates/boxworks-hyphenate/src/lib.rs"
  /\ e.panic[2] = "assertion failed: !s.is_empty()"
  /\ ReachesEmptyWord(e.before, e.lh, e.rh)

TInit == l = 1 /\ list = <<>> /\ st = St0
TStep == /\ l <= Len(Rec) /\ l' = l + 1 /\ UNCHANGED vars
         /\ LET e == Rec[l] IN
            IF "panic" \in DOMAIN e
            THEN PrintT(<<"VERDICT", ToJson([l |-> l, key |-> IF EmptyWordPanic(e) THEN DevEmpty ELSE "panic",
                                             got |-> e.panic])>>)
            ELSE LET v == V(e, {}) IN
                 IF v.clause = "" THEN TRUE
                 ELSE LET x == FirstHit(e, 1) IN
                      IF x = 0
                      THEN PrintT(<<"VERDICT", ToJson([l |-> l, key |-> v.clause, strict |-> Describe(e, v),
                                                       with_all_deviations |-> V(e, AllDevs).clause])>>)
                      ELSE PrintT(<<"VERDICT", ToJson([l |-> l, key |-> KeyOf(DevSets[x]), strict |-> Describe(e, v)])>>)
TSpec == TInit /\ [][TStep]_<<vars, l>>
Matched == TLCGet("stats").diameter - 1
TraceAccepted == \/ Matched = Len(Rec)
                 \/ PrintT(<<"MATCHED", Matched>>) /\ FALSE

NoNodes == {}
NoDevs == {}
=============================================================================
