SPECIFICATION Spec
CONSTANTS
  N = 5
  Bug = ""
  Deviations = {}
INVARIANT ScannerInvariants
CHECK_DEADLOCK FALSE
