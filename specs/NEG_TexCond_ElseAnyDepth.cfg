SPECIFICATION Spec
CONSTANTS
  N = 5
  Bug = "ElseAnyDepth"
  Deviations = {}
INVARIANT AgreeInv
CHECK_DEADLOCK FALSE
