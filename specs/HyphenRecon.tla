----------------------------- MODULE HyphenRecon -----------------------------
(***************************************************************************)
(* C14, second model: TeX's reconstitution of a hyphenated word (tex.web   *)
(* 903-918) transcribed for fonts whose lig/kern programs hold kerns and   *)
(* simple ligatures (`=:`, the only ligature form of the standard text     *)
(* fonts), with a hyphen character and an optional right boundary          *)
(* character; no left boundary program.                                    *)
(*                                                                         *)
(*   Recon        905-911  reconstitute(j, n, bchar, hchar): one cut       *)
(*                prefix of hu[j..n], where a hyphen was passed            *)
(*   Hyphenate    913-918  the main loop, the discretionary with its       *)
(*                pre-break list (915), the post-break list developed      *)
(*                until both branches reach a common cut (916-917)         *)
(*                                                                         *)
(* What TLC checks (MC_HyphenRecon): for EVERY font over a pool of rules,  *)
(* EVERY word over a small alphabet and EVERY set of hyphen positions the  *)
(* list TeX builds satisfies the relation R1-R3 of HyphenList that         *)
(* Trace_HyphenList demands of the code -- with the list main control      *)
(* builds (reconstitution without hyphens) as `before`.  So the relation   *)
(* asks nothing that TeX does not do.  Negative controls: the relation     *)
(* without the "forgotten hyphen" exception is refuted (of-f-ice), and so  *)
(* are reconstitutions that do not synchronise or ignore the minimums.     *)
(***************************************************************************)
EXTENDS HyphenList

CONSTANTS HyfChar,   \* hyphen_char[hf]
          ReconBug   \* "" or a seeded mutant

(* A font F = [rules, bchar]: rules is a set of records [l, r, t, v] -- the instruction for the pair (l, r) is
   t = "lig" (=: v) or t = "kern" (amount v), at most one per pair; bchar = font_bchar[hf] (NonChar if none). *)
Hf == 0
RuleFor(F, l, r) == {x \in F.rules : x.l = l /\ x.r = r}
HasRule(F, l, r) == r # NonChar /\ RuleFor(F, l, r) # {}
TheRule(F, l, r) == CHOOSE x \in RuleFor(F, l, r) : TRUE

CharNode(c) == [k |-> "char", c |-> c, f |-> Hf]
LigNode(c, o, rb) == [k |-> "lig", c |-> c, f |-> Hf, o |-> o, lb |-> 0, rb |-> IF rb THEN 1 ELSE 0]
KernNode(w) == [k |-> "kern", w |-> w, x |-> 0]

(* 905-911.  hu: the characters; n: last position; hyf: set of positions j with odd(hyf[j]);
   returns [nodes, j, hp]: the translation of the cut prefix, its last position, hyphen_passed. *)
RECURSIVE ReconLoop(_, _, _, _, _, _)
ReconLoop(F, c, hu, n, hyf, bchar) ==
  \* c: [j, curl, chars, lig, hchar, currh, hp]     (908: cur_l, the characters of link(cur_q).., ligature_present)
  LET curr == IF c.j < n THEN hu[c.j + 1] ELSE bchar                            \* set_cur_r
      test == IF c.currh # NonChar THEN c.currh ELSE curr                        \* 909
      done(curl, lig, rt, w) ==
        [nodes |-> <<IF lig THEN LigNode(curl, c.chars, rt) ELSE CharNode(curl)>>   \* 910 wrap_lig(rt_hit)
                   \o (IF w # 0 THEN <<KernNode(w)>> ELSE <<>>),
         j |-> c.j, hp |-> c.hp]
  IN IF HasRule(F, c.curl, test)
     THEN IF c.currh # NonChar
          THEN \* a rule with the hyphen character: remember the position, try again without it
               ReconLoop(F, [c EXCEPT !.hp = c.j, !.hchar = NonChar, !.currh = NonChar], hu, n, hyf, bchar)
          ELSE LET pass == c.hchar # NonChar /\ c.j \in hyf
                   hp2 == IF pass THEN c.j ELSE c.hp
                   hchar2 == IF pass THEN NonChar ELSE c.hchar
                   q == TheRule(F, c.curl, test)
               IN IF q.t = "lig"
                  THEN IF c.j = n                                                \* 911 =: with the boundary: rt_hit
                       THEN [done(q.v, TRUE, TRUE, 0) EXCEPT !.hp = hp2]
                       ELSE LET j2 == c.j + 1 IN                                 \* append_charnode_to_t(cur_r); incr(j); set_cur_r
                            ReconLoop(F, [j |-> j2, curl |-> q.v, chars |-> Append(c.chars, curr), lig |-> TRUE,
                                       hchar |-> hchar2, currh |-> IF j2 \in hyf THEN hchar2 ELSE NonChar,
                                       hp |-> hp2], hu, n, hyf, bchar)
                  ELSE [done(c.curl, c.lig, FALSE, q.v) EXCEPT !.hp = hp2]         \* kern: w:=char_kern
     ELSE IF c.currh = NonChar THEN done(c.curl, c.lig, FALSE, 0)
          ELSE ReconLoop(F, [c EXCEPT !.currh = NonChar], hu, n, hyf, bchar)

Recon(F, hu, n, hyf, j, bchar, hchar) ==
  ReconLoop(F, [j |-> j, curl |-> hu[j], chars |-> <<hu[j]>>, lig |-> FALSE, hchar |-> hchar,
             currh |-> IF j \in hyf THEN hchar ELSE NonChar, hp |-> 0], hu, n, hyf, bchar)

\* hu[a..b] translated cut prefix by cut prefix (no hyphens considered): 915, and main control itself
RECURSIVE Plain(_, _, _, _, _)
Plain(F, hu, a, b, bchar) ==
  IF a > b THEN <<>>
  ELSE LET r == Recon(F, hu, b, {}, a, bchar, NonChar) IN r.nodes \o Plain(F, hu, r.j + 1, b, bchar)

\* 916: put the characters hu[i+1..] into post_break, appending to it and to major_tail until
\* synchronization has been achieved.  p: [l, j, post, major]
RECURSIVE Sync(_, _, _, _, _, _)
Sync(F, p, hu, hn, hyf, bchar) ==
  IF p.l < p.j
  THEN LET r == Recon(F, hu, hn, hyf, p.l, bchar, NonChar) IN           \* repeat l:=reconstitute(l,hn,bchar,non_char)+1 until l>=j
       Sync(F, [p EXCEPT !.l = r.j + 1, !.post = @ \o r.nodes], hu, hn, hyf, bchar)
  ELSE IF p.l > p.j /\ ReconBug # "NoSync"
  THEN LET r == Recon(F, hu, hn, hyf, p.j, bchar, NonChar) IN           \* 917
       Sync(F, [p EXCEPT !.j = r.j + 1, !.major = @ \o r.nodes], hu, hn, hyf, bchar)
  ELSE p

\* 913-918.  m: [j, l, hp, hold, hyf, out, indisc]
RECURSIVE Loop(_, _, _, _, _)
Loop(F, m, hu, hn, bchar) ==
  IF ~m.indisc
  THEN IF m.j > hn THEN m.out                                          \* until j>hn
       ELSE LET r == Recon(F, hu, hn, m.hyf, m.j, bchar, HyfChar)         \* l:=j; j:=reconstitute(j,hn,bchar,hyf_char)+1
                j2 == r.j + 1
            IN IF r.hp = 0
               THEN IF (j2 - 1) \in m.hyf                               \* if odd(hyf[j-1]) then l:=j; hyphen_passed:=j-1
                    THEN Loop(F, [m EXCEPT !.j = j2, !.l = j2, !.hp = j2 - 1, !.hold = <<>>, !.out = @ \o r.nodes,
                                        !.indisc = TRUE], hu, hn, bchar)
                    ELSE Loop(F, [m EXCEPT !.j = j2, !.out = @ \o r.nodes], hu, hn, bchar)
               ELSE Loop(F, [m EXCEPT !.j = j2, !.l = m.j, !.hp = r.hp, !.hold = r.nodes, !.indisc = TRUE], hu, hn, bchar)
  ELSE \* 914: create and append a discretionary node, develop both branches until they become equivalent
       LET i == m.hp
           hyf2 == m.hyf \ {i}                                          \* hyf[i]:=0
           hup == [hu EXCEPT ![i + 1] = HyfChar]                        \* 915: hu[i+1]:=hyf_char
           pre == Plain(F, hup, m.l, i + 1, F.bchar)                     \* reconstitute(l,i,font_bchar[hf],non_char)
           p == Sync(F, [l |-> i + 1, j |-> m.j, post |-> <<>>, major |-> m.hold], hu, hn, hyf2, bchar)
           d == [k |-> "disc", pre |-> pre, post |-> p.post, n |-> Len(p.major)]     \* 918
           out2 == m.out \o <<d>> \o p.major
       IN IF (p.j - 1) \in hyf2                                         \* until not odd(hyf[j-1])
          THEN Loop(F, [j |-> p.j, l |-> p.l, hp |-> p.j - 1, hold |-> <<>>, hyf |-> hyf2, out |-> out2,
                     indisc |-> TRUE], hu, hn, bchar)
          ELSE Loop(F, [j |-> p.j, l |-> p.l, hp |-> 0, hold |-> <<>>, hyf |-> hyf2, out |-> out2,
                     indisc |-> FALSE], hu, hn, bchar)

\* the nodes TeX puts in place of the word hu[1..hn] (903: ha is not a character, no left boundary: j=1)
Hyphenate(F, hu, hn, hyf, bchar) ==
  Loop(F, [j |-> 1, l |-> 1, hp |-> 0, hold |-> <<>>, hyf |-> hyf, out |-> <<>>, indisc |-> FALSE], hu, hn, bchar)

---------------------------------------------------------------------------
(* One instance: a word after a glue, followed by the paragraph's tail.    *)
Glue == [k |-> "glue"]
ParTail == <<[k |-> "pen", p |-> 10000], [k |-> "glue"]>>

\* what main control builds from the characters of the word (1034-1040: the same program, the font's
\* boundary character at the end of the word)
Before(F, hu) == <<Glue>> \o Plain(F, hu, 1, Len(hu), F.bchar) \o ParTail

\* what the hyphenation pass makes of it: 894-899 find the word and hyf_bchar, 902/923 mask the positions,
\* 903-918 rebuild it if a position is left
After(F, hu, allowed, lh, rh) ==
  LET B == Before(F, hu)
      W == Words(B, lh, rh, {})
  IN IF W = <<>> THEN B
     ELSE LET w == W[1]
              hyf == IF ReconBug = "HyphenMinIgnored" THEN {p \in allowed : p <= w.hn - NormMin(rh)}
                     ELSE {p \in allowed : NormMin(lh) <= p /\ p <= w.hn - NormMin(rh)}
              bchar == IF w.bchar = FontB THEN F.bchar ELSE w.bchar
          IN IF hyf = {} THEN B                                          \* 902: return
             ELSE SubSeq(B, 1, w.first - 1) \o Hyphenate(F, hu, w.hn, hyf, bchar) \o SubSeq(B, w.hb + 1, Len(B))

RECURSIVE SetToSeq(_)
SetToSeq(S) == IF S = {} THEN <<>> ELSE LET x == CHOOSE y \in S : \A z \in S : y <= z IN <<x>> \o SetToSeq(S \ {x})

RelationOnTeX(F, hu, allowed, lh, rh) ==
  Verdict(Before(F, hu), After(F, hu, allowed, lh, rh),
          [exc |-> <<[w |-> [q \in 1..Len(hu) |-> LcCode(hu[q])], p |-> SetToSeq(allowed)]>>,
           lh |-> lh, rh |-> rh, hc |-> HyfChar, D |-> {}])
=============================================================================
