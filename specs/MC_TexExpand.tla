---------------------------- MODULE MC_TexExpand ----------------------------
EXTENDS TexExpand, TLC, Json
CONSTANT N
Alphabet == { Tok("x", 1), Tok("m", 1), Tok("m", 2), Tok("m", 3), Tok("m", 4), Tok("xa", 0), Tok("nx", 0) }
VARIABLE toks
Init == toks \in UNION { [1..n -> Alphabet] : n \in 0..N }
Next == UNCHANGED toks
Spec == Init /\ [][Next]_toks
\* the two built-ins are indistinguishable
SimpleEqOptimized == ImplRun(toks, "simple") = ImplRun(toks, "optimized")
\* and both equal TeX (with the recorded deviations, if any, enabled in the reference layer)
ImplEqRef == ImplRun(toks, "simple") = RefRun(toks)
\* spec -> impl: print each stream with what TeX delivers (strict reference)
EmitInv == (RefRun(toks).err = "" /\ \E i \in 1..Len(toks) : toks[i].t \in {"xa", "nx"}) =>
             PrintT(<<"REPLAY", ToJson([toks |-> toks, want |-> RefRun(toks).out])>>)
==============================================================================
