---------------------------- MODULE LigKernImpl ----------------------------
(***************************************************************************)
(* IMPLEMENTATION-SHAPED LAYER of C05: what tfm::ligkern does instead of   *)
(* interpreting the instructions at a cursor.                              *)
(*                                                                         *)
(*  1. compiler.rs -- every pair (left | boundary, right) that has an      *)
(*     instruction is given a Replacement: a finished sequence of          *)
(*     intermediate ops (characters, each flagged is_lig, and kerns)       *)
(*     followed by the one character that is left under the cursor.        *)
(*     A ligature form either finishes the pair at once or leaves a        *)
(*     Pending(left?, middle, right?) whose child pair (left, middle) has  *)
(*     to be replaced first, and then (result, right).  Repl/Chain is that *)
(*     computation made recursive on the child; a pair met again while it  *)
(*     is being computed is `blocked` (it is what calculate_replacements   *)
(*     leaves in node_to_parents and reports as an infinite loop).         *)
(*     LigKernCompile.tla models the work-list algorithm itself and checks *)
(*     that it computes this table in every processing order.              *)
(*                                                                         *)
(*  2. mod.rs, RunIter::next -- the word is consumed pair by pair: look    *)
(*     up (next_left, next character | right boundary), emit the           *)
(*     replacement's ops, continue with its last character as next_left.   *)
(*     Original characters are accumulated in a pending ligature           *)
(*     (string + two boundary flags) using consumes_left / left.           *)
(*                                                                         *)
(* MC_LigKern.tla checks ImplRun = the nodes of the reference machine.     *)
(***************************************************************************)
EXTENDS LigKern

Cc(c, lig) == [c |-> c, lig |-> lig]                 \* compiler::C
NoC        == Cc(-1, FALSE)                          \* Option::None for Pending.2
OpC(cc)    == [k |-> FALSE, c |-> cc.c, lig |-> cc.lig]   \* IntermediateOp::C
OpK(a)     == [k |-> TRUE,  c |-> a,    lig |-> FALSE]    \* IntermediateOp::Kern
\* C::left_char / filter_left_boundary!: the left boundary is not an op
LeftOps(x) == IF x = NonChar THEN <<>> ELSE <<OpC(Cc(x, FALSE))>>
Fin(ops, last) == [st |-> "ok", ops |-> ops, last |-> last]

\* "update the is_lig fields in case either the left or right character is a lig":
\* the first character op inherits consumes_left_lig; carry = nobody took it
RECURSIVE MergeOps(_, _)
MergeOps(ops, flag) ==
  IF ops = <<>> THEN [ops |-> <<>>, carry |-> flag]
  ELSE LET h == Head(ops) IN
       IF h.k THEN LET t == MergeOps(Tail(ops), flag) IN [ops |-> <<h>> \o t.ops, carry |-> t.carry]
       ELSE [ops |-> <<[h EXCEPT !.lig = @ \/ (flag /\ Bug # "IsLigNotPropagated")]>> \o Tail(ops), carry |-> FALSE]

\* The first loop of calculate_replacements: what one instruction (op, z) means for the pair (x, y).
\* done: the pair is finished with Replacement(fin, last); otherwise an OngoingCalculation with the
\* finalized ops `fin` and Pending(p0, p1, p2) is created (p0.c = NonChar: left boundary, p2 = NoC: none).
Form(x, y, op, z) ==
  LET zl == Cc(z, TRUE)   yr == Cc(y, FALSE)   xl == Cc(x, FALSE)
      Done(ops, last)       == [done |-> TRUE,  fin |-> ops, last |-> last, p0 |-> NoC, p1 |-> NoC, p2 |-> NoC]
      Pend(ops, p0, p1, p2) == [done |-> FALSE, fin |-> ops, last |-> NoC,  p0 |-> p0,  p1 |-> p1,  p2 |-> p2]
  IN IF op >= KernOp THEN Done(LeftOps(x) \o <<OpK(z)>>, yr)
     ELSE CASE op = 3  -> Pend(<<>>, xl, zl, yr)                           \* RetainBothMoveNowhere
            [] op = 7  -> IF Bug = "MoveTooFar" THEN Done(LeftOps(x) \o <<OpC(zl)>>, yr)
                          ELSE Pend(LeftOps(x), zl, yr, NoC)               \* RetainBothMoveToInserted
            [] op = 11 -> Done(LeftOps(x) \o <<OpC(zl)>>, yr)              \* RetainBothMoveToRight
            [] op = 1  -> Pend(<<>>, zl, yr, NoC)                          \* RetainRightMoveToInserted
            [] op = 5  -> Done(<<OpC(zl)>>, yr)                            \* RetainRightMoveToRight
            [] op = 2  -> Pend(<<>>, xl, zl, NoC)                          \* RetainLeftMoveNowhere
            [] op = 6  -> Done(LeftOps(x), zl)                             \* RetainLeftMoveToInserted
            [] OTHER   -> Done(<<>>, zl)                                   \* RetainNeitherMoveToInserted

\* The body of the work loop once the child pair (p0, p1) is settled: r is the child's replacement
\* ([st |-> "none"] when it has no instruction).  Gives the new finalized ops and the character
\* that is now under the cursor.
Resolve(fin, p0, p1, r) ==
  IF r.st = "none"
  THEN \* "There is no lig/kern rule for this pair" (the left boundary is dropped on the floor)
       [fin |-> fin \o (IF p0.c = NonChar THEN <<>> ELSE <<OpC(p0)>>), last |-> p1]
  ELSE LET m == MergeOps(r.ops, p0.c # NonChar /\ p0.lig) IN
       [fin |-> fin \o m.ops, last |-> Cc(r.last.c, r.last.lig \/ m.carry \/ p1.lig)]

RECURSIVE Repl(_, _, _, _), Chain(_, _, _, _, _, _)

\* Replacement of the pair (x, y); x = NonChar: left boundary.
\*   [st |-> "none"]      no instruction
\*   [st |-> "blocked"]   depends on a pair that is still being computed
\*   [st |-> "ok", ops, last]
Repl(P, x, y, pend) ==
  LET i == Lookup(P, x, y) IN
  IF i = 0 THEN [st |-> "none"]
  ELSE IF <<x, y>> \in pend THEN [st |-> "blocked"]
  ELSE LET f == Form(x, y, Ins(P, i)[3], Ins(P, i)[4]) IN
       IF f.done THEN Fin(f.fin, f.last)
       ELSE Chain(P, f.fin, f.p0, f.p1, f.p2, pend \cup {<<x, y>>})

\* One OngoingCalculation followed to its end
Chain(P, fin, p0, p1, p2, pend) ==
  LET r == Repl(P, p0.c, p1.c, pend) IN
  IF r.st = "blocked" THEN r
  ELSE LET step == Resolve(fin, p0, p1, r) IN
       IF p2.c = -1 THEN Fin(step.fin, step.last)
       ELSE Chain(P, step.fin, step.last, p2, NoC, pend)

\* the pairs calculate_replacements cannot finish = the pairs it reports loops for
BlockedPairs(P) == {pr \in RulePairs(P) : Repl(P, pr[1], pr[2], {}).st = "blocked"}

-----------------------------------------------------------------------------
(* RunIter *)

DefaultLig == [s |-> <<>>, lb |-> FALSE, rb |-> FALSE]          \* PendingLigature::default()
LigOut(pl, c) == <<1, c, pl.s, B(pl.lb), B(pl.rb)>>             \* into_ligature

\* CompiledProgram::get_replacement_utf8(left, right or override); right = NonChar: end of word
GetRepl(P, left, right, rbo) ==
  LET rc == IF right # NonChar THEN right ELSE IF rbo # NonChar THEN rbo ELSE P.rbc IN
  IF rc = NonChar THEN [st |-> "none"]
  ELSE LET direct == Repl(P, left, rc, {}) IN
       IF Bug = "BoundaryMidWord" /\ direct.st # "ok" /\ left # NonChar THEN Repl(P, NonChar, rc, {})
       ELSE direct

\* run_with_options.  nt/nc/nr: NextLeft (B boundary, C char, L lig(c, right), F final lig, N none)
ImplInit(w, nl, rbo) ==
  [word |-> IF nl = 1 THEN Tail(w) ELSE w, rbo |-> rbo, iops |-> <<>>, cl |-> TRUE, left |-> NonChar,
   nt |-> IF nl = 1 THEN "C" ELSE "B", nc |-> IF nl = 1 THEN w[1] ELSE NonChar, nr |-> NonChar,
   lg |-> FALSE, pl |-> DefaultLig, out |-> <<>>, fin |-> FALSE]

TakeLig(it) == IF it.lg THEN it.pl ELSE DefaultLig
\* "if self.consumes_left { if let Some(left) = self.left { s.s.push(left) } else { s.includes_left_boundary = true } }"
PushLeft(it, pl) == IF it.cl THEN (IF it.left # NonChar THEN [pl EXCEPT !.s = Append(@, it.left)]
                                   ELSE [pl EXCEPT !.lb = TRUE])
                    ELSE pl

\* One call of RunIter::next up to the point where it returns or calls itself again
ImplStep(P, it) ==
  IF it.iops # <<>>
  THEN LET op == Head(it.iops)   tail == Tail(it.iops)   it1 == [it EXCEPT !.iops = tail] IN
       IF op.k THEN [it1 EXCEPT !.out = Append(@, <<2, op.c>>)]
       ELSE IF ~op.lig
       THEN [it1 EXCEPT !.cl = FALSE, !.lg = FALSE, !.pl = DefaultLig,
                        !.out = Append(@, IF it.lg THEN LigOut(it.pl, op.c) ELSE <<0, op.c>>)]
       ELSE LET s0 == PushLeft(it, TakeLig(it))
                rb == it.nt = "N" /\ (tail = <<>> \/ (Len(tail) = 1 /\ tail[1].k))
            IN [it1 EXCEPT !.cl = FALSE, !.lg = FALSE, !.pl = DefaultLig,
                           !.out = Append(@, LigOut([s0 EXCEPT !.rb = rb], op.c))]
  ELSE CASE it.nt = "N" -> [it EXCEPT !.fin = TRUE]
         [] it.nt = "F" -> LET s0 == PushLeft(it, TakeLig(it)) IN
                           [it EXCEPT !.lg = FALSE, !.pl = DefaultLig, !.nt = "N",
                                      !.out = Append(@, LigOut([s0 EXCEPT !.rb = TRUE], it.nc))]
         [] OTHER ->
            LET pre == CASE it.nt = "B" -> [left |-> NonChar, lio |-> TRUE, it |-> it]
                         [] it.nt = "C" -> [left |-> it.nc, lio |-> TRUE, it |-> it]
                         [] OTHER -> \* NextLeft::Lig(c, right)
                              LET s0 == PushLeft(it, TakeLig(it)) IN
                              [left |-> it.nc, lio |-> FALSE,
                               it |-> [it EXCEPT !.lg = TRUE, !.pl = [s0 EXCEPT !.s = Append(@, it.nr)]]]
                i0 == pre.it
                right == IF i0.word = <<>> THEN NonChar ELSE Head(i0.word)
                i1 == [i0 EXCEPT !.word = IF @ = <<>> THEN @ ELSE Tail(@)]
            IN IF pre.left = NonChar /\ right = NonChar THEN [i1 EXCEPT !.fin = TRUE]
               ELSE LET rep == GetRepl(P, pre.left, right, it.rbo) IN
                    IF rep.st = "ok"
                    THEN [i1 EXCEPT !.left = pre.left, !.cl = pre.lio, !.iops = rep.ops,
                                    !.nt = IF rep.last.lig THEN (IF right = NonChar THEN "F" ELSE "L")
                                           ELSE (IF right = NonChar THEN "N" ELSE "C"),
                                    !.nc = rep.last.c, !.nr = right]
                    ELSE LET i2 == [i1 EXCEPT !.nt = IF right = NonChar THEN "N" ELSE "C", !.nc = right] IN
                         IF pre.left # NonChar
                         THEN [i2 EXCEPT !.lg = FALSE, !.pl = DefaultLig,
                                         !.out = Append(@, IF i1.lg THEN LigOut(i1.pl, pre.left)
                                                           ELSE <<0, pre.left>>)]
                         ELSE i2

RECURSIVE ImplIterate(_, _, _)
ImplIterate(P, it, fuel) == IF it.fin \/ fuel = 0 THEN it ELSE ImplIterate(P, ImplStep(P, it), fuel - 1)

\* the items CompiledProgram::run_with_options yields
ImplRun(P, w, nl, rbo) == ImplIterate(P, ImplInit(w, nl, rbo), 10000)
=============================================================================
