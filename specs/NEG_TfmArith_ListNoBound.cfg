SPECIFICATION Spec
CONSTANTS
  Bug = "ListNoBound"
  N = 5
INVARIANTS WalkIsDefinition ScanRefines ChainsFinite FollowsLinks CutOnlyAtLargest ChainIsWalk
CHECK_DEADLOCK FALSE
