SPECIFICATION Spec
CONSTANTS
  Bug = "ScaledBeta16"
INVARIANTS MatchesExact Rejects Continuous Identities
CHECK_DEADLOCK FALSE
