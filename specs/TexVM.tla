------------------------------- MODULE TexVM -------------------------------
(* An executable, token-level model of the interpreter for the primitive set  *)
(* texlang-stdlib implements - the composition the per-property modules        *)
(* (TexExpand, TexMacro, TexCond, TexGroups, TexArith) were written towards    *)
(* (DESIGN.md section 7).  One state, one step function, TeX's own structure:  *)
(*                                                                            *)
(*   get_next      GetTok      the next token of the pending input, as it is   *)
(*   expand        ExpandOnce  macro call (TeX 389-399), \expandafter (368),   *)
(*                             \noexpand (369), \the (465), conditionals       *)
(*                             (494-510: evaluate, skip by current meaning)    *)
(*   get_x_token   GetX        expand until an unexpandable token appears      *)
(*   scan_int etc. ScanInt, ScanKeyword, OptEquals   (TeX 440-448, 405-407)    *)
(*   main_control  Exec        characters, { }, prefixes (1211-1213), \def     *)
(*                             (473-476), \let (1221), \countdef / \chardef    *)
(*                             (1224), register and parameter assignments and  *)
(*                             arithmetic (1236-1240), \relax                  *)
(*                                                                            *)
(* Scoping is the snapshot semantics of ScopedMap / TexGroups: a group saves   *)
(* the whole assignable state, a local assignment changes the current state, a *)
(* global one changes the current state and every saved one.                   *)
(*                                                                            *)
(* The model is deliberately partial: where TeX recovers from an error and     *)
(* carries on, the model stops with err # "" (the binding compares the output  *)
(* up to the first error only); where the program leaves the modelled subset   *)
(* (values beyond 10^8, behaviours recorded as findings of C01/C07 or as       *)
(* observations) it stops with skip # "" and the run is counted, not judged.   *)
EXTENDS Integers, Sequences, FiniteSets, TLC

CONSTANT Deviations     \* "DecideC07": take TeX's side where a finding of C07 shows (otherwise such runs are counted, not
                        \* judged); "NoRelaxBeforeEarlyElse", "LetToUndefinedIsNoOp": the recorded behaviour of texlang.
                        \* Where texlang knowingly differs from TeX outside the listed properties the model stops with a skip.

PrimNames == << "def", "gdef", "global", "let", "count", "countdef", "chardef", "advance",
                "multiply", "divide", "the", "relax", "expandafter", "noexpand", "iftrue",
                "iffalse", "ifnum", "ifodd", "ifcase", "or", "else", "fi", "globaldefs",
                "long", "outer", "toks", "toksdef", "catcode", "endlinechar" >>
NPrim  == Len(PrimNames)
NNames == NPrim + 10         \* eight user control sequences and two active characters follow the primitives
                             \* (an active character is a name like any other: TeX 222 eqtb layout)
NReg   == 4                  \* \count0 .. \count3
NTok   == 2                  \* \toks0, \toks1
Big    == 100000000          \* values beyond this leave the model (skip)

PrimId(n) == CHOOSE i \in 1..NPrim : PrimNames[i] = n
P_def == 1  P_gdef == 2  P_global == 3  P_let == 4  P_count == 5  P_countdef == 6  P_chardef == 7
P_advance == 8  P_multiply == 9  P_divide == 10  P_the == 11  P_relax == 12  P_expandafter == 13
P_noexpand == 14  P_iftrue == 15  P_iffalse == 16  P_ifnum == 17  P_ifodd == 18  P_ifcase == 19
P_or == 20  P_else == 21  P_fi == 22  P_globaldefs == 23  P_long == 24  P_outer == 25
P_toks == 26  P_toksdef == 27  P_catcode == 28  P_endlinechar == 29

\* ---------------------------------------------------------------------------------------------
\* tokens and meanings (uniform records: TLC cannot compare records of different shape)
Tok(k, v) == [k |-> k, v |-> v]          \* k in {"cs","ch","sp","lb","rb","ha"}; "pm" (parameter i) only
                                         \* inside stored macros: \def turns # followed by a digit into it
SP == Tok("sp", 32)
IsDigit(t) == t.k = "ch" /\ t.v \in 48..57
Undef     == [m |-> "undef", a |-> 0, b |-> 0]
Prim(i)   == [m |-> "prim", a |-> i, b |-> 0]
Macro(i)  == [m |-> "macro", a |-> i, b |-> 0]          \* index into the macro table
CDef(r)   == [m |-> "cdef", a |-> r, b |-> 0]           \* \countdef alias of \count r
ChDef(c)  == [m |-> "chdef", a |-> c, b |-> 0]          \* \chardef constant
TDef(r)   == [m |-> "tdef", a |-> r, b |-> 0]           \* \toksdef alias of \toks r
KindNo(k) == CASE k = "ch" -> 1 [] k = "sp" -> 2 [] k = "lb" -> 3 [] k = "rb" -> 4 [] k = "ha" -> 5 [] OTHER -> 6
KindOf(n) == CASE n = 1 -> "ch" [] n = 2 -> "sp" [] n = 3 -> "lb" [] n = 4 -> "rb" [] n = 5 -> "ha" [] OTHER -> "pm"
TokAlias(t) == [m |-> "tok", a |-> KindNo(t.k), b |-> t.v]   \* \let\a=<character token>

\* ---------------------------------------------------------------------------------------------
\* category codes: texlang's initial table (types/catcode.rs PLAIN_TEX_DEFAULTS) with ~ and ! active, as the
\* harness's prelude leaves it
DefaultCatOf(c) == IF (c \in 65..90) \/ (c \in 97..122) THEN 11
                   ELSE CASE c = 0 -> 9 [] c = 9 -> 10 [] c = 10 -> 5 [] c = 12 -> 13 [] c = 13 -> 5 [] c = 32 -> 10
                          [] c = 35 -> 6 [] c = 36 -> 3 [] c = 37 -> 14 [] c = 38 -> 4 [] c = 92 -> 0 [] c = 94 -> 7
                          [] c = 95 -> 8 [] c = 123 -> 1 [] c = 125 -> 2 [] c = 126 -> 13 [] c = 127 -> 15
                          [] c = 33 -> 13 [] OTHER -> 12
PreludeCat == [i \in 1..128 |-> << i - 1, DefaultCatOf(i - 1) >>]
NoSource == [lines |-> << >>, toks |-> << >>, post |-> << >>, lx0 |-> 0, done |-> FALSE]

\* ---------------------------------------------------------------------------------------------
\* the state
InitMean == [n \in 1..NNames |-> IF n <= NPrim THEN Prim(n) ELSE Undef]
InitState(prog, fuel) ==
  [ inp   |-> prog,                          \* pending input, flat: expansions are pushed in front
    mean  |-> InitMean,                      \* current meaning of every name
    cnt   |-> [r \in 0..(NReg - 1) |-> 0],   \* count registers
    gd    |-> 0,                             \* \globaldefs
    tks   |-> [r \in 0..(NTok - 1) |-> << >>], \* token list registers
    saves |-> << >>,                         \* one [mean, cnt, gd, tks, cat, elc] per open group
    conds |-> << >>,                         \* open conditionals: [c |-> "if"|"case", br |-> "then"|"else"]
    mac   |-> << >>,                         \* macro table, append only: [par, body]
    out   |-> << >>,                         \* delivered: character codes; -(name) for an unexpanded expandable
    cat   |-> PreludeCat,                    \* category codes (assignable, saved by groups): <<char, code>> pairs
    elc   |-> -1,                            \* \endlinechar (the token-level programs run with -1)
    lex   |-> NoSource,                      \* the file being read (see "the lexer in the loop" below)
    nsrc  |-> 0,                             \* how many tokens at the end of inp are unread tokens of the file
    names |-> << >>,                         \* names met in the file that are not in NameCodes (interned in order)
    err   |-> "",  skip |-> "",  fuel |-> fuel ]

Stopped(S) == S.err # "" \/ S.skip # ""
Fail(S, why) == IF Stopped(S) THEN S ELSE [S EXCEPT !.err = why]
Skip(S, why) == IF Stopped(S) THEN S ELSE [S EXCEPT !.skip = why]
\* every expansion and every executed token costs one unit of fuel; a pending input that has grown beyond
\* all programs of interest (a token list that delivers itself twice doubles it at every step) also ends the run
Tick(S) == IF S.fuel <= 0 THEN Skip(S, "skip-fuel")
           ELSE IF Len(S.inp) > 800 THEN Skip(S, "skip-input-explosion")
           ELSE [S EXCEPT !.fuel = @ - 1]

\* the name 0 is TeX's frozen \relax (TeX 379 insert_relax): a control sequence no definition can reach
FrozenRelax == Tok("cs", 0)
Mn(S, v) == IF v = 0 THEN Prim(P_relax) ELSE IF v > NNames THEN Undef ELSE S.mean[v]
MeanOf(S, t) == IF t.k = "cs" THEN Mn(S, t.v) ELSE TokAlias(t)
IsPrimTok(S, t, p) == t.k = "cs" /\ Mn(S, t.v) = Prim(p)
ExpandablePrims == {P_the, P_expandafter, P_noexpand, P_iftrue, P_iffalse, P_ifnum, P_ifodd, P_ifcase,
                    P_or, P_else, P_fi}
IfPrims == {P_iftrue, P_iffalse, P_ifnum, P_ifodd, P_ifcase}
Expandable(S, t) == t.k = "cs" /\ (Mn(S, t.v).m = "macro" \/ (Mn(S, t.v).m = "prim" /\ Mn(S, t.v).a \in ExpandablePrims))

\* a reader's result: the state after reading, the token, whether \noexpand protected it, end of input
Got(S, t, nx) == [s |-> S, t |-> t, nx |-> nx, none |-> FALSE]
NoTok(S)      == [s |-> S, t |-> SP, nx |-> FALSE, none |-> TRUE]

GetTok(S) == IF Stopped(S) THEN NoTok(S)
             ELSE IF S.inp = << >> THEN NoTok([S EXCEPT !.lex.done = TRUE])   \* the request ran to the end of the file
             ELSE IF Head(S.inp).k = "iv" THEN NoTok(Fail([S EXCEPT !.inp = Tail(@)], "invalid character"))
             ELSE Got([S EXCEPT !.inp = Tail(@)], Head(S.inp), FALSE)
\* Tokens of the file that were not read yet form the end of inp (nsrc of them).  Reading only shortens inp, so
\* the count is brought up to date wherever inp grows: whatever is put in front was read (or made) before.
Unread(S) == IF S.nsrc < Len(S.inp) THEN S.nsrc ELSE Len(S.inp)
Back(S, t) == [S EXCEPT !.nsrc = Unread(S), !.inp = << t >> \o @]
BackSeq(S, ts) == [S EXCEPT !.nsrc = Unread(S), !.inp = ts \o @]

\* ---------------------------------------------------------------------------------------------
\* balanced text and macro arguments (TeX 391-399; the binding rule of TexMacro)

\* index of the rb matching an lb that was just consumed: scan s from i at depth d
RECURSIVE MatchRb(_, _, _)
MatchRb(s, i, d) == IF i > Len(s) THEN 0
                    ELSE IF s[i].k = "lb" THEN MatchRb(s, i + 1, d + 1)
                    ELSE IF s[i].k = "rb" THEN (IF d = 0 THEN i ELSE MatchRb(s, i + 1, d - 1))
                    ELSE MatchRb(s, i + 1, d)

StartsWith(s, i, d) == i + Len(d) - 1 <= Len(s) /\ \A j \in 1..Len(d) : s[i + j - 1] = d[j]

\* end of a delimited argument: least i >= from at depth 0 (groups are skipped whole) where the
\* delimiter starts; 0 = none, -1 = unmatched rb first
RECURSIVE FindDelim(_, _, _)
FindDelim(s, i, d) ==
  IF i > Len(s) THEN 0
  ELSE IF StartsWith(s, i, d) THEN i
  ELSE IF s[i].k = "lb" THEN LET j == MatchRb(s, i + 1, 0) IN IF j = 0 THEN 0 ELSE FindDelim(s, j + 1, d)
  ELSE IF s[i].k = "rb" THEN -1
  ELSE FindDelim(s, i + 1, d)

\* TeX 397: an argument that is exactly one group loses its braces
Strip(a) == IF Len(a) >= 2 /\ a[1].k = "lb" /\ MatchRb(a, 2, 0) = Len(a) THEN SubSeq(a, 2, Len(a) - 1) ELSE a

\* parameter text -> [pre |-> tokens before #1, dl |-> <<delimiter of #1, ...>>]
RECURSIVE SplitPar(_, _, _, _)
SplitPar(par, i, pre, dl) ==
  IF i > Len(par) THEN [pre |-> pre, dl |-> dl]
  ELSE IF par[i].k = "pm" THEN SplitPar(par, i + 1, pre, Append(dl, << >>))
  ELSE IF dl = << >> THEN SplitPar(par, i + 1, Append(pre, par[i]), dl)
  ELSE SplitPar(par, i + 1, pre, [dl EXCEPT ![Len(dl)] = Append(@, par[i])])

RECURSIVE SkipSpaces(_, _)
SkipSpaces(s, i) == IF i <= Len(s) /\ s[i].k = "sp" THEN SkipSpaces(s, i + 1) ELSE i

\* bind the arguments of a call whose name was just consumed: [ok, args, rest, why]
RECURSIVE BindArgs(_, _, _, _)
BindArgs(s, i, dl, args) ==
  IF Len(args) = Len(dl) THEN [ok |-> TRUE, args |-> args, next |-> i, why |-> ""]
  ELSE LET d == dl[Len(args) + 1] IN
    IF d = << >>
    THEN LET j == SkipSpaces(s, i) IN
         IF j > Len(s) THEN [ok |-> FALSE, args |-> args, next |-> j, why |-> "eof in argument"]
         ELSE IF s[j].k = "rb" THEN [ok |-> FALSE, args |-> args, next |-> j, why |-> "skip-extra-rb-as-argument"]
         ELSE IF s[j].k = "lb"
              THEN LET e == MatchRb(s, j + 1, 0) IN
                   IF e = 0 THEN [ok |-> FALSE, args |-> args, next |-> j, why |-> "eof in argument"]
                   ELSE BindArgs(s, e + 1, dl, Append(args, SubSeq(s, j + 1, e - 1)))
              ELSE BindArgs(s, j + 1, dl, Append(args, << s[j] >>))
    ELSE LET e == FindDelim(s, i, d) IN
         IF e = 0 THEN [ok |-> FALSE, args |-> args, next |-> i, why |-> "eof in argument"]
         ELSE IF e = -1 THEN [ok |-> FALSE, args |-> args, next |-> i, why |-> "skip-extra-rb-in-argument"]
         ELSE BindArgs(s, e + Len(d), dl, Append(args, Strip(SubSeq(s, i, e - 1))))

RECURSIVE Subst(_, _, _)
Subst(body, i, args) ==
  IF i > Len(body) THEN << >>
  ELSE IF body[i].k = "pm"
       THEN (IF body[i].v \in 1..Len(args) THEN args[body[i].v] ELSE << body[i] >>) \o Subst(body, i + 1, args)
       ELSE << body[i] >> \o Subst(body, i + 1, args)

\* the call: name consumed, S.inp begins with the rest
CallMacro(S, id) ==
  LET md == S.mac[id]
      sp == SplitPar(md.par, 1, << >>, << >>) IN
  IF ~StartsWith(S.inp, 1, sp.pre)
  THEN \* TeX: "Use of \a doesn't match its definition"; texlang returns silently (observation in
       \* DESIGN.md 10.3) - outside this model
       Skip(S, "skip-macro-prefix-mismatch")
  ELSE LET b == BindArgs(S.inp, Len(sp.pre) + 1, sp.dl, << >>) IN
       IF ~b.ok THEN (IF b.why = "eof in argument" THEN Fail(S, b.why) ELSE Skip(S, b.why))
       ELSE BackSeq([S EXCEPT !.inp = SubSeq(S.inp, b.next, Len(S.inp))], Subst(md.body, 1, b.args))

\* ---------------------------------------------------------------------------------------------
\* conditionals: skipping looks at the current meaning of every token, never expands (TeX 494)
TokIsIf(S, t)   == t.k = "cs" /\ Mn(S, t.v).m = "prim" /\ Mn(S, t.v).a \in IfPrims
TokIs(S, t, p)  == t.k = "cs" /\ Mn(S, t.v) = Prim(p)

\* scan from i at nesting level l for the first \fi (and, if wantElse, \else / \or) at level 0:
\* [i |-> index of the terminator or 0, p |-> which primitive]
RECURSIVE SkipScan(_, _, _, _, _)
SkipScan(S, s, i, l, stopAtElseOr) ==
  IF i > Len(s) THEN [i |-> 0, p |-> 0]
  ELSE LET t == s[i] IN
       IF TokIsIf(S, t) THEN SkipScan(S, s, i + 1, l + 1, stopAtElseOr)
       ELSE IF TokIs(S, t, P_fi) THEN (IF l = 0 THEN [i |-> i, p |-> P_fi] ELSE SkipScan(S, s, i + 1, l - 1, stopAtElseOr))
       ELSE IF l = 0 /\ stopAtElseOr /\ TokIs(S, t, P_else) THEN [i |-> i, p |-> P_else]
       ELSE IF l = 0 /\ stopAtElseOr /\ TokIs(S, t, P_or) THEN [i |-> i, p |-> P_or]
       ELSE SkipScan(S, s, i + 1, l, stopAtElseOr)

DropTo(S, i) == [S EXCEPT !.inp = SubSeq(@, i + 1, Len(@))]
PushCond(S, c, br) == [S EXCEPT !.conds = Append(@, [c |-> c, br |-> br])]
PopCond(S) == [S EXCEPT !.conds = SubSeq(@, 1, Len(@) - 1)]
SetBranch(S, br) == [S EXCEPT !.conds[Len(S.conds)].br = br]

\* the condition was false (binary conditionals): skip to \else (enter it) or \fi (done)
SkipFalse(S) ==
  LET r == SkipScan(S, S.inp, 1, 0, TRUE) IN
  IF r.i = 0 THEN Fail(S, "eof while skipping")
  ELSE IF r.p = P_fi THEN DropTo(S, r.i)
  ELSE IF r.p = P_else THEN PushCond(DropTo(S, r.i), "if", "else")
  ELSE \* an \or at level 0 of a binary conditional's false branch: TeX 500 reports "Extra \or"
       \* while skipping; texlang's behaviour here is not pinned - outside the model
       Skip(S, "skip-or-in-skipped-binary-conditional")

\* \ifcase n: skip n \or's; an \else on the way selects the else branch, \fi ends it
RECURSIVE SkipCase(_, _)
SkipCase(S, n) ==
  IF n = 0 THEN PushCond(S, "case", "then")
  ELSE LET r == SkipScan(S, S.inp, 1, 0, TRUE) IN
       IF r.i = 0 THEN Fail(S, "eof while skipping")
       ELSE IF r.p = P_fi THEN DropTo(S, r.i)
       ELSE IF r.p = P_else THEN PushCond(DropTo(S, r.i), "case", "else")
       ELSE SkipCase(DropTo(S, r.i), n - 1)

\* \else, \or, \fi met while expanding (TeX 510)
EndBranch(S, p) ==
  IF S.conds = << >> THEN Fail(S, "extra else/or/fi")
  ELSE LET top == S.conds[Len(S.conds)] IN
    IF p = P_fi THEN PopCond(S)
    ELSE IF p = P_or /\ (top.c # "case" \/ top.br = "else") THEN Fail(S, "extra or")
    ELSE IF p = P_else /\ top.br = "else" THEN Fail(S, "extra else")
    ELSE \* the selected branch ends here: skip to the matching \fi
         LET r == SkipScan(S, S.inp, 1, 0, FALSE) IN
         IF r.i = 0 THEN Fail(S, "eof while skipping") ELSE PopCond(DropTo(S, r.i))

\* ---------------------------------------------------------------------------------------------
\* expansion and the scanners (mutually recursive, as in TeX)
RECURSIVE GetX(_), GetXS(_), ExpandOnce(_, _), ScanInt(_), ScanDigits(_, _, _), ScanSigns(_, _), InternalInt(_, _), TokVar(_, _),
          AlphaConst(_, _)

Digits(n) == LET RECURSIVE D(_) D(k) == IF k < 10 THEN << Tok("ch", 48 + k) >> ELSE D(k \div 10) \o << Tok("ch", 48 + (k % 10)) >>
             IN IF n < 0 THEN << Tok("ch", 45) >> \o D(-n) ELSE D(n)

\* an internal integer named by token t (already consumed): [ok, s, v]
InternalInt(S, t) ==
  LET mn == MeanOf(S, t) IN
  IF mn = Prim(P_count)
  THEN LET r == ScanInt(S) IN
       IF Stopped(r.s) THEN [ok |-> TRUE, s |-> r.s, v |-> 0]
       ELSE IF r.v \notin 0..(NReg - 1) THEN [ok |-> TRUE, s |-> Skip(r.s, "skip-register-outside-model"), v |-> 0]
       ELSE [ok |-> TRUE, s |-> r.s, v |-> r.s.cnt[r.v]]
  ELSE IF mn.m = "cdef" THEN [ok |-> TRUE, s |-> S, v |-> S.cnt[mn.a]]
  ELSE IF mn.m = "chdef" THEN [ok |-> TRUE, s |-> S, v |-> mn.a]
  ELSE IF mn = Prim(P_globaldefs) THEN [ok |-> TRUE, s |-> S, v |-> S.gd]
  ELSE IF mn = Prim(P_endlinechar) THEN [ok |-> TRUE, s |-> S, v |-> S.elc]
  ELSE IF mn = Prim(P_catcode)
  THEN LET r == ScanInt(S) IN
       IF Stopped(r.s) THEN [ok |-> TRUE, s |-> r.s, v |-> 0]
       ELSE IF r.v \notin 0..127 THEN [ok |-> TRUE, s |-> Skip(r.s, "skip-catcode-of-a-character-outside-model"), v |-> 0]
       ELSE [ok |-> TRUE, s |-> r.s, v |-> r.s.cat[r.v + 1][2]]
  ELSE [ok |-> FALSE, s |-> S, v |-> 0]

\* a token list variable named by token t (consumed; caller checked the meaning): [s, var]
TokVar(S, t) ==
  LET mn == MeanOf(S, t) IN
  IF mn.m = "tdef" THEN [s |-> S, var |-> mn.a]
  ELSE LET r == ScanInt(S) IN
       IF Stopped(r.s) THEN [s |-> r.s, var |-> 0]
       ELSE IF r.v \notin 0..(NTok - 1) THEN [s |-> Skip(r.s, "skip-register-outside-model"), var |-> 0]
       ELSE [s |-> r.s, var |-> r.v]

\* TeX 498: a conditional is on the condition stack while its condition is still being scanned (if_limit =
\* if_code); an \else, \or or \fi that turns up then - a number ended directly by it - does not end anything:
\* TeX 510 puts it back behind a frozen \relax, which ends the number.  texlang pushes its branch only after the
\* condition is known (finding C07/no-relax-before-early-else: the token then acts on the enclosing conditional
\* or is reported as unexpected).  That finding is decided by C07's check ("DecideC07"); elsewhere the run is counted.
Marked == "NoRelaxBeforeEarlyElse" \notin Deviations
Begin(S, c) == IF Marked THEN PushCond(S, c, "eval") ELSE S
\* the condition is known: Q.conds must be as Begin left it (d entries); otherwise a conditional opened inside
\* the condition is still open (TeX 498 change_if_limit walks the stack for that) - outside the model
Known(Q, d) == IF ~Marked \/ Stopped(Q) THEN Q
               ELSE IF Len(Q.conds) # d THEN Skip(Q, "skip-conditional-left-open-inside-a-condition")
               ELSE PopCond(Q)

\* expand the expandable token t, which was just consumed
ExpandOnce(S0, t) ==
  LET S == Tick(S0) mn == Mn(S, t.v) IN
  IF Stopped(S) THEN S
  ELSE IF mn.m = "macro" THEN CallMacro(S, mn.a)
  ELSE IF mn.a = P_expandafter
  THEN LET a == GetTok(S) IN
       IF a.none THEN Fail(S, "eof after expandafter")
       ELSE LET b == GetTok(a.s) IN
            IF b.none THEN Fail(S, "eof after expandafter")
            ELSE IF TokIs(b.s, b.t, P_noexpand)
                 THEN \* finding C07/noexpand-lost-under-expandafter: decided there, not here
                      Skip(S, "skip-noexpand-under-expandafter")
                 ELSE IF Expandable(b.s, b.t) THEN Back(ExpandOnce(b.s, b.t), a.t)
                 ELSE Back(Back(b.s, b.t), a.t)
  ELSE IF mn.a = P_the
  THEN LET x == GetXS(S) IN
       IF x.none THEN Fail(x.s, "eof after the")
       ELSE IF ~Stopped(x.s) /\ (MeanOf(x.s, x.t) = Prim(P_toks) \/ MeanOf(x.s, x.t).m = "tdef")
       THEN \* TeX 465: the tokens of the list itself (they are read again, and expanded, afterwards)
            LET tv == TokVar(x.s, x.t) IN IF Stopped(tv.s) THEN tv.s ELSE BackSeq(tv.s, tv.s.tks[tv.var])
       ELSE LET v == InternalInt(x.s, x.t) IN
            IF ~v.ok THEN (IF Stopped(x.s) THEN x.s ELSE Fail(x.s, "the: not an internal quantity"))
            ELSE IF Stopped(v.s) THEN v.s ELSE BackSeq(v.s, Digits(v.v))
  ELSE IF mn.a = P_iftrue THEN PushCond(S, "if", "then")
  ELSE IF mn.a = P_iffalse THEN SkipFalse(S)
  ELSE IF mn.a = P_ifodd
  THEN LET B == Begin(S, "if") r == ScanInt(B) Q == Known(r.s, Len(B.conds)) IN
       IF Stopped(Q) THEN Q ELSE IF r.v % 2 # 0 THEN PushCond(Q, "if", "then") ELSE SkipFalse(Q)
  ELSE IF mn.a = P_ifnum
  THEN LET B == Begin(S, "if") l == ScanInt(B) IN
       IF Stopped(l.s) THEN l.s
       ELSE LET RECURSIVE Rel(_) Rel(Q) == LET x == GetXS(Q) IN IF ~x.none /\ x.t.k = "sp" /\ ~Stopped(x.s) THEN Rel(x.s) ELSE x
                o == Rel(l.s) IN
            IF o.none \/ Stopped(o.s) THEN Fail(o.s, "ifnum: eof")
            ELSE IF ~(o.t.k = "ch" /\ o.t.v \in {60, 61, 62}) THEN Fail(o.s, "ifnum: no relation")
            ELSE LET r == ScanInt(o.s) Q == Known(r.s, Len(B.conds)) IN
                 IF Stopped(Q) THEN Q
                 ELSE IF (o.t.v = 60 /\ l.v < r.v) \/ (o.t.v = 61 /\ l.v = r.v) \/ (o.t.v = 62 /\ l.v > r.v)
                      THEN PushCond(Q, "if", "then") ELSE SkipFalse(Q)
  ELSE IF mn.a = P_ifcase
  THEN LET B == Begin(S, "case") r0 == ScanInt(B) r == [s |-> Known(r0.s, Len(B.conds)), v |-> r0.v] IN
       IF Stopped(r.s) THEN r.s
       ELSE IF r.v < 0 \/ r.v > 1000
            THEN \* no such case: only \else (or nothing) remains
                 LET RECURSIVE ToElse(_) ToElse(Q) ==
                       LET q == SkipScan(Q, Q.inp, 1, 0, TRUE) IN
                       IF q.i = 0 THEN Fail(Q, "eof while skipping")
                       ELSE IF q.p = P_fi THEN DropTo(Q, q.i)
                       ELSE IF q.p = P_else THEN PushCond(DropTo(Q, q.i), "case", "else")
                       ELSE ToElse(DropTo(Q, q.i))
                 IN ToElse(r.s)
            ELSE SkipCase(r.s, r.v)
  ELSE IF mn.a \in {P_or, P_else, P_fi}
  THEN IF S.conds # << >> /\ S.conds[Len(S.conds)].br = "eval"
       THEN (IF "DecideC07" \in Deviations THEN BackSeq(S, << FrozenRelax, t >>)
             ELSE Skip(S, "skip-early-else-decided-by-C07"))
       ELSE EndBranch(S, mn.a)
  ELSE Fail(S, "internal: not expandable")    \* \noexpand is handled by GetX

\* the next unexpandable token (TeX 380 get_x_token), \noexpand handled as in TeX 369 / texlang's hook
GetX(S) ==
  LET g == GetTok(S) IN
  IF g.none THEN g
  ELSE IF TokIs(g.s, g.t, P_noexpand)
       THEN LET n == GetTok(g.s) IN
            IF n.none THEN NoTok(Fail(g.s, "eof after noexpand")) ELSE Got(n.s, n.t, TRUE)
  ELSE IF Expandable(g.s, g.t)
       THEN LET e == ExpandOnce(g.s, g.t) IN IF Stopped(e) THEN NoTok(e) ELSE GetX(e)
  ELSE g

\* What a scanner (number, keyword, =, relation, prefix, \the, token list brace) sees.  A token that
\* \noexpand protects keeps its protection in TeX only for the one look get_x_token takes; texlang has
\* no such mark (finding C07/noexpand-lost-under-expandafter: "pushed back plain and expanded when read
\* again"), and its scanners peek and then read.  That finding is decided by C07; here the run is counted.
GetXS(S) ==
  LET x == GetX(S) IN
  IF ~x.none /\ x.nx /\ Expandable(x.s, x.t) THEN NoTok(Skip(x.s, "skip-noexpand-seen-by-scanner")) ELSE x

\* TeX 440: optional spaces and signs, then an internal integer or decimal digits and one optional space
ScanSigns(S, neg) ==
  LET x == GetXS(S) IN
  IF x.none THEN [x EXCEPT !.nx = neg]
  ELSE IF x.t.k = "sp" THEN ScanSigns(x.s, neg)
  ELSE IF x.t.k = "ch" /\ x.t.v = 45 THEN ScanSigns(x.s, ~neg)
  ELSE IF x.t.k = "ch" /\ x.t.v = 43 THEN ScanSigns(x.s, neg)
  ELSE [s |-> x.s, t |-> x.t, nx |-> neg, none |-> FALSE]       \* nx reused: the sign

ScanDigits(S, acc, any) ==
  LET x == GetXS(S) IN
  IF x.none THEN [s |-> x.s, v |-> acc, any |-> any]
  ELSE IF IsDigit(x.t)
       THEN LET a == acc * 10 + (x.t.v - 48) IN
            IF a > Big THEN [s |-> Skip(x.s, "skip-number-beyond-model"), v |-> 0, any |-> TRUE]
            ELSE ScanDigits(x.s, a, TRUE)
  ELSE IF x.t.k = "sp" THEN [s |-> x.s, v |-> acc, any |-> any]
  ELSE [s |-> Back(x.s, x.t), v |-> acc, any |-> any]

ScanInt(S) ==
  LET g == ScanSigns(S, FALSE) IN
  IF Stopped(g.s) THEN [s |-> g.s, v |-> 0]
  ELSE IF g.none THEN [s |-> Fail(g.s, "missing number: eof"), v |-> 0]
  ELSE LET iv == InternalInt(g.s, g.t) IN
       IF iv.ok THEN [s |-> iv.s, v |-> IF g.nx THEN -iv.v ELSE iv.v]
       ELSE IF IsDigit(g.t)
            THEN LET d == ScanDigits(Back(g.s, g.t), 0, FALSE) IN [s |-> d.s, v |-> IF g.nx THEN -d.v ELSE d.v]
            ELSE IF g.t.k = "ch" /\ g.t.v = 96 THEN AlphaConst(g.s, g.nx)
            ELSE [s |-> Fail(g.s, "missing number"), v |-> 0]

\* TeX 442: ` and a character token or a control sequence whose name is one character; then one optional space.
\* (texlang takes the token from the expanded stream - marked BUG in parse/integer.rs: an expandable token there
\* is outside the model.)
CharOfTok(S, t) ==
  IF t.k = "cs" THEN (IF t.v = NNames - 1 THEN 126 ELSE IF t.v = NNames THEN 33
                      ELSE IF t.v > 1000 /\ Len(S.names[t.v - 1000]) = 1
                           THEN (LET c == S.names[t.v - 1000][1] IN IF c >= 256 THEN c - 256 ELSE c)
                      ELSE -1)
  ELSE IF t.k = "ch" THEN t.v % 1000 ELSE IF t.k = "sp" THEN 32
  ELSE IF t.k = "lb" THEN (IF t.v = 0 THEN 123 ELSE t.v) ELSE IF t.k = "rb" THEN (IF t.v = 0 THEN 125 ELSE t.v)
  ELSE IF t.k = "ha" THEN t.v ELSE -1
AlphaConst(S, neg) ==
  LET c == GetTok(S) IN
  IF c.none THEN [s |-> Fail(c.s, "missing character: eof"), v |-> 0]
  ELSE IF Expandable(c.s, c.t) THEN [s |-> Skip(c.s, "skip-expandable-after-backtick"), v |-> 0]
  ELSE LET code == CharOfTok(c.s, c.t) IN
       IF code < 0 THEN [s |-> Fail(c.s, "improper alphabetic constant"), v |-> 0]
       ELSE LET x == GetXS(c.s)
                Q == IF x.none \/ x.t.k = "sp" THEN x.s ELSE Back(x.s, x.t) IN
            [s |-> Q, v |-> IF neg THEN -code ELSE code]

\* TeX 405: optional spaces then an optional = (expanding)
RECURSIVE OptEquals(_)
OptEquals(S) ==
  LET x == GetXS(S) IN
  IF x.none THEN x.s
  ELSE IF x.t.k = "sp" THEN OptEquals(x.s)
  ELSE IF x.t.k = "ch" /\ x.t.v = 61 THEN x.s
  ELSE Back(x.s, x.t)

\* TeX 407 for the keyword "by": spaces may precede it; a partial match is put back
OptBy(S) ==
  LET RECURSIVE Lead(_) Lead(Q) == LET x == GetXS(Q) IN IF ~x.none /\ x.t.k = "sp" THEN Lead(x.s) ELSE x
      a == Lead(S) IN
  IF a.none THEN a.s
  ELSE IF a.t.k = "ch" /\ a.t.v \in {98, 66}
       THEN LET b == GetXS(a.s) IN
            IF b.none THEN Back(b.s, a.t)
            ELSE IF b.t.k = "ch" /\ b.t.v \in {121, 89} THEN b.s
            ELSE Back(Back(b.s, b.t), a.t)
       ELSE Back(a.s, a.t)

\* ---------------------------------------------------------------------------------------------
\* assignments under a scope (snapshot semantics)
IsGlobal(S, pfxGlobal) == IF S.gd > 0 THEN TRUE ELSE IF S.gd < 0 THEN FALSE ELSE pfxGlobal

SetMean(S, n, mn, glob) ==
  IF glob THEN [S EXCEPT !.mean[n] = mn, !.saves = [i \in 1..Len(S.saves) |-> [S.saves[i] EXCEPT !.mean[n] = mn]]]
  ELSE [S EXCEPT !.mean[n] = mn]
SetCnt(S, r, v, glob) ==
  IF v > Big \/ v < -Big THEN Skip(S, "skip-value-beyond-model")
  ELSE IF glob THEN [S EXCEPT !.cnt[r] = v, !.saves = [i \in 1..Len(S.saves) |-> [S.saves[i] EXCEPT !.cnt[r] = v]]]
  ELSE [S EXCEPT !.cnt[r] = v]
SetGd(S, v, glob) ==
  IF v > Big \/ v < -Big THEN Skip(S, "skip-value-beyond-model")
  ELSE IF glob THEN [S EXCEPT !.gd = v, !.saves = [i \in 1..Len(S.saves) |-> [S.saves[i] EXCEPT !.gd = v]]]
  ELSE [S EXCEPT !.gd = v]

SetTks(S, r, v, glob) ==
  IF glob THEN [S EXCEPT !.tks[r] = v, !.saves = [i \in 1..Len(S.saves) |-> [S.saves[i] EXCEPT !.tks[r] = v]]]
  ELSE [S EXCEPT !.tks[r] = v]

\* <token list variable> [=] { balanced text }  or  [=] <token list variable>   (TeX 1226-1227).
\* TeX passes over blanks and \relax in front of the brace; texlang takes the next expanded token as it
\* is, so a blank or \relax there is outside the model.
AssignToks(S, t, glob) ==
  LET tv == TokVar(S, t) IN
  IF Stopped(tv.s) THEN tv.s
  ELSE LET e == OptEquals(tv.s) IN
       IF Stopped(e) THEN e
       ELSE LET x == GetXS(e) IN
            IF x.none THEN (IF Stopped(x.s) THEN x.s ELSE Fail(x.s, "toks: eof"))
            ELSE IF x.t.k = "sp" \/ MeanOf(x.s, x.t) = Prim(P_relax) THEN Skip(x.s, "skip-blank-before-toks-brace")
            ELSE IF x.t.k = "lb"
                 THEN LET j == MatchRb(x.s.inp, 1, 0) IN
                      IF j = 0 THEN Fail(x.s, "toks: eof in text")
                      ELSE SetTks([x.s EXCEPT !.inp = SubSeq(@, j + 1, Len(@))], tv.var, SubSeq(x.s.inp, 1, j - 1),
                                  IsGlobal(x.s, glob))
            ELSE IF MeanOf(x.s, x.t) = Prim(P_toks) \/ MeanOf(x.s, x.t).m = "tdef"
                 THEN LET src == TokVar(x.s, x.t) IN
                      IF Stopped(src.s) THEN src.s ELSE SetTks(src.s, tv.var, src.s.tks[src.var], IsGlobal(src.s, glob))
            ELSE Fail(x.s, "toks: neither a brace nor a token list variable")

\* an integer variable named by token t (consumed): [ok, s, var] with var = 0..NReg-1 or -1 for \globaldefs
IntVar(S, t) ==
  LET mn == MeanOf(S, t) IN
  IF mn = Prim(P_count)
  THEN LET r == ScanInt(S) IN
       IF Stopped(r.s) THEN [ok |-> TRUE, s |-> r.s, var |-> 0]
       ELSE IF r.v \notin 0..(NReg - 1) THEN [ok |-> TRUE, s |-> Skip(r.s, "skip-register-outside-model"), var |-> 0]
       ELSE [ok |-> TRUE, s |-> r.s, var |-> r.v]
  ELSE IF mn.m = "cdef" THEN [ok |-> TRUE, s |-> S, var |-> mn.a]
  ELSE IF mn = Prim(P_globaldefs) THEN [ok |-> TRUE, s |-> S, var |-> -1]
  ELSE IF mn = Prim(P_endlinechar) THEN [ok |-> TRUE, s |-> S, var |-> -2]
  ELSE IF mn = Prim(P_catcode)
  THEN LET r == ScanInt(S) IN
       IF Stopped(r.s) THEN [ok |-> TRUE, s |-> r.s, var |-> 0]
       ELSE IF r.v \notin 0..127 THEN [ok |-> TRUE, s |-> Skip(r.s, "skip-catcode-of-a-character-outside-model"), var |-> 0]
       ELSE [ok |-> TRUE, s |-> r.s, var |-> -(10 + r.v)]
  ELSE [ok |-> FALSE, s |-> S, var |-> 0]
\* variables: 0..NReg-1 a count register, -1 \globaldefs, -2 \endlinechar, -(10+c) the category code of c
VarVal(S, var) == IF var = -1 THEN S.gd ELSE IF var = -2 THEN S.elc
                  ELSE IF var <= -10 THEN S.cat[-var - 9][2] ELSE S.cnt[var]
SetElc(S, v, glob) ==
  IF v > 127 \/ v < -Big THEN Skip(S, "skip-endlinechar-outside-model")
  ELSE IF glob THEN [S EXCEPT !.elc = v, !.saves = [i \in 1..Len(S.saves) |-> [S.saves[i] EXCEPT !.elc = v]]]
  ELSE [S EXCEPT !.elc = v]
SetCat(S, c, v, glob) ==
  IF v \notin 0..15 THEN Fail(S, "invalid category code")
  ELSE IF glob THEN [S EXCEPT !.cat[c + 1] = << c, v >>,
                              !.saves = [i \in 1..Len(S.saves) |-> [S.saves[i] EXCEPT !.cat[c + 1] = << c, v >>]]]
  ELSE [S EXCEPT !.cat[c + 1] = << c, v >>]
SetVar(S, var, v, glob) == IF var = -1 THEN SetGd(S, v, glob) ELSE IF var = -2 THEN SetElc(S, v, glob)
                           ELSE IF var <= -10 THEN SetCat(S, -var - 10, v, glob) ELSE SetCnt(S, var, v, glob)

\* <variable> [=] <int>   (the variable token t was consumed)
AssignVar(S, t, glob) ==
  LET iv == IntVar(S, t) IN
  IF Stopped(iv.s) THEN iv.s
  ELSE LET e == OptEquals(iv.s) IN
       IF Stopped(e) THEN e
       ELSE LET r == ScanInt(e) IN IF Stopped(r.s) THEN r.s ELSE SetVar(r.s, iv.var, r.v, IsGlobal(r.s, glob))

\* \advance / \multiply / \divide <variable> [by] <int>
Arith(S, p, glob) ==
  LET x == GetXS(S) IN
  IF x.none THEN Fail(x.s, "arith: eof")
  ELSE IF MeanOf(x.s, x.t) = Prim(P_catcode) THEN Fail(x.s, "arith: you can't use \\catcode after \\advance")   \* TeX 1237
  ELSE LET iv == IntVar(x.s, x.t) IN
       IF ~iv.ok THEN Fail(iv.s, "arith: not a variable")
       ELSE IF Stopped(iv.s) THEN iv.s
       ELSE LET b == OptBy(iv.s) IN
            IF Stopped(b) THEN b
            ELSE LET r == ScanInt(b) IN
                 IF Stopped(r.s) THEN r.s
                 ELSE LET cur == VarVal(r.s, iv.var)
                          g == IsGlobal(r.s, glob) IN
                      IF p = P_advance THEN SetVar(r.s, iv.var, cur + r.v, g)
                      ELSE IF p = P_multiply
                           THEN (IF r.v # 0 /\ (IF cur < 0 THEN -cur ELSE cur) > Big \div (IF r.v < 0 THEN -r.v ELSE r.v)
                                 THEN Skip(r.s, "skip-value-beyond-model")
                                 ELSE SetVar(r.s, iv.var, cur * r.v, g))
                      ELSE IF r.v = 0 THEN Fail(r.s, "division by zero")
                      ELSE LET q == (IF cur < 0 THEN -cur ELSE cur) \div (IF r.v < 0 THEN -r.v ELSE r.v) IN
                           SetVar(r.s, iv.var, IF (cur < 0) # (r.v < 0) THEN -q ELSE q, g)

\* target of a definition: the next token, unexpanded, must be a control sequence
\* (TeX 1215 get_r_token skips every space in front of it; texlang skips one: two or more are left to neither)
Target(S0) ==
  LET lead == SkipSpaces(S0.inp, 1) - 1
      S == [S0 EXCEPT !.inp = SubSeq(@, lead + 1, Len(@))]
      g == GetTok(S) IN
             IF lead >= 2 THEN [ok |-> FALSE, s |-> Skip(S0, "skip-two-spaces-before-target"), n |-> 0]
             ELSE IF g.none THEN [ok |-> FALSE, s |-> Fail(g.s, "target: eof"), n |-> 0]
             ELSE IF g.t.k # "cs" THEN [ok |-> FALSE, s |-> Fail(g.s, "target: not a control sequence"), n |-> 0]
             ELSE IF g.t.v = 0 THEN [ok |-> FALSE, s |-> Skip(g.s, "skip-frozen-relax-as-target"), n |-> 0]
             ELSE IF g.t.v > NNames THEN [ok |-> FALSE, s |-> Skip(g.s, "skip-target-outside-the-names-of-the-model"), n |-> 0]
             ELSE [ok |-> TRUE, s |-> g.s, n |-> g.t.v]

\* TeX 474-479: in a parameter text # must be followed by the next parameter number; in a body # is
\* followed by a parameter number (stored as a "pm" token) or by another # (stored as one #).
\* [ok |-> BOOLEAN, s |-> converted tokens, why]
RECURSIVE ConvPar(_, _, _, _)
ConvPar(s, i, n, acc) ==
  IF i > Len(s) THEN [ok |-> TRUE, s |-> acc, n |-> n, why |-> ""]
  ELSE IF s[i].k # "ha" THEN ConvPar(s, i + 1, n, Append(acc, s[i]))
  ELSE IF i = Len(s) THEN [ok |-> FALSE, s |-> acc, n |-> n, why |-> "skip-hash-brace"]
  ELSE IF s[i + 1].k = "ch" /\ s[i + 1].v = 49 + n /\ n < 9 THEN ConvPar(s, i + 2, n + 1, Append(acc, Tok("pm", n + 1)))
  ELSE [ok |-> FALSE, s |-> acc, n |-> n, why |-> "parameters must be numbered consecutively"]
RECURSIVE ConvBody(_, _, _, _)
ConvBody(s, i, n, acc) ==
  IF i > Len(s) THEN [ok |-> TRUE, s |-> acc, n |-> n, why |-> ""]
  ELSE IF s[i].k # "ha" THEN ConvBody(s, i + 1, n, Append(acc, s[i]))
  ELSE IF i < Len(s) /\ s[i + 1].k = "ha" THEN ConvBody(s, i + 2, n, Append(acc, s[i]))
  ELSE IF i < Len(s) /\ s[i + 1].k = "ch" /\ s[i + 1].v \in 49..(48 + n) THEN ConvBody(s, i + 2, n, Append(acc, Tok("pm", s[i + 1].v - 48)))
  ELSE [ok |-> FALSE, s |-> acc, n |-> n, why |-> "illegal parameter number in definition"]

\* \def / \gdef: target, parameter text up to the first {, balanced body (TeX 473-476), unexpanded
Def(S, glob) ==
  LET tg == Target(S) IN
  IF ~tg.ok THEN tg.s
  ELSE LET s == tg.s.inp
           RECURSIVE FirstLb(_) FirstLb(i) == IF i > Len(s) THEN 0 ELSE IF s[i].k = "lb" THEN i
                                              ELSE IF s[i].k = "rb" THEN -1 ELSE FirstLb(i + 1)
           lb == FirstLb(1) IN
       IF lb = 0 THEN Fail(tg.s, "def: eof in parameter text")
       ELSE IF lb = -1 THEN Skip(tg.s, "skip-rb-in-parameter-text")
       ELSE LET e == MatchRb(s, lb + 1, 0) IN
            IF e = 0 THEN Fail(tg.s, "def: eof in body")
            ELSE LET cp == ConvPar(SubSeq(s, 1, lb - 1), 1, 0, << >>) IN
                 IF ~cp.ok THEN (IF cp.why = "skip-hash-brace" THEN Skip(tg.s, cp.why) ELSE Fail(tg.s, cp.why))
                 ELSE LET cb == ConvBody(SubSeq(s, lb + 1, e - 1), 1, cp.n, << >>) IN
                      IF ~cb.ok THEN Fail(tg.s, cb.why)
                      ELSE LET md == [par |-> cp.s, body |-> cb.s]
                               Q  == [tg.s EXCEPT !.inp = SubSeq(s, e + 1, Len(s)), !.mac = Append(@, md)] IN
                           SetMean(Q, tg.n, Macro(Len(Q.mac)), glob)

\* \let<target> [spaces] [=] [one space] <token>   (TeX 1221)
Let(S, glob) ==
  LET tg == Target(S) IN
  IF ~tg.ok THEN tg.s
  ELSE LET RECURSIVE NonBlank(_) NonBlank(Q) == LET g == GetTok(Q) IN IF ~g.none /\ g.t.k = "sp" THEN NonBlank(g.s) ELSE g
           a == NonBlank(tg.s)
           b == IF ~a.none /\ a.t.k = "ch" /\ a.t.v = 61
                THEN LET c == GetTok(a.s) IN IF ~c.none /\ c.t.k = "sp" THEN GetTok(c.s) ELSE c
                ELSE a IN
       IF b.none THEN Fail(b.s, "let: eof")
       ELSE LET mn == MeanOf(b.s, b.t) IN
            IF mn = Undef /\ "DecideC07" \notin Deviations
            THEN \* TeX makes \a undefined; texlang leaves \a as it was (finding C07/let-to-undefined-is-no-op: an
                 \* alias of \fi survives it).  Decided by C07's check; elsewhere the run is counted
                 Skip(b.s, "skip-let-to-undefined")
            ELSE IF mn = Undef /\ "LetToUndefinedIsNoOp" \in Deviations THEN b.s
            ELSE SetMean(b.s, tg.n, mn, IsGlobal(b.s, glob))

\* \countdef / \chardef <target> [=] <int>
RegDef(S, p, glob) ==
  LET tg == Target(S) IN
  IF ~tg.ok THEN tg.s
  ELSE LET e == OptEquals(tg.s) IN
       IF Stopped(e) THEN e
       ELSE LET r == ScanInt(e) IN
            IF Stopped(r.s) THEN r.s
            ELSE IF p = P_countdef
                 THEN (IF r.v \notin 0..(NReg - 1) THEN Skip(r.s, "skip-register-outside-model")
                       ELSE SetMean(r.s, tg.n, CDef(r.v), IsGlobal(r.s, glob)))
            ELSE IF p = P_toksdef
                 THEN (IF r.v \notin 0..(NTok - 1) THEN Skip(r.s, "skip-register-outside-model")
                       ELSE SetMean(r.s, tg.n, TDef(r.v), IsGlobal(r.s, glob)))
                 ELSE (IF r.v \notin 0..255 THEN Skip(r.s, "skip-chardef-outside-model")
                       ELSE SetMean(r.s, tg.n, ChDef(r.v), IsGlobal(r.s, glob)))

\* ---------------------------------------------------------------------------------------------
\* main control: execute the unexpandable token x.t (x = GetX result); pfx = \global seen
RECURSIVE Exec(_, _, _)
Exec(S, x, pfx) ==
  LET t == x.t mn == MeanOf(S, t) IN
  IF t.k = "cs" /\ (mn.m = "macro" \/ (mn.m = "prim" /\ mn.a \in ExpandablePrims))
  THEN \* an expandable command that reached execution because \noexpand protected it
       IF pfx THEN Fail(S, "prefix before a non-assignment") ELSE [S EXCEPT !.out = Append(@, -t.v)]
  ELSE IF mn.m = "prim" /\ mn.a \in {P_global, P_long, P_outer}
  THEN \* TeX 1211: the next non-blank, non-relax expanded token is what the prefix applies to
       IF mn.a # P_global THEN Skip(S, "skip-long-outer")
       ELSE LET y == GetXS(S) IN
            IF y.none THEN (IF Stopped(y.s) THEN y.s ELSE Fail(y.s, "prefix: eof"))
            ELSE IF y.t.k = "sp" \/ MeanOf(y.s, y.t) = Prim(P_relax) THEN Skip(y.s, "skip-blank-after-prefix")
            ELSE Exec(y.s, y, TRUE)
  ELSE IF mn.m = "prim" /\ mn.a \in {P_def, P_gdef}
  THEN IF mn.a = P_gdef /\ S.gd < 0 THEN Skip(S, "skip-gdef-under-negative-globaldefs")   \* finding C01
       ELSE Def(S, IsGlobal(S, pfx \/ mn.a = P_gdef))
  ELSE IF mn = Prim(P_let) THEN Let(S, pfx)
  ELSE IF mn.m = "prim" /\ mn.a \in {P_countdef, P_chardef, P_toksdef}
  THEN RegDef(S, mn.a, pfx)
  ELSE IF mn = Prim(P_toks) \/ mn.m = "tdef" THEN AssignToks(S, t, pfx)
  ELSE IF mn = Prim(P_count) \/ mn.m = "cdef" \/ mn \in {Prim(P_globaldefs), Prim(P_catcode), Prim(P_endlinechar)}
  THEN AssignVar(S, t, pfx)
  ELSE IF mn.m = "prim" /\ mn.a \in {P_advance, P_multiply, P_divide} THEN Arith(S, mn.a, pfx)
  ELSE IF pfx THEN Fail(S, "prefix before a non-assignment")
  ELSE IF mn = Prim(P_relax) THEN S
  ELSE IF mn = Undef THEN Fail(S, "undefined control sequence")
  ELSE IF mn.m = "chdef" THEN [S EXCEPT !.out = Append(@, mn.a)]
  ELSE IF mn.m = "tok"
  THEN \* a character token, or a \let alias of one (texlang puts the character back and reads it again)
       LET k == KindOf(mn.a) IN
       IF k = "lb" THEN [S EXCEPT !.saves = Append(@, [mean |-> S.mean, cnt |-> S.cnt, gd |-> S.gd, tks |-> S.tks,
                                                       cat |-> S.cat, elc |-> S.elc])]
       ELSE IF k = "rb"
            THEN (IF S.saves = << >> THEN Fail(S, "no group to end")
                  ELSE LET sv == S.saves[Len(S.saves)] IN
                       [S EXCEPT !.mean = sv.mean, !.cnt = sv.cnt, !.gd = sv.gd, !.tks = sv.tks, !.cat = sv.cat, !.elc = sv.elc,
                                 !.saves = SubSeq(@, 1, Len(@) - 1)])
            ELSE IF k = "pm" THEN Fail(S, "internal: parameter token executed")
            ELSE IF k = "ha" THEN Skip(S, "skip-hash-executed")   \* TeX: an error; texlang typesets it
            ELSE [S EXCEPT !.out = Append(@, mn.b % 1000)]     \* a character of an unusual category carries it in the thousands
  ELSE Fail(S, "internal: unknown meaning")

\* ---------------------------------------------------------------------------------------------
\* the lexer in the loop.  TeX reads the file one token at a time under the category codes of that moment
\* (get_next, TeX 343-356) and the line end of the moment the line is loaded (TeX 360-362).  Here the rest of the
\* file is turned into tokens ahead of time by the specification of the lexer that C03 binds to lexer.rs
\* (TexLexer.tla, stepped one token at a time by LexTok) and every token remembers the lexer as it was just after
\* it (post).  When an assignment or the end of a group changes a category code or \endlinechar, the tokens of
\* the file that were not read yet are thrown away and the file is read again from the lexer state behind the
\* last token that was read - tokens read before (a number's terminator that was put back) keep what they were.
LXI == INSTANCE TexLexer WITH Deviations <- {}, Bug <- ""
NameCodes == << <<100,101,102>>, <<103,100,101,102>>, <<103,108,111,98,97,108>>, <<108,101,116>>, <<99,111,117,110,116>>,
                <<99,111,117,110,116,100,101,102>>, <<99,104,97,114,100,101,102>>, <<97,100,118,97,110,99,101>>,
                <<109,117,108,116,105,112,108,121>>, <<100,105,118,105,100,101>>, <<116,104,101>>, <<114,101,108,97,120>>,
                <<101,120,112,97,110,100,97,102,116,101,114>>, <<110,111,101,120,112,97,110,100>>, <<105,102,116,114,117,101>>,
                <<105,102,102,97,108,115,101>>, <<105,102,110,117,109>>, <<105,102,111,100,100>>, <<105,102,99,97,115,101>>,
                <<111,114>>, <<101,108,115,101>>, <<102,105>>, <<103,108,111,98,97,108,100,101,102,115>>, <<108,111,110,103>>,
                <<111,117,116,101,114>>, <<116,111,107,115>>, <<116,111,107,115,100,101,102>>,
                <<99,97,116,99,111,100,101>>, <<101,110,100,108,105,110,101,99,104,97,114>>,
                <<118,97>>, <<118,98>>, <<118,99>>, <<118,100>>, <<118,101>>, <<118,102>>, <<118,103>>, <<118,104>> >>

LS0 == [ln |-> 0, b |-> << >>, o |-> << >>, loc |-> 1, st |-> "N"]
\* one token (or invalid-character event) from lexer state L: TexLexer!ScanLine, one step at a time
RECURSIVE LexTok(_, _, _, _)
LexTok(L, lines, tb, elc) ==
  IF L.loc > Len(L.b)
  THEN IF L.ln >= Len(lines) THEN [none |-> TRUE, ev |-> 0, ls |-> L]
       ELSE LET bf == LXI!Buffer(lines[L.ln + 1], elc) IN
            LexTok([ln |-> L.ln + 1, b |-> bf.b, o |-> bf.o, loc |-> 1, st |-> "N"], lines, tb, elc)
  ELSE LET c == L.b[L.loc] cat == LXI!CatOf(tb, c) col == L.o[L.loc]
           E == [L EXCEPT !.loc = Len(L.b) + 1]
           N == [L EXCEPT !.loc = @ + 1] IN
    CASE cat = 0 -> LET r == LXI!ScanName(tb, L.b, L.o, L.loc + 1) IN
                    [none |-> FALSE, ev |-> LXI!Cs(r.name, L.ln, col),
                     ls |-> [L EXCEPT !.b = r.b, !.o = r.o, !.loc = r.loc, !.st = r.st]]
      [] cat = 5 -> IF L.st = "N" THEN [none |-> FALSE, ev |-> LXI!Cs(LXI!Par, L.ln, col), ls |-> E]
                    ELSE IF L.st = "M" THEN [none |-> FALSE, ev |-> LXI!Tok(10, 32, L.ln, col), ls |-> E]
                    ELSE LexTok(E, lines, tb, elc)
      [] cat = 10 -> IF L.st = "M" THEN [none |-> FALSE, ev |-> LXI!Tok(10, 32, L.ln, col), ls |-> [N EXCEPT !.st = "S"]]
                     ELSE LexTok(N, lines, tb, elc)
      [] cat = 9 -> LexTok(N, lines, tb, elc)
      [] cat = 14 -> LexTok(E, lines, tb, elc)
      [] cat = 15 -> [none |-> FALSE, ev |-> [k |-> "invalid", cat |-> 15, ch |-> c, name |-> << >>, ln |-> L.ln, col |-> col], ls |-> N]
      [] cat = 7 /\ LXI!Reducible(L.b, L.loc) ->
           LET r == LXI!Reduce(L.b, L.o, L.loc) IN LexTok([L EXCEPT !.b = r.b, !.o = r.o], lines, tb, elc)
      [] OTHER -> [none |-> FALSE, ev |-> LXI!Tok(cat, c, L.ln, col), ls |-> [N EXCEPT !.st = "M"]]

\* the lexer's event as a token of this model; a name outside NameCodes is interned (1000 + its number)
NaturalCat(c) == IF (c \in 65..90) \/ (c \in 97..122) THEN 11 ELSE 12
ConvTok(names, ev) ==
  IF ev.k # "tok" THEN [t |-> Tok("iv", ev.ch), names |-> names]
  ELSE IF ev.cat = 13 /\ ev.ch = 126 THEN [t |-> Tok("cs", NNames - 1), names |-> names]
  ELSE IF ev.cat = 13 /\ ev.ch = 33 THEN [t |-> Tok("cs", NNames), names |-> names]
  ELSE IF ev.cat = 16 /\ (\E i \in 1..Len(NameCodes) : NameCodes[i] = ev.name)
       THEN [t |-> Tok("cs", CHOOSE i \in 1..Len(NameCodes) : NameCodes[i] = ev.name), names |-> names]
  ELSE IF ev.cat \in {13, 16}
       THEN LET nm == IF ev.cat = 16 THEN ev.name ELSE << ev.ch + 256 >> IN
            IF \E i \in 1..Len(names) : names[i] = nm
            THEN [t |-> Tok("cs", 1000 + (CHOOSE i \in 1..Len(names) : names[i] = nm)), names |-> names]
            ELSE [t |-> Tok("cs", 1000 + Len(names) + 1), names |-> Append(names, nm)]
  ELSE IF ev.cat = 1 THEN [t |-> Tok("lb", IF ev.ch = 123 THEN 0 ELSE ev.ch), names |-> names]
  ELSE IF ev.cat = 2 THEN [t |-> Tok("rb", IF ev.ch = 125 THEN 0 ELSE ev.ch), names |-> names]
  ELSE IF ev.cat = 6 THEN [t |-> Tok("ha", ev.ch), names |-> names]
  ELSE IF ev.cat = 10 THEN [t |-> SP, names |-> names]
  ELSE [t |-> Tok("ch", IF ev.cat = NaturalCat(ev.ch) THEN ev.ch ELSE ev.ch + 1000 * ev.cat), names |-> names]

RECURSIVE LexRest(_, _, _, _, _)
LexRest(L, lines, tb, elc, names) ==
  LET r == LexTok(L, lines, tb, elc) IN
  IF r.none THEN [toks |-> << >>, post |-> << >>, names |-> names]
  ELSE LET c == ConvTok(names, r.ev)
           rest == LexRest(r.ls, lines, tb, elc, c.names) IN
       [toks |-> << c.t >> \o rest.toks, post |-> << r.ls >> \o rest.post, names |-> rest.names]

\* read the file from lexer state `base` under the category codes and line end of S; the unread tokens are replaced
Fill(S, base) ==
  LET k == Unread(S)
      r == LexRest(base, S.lex.lines, S.cat, S.elc, S.names) IN
  [S EXCEPT !.inp = SubSeq(S.inp, 1, Len(S.inp) - k) \o r.toks, !.nsrc = Len(r.toks), !.names = r.names,
            !.lex = [lines |-> S.lex.lines, toks |-> r.toks, post |-> r.post, lx0 |-> base, done |-> FALSE]]
\* A request that found no token has still read the file to its end (a comment character behind the number of
\* \catcode`\%=12 is passed over by the look-ahead, as a comment): nothing is left to read again.
Relex(S) ==
  LET k == Unread(S) n == Len(S.lex.post) IN
  IF S.lex.done THEN S ELSE Fill(S, IF n - k = 0 THEN S.lex.lx0 ELSE S.lex.post[n - k])

\* an invalid character that a scan passed over as part of an argument, a skipped branch or a definition was
\* reported by TeX when it was read; the model only notices the ones read one by one (GetTok)
ConsumedIv(S, R) ==
  LET n == Len(S.lex.toks) k0 == Unread(S) k1 == Unread(R) IN
  \E i \in (n - k0 + 1)..(n - k1) : S.lex.toks[i].k = "iv"

RECURSIVE Run(_)
Run(S) ==
  IF Stopped(S) THEN S
  ELSE LET x == GetX(Tick(S)) IN
       IF x.none THEN x.s
       ELSE LET R == Exec(x.s, x, FALSE) IN
            IF Stopped(R) \/ S.lex.lines = << >> THEN Run(R)
            ELSE IF ConsumedIv(S, R) THEN Skip(R, "skip-invalid-character-inside-a-scan")
            ELSE IF R.cat # S.cat \/ R.elc # S.elc THEN Run(Relex(R))
            ELSE Run(R)

Result(prog, fuel) == Run(InitState(prog, fuel))
\* a run from the characters of the file (texlang starts with \endlinechar=13)
InitSource(lines, fuel) ==
  Fill([InitState(<< >>, fuel) EXCEPT !.elc = 13, !.lex = [NoSource EXCEPT !.lines = lines]], LS0)
ResultOfSource(lines, fuel) == Run(InitSource(lines, fuel))
=============================================================================
