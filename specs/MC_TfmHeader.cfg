SPECIFICATION Spec
CONSTANTS
  MaxOverrides = 2
  ValsAt <- ValsAtQuick
  Bases <- BasesQuick
  Lens <- LensQuick
  ImplDeviations = {}
  ImplBug = ""
INVARIANTS TypeOK MachineMatchesTable TableIsPartitionAtStart OkIsSliceSafeAtStart JunkRule ReadsInBounds Terminates
           ImplAgrees ImplOkIsSliceable TodayDeviatesOnlyInClasses
CHECK_DEADLOCK FALSE
