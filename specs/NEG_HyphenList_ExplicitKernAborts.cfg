SPECIFICATION Spec
CONSTANTS
  MaxHn = 3
  Bug = "ExplicitKernAborts"
  Alphabet <- AlphabetQuick
  MaxLen = 4
  LH = 1
  RH = 1
  Devs <- NoDevs
INVARIANTS MachineIsDefinition
CHECK_DEADLOCK FALSE
