------------------------------- MODULE HPack -------------------------------
(***************************************************************************)
(* Packing a horizontal list: TeX's hpack (tex.web sections 649-667) and   *)
(* boxworks::ds::HBox::pack.                                               *)
(*                                                                         *)
(* Three layers, checked against each other by TLC:                        *)
(*                                                                         *)
(*  reference layer   the property as stated, declaratively: the natural   *)
(*                    width is a sum, height/depth are maxima, the glue    *)
(*                    order is the highest order with a non-zero total,    *)
(*                    the set glue fills the box exactly, an overfull box  *)
(*                    shrinks by exactly its shrinkability, a list without *)
(*                    usable glue stays unset  (Natural, MaxH, ..., BoxLaws)*)
(*  TeX layer         hpack transcribed: one Step per node (651-656) with  *)
(*                    per-order totals total_stretch[o], total_shrink[o],  *)
(*                    then Finish (657-667).  The named deviations of the  *)
(*                    findings protocol are switches of this layer.        *)
(*  code layer        ds.rs `HBox::pack` transcribed as it is written      *)
(*                    today (one running `total_glue` that keeps only the  *)
(*                    dominating order; `[w, h, d]` destructuring).        *)
(*                                                                         *)
(* The state machine scans a list one node at a time (an action per node   *)
(* class of section 651) and finishes with a mode and a target width.      *)
(*                                                                         *)
(* Items are records with a kind k and the dimensions hpack reads:         *)
(*   char, lig   w h d            (654; a ligature is looked at as a char) *)
(*   hbox, vbox  w h d s          (653; s = shift_amount)                  *)
(*   rule        w h d            (653; s = 0)                             *)
(*   glue        w st sto sh sho  (656; sto, sho in 0..3)                  *)
(*   kern        w                (651)                                    *)
(*   penalty, disc, whatsit       (651 othercases do_nothing; 1360)        *)
(*                                                                         *)
(* A box is [w, h, d, o, sign, rn, rd]: sign is glue_sign (1 stretching,   *)
(* -1 shrinking, 0 normal), rn/rd is the *signed* glue ratio in the        *)
(* convention of boxworks (tex.rs parse_glue_set: TeX's "glue set - r"     *)
(* is the ratio -r): rn/rd = sign * glue_set.                              *)
(***************************************************************************)
EXTENDS Integers, Sequences, FiniteSets

CONSTANTS Alphabet,   \* model: the items a list is made of
          MaxLen,     \* model: longest list
          Targets,    \* model: target widths / additional amounts
          TexDevs,    \* deviations switched on in the TeX layer of the model ({} = TeX)
          Bug         \* "" or the name of a seeded design mutant (negative controls)

Orders   == 0..3      \* normal, fil, fill, filll (tex.web 150)
Modes    == {"exact", "additional"}                                    \* 644
BoxKinds == {"hbox", "vbox"}
CharKinds == {"char", "lig"}
NoneKinds == {"penalty", "disc", "whatsit"}

\* The recorded findings, as named deviations of the TeX layer.
DevSwap     == "box_rule_width_height_swapped"
DevPresence == "zero_total_top_order_hides_lower_order"
DevOverfull == "overfull_ratio_plus_one"
AllDevs     == {DevSwap, DevPresence, DevOverfull}

Max2(a, b) == IF a > b THEN a ELSE b

---------------------------------------------------------------------------
(* Reference layer: the statement of the property.                         *)

RECURSIVE SeqSum(_)
SeqSum(s) == IF s = <<>> THEN 0 ELSE Head(s) + SeqSum(Tail(s))

SetMax(S) == CHOOSE m \in S : \A y \in S : y <= m

WidthOf(it)  == IF it.k \in NoneKinds THEN 0 ELSE it.w
HeightOf(it) == IF it.k \in CharKinds \cup {"rule"} THEN it.h
                ELSE IF it.k \in BoxKinds THEN it.h - it.s ELSE 0
DepthOf(it)  == IF it.k \in CharKinds \cup {"rule"} THEN it.d
                ELSE IF it.k \in BoxKinds THEN it.d + it.s ELSE 0
StretchOf(it, o) == IF it.k = "glue" /\ it.sto = o THEN it.st ELSE 0
ShrinkOf(it, o)  == IF it.k = "glue" /\ it.sho = o THEN it.sh ELSE 0

Natural(l) == SeqSum([i \in 1..Len(l) |-> WidthOf(l[i])])
MaxH(l)    == SetMax({0} \cup {HeightOf(l[i]) : i \in 1..Len(l)})
MaxD(l)    == SetMax({0} \cup {DepthOf(l[i]) : i \in 1..Len(l)})
TotStretch(l) == [o \in Orders |-> SeqSum([i \in 1..Len(l) |-> StretchOf(l[i], o)])]
TotShrink(l)  == [o \in Orders |-> SeqSum([i \in 1..Len(l) |-> ShrinkOf(l[i], o)])]

\* "the highest order of infinity with non-zero total"
HighestNonZero(tot) == SetMax({0} \cup {o \in Orders : tot[o] # 0})
\* what the code uses instead: the highest order that *occurs* on a glue node
HighestPresentStretch(l) == SetMax({0} \cup {l[i].sto : i \in {j \in 1..Len(l) : l[j].k = "glue"}})
HighestPresentShrink(l)  == SetMax({0} \cup {l[i].sho : i \in {j \in 1..Len(l) : l[j].k = "glue"}})

TargetWidth(l, m, t) == IF m = "additional" THEN Natural(l) + t ELSE t

\* TeX calls the box overfull (664): it must shrink, only finite shrinkability is
\* available, and that is less than what is needed.
Overfull(l, m, t) ==
  LET x == TargetWidth(l, m, t) - Natural(l) IN
  /\ x < 0 /\ l # <<>>
  /\ HighestNonZero(TotShrink(l)) = 0 /\ TotShrink(l)[0] < -x

\* The laws a packed box b of list l must satisfy.
BoxLaws(l, m, t, b) ==
  LET nat == Natural(l)
      x   == TargetWidth(l, m, t) - nat
      ts  == TotStretch(l)
      tsh == TotShrink(l)
      tot == IF x > 0 THEN ts ELSE tsh
  IN /\ b.w = TargetWidth(l, m, t)
     /\ b.h = MaxH(l) /\ b.d = MaxD(l)
     /\ b.rd # 0
     /\ x = 0 => b.sign = 0 /\ b.o = 0
     /\ x # 0 => b.o = HighestNonZero(tot)
     \* a list without the needed glue is left unset; with it, the glue is set the right way
     /\ (x # 0 /\ tot[b.o] = 0) => b.sign = 0
     /\ (x > 0 /\ tot[b.o] # 0) => b.sign = 1
     /\ (x < 0 /\ tot[b.o] # 0) => b.sign = -1
     /\ b.sign = 0 => b.rn = 0
     \* the set contents fill the box exactly: nat + (rn/rd) * tot[o] = w
     /\ (b.sign # 0 /\ ~Overfull(l, m, t)) => nat * b.rd + b.rn * tot[b.o] = b.w * b.rd
     \* an overfull box shrinks by exactly its shrinkability (and still does not fit)
     /\ (b.sign # 0 /\ Overfull(l, m, t)) =>
            /\ b.rn * tsh[0] = (0 - tsh[0]) * b.rd
            /\ nat - tsh[0] > b.w

---------------------------------------------------------------------------
(* TeX layer.  Machine arithmetic is made explicit (TeX assumes it never   *)
(* overflows; the Rust code panics in a checked build): a scan that leaves *)
(* the 32-bit range ends in the state/box Ovf.                             *)

MaxInt == 2147483647
MinInt == -2147483647 - 1
AddOk(a, b) == IF b >= 0 THEN a <= MaxInt - b ELSE a >= MinInt - b
SubOk(a, b) == IF b >= 0 THEN a >= MinInt + b ELSE a <= MaxInt + b

ZeroTot == [o \in Orders |-> 0]
\* 650: h, d, x := 0; total_stretch, total_shrink := 0.  ps/psh: highest order seen on a glue
\* node (only used by DevPresence); n: nodes seen (list_ptr(r) # null in 664).
Scan0 == [x |-> 0, h |-> 0, d |-> 0, ts |-> ZeroTot, tsh |-> ZeroTot,
          ps |-> 0, psh |-> 0, n |-> 0, ovf |-> FALSE]
OvfScan == [Scan0 EXCEPT !.ovf = TRUE]

\* x := x + w; if hh > h then h := hh; if dd > d then d := dd
Incorporate(st, w, hh, dd) ==
  IF ~AddOk(st.x, w) THEN OvfScan
  ELSE [st EXCEPT !.x = @ + w, !.h = Max2(@, hh), !.d = Max2(@, dd)]

\* 654 (and 652: a ligature node is made to look like a char node)
StepChar(st, it) == Incorporate(st, it.w, it.h, it.d)

\* 653: s := shift_amount(p) for boxes, 0 for rules;
\*      x := x + width(p); height(p) - s and depth(p) + s enter the maxima
StepBox(st, it, D) ==
  LET s == IF it.k = "rule" THEN 0 ELSE it.s IN
  IF ~SubOk(it.h, s) \/ ~AddOk(it.d, s) THEN OvfScan
  ELSE IF DevSwap \in D
       THEN Incorporate(st, it.h - s, it.w, it.d + s)      \* deviation: width and height swapped
       ELSE Incorporate(st, it.w, it.h - s,
                        IF Bug = "DepthIgnoresShift" THEN it.d ELSE it.d + s)

\* 656: x := x + width(g); total_stretch[stretch_order(g)] += stretch(g); same for shrink
StepGlue(st, it) ==
  IF ~AddOk(st.x, it.w) \/ ~AddOk(st.ts[it.sto], it.st) \/ ~AddOk(st.tsh[it.sho], it.sh) THEN OvfScan
  ELSE [st EXCEPT !.x = @ + it.w,
                  !.ts[it.sto] = @ + it.st, !.tsh[it.sho] = @ + it.sh,
                  !.ps  = IF Bug = "OrderFromLastGlue" THEN it.sto ELSE Max2(@, it.sto),
                  !.psh = IF Bug = "OrderFromLastGlue" THEN it.sho ELSE Max2(@, it.sho)]

\* 651: kern_node, math_node: x := x + width(p)
StepKern(st, it) == IF ~AddOk(st.x, it.w) THEN OvfScan ELSE [st EXCEPT !.x = @ + it.w]

\* 651: the case statement
Step(st, it, D) ==
  IF st.ovf THEN st
  ELSE LET r == CASE it.k \in CharKinds -> StepChar(st, it)
                  [] it.k \in BoxKinds \cup {"rule"} -> StepBox(st, it, D)
                  [] it.k = "glue" -> StepGlue(st, it)
                  [] it.k = "kern" -> StepKern(st, it)
                  [] OTHER -> st                      \* othercases do_nothing
       IN IF r.ovf THEN r ELSE [r EXCEPT !.n = st.n + 1]

\* 659, 665: "Determine the stretch (shrink) order"
TopOrder(tot) == IF tot[3] # 0 THEN 3 ELSE IF tot[2] # 0 THEN 2 ELSE IF tot[1] # 0 THEN 1 ELSE 0

Unset(o) == [sign |-> 0, o |-> o, rn |-> 0, rd |-> 1]

\* 658-659 (x > 0) and 664-665 (x < 0); 657 for x = 0.  Ovf only for the negation of MinInt.
GlueSetting(st, x, D) ==
  IF x = 0 THEN Unset(0)
  ELSE IF x > 0 THEN
    LET o == IF DevPresence \in D \/ Bug = "OrderFromLastGlue" THEN st.ps ELSE TopOrder(st.ts) IN
    IF st.ts[o] # 0 THEN [sign |-> 1, o |-> o, rn |-> x, rd |-> st.ts[o]]   \* glue_set := x / total_stretch[o]
    ELSE Unset(IF DevPresence \in D THEN 0 ELSE o)            \* glue_sign := normal; glue_set := 0
  ELSE
    LET o == IF DevPresence \in D \/ Bug = "OrderFromLastGlue" THEN st.psh ELSE TopOrder(st.tsh)
        \* glue_sign := shrinking; glue_set := (-x) / total_shrink[o], i.e. signed ratio x / total
        base == IF st.tsh[o] # 0 THEN [sign |-> -1, o |-> o, rn |-> x, rd |-> st.tsh[o]]
                ELSE Unset(o)
        finite == o = 0 \/ Bug = "OverfullAtAnyOrder"
    IN IF finite /\ x = MinInt THEN [ovf |-> TRUE]
       \* 664: if (total_shrink[o] < -x) and (o = normal) and (list_ptr(r) # null) then
       \*        set_glue_ratio_one(glue_set(r))     -- glue_sign stays what it was
       ELSE IF finite /\ st.tsh[o] < -x /\ st.n > 0
       THEN [base EXCEPT !.rn = IF DevOverfull \in D THEN base.sign * base.sign ELSE base.sign,
                         !.rd = 1]
       ELSE base

OvfBox == [ovf |-> TRUE]

\* 657: if m = additional then w := x + w; width(r) := w; x := w - x
Finish(st, m, t, D) ==
  IF st.ovf THEN OvfBox
  ELSE IF m = "additional" /\ ~AddOk(st.x, t) THEN OvfBox
  ELSE LET w == IF m = "additional" THEN st.x + t ELSE t IN
       IF ~SubOk(w, st.x) THEN OvfBox
       ELSE LET g == GlueSetting(st, w - st.x, D) IN
            IF "ovf" \in DOMAIN g THEN OvfBox
            ELSE [ovf |-> FALSE, w |-> w, h |-> st.h, d |-> st.d,
                  o |-> g.o, sign |-> g.sign, rn |-> g.rn, rd |-> g.rd]

RECURSIVE ScanFrom(_, _, _, _)
ScanFrom(st, l, i, D) == IF i > Len(l) THEN st ELSE ScanFrom(Step(st, l[i], D), l, i + 1, D)

\* hpack(p, w, m) with the deviations D; D = {} is TeX.
HPackD(l, m, t, D) == Finish(ScanFrom(Scan0, l, 1, D), m, t, D)

---------------------------------------------------------------------------
(* What the implementation reports of a box: ds::HBox has no glue_sign     *)
(* field; the sign lives in the ratio.  Ratios are compared as reduced     *)
(* fractions with a positive denominator.                                  *)

Abs(a) == IF a < 0 THEN 0 - a ELSE a
RECURSIVE Gcd(_, _)
Gcd(a, b) == IF b = 0 THEN a ELSE Gcd(b, a % b)
Reduce(n, d) ==
  IF n = 0 THEN <<0, 1>>
  ELSE IF n = MinInt \/ d = MinInt THEN <<n, d>>     \* |MinInt| is not a machine integer: left as it is
  ELSE LET g == Gcd(Abs(n), Abs(d))
           s == IF d < 0 THEN -1 ELSE 1
       IN <<(s * n) \div g, (s * d) \div g>>

View(b) == IF b.ovf THEN [ovf |-> TRUE]
           ELSE [ovf |-> FALSE, w |-> b.w, h |-> b.h, d |-> b.d, o |-> b.o, r |-> Reduce(b.rn, b.rd)]

---------------------------------------------------------------------------
(* Code layer: crates/boxworks/src/ds.rs HBox::pack as written (no         *)
(* overflow modelling; the model's numbers are small).                     *)

Code0 == [nw |-> 0, h |-> 0, d |-> 0, st |-> 0, sto |-> 0, sh |-> 0, sho |-> 0]

\* the array each match arm evaluates to; it is destructured as `let [w, h, d] = ...`
CodeArm(it) ==
  CASE it.k \in CharKinds -> <<it.w, it.h, it.d>>                  \* font_repo.width_height_depth
    [] it.k \in BoxKinds  -> <<it.h - it.s, it.w, it.d + it.s>>    \* [*height - *shift_amount, *width, *depth + *shift_amount]
    [] it.k = "rule"      -> <<it.h, it.w, it.d>>                  \* [*height, *width, *depth]
    [] it.k = "glue"      -> <<it.w, 0, 0>>
    [] it.k = "kern"      -> <<it.w, 0, 0>>

\* match total_glue.X_order.cmp(&glue.value.X_order) { Less => replace, Equal => add, Greater => {} }
CodeGlue(c, it) ==
  LET c1 == IF c.sho < it.sho THEN [c EXCEPT !.sh = it.sh, !.sho = it.sho]
            ELSE IF c.sho = it.sho THEN [c EXCEPT !.sh = @ + it.sh] ELSE c
  IN IF c1.sto < it.sto THEN [c1 EXCEPT !.st = it.st, !.sto = it.sto]
     ELSE IF c1.sto = it.sto THEN [c1 EXCEPT !.st = @ + it.st] ELSE c1

CodeStep(c, it) ==
  IF it.k \in NoneKinds THEN c                                    \* continue
  ELSE LET c1 == IF it.k = "glue" THEN CodeGlue(c, it) ELSE c
           a  == CodeArm(it)
       IN [c1 EXCEPT !.nw = @ + a[1], !.h = Max2(@, a[2]), !.d = Max2(@, a[3])]

CodeFinish(c, m, t) ==
  LET w == IF m = "exact" THEN t ELSE c.nw + t
      excess == w - c.nw
      g == IF excess < 0 THEN
             IF c.sho = 0 /\ c.sh < -excess
             THEN (IF c.sh = 0 THEN [o |-> c.sho, r |-> <<0, 1>>] ELSE [o |-> c.sho, r |-> <<1, 1>>])
             ELSE IF c.sh # 0 THEN [o |-> c.sho, r |-> Reduce(excess, c.sh)]
             ELSE [o |-> c.sho, r |-> <<0, 1>>]
           ELSE IF excess = 0 THEN [o |-> 0, r |-> <<0, 1>>]
           ELSE IF c.st # 0 THEN [o |-> c.sto, r |-> Reduce(excess, c.st)]
           ELSE [o |-> 0, r |-> <<0, 1>>]
  IN [ovf |-> FALSE, w |-> w, h |-> c.h, d |-> c.d, o |-> g.o, r |-> g.r]

---------------------------------------------------------------------------
(* The scanning machine.                                                   *)

VARIABLES list,    \* nodes scanned so far
          tex,     \* hpack's variables x, h, d, total_stretch, total_shrink
          code,    \* pack's variables natural_width, hbox.height, hbox.depth, total_glue
          out      \* [done |-> FALSE] while scanning; afterwards [done, m, t, tex, code]:
                   \* the two finished boxes

vars == <<list, tex, code, out>>

Scanning == [done |-> FALSE]
Init == list = <<>> /\ tex = Scan0 /\ code = Code0 /\ out = Scanning

ScanItem(it) == /\ ~out.done /\ Len(list) < MaxLen
                /\ list' = Append(list, it)
                /\ tex' = Step(tex, it, TexDevs)
                /\ code' = CodeStep(code, it)
                /\ UNCHANGED out

\* one action per arm of the case statement of 651
ScanChar  == \E it \in Alphabet : it.k \in CharKinds /\ ScanItem(it)
ScanBox   == \E it \in Alphabet : it.k \in BoxKinds /\ ScanItem(it)
ScanRule  == \E it \in Alphabet : it.k = "rule" /\ ScanItem(it)
ScanGlue  == \E it \in Alphabet : it.k = "glue" /\ ScanItem(it)
ScanKern  == \E it \in Alphabet : it.k = "kern" /\ ScanItem(it)
ScanOther == \E it \in Alphabet : it.k \in NoneKinds /\ ScanItem(it)

Pack == /\ ~out.done
        /\ \E m \in Modes, t \in Targets :
             out' = [done |-> TRUE, m |-> m, t |-> t, tex |-> Finish(tex, m, t, TexDevs), code |-> CodeFinish(code, m, t)]
        /\ UNCHANGED <<list, tex, code>>

Next == ScanChar \/ ScanBox \/ ScanRule \/ ScanGlue \/ ScanKern \/ ScanOther \/ Pack
Spec == Init /\ [][Next]_vars

---------------------------------------------------------------------------
(* Properties.                                                             *)

\* the loop invariant of 651: the TeX layer's running variables are the reference sums/maxima
LoopInv == /\ ~tex.ovf
           /\ tex.x = Natural(list) /\ tex.h = MaxH(list) /\ tex.d = MaxD(list)
           /\ tex.ts = TotStretch(list) /\ tex.tsh = TotShrink(list)
           /\ tex.n = Len(list)

\* 659/665 is "the highest order with non-zero total"
TopOrderIsHighestNonZero == /\ TopOrder(tex.ts) = HighestNonZero(tex.ts)
                            /\ TopOrder(tex.tsh) = HighestNonZero(tex.tsh)

\* the finished TeX box satisfies the property
TexBoxLaws == out.done => /\ ~out.tex.ovf
                            /\ BoxLaws(list, out.m, out.t, out.tex)

\* the stepwise machine and the function used by the trace spec are the same thing
TexIsFunction == out.done => out.tex = HPackD(list, out.m, out.t, TexDevs)

\* what `total_glue` holds: the total of the highest order that occurs, whether or not it is zero
CodeTotalsInv == /\ code.sto = HighestPresentStretch(list) /\ code.st = TotStretch(list)[code.sto]
                 /\ code.sho = HighestPresentShrink(list) /\ code.sh = TotShrink(list)[code.sho]
                 /\ tex.ps = code.sto /\ tex.psh = code.sho

\* the code layer is TeX plus exactly the three named deviations ...
CodeIsTexPlusDeviations == out.done => out.code = View(HPackD(list, out.m, out.t, AllDevs))
\* ... (negative control) and not TeX, nor TeX plus any two of them
CodeIsTexPlus(D) == out.done => out.code = View(HPackD(list, out.m, out.t, D))
CodeIsTex            == CodeIsTexPlus({})
CodeNeedsSwap        == CodeIsTexPlus(AllDevs \ {DevSwap})
CodeNeedsPresence    == CodeIsTexPlus(AllDevs \ {DevPresence})
CodeNeedsOverfull    == CodeIsTexPlus(AllDevs \ {DevOverfull})

\* a deviation changes the outcome only under its stated precondition
PreSwap(l)       == \E i \in 1..Len(l) : l[i].k \in BoxKinds \cup {"rule"}
PrePresence(l, m, t) ==
  LET x == TargetWidth(l, m, t) - Natural(l) IN
  \/ x > 0 /\ HighestPresentStretch(l) # HighestNonZero(TotStretch(l))
  \/ x < 0 /\ HighestPresentShrink(l) # HighestNonZero(TotShrink(l))
PreOverfull(l, m, t) == Overfull(l, m, t) /\ TotShrink(l)[0] # 0
DeviationsAreLocal ==
  out.done =>
    LET strict == View(HPackD(list, out.m, out.t, {})) IN
    /\ View(HPackD(list, out.m, out.t, {DevSwap})) # strict => PreSwap(list)
    /\ View(HPackD(list, out.m, out.t, {DevPresence})) # strict => PrePresence(list, out.m, out.t)
    /\ View(HPackD(list, out.m, out.t, {DevOverfull})) # strict <=> PreOverfull(list, out.m, out.t)
=============================================================================
