SPECIFICATION SpecCalls
CONSTANTS
  Bug = ""
  N0 = 0
  N1 = 0
  N2 = 0
  L1 = 0
  L2 = 0
  MaxArgs = 3
  Fns = {"chars", "glue", "penalty"}
  Rich = FALSE
  TextLen = 0
  Chars = {}
  IntParts = {}
  Sample = 1
  HiStep = 1
INVARIANTS InvCallTotal InvNormalForm InvModeDiscipline InvBindingIsFunction InvOkMeansEachParameterOnce InvPositionalFirst
CHECK_DEADLOCK FALSE
