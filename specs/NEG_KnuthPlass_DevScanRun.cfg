SPECIFICATION Spec
CONSTANTS
  Alphabet <- AlphaRun
  MaxLen = 5
  Tails <- OnlyParTail
  WidthSeqs <- W57
  ParSets <- P_tol200
  Devs <- OnlyScan
  Bug = ""
INVARIANTS Refines
CHECK_DEADLOCK FALSE
