SPECIFICATION Spec
CONSTANTS
  N = 5
  Bug = "NoSkipBlanks"
  Deviations = {}
INVARIANT ScannerInvariants
CHECK_DEADLOCK FALSE
