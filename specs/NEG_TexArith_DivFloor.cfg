SPECIFICATION Spec
CONSTANTS
  Bug = "DivFloor"
  FracStep = 256
  IntParts = {0, 1, 16383}
  Phases = {"div"}
INVARIANTS FracLaw TripLaw MulLaw DivLaw XndLaw UnitLaw IntLaw GlueLaw WrapLaw
CHECK_DEADLOCK FALSE
