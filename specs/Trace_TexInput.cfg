SPECIFICATION TSpec
CONSTANTS
  Limit = 101
  Deviations = {}
  Streams = {1}
  RFiles <- NoFiles
POSTCONDITION TraceAccepted
CHECK_DEADLOCK FALSE
