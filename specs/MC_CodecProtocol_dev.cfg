SPECIFICATION CSpec
CONSTANTS
  Deviations = {"PanicShortHeader", "PanicSumOverflowsI16", "NeLimit255", "EmptyRangeSkipsEc"}
  ContractBug = ""
INVARIANTS CTypeOK ObligationIsReadable DischargeIsReadable
CHECK_DEADLOCK TRUE
