SPECIFICATION TSpec
CONSTANTS
  Threshold = 255
  MaxRedirect = 65535
  MaxHeader = 255
  Deviations = {"HeaderWordsBeyond255Dropped"}
  Bug = ""
POSTCONDITION TraceAccepted
CHECK_DEADLOCK FALSE
