------------------------------ MODULE MC_HPack ------------------------------
(* Exhaustive model of HPack: every list of at most MaxLen nodes over the    *)
(* alphabet below, packed in both modes to every target.  The alphabet has   *)
(* one node of every kind hpack distinguishes, boxes with a positive and a   *)
(* negative shift, and glue whose stretch side ranges over (amount, order)   *)
(* pairs with positive, zero and negative amounts while the shrink side is   *)
(* fixed -- and the other way round.                                         *)
EXTENDS HPack, TLC

G(w, st, sto, sh, sho) == [k |-> "glue", w |-> w, st |-> st, sto |-> sto, sh |-> sh, sho |-> sho]

Fixed == { [k |-> "char", w |-> 2, h |-> 3, d |-> 1],
           [k |-> "lig",  w |-> 1, h |-> 1, d |-> 2],
           [k |-> "hbox", w |-> 2, h |-> 1, d |-> 1, s |-> 2],      \* h-s = -1, d+s = 3
           [k |-> "vbox", w |-> 1, h |-> 2, d |-> 0, s |-> -3],     \* h-s = 5, d+s = -3
           [k |-> "rule", w |-> 1, h |-> 4, d |-> 0],
           [k |-> "kern", w |-> -1],
           [k |-> "penalty"],
           [k |-> "disc"] }

SideQuick == { <<1, 0>>, <<-1, 0>>, <<0, 1>>, <<1, 1>>, <<-1, 1>>, <<2, 2>> }
SideThorough == SideQuick \cup { <<2, 0>>, <<0, 2>>, <<0, 3>>, <<1, 3>> }

Glues(side) == { G(1, p[1], p[2], 1, 0) : p \in side } \cup { G(1, 0, 0, p[1], p[2]) : p \in side }

AlphabetQuick == Fixed \cup Glues(SideQuick)
AlphabetThorough == Fixed \cup Glues(SideThorough) \cup { [k |-> "whatsit"], G(0, 1, 1, 1, 1) }

TargetsQuick == -3..5
TargetsThorough == -4..8
NoDevs == {}
OnlySwap == {DevSwap}
OnlyPresence == {DevPresence}
OnlyOverfull == {DevOverfull}
=============================================================================
