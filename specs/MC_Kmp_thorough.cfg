SPECIFICATION Spec
CONSTANTS
  Sigma = {1, 2}
  MaxP = 5
  MaxT = 12
  KmpBug = ""
INVARIANTS PrefixFnCorrect QInvariant HitCorrect
CHECK_DEADLOCK FALSE
