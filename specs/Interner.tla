------------------------------ MODULE Interner ------------------------------
(* String interner (texcraft-stdext collections::interner).                 *)
(*                                                                          *)
(* Abstract state: the sequence of distinct strings interned so far; the    *)
(* key of a string is its 1-based position.  Strings are identified by      *)
(* their index in a constant universe Str (the harness owns the actual      *)
(* texts: "", a prefix pair, multi-byte characters, ... and runs the real   *)
(* interner with a constant hasher so that every string collides).          *)
(* Serialise + deserialise is a stuttering step.                            *)
EXTENDS Naturals, Sequences, FiniteSets

CONSTANTS Str,        \* finite set of string ids (positive naturals)
          MaxKey      \* resolve() is tried for keys 0..MaxKey

VARIABLES tab, op
vars == <<tab, op>>

Pos(s) == IF \E i \in 1..Len(tab) : tab[i] = s
          THEN CHOOSE i \in 1..Len(tab) : tab[i] = s ELSE 0

Init == tab = <<>> /\ op = [k |-> "init"]

Intern(s) == /\ tab' = IF Pos(s) = 0 THEN Append(tab, s) ELSE tab
             /\ op' = [k |-> "intern", s |-> s, res |-> IF Pos(s) = 0 THEN Len(tab) + 1 ELSE Pos(s)]

Get(s) == /\ UNCHANGED tab
          /\ op' = [k |-> "get", s |-> s, res |-> Pos(s)]          \* 0 = None

Resolve(key) == /\ UNCHANGED tab
                /\ op' = [k |-> "resolve", key |-> key,
                          res |-> IF key \in 1..Len(tab) THEN tab[key] ELSE 0]   \* 0 = None

Serde == /\ UNCHANGED tab
         /\ op' = [k |-> "serde", res |-> TRUE]

Next == \/ \E s \in Str : Intern(s) \/ Get(s)
        \/ \E key \in 0..MaxKey : Resolve(key)
        \/ Serde

Spec == Init /\ [][Next]_vars

\* equal keys exactly for equal strings; every key resolves to its string
Distinct == \A i, j \in 1..Len(tab) : tab[i] = tab[j] => i = j
View == tab
=============================================================================
