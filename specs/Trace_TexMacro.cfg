SPECIFICATION TSpec
CONSTANTS
  KmpBug = ""
  Deviations = {}
POSTCONDITION TraceAccepted
CHECK_DEADLOCK FALSE
