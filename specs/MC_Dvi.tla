------------------------------ MODULE MC_Dvi ------------------------------
(* Model-checking / LTS-dump wrapper for Dvi (TLC-only operators).         *)
EXTENDS Dvi, TLC, Json

MCChars == {<<0, 65>>}
MCFonts == {<<0, 1>>, <<0, 2>>}
Ops2 == {-1, 2}
Ops1 == {2}
LtsFonts == {<<0, 1>>}
Ops3 == {-1, 0, 2}

\* Exhaustive model: every reachable state within MaxSteps ops / MaxDepth pushes.
View == <<a, t, b, n>>

\* LTS dump for binding R: what the remover must output depends only on its tracker, so the
\* table is over the tracker state (the positions are unbounded and irrelevant to the output op).
VarTuple(f) == <<f[0], f[1], f[2], f[3]>>
Abs(tr) == [vars |-> VarTuple(tr.vars), stack |-> [i \in 1..Len(tr.stack) |-> VarTuple(tr.stack[i])]]
AbsView == t
DepthBound == Len(t.stack) <= MaxDepth
Emit == PrintT(<<"LTS", ToJson([f |-> Abs(t), o |-> [op'.o EXCEPT !.k = @] @@ [res |-> op'.res], t |-> Abs(t')])>>)
=============================================================================
