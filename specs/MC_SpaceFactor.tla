--------------------------- MODULE MC_SpaceFactor ---------------------------
(* Exhaustive model of SpaceFactor: every sequence of at most MaxLen tokens  *)
(* (characters with a space-factor code from Codes, inter-word spaces) under *)
(* every setting below.  The codes hit every branch of 1034 (zero, below     *)
(* 1000, 1000, between 1000 and 2000, exactly 2000, above); the settings     *)
(* every branch of 1041-1044 (\spaceskip and \xspaceskip zero / non-zero,    *)
(* with and without stretch and shrink, a negative stretch, an infinite      *)
(* order, a font with and without extra space).                              *)
EXTENDS SpaceFactor, TLC

Gl(w, st, sto, sh, sho) == [w |-> w, st |-> st, sto |-> sto, sh |-> sh, sho |-> sho]
Z == Gl(0, 0, 0, 0, 0)
\* cmr10-like proportions (in units that keep the numbers small but make every rounding visible)
Font1 == [space |-> 3333, stretch |-> 1667, shrink |-> 1111, extra |-> 1111]
Font0 == [space |-> 500, stretch |-> 7, shrink |-> 3, extra |-> 0]

SettingsQuick == {
  [font |-> Font1, ss |-> Z,                       xs |-> Z],
  [font |-> Font1, ss |-> Gl(3000, 1001, 0, 503, 0), xs |-> Z],
  [font |-> Font1, ss |-> Gl(3000, 1001, 0, 503, 0), xs |-> Gl(5000, 0, 0, 0, 0)],
  [font |-> Font1, ss |-> Z,                       xs |-> Gl(5000, 11, 0, 13, 0)],
  [font |-> Font0, ss |-> Gl(0, 0, 0, 7, 0),       xs |-> Gl(0, 1, 1, 0, 0)],
  [font |-> Font1, ss |-> Gl(2000, -999, 1, 0, 0), xs |-> Z] }

SettingsThorough == SettingsQuick \cup {
  [font |-> Font0, ss |-> Z,                       xs |-> Z],
  [font |-> Font0, ss |-> Gl(3000, 0, 0, 0, 0),    xs |-> Z],
  [font |-> Font1, ss |-> Gl(3000, 0, 0, 0, 0),    xs |-> Gl(0, 0, 2, 0, 1)],   \* \xspaceskip "zero" with orders
  [font |-> Font1, ss |-> Gl(1, 32767, 2, 32767, 0), xs |-> Z] }

CodesQuick == {0, 999, 1000, 1250, 2000, 3000}
CodesThorough == {0, 1, 999, 1000, 1001, 1999, 2000, 3000, 32767}

NoDevs == {}
WithDev == {DevSpaceSkip}

\* xn_over_d (107) is division truncated toward zero wherever the products below fit TLC's integers
ASSUME \A x \in {-32767, -32766, -1001, -1, 0, 1, 999, 1000, 1001, 16384, 32766, 32767},
          p \in {<<1000, 1>>, <<1000, 999>>, <<999, 1000>>, <<1000, 1000>>, <<1250, 1000>>, <<1000, 1250>>,
                 <<3000, 1000>>, <<1000, 3000>>, <<32767, 1000>>, <<1000, 32767>>, <<1, 32767>>} :
          LET r == XnOverD(x, p[1], p[2]) IN
          ~r.err /\ IsScaled(r.val, x, p[1], p[2])
ASSUME \A x \in {-2000000, -1000001, 65536, 1000000, 2000000},
          p \in {<<1000, 999>>, <<999, 1000>>, <<1000, 1000>>, <<1, 1000>>, <<1000, 1001>>} :
          LET r == XnOverD(x, p[1], p[2]) IN
          ~r.err /\ IsScaled(r.val, x, p[1], p[2])
\* ... and reports arith_error exactly when the quotient does not fit 30 bits
ASSUME /\ XnOverD(1073741823, 1000, 1000) = [val |-> 1073741823, err |-> FALSE]
       /\ XnOverD(1073741823, 1001, 1000).err
       /\ XnOverD(-1073741823, 65536, 65536) = [val |-> -1073741823, err |-> FALSE]
       /\ XnOverD(536870912, 2000, 1000).err
       /\ ~XnOverD(536870911, 2000, 1000).err
=============================================================================
