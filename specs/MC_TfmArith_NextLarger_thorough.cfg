SPECIFICATION Spec
CONSTANTS
  Bug = ""
  N = 6
INVARIANTS WalkIsDefinition ScanRefines ChainsFinite FollowsLinks CutOnlyAtLargest ChainIsWalk
CHECK_DEADLOCK FALSE
