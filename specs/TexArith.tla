------------------------------ MODULE TexArith ------------------------------
(* C06 -- integers, dimensions and glue: scanning, printing and arithmetic   *)
(* exactly as TeX does them.                                                 *)
(*                                                                           *)
(* This module is a library of OPERATORS, each a literal transcription of a  *)
(* section of tex.web (section numbers are those of TeX: The Program):       *)
(*   RoundDecimals 102, PrintScaled 103, MultAndAdd 105, XOverN 106,         *)
(*   XnOverD 107, PrintInt 65, PrintSpec 177-178, ScanKw 407, Signs 441,     *)
(*   ScanInt 440-445, ScanDimen 448-460, ScanGlue 461-462,                   *)
(*   \advance \multiply \divide 1236-1240, \the 465.                         *)
(* Knuth wrote these algorithms for 32-bit integers without overflow; TLC's  *)
(* integers are 32-bit with overflow = error, so the transcription is        *)
(* literal.  Where Pascal itself would overflow (negate(-2^31), an           *)
(* intermediate of xn_over_d beyond 2^31-1) TeX's behaviour is UNDEFINED:    *)
(* every result record carries a flag `u` which is TRUE in exactly those     *)
(* cases; the binding skips-and-counts such instances (a crash of the code   *)
(* under test is still rejected).                                            *)
(*                                                                           *)
(* Text is a sequence of character codes.  A scanned token list is a         *)
(* sequence of integers:  c >= 0 and c < 1000 a character token with that    *)
(* code (plain TeX category codes), 1000+c the single-character control      *)
(* sequence \c (only meaningful after `), -(100*k+i) the register            *)
(* \count i (k=1), \dimen i (k=2), \skip i (k=3); a position past the end    *)
(* of the list reads as \relax.                                              *)
(*                                                                           *)
(* Known deviations of texcraft from TeX are NAMED alternatives selected by  *)
(* the parameter `dev` (a set of names); dev = {} is TeX.                    *)
EXTENDS Integers, Sequences

CONSTANT Bug      \* "" = the specification; otherwise a seeded mutant (negative controls)

Unity    == 65536
Two      == 131072
MaxDimen == 1073741823          \* 2^30-1   (421)
Infinity == 2147483647          \* 2^31-1   (445)
MinInt   == -Infinity - 1       \* not a legal Pascal operand of negate / abs

Abs(x)     == IF x < 0 THEN -x ELSE x                       \* x # MinInt
PDiv(a, b) == IF a >= 0 THEN a \div b ELSE -((-a) \div b)   \* Pascal div (b > 0, a # MinInt)

DevNames == {"MultiplyAcceptsMinInt", "ClampSignFromUnit", "GlueAdvanceMaxOrder",
             "InternalDimenUnchecked", "FilCarryUnchecked", "BlankEndsFil"}

-----------------------------------------------------------------------------
(* 102 round_decimals: digits .d1 d2 ... dk (k <= 17)  ->  scaled fraction *)
RECURSIVE RDAcc(_, _)
RDAcc(dig, i) == IF i > Len(dig) THEN 0 ELSE (RDAcc(dig, i + 1) + dig[i] * Two) \div 10
RoundDecimals(dig) == IF Bug = "RoundHalf" THEN RDAcc(dig, 1) \div 2
                      ELSE (RDAcc(dig, 1) + 1) \div 2

(* 103 print_scaled, the fraction loop: s = 10*(s mod unity)+5, delta = 10 *)
RECURSIVE FracLoop(_, _)
FracLoop(s, delta) ==
  LET s1     == IF delta > Unity /\ Bug # "NoRound" THEN s + 32768 - 50000 ELSE s
      d      == s1 \div Unity
      s2     == 10 * (s1 % Unity)
      delta2 == delta * 10
  IN IF (IF Bug = "StopEarly" THEN s2 <= 2 * delta2 ELSE s2 <= delta2)
     THEN <<d>> ELSE <<d>> \o FracLoop(s2, delta2)
FracDigits(f) == FracLoop(10 * f + 5, 10)            \* 0 <= f < 2^16; digits 0..9

RECURSIVE NatText(_)
NatText(n) == IF n < 10 THEN <<48 + n>> ELSE NatText(n \div 10) \o <<48 + (n % 10)>>

(* 65 print_int *)
PrintInt(n) == IF n = MinInt THEN <<45, 50, 49, 52, 55, 52, 56, 51, 54, 52, 56>>
               ELSE IF n < 0 THEN <<45>> \o NatText(-n) ELSE NatText(n)

(* 103 print_scaled; undefined for -2^31 (negate) *)
PrintScaled(s) ==
  LET a  == Abs(s)
      fd == FracDigits(a % Unity)
  IN (IF s < 0 THEN <<45>> ELSE <<>>) \o NatText(a \div Unity) \o <<46>>
     \o [i \in 1..Len(fd) |-> 48 + fd[i]]

TxtPt    == <<112, 116>>
TxtPlus  == <<32, 112, 108, 117, 115, 32>>
TxtMinus == <<32, 109, 105, 110, 117, 115, 32>>
OrderTxt(o) == IF o = 0 THEN TxtPt
               ELSE <<102, 105, 108>> \o [i \in 1..(o - 1) |-> 108]     \* fil, fill, filll

(* 178 print_spec(p, "pt") with 177 print_glue; a glue value is [w, st, sto, sh, sho] *)
PrintGlue(g) ==
  PrintScaled(g.w) \o TxtPt
  \o (IF g.st # 0 THEN TxtPlus \o PrintScaled(g.st) \o OrderTxt(g.sto) ELSE <<>>)
  \o (IF g.sh # 0 THEN TxtMinus \o PrintScaled(g.sh) \o OrderTxt(g.sho) ELSE <<>>)
GluePrintable(g) == g.w # MinInt /\ g.st # MinInt /\ g.sh # MinInt

ZeroGlue == [w |-> 0, st |-> 0, sto |-> 0, sh |-> 0, sho |-> 0]

-----------------------------------------------------------------------------
(* arithmetic results: [v, err (arith_error), u (undefined in TeX), rem]    *)
AVal(v)       == [v |-> v, err |-> FALSE, u |-> FALSE, rem |-> 0]
AValR(v, r)   == [v |-> v, err |-> FALSE, u |-> FALSE, rem |-> r]
AErr          == [v |-> 0, err |-> TRUE, u |-> FALSE, rem |-> 0]
AUndef        == [v |-> 0, err |-> FALSE, u |-> TRUE, rem |-> 0]

(* 105 mult_and_add(n, x, y, max_answer) *)
MultAndAdd(n, x, y, max) ==
  IF n < 0 /\ (n = MinInt \/ x = MinInt) THEN AUndef           \* negate(x); negate(n)
  ELSE LET x1 == IF n < 0 THEN -x ELSE x
           n1 == IF n < 0 THEN -n ELSE n
       IN IF n1 = 0 THEN AVal(y)
          ELSE IF x1 = MinInt THEN AUndef                        \* "-x" in the test
          ELSE IF y = MinInt \/ Abs(y) > max THEN AUndef         \* max-y / max+y overflow
          ELSE IF Bug = "MulStrict"
               THEN (IF x1 < PDiv(max - y, n1) /\ -x1 < PDiv(max + y, n1)
                     THEN AVal(n1 * x1 + y) ELSE AErr)
          ELSE IF x1 <= PDiv(max - y, n1) /\ -x1 <= PDiv(max + y, n1)
               THEN AVal(n1 * x1 + y) ELSE AErr

(* 106 x_over_n(x, n): quotient truncated toward zero, remainder has the sign of x *)
XOverN(x, n) ==
  IF n = 0 THEN [v |-> 0, err |-> TRUE, u |-> FALSE, rem |-> x]
  ELSE IF n < 0 /\ (n = MinInt \/ x = MinInt) THEN AUndef
  ELSE LET x1  == IF n < 0 THEN -x ELSE x
           n1  == IF n < 0 THEN -n ELSE n
           sg  == IF n < 0 THEN -1 ELSE 1                        \* negate(remainder) at the end
       IN IF x1 >= 0 THEN AValR(x1 \div n1, sg * (x1 % n1))
          ELSE IF x1 = MinInt THEN AUndef
          ELSE IF Bug = "DivFloor" THEN AValR(x1 \div n1, sg * (x1 % n1))
          ELSE AValR(-((-x1) \div n1), sg * (-((-x1) % n1)))

(* 107 xn_over_d(x, n, d), 0 <= n <= 2^16, 0 < d <= 2^16 *)
XnOverD(x, n, d) ==
  IF x = MinInt THEN AUndef
  ELSE LET pos == x >= 0
           ax  == Abs(x)
           t   == (ax % 32768) * n
           hi  == ax \div 32768
       IN IF n > 0 /\ hi > (Infinity - (t \div 32768)) \div n THEN AUndef   \* u overflows
          ELSE LET u  == hi * n + (t \div 32768)
                   v  == (u % d) * 32768 + (t % 32768)
                   r  == v % d
               IN IF u \div d >= 32768
                  THEN [v |-> 0, err |-> TRUE, u |-> FALSE, rem |-> IF pos THEN r ELSE -r]
                  ELSE LET q == 32768 * (u \div d) + (v \div d)
                       IN AValR(IF pos THEN q ELSE -q, IF pos THEN r ELSE -r)

(* the property's reading of \advance: 32-bit wrap-around *)
WrapAdd(a, b) ==
  IF a > 0 /\ b > 0 /\ a > Infinity - b THEN (a + MinInt) + (b + MinInt)
  ELSE IF a < 0 /\ b < 0 /\ a < MinInt - b THEN (a - MinInt) + (b - MinInt)
  ELSE a + b

-----------------------------------------------------------------------------
(* tokens *)
Relax      == -1
Tk(t, p)   == IF p <= Len(t) THEN t[p] ELSE Relax
IsReg(c)   == c <= -100
RegKind(c) == (-c) \div 100
RegIdx(c)  == (-c) % 100
IsDigit(c) == c >= 48 /\ c <= 57

\* value of an internal quantity coerced downwards (413, 429): glue -> width -> integer
Internal(R, c) == IF RegKind(c) = 1 THEN R.c[RegIdx(c)]
                  ELSE IF RegKind(c) = 2 THEN R.d[RegIdx(c)]
                  ELSE R.g[RegIdx(c)].w

RECURSIVE SkipSpaces(_, _)
SkipSpaces(t, p) == IF Tk(t, p) = 32 THEN SkipSpaces(t, p + 1) ELSE p
OptSpace(t, p)   == IF Tk(t, p) = 32 THEN p + 1 ELSE p         \* 443 "Scan an optional space"
OptEquals(t, p)  == LET q == SkipSpaces(t, p) IN IF Tk(t, q) = 61 THEN q + 1 ELSE q   \* 405

(* 407 scan_keyword: leading blanks are skipped (and stay consumed on failure); a letter of *)
(* the keyword matches in either case                                                      *)
KwAt(t, p, kw) == \A i \in 1..Len(kw) : LET c == Tk(t, p + i - 1) IN c = kw[i] \/ c = kw[i] - 32
ScanKw(t, p, kw) == LET q == SkipSpaces(t, p)
                    IN IF KwAt(t, q, kw) THEN [ok |-> TRUE, p |-> q + Len(kw)]
                       ELSE [ok |-> FALSE, p |-> q]

(* 441 Get the next non-blank non-sign token; set negative appropriately *)
RECURSIVE Signs(_, _, _)
Signs(t, p, neg) == LET c == Tk(t, p)
                    IN IF c = 32 \/ c = 43 THEN Signs(t, p + 1, neg)
                       ELSE IF c = 45 THEN Signs(t, p + 1, ~neg)
                       ELSE [p |-> p, neg |-> neg]

-----------------------------------------------------------------------------
(* scan results: [v, o (glue order), p (next position), q (position of the token that     *)
(* ended a numeric constant, before the optional space), e (errors reported), u, radix]   *)
SRes(v, p, e)  == [v |-> v, o |-> 0, p |-> p, q |-> p, e |-> e, u |-> FALSE, radix |-> 0]
SUndef(p)      == [v |-> 0, o |-> 0, p |-> p, q |-> p, e |-> 0, u |-> TRUE, radix |-> 0]

DigitVal(c, radix) == IF IsDigit(c) /\ c < 48 + radix THEN c - 48
                      ELSE IF radix = 16 /\ c >= 65 /\ c <= 70 THEN c - 55
                      ELSE -1

(* 445 Accumulate the constant until cur_tok is not a suitable digit *)
RECURSIVE Accum(_, _, _, _, _, _, _)
Accum(t, p, radix, m, v, ok, vac) ==
  LET d == DigitVal(Tk(t, p), radix)
  IN IF d < 0 THEN [v |-> v, p |-> p, ok |-> ok, vac |-> vac]
     ELSE IF v >= m /\ (v > m \/ d > 7 \/ radix # 10)
          THEN Accum(t, p + 1, radix, m, Infinity, FALSE, FALSE)     \* "Number too big", once
          ELSE Accum(t, p + 1, radix, m, v * radix + d, ok, FALSE)

(* 444 Scan a numeric constant *)
NumConst(t, p) ==
  LET c     == Tk(t, p)
      radix == IF c = 39 THEN 8 ELSE IF c = 34 THEN 16 ELSE 10
      m     == IF radix = 8 THEN 268435456 ELSE IF radix = 16 THEN 134217728 ELSE 214748364
      a     == Accum(t, IF radix = 10 THEN p ELSE p + 1, radix, m, 0, TRUE, TRUE)
  IN IF a.vac THEN SUndef(p)                   \* "Missing number": outside the generated domain
     ELSE [v |-> a.v, o |-> 0, p |-> OptSpace(t, a.p), q |-> a.p,
           e |-> IF a.ok THEN 0 ELSE 1, u |-> FALSE, radix |-> radix]

(* 442 Scan an alphabetic character code *)
AlphaConst(t, p) ==
  LET c == Tk(t, p)
  IN IF c >= 1000 THEN SRes(c - 1000, OptSpace(t, p + 1), 0)
     ELSE IF c >= 0 THEN SRes(c, OptSpace(t, p + 1), 0)
     ELSE SUndef(p)

(* 440 scan_int *)
ScanInt(t, p0, R) ==
  LET s == Signs(t, p0, FALSE)
      c == Tk(t, s.p)
      r == IF c = 96 THEN AlphaConst(t, s.p + 1)
           ELSE IF IsReg(c) THEN SRes(Internal(R, c), s.p + 1, 0)
           ELSE NumConst(t, s.p)
  IN IF r.u THEN r
     ELSE IF s.neg THEN (IF r.v = MinInt THEN SUndef(r.p) ELSE [r EXCEPT !.v = -r.v])
     ELSE r

-----------------------------------------------------------------------------
(* 448 scan_dimen *)
KwFil == <<102, 105, 108>>
KwL   == <<108>>
KwEm  == <<101, 109>>
KwEx  == <<101, 120>>
KwTrue == <<116, 114, 117, 101>>
KwPt  == <<112, 116>>
KwSp  == <<115, 112>>
KwPlus  == <<112, 108, 117, 115>>
KwMinus == <<109, 105, 110, 117, 115>>
KwBy  == <<98, 121>>

\* 458 in TeX's order: in pc cm mm bp dd cc
Units == << [kw |-> <<105, 110>>, num |-> 7227,  den |-> 100],
            [kw |-> <<112, 99>>,  num |-> 12,    den |-> 1],
            [kw |-> <<99, 109>>,  num |-> 7227,  den |-> 254],
            [kw |-> <<109, 109>>, num |-> 7227,  den |-> 2540],
            [kw |-> <<98, 112>>,  num |-> 7227,  den |-> 7200],
            [kw |-> <<100, 100>>, num |-> 1238,  den |-> 1157],
            [kw |-> <<99, 99>>,   num |-> 14856, den |-> 1157] >>

(* attach_sign (448) / 460 Report that this dimension is out of range *)
AttachSign(cv, arith, neg, p, e, order) ==
  IF cv = MinInt THEN SUndef(p)
  ELSE LET big == arith \/ Abs(cv) >= 1073741824
           v1  == IF big THEN MaxDimen ELSE cv
       IN [v |-> IF neg THEN -v1 ELSE v1, o |-> order, p |-> p, q |-> p,
           e |-> e + (IF big THEN 1 ELSE 0), u |-> FALSE, radix |-> 0]

(* attach_fraction; done: Scan an optional space; attach_sign *)
AttachFraction(t, p, cv, f, arith, neg, e, order) ==
  LET over == arith \/ cv >= 16384
  IN AttachSign(IF over THEN 0 ELSE cv * Unity + f, over, neg, OptSpace(t, p), e, order)

(* 455 found: cur_val := nx_plus_y(save_cur_val, v, xn_over_d(v, f, 2^16)); goto attach_sign *)
Found(p, v, cv, f, neg, e, dev) ==
  LET y == XnOverD(v, f, Unity)
  IN IF y.u THEN SUndef(p)
     ELSE LET m == IF y.err THEN AErr ELSE MultAndAdd(cv, v, y.v, MaxDimen)
          IN IF m.u THEN SUndef(p)
             ELSE IF m.err /\ "ClampSignFromUnit" \in dev /\ v < 0
                  THEN \* DEVIATION: the clamped value takes the sign of the internal unit as well
                       AttachSign(0, TRUE, ~neg, p, e, 0)
             ELSE AttachSign(m.v, m.err, neg, p, e, 0)

\* 454: every further l is read with scan_keyword("l"), which passes over blanks.  Deviation (known finding
\* C06/blank-ends-fil, pinned by the repository's test advance_glue_3): dimen.rs reads the l's as bare letters, a
\* blank ends the unit and stays for the optional-space scan.
RECURSIVE CountL(_, _, _, _)
CountL(t, p, n, dev) ==
  IF "BlankEndsFil" \in dev
  THEN IF KwAt(t, p, KwL) THEN CountL(t, p + 1, n + 1, dev) ELSE [n |-> n, p |-> p]
  ELSE LET k == ScanKw(t, p, KwL)
       IN IF k.ok THEN CountL(t, k.p, n + 1, dev) ELSE [n |-> n, p |-> k.p]

RECURSIVE FindUnit(_, _, _)
FindUnit(t, p, i) == IF i > Len(Units) THEN [i |-> 0, p |-> p]
                     ELSE LET k == ScanKw(t, p, Units[i].kw)
                          IN IF k.ok THEN [i |-> i, p |-> k.p] ELSE FindUnit(t, k.p, i + 1)

(* 453 Scan units and set cur_val to x*(cur_val+f/2^16); cv >= 0 *)
DimenUnits(t, p, R, F, inf, dev, cv, f, neg, e) ==
  LET fil == IF inf THEN ScanKw(t, p, KwFil) ELSE [ok |-> FALSE, p |-> p]
  IN IF fil.ok
     THEN \* 454
          LET ls == CountL(t, fil.p, 0, dev)
              ee == e + (IF ls.n > 2 THEN ls.n - 2 ELSE 0)              \* "Illegal unit ... filll"
              oo == IF ls.n >= 2 THEN 3 ELSE 1 + ls.n
          IN IF "FilCarryUnchecked" \in dev /\ cv < 16384 /\ cv * Unity + f >= 1073741824
             THEN \* DEVIATION: 16383 + a fraction that rounds up to 2^16 gives 2^30, unchecked
                  [v |-> IF neg THEN -(cv * Unity + f) ELSE cv * Unity + f, o |-> oo,
                   p |-> OptSpace(t, ls.p), q |-> ls.p, e |-> ee, u |-> FALSE, radix |-> 0]
             ELSE AttachFraction(t, ls.p, cv, f, FALSE, neg, ee, oo)
     ELSE \* 455
          LET q == SkipSpaces(t, fil.p)
              c == Tk(t, q)
          IN IF IsReg(c) THEN Found(q + 1, Internal(R, c), cv, f, neg, e, dev)
             ELSE LET em == ScanKw(t, q, KwEm)
                      ex == ScanKw(t, q, KwEx)
                  IN IF em.ok THEN Found(OptSpace(t, em.p), F.em, cv, f, neg, e, dev)
                     ELSE IF ex.ok THEN Found(OptSpace(t, ex.p), F.ex, cv, f, neg, e, dev)
                     ELSE \* 457 `true' with \mag=1000 changes nothing
                          LET tr == ScanKw(t, q, KwTrue)
                              pt == ScanKw(t, tr.p, KwPt)
                              sp == ScanKw(t, tr.p, KwSp)
                              un == FindUnit(t, tr.p, 1)
                          IN IF pt.ok THEN AttachFraction(t, pt.p, cv, f, FALSE, neg, e, 0)
                             ELSE IF un.i > 0
                             THEN \* 458
                                  LET x  == XnOverD(cv, Units[un.i].num, Units[un.i].den)
                                      f1 == (Units[un.i].num * f + Unity * x.rem) \div Units[un.i].den
                                  IN IF x.u THEN SUndef(un.p)
                                     ELSE IF x.err THEN AttachFraction(t, un.p, 0, 0, TRUE, neg, e, 0)
                                     ELSE AttachFraction(t, un.p, x.v + (f1 \div Unity), f1 % Unity,
                                                         FALSE, neg, e, 0)
                             ELSE IF sp.ok
                             THEN AttachSign(cv, FALSE, neg, OptSpace(t, sp.p), e, 0)    \* goto done
                             ELSE \* 459 "Illegal unit of measure (pt inserted)": nothing is consumed but the
                                  \* blanks the keyword scans passed over; the value is taken in points
                                  AttachFraction(t, tr.p, cv, f, FALSE, neg, e + 1, 0)

(* 452 Scan decimal fraction; p is the position after the point *)
RECURSIVE FracDigs(_, _, _)
FracDigs(t, p, acc) ==
  IF IsDigit(Tk(t, p))
  THEN FracDigs(t, p + 1, IF Len(acc) < (IF Bug = "Keep3" THEN 3 ELSE 17)
                          THEN Append(acc, Tk(t, p) - 48) ELSE acc)
  ELSE [d |-> acc, p |-> p]
Fraction(t, p) == LET r == FracDigs(t, p, <<>>)
                  IN [f |-> RoundDecimals(r.d), p |-> OptSpace(t, r.p)]

IsPoint(c) == c = 46 \/ c = 44

ScanDimen(t, p0, R, F, inf, dev) ==
  LET s == Signs(t, p0, FALSE)
      c == Tk(t, s.p)
  IN IF IsReg(c)
     THEN IF RegKind(c) = 1
          THEN \* 449: an internal integer is the coefficient
               LET i == Internal(R, c)
               IN IF i = MinInt THEN SUndef(s.p)
                  ELSE DimenUnits(t, s.p + 1, R, F, inf, dev, Abs(i), 0,
                                  IF i < 0 THEN ~s.neg ELSE s.neg, 0)
          ELSE \* 449: an internal dimension, goto attach_sign (which range-checks it)
               IF "InternalDimenUnchecked" \in dev
               THEN \* DEVIATION: the value is copied without the range check
                    LET d == Internal(R, c)
                    IN IF s.neg /\ d = MinInt THEN SUndef(s.p + 1)
                       ELSE SRes(IF s.neg THEN -d ELSE d, s.p + 1, 0)
               ELSE AttachSign(Internal(R, c), FALSE, s.neg, s.p + 1, 0, 0)
     ELSE IF IsPoint(c)
     THEN LET fr == Fraction(t, s.p + 1)
          IN DimenUnits(t, fr.p, R, F, inf, dev, 0, fr.f, s.neg, 0)
     ELSE LET i == ScanInt(t, s.p, R)                  \* no signs are left; value >= 0
          IN IF i.u THEN i
             ELSE IF i.radix = 10 /\ IsPoint(Tk(t, i.q))
                  THEN LET fr == Fraction(t, i.q + 1)
                       IN DimenUnits(t, fr.p, R, F, inf, dev, i.v, fr.f, s.neg, i.e)
                  ELSE DimenUnits(t, i.p, R, F, inf, dev, i.v, 0, s.neg, i.e)

-----------------------------------------------------------------------------
(* 461 scan_glue(glue_val): result [g, p, e, u] *)
GRes(g, p, e) == [g |-> g, p |-> p, e |-> e, u |-> FALSE]
GUndef(p)     == [g |-> ZeroGlue, p |-> p, e |-> 0, u |-> TRUE]

(* 462 Create a new glue specification whose width is cur_val; scan for stretch and shrink *)
PlusMinus(t, p, R, F, dev, w, e) ==
  LET kp == ScanKw(t, p, KwPlus)
      st == IF kp.ok THEN ScanDimen(t, kp.p, R, F, TRUE, dev) ELSE SRes(0, kp.p, 0)
      km == ScanKw(t, st.p, KwMinus)
      sh == IF km.ok THEN ScanDimen(t, km.p, R, F, TRUE, dev) ELSE SRes(0, km.p, 0)
  IN IF st.u \/ sh.u THEN GUndef(p)
     ELSE GRes([w |-> w, st |-> st.v, sto |-> st.o, sh |-> sh.v, sho |-> sh.o], sh.p, e + st.e + sh.e)

ScanGlue(t, p0, R, F, dev) ==
  LET s == Signs(t, p0, FALSE)
      c == Tk(t, s.p)
  IN IF IsReg(c)
     THEN IF RegKind(c) = 3
          THEN \* an internal glue value, negated componentwise (431); nothing else is scanned
               LET g == R.g[RegIdx(c)]
               IN IF ~s.neg THEN GRes(g, s.p + 1, 0)
                  ELSE IF ~GluePrintable(g) THEN GUndef(s.p)
                  ELSE GRes([g EXCEPT !.w = -g.w, !.st = -g.st, !.sh = -g.sh], s.p + 1, 0)
          ELSE IF RegKind(c) = 2
          THEN \* an internal dimension is the width, unchecked
               LET d == Internal(R, c)
               IN IF s.neg /\ d = MinInt THEN GUndef(s.p)
                  ELSE PlusMinus(t, s.p + 1, R, F, dev, IF s.neg THEN -d ELSE d, 0)
          ELSE \* an internal integer: scan_dimen(mu, false, shortcut = true)
               LET i == Internal(R, c)
                   w == IF i = MinInt THEN SUndef(s.p)
                        ELSE DimenUnits(t, s.p + 1, R, F, FALSE, dev, Abs(i), 0,
                                        IF i < 0 THEN ~s.neg ELSE s.neg, 0)
               IN IF w.u THEN GUndef(s.p) ELSE PlusMinus(t, w.p, R, F, dev, w.v, w.e)
     ELSE LET d == ScanDimen(t, s.p, R, F, FALSE, dev)
          IN IF d.u THEN GUndef(s.p)
             ELSE PlusMinus(t, d.p, R, F, dev, IF s.neg THEN -d.v ELSE d.v, d.e)

-----------------------------------------------------------------------------
(* 1238-1240 register arithmetic *)

(* 1239 Compute the sum of two glue specs: q = the scanned glue, r = the register *)
GlueSum(q, r, dev) ==
  IF "GlueAdvanceMaxOrder" \in dev
  THEN \* DEVIATION: orders are compared without looking at zero amounts
       [w   |-> WrapAdd(q.w, r.w),
        st  |-> IF r.sto < q.sto THEN q.st ELSE IF r.sto = q.sto THEN WrapAdd(q.st, r.st) ELSE r.st,
        sto |-> IF r.sto < q.sto THEN q.sto ELSE r.sto,
        sh  |-> IF r.sho < q.sho THEN q.sh ELSE IF r.sho = q.sho THEN WrapAdd(q.sh, r.sh) ELSE r.sh,
        sho |-> IF r.sho < q.sho THEN q.sho ELSE r.sho]
  ELSE LET qsto == IF q.st = 0 THEN 0 ELSE q.sto
           qsho == IF q.sh = 0 THEN 0 ELSE q.sho
           useR(qo, ro, ramt) == qo < ro /\ ramt # 0
       IN [w   |-> WrapAdd(q.w, r.w),
           st  |-> IF qsto = r.sto THEN WrapAdd(q.st, r.st) ELSE IF useR(qsto, r.sto, r.st) THEN r.st ELSE q.st,
           sto |-> IF qsto = r.sto THEN qsto ELSE IF useR(qsto, r.sto, r.st) THEN r.sto ELSE qsto,
           sh  |-> IF qsho = r.sho THEN WrapAdd(q.sh, r.sh) ELSE IF useR(qsho, r.sho, r.sh) THEN r.sh ELSE q.sh,
           sho |-> IF qsho = r.sho THEN qsho ELSE IF useR(qsho, r.sho, r.sh) THEN r.sho ELSE qsho]

\* n * x = -2^31 exactly (without overflowing); used by a deviation only
ProductIsMinInt(n, x) ==
  /\ n # 0 /\ x # 0 /\ n # MinInt /\ x # MinInt /\ (n < 0) # (x < 0)
  /\ Abs(n) <= 1073741824 /\ 1073741824 % Abs(n) = 0
  /\ (1073741824 \div Abs(n)) <= MaxDimen /\ Abs(x) = 2 * (1073741824 \div Abs(n))

(* 1240 \multiply: mult_integers(reg, k) for integers, nx_plus_y(reg, k, 0) for dimensions *)
MulInt(reg, k, dev) ==
  LET m == MultAndAdd(reg, k, 0, Infinity)
  IN IF ~m.u /\ m.err /\ "MultiplyAcceptsMinInt" \in dev /\ ProductIsMinInt(reg, k)
     THEN AVal(MinInt)                 \* DEVIATION: -2^31 accepted as a product
     ELSE m
MulDim(reg, k) == MultAndAdd(reg, k, 0, MaxDimen)

AnyU(s)   == \E i \in 1..Len(s) : s[i].u
AnyErr(s) == \E i \in 1..Len(s) : s[i].err

-----------------------------------------------------------------------------
(* The abstract machine: registers \count0-9, \dimen0-9, \skip0-9, the characters delivered *)
(* by \the, the number of errors reported.  One step per primitive.                         *)
Idx == 0..9
Regs0 == [c |-> [i \in Idx |-> 0], d |-> [i \in Idx |-> 0], g |-> [i \in Idx |-> ZeroGlue]]
St0   == [R |-> Regs0, out |-> <<>>, e |-> 0, u |-> FALSE]
UndefSt(S) == [S EXCEPT !.u = TRUE]

\* Whatever the scanner leaves of the text is ordinary material: character tokens are delivered
\* (typeset) in order.  (Anything else after the value is outside the generated domain.)
Deliver(S, t, p) ==
  LET rest == IF p > Len(t) THEN <<>> ELSE SubSeq(t, p, Len(t))
  IN IF \A i \in 1..Len(rest) : rest[i] >= 0 /\ rest[i] < 1000
     THEN [S EXCEPT !.out = @ \o rest] ELSE UndefSt(S)

\* step = [op, t (1 count, 2 dimen, 3 skip), i, rhs]; rhs starts after the register number
StepSet(S, s, F, dev) ==
  LET p == OptEquals(s.rhs, 1)
  IN IF s.t = 1 THEN LET r == ScanInt(s.rhs, p, S.R)
                     IN IF r.u THEN UndefSt(S)
                        ELSE Deliver([S EXCEPT !.R.c[s.i] = r.v, !.e = @ + r.e], s.rhs, r.p)
     ELSE IF s.t = 2 THEN LET r == ScanDimen(s.rhs, p, S.R, F, FALSE, dev)
                          IN IF r.u THEN UndefSt(S)
                             ELSE Deliver([S EXCEPT !.R.d[s.i] = r.v, !.e = @ + r.e], s.rhs, r.p)
     ELSE LET r == ScanGlue(s.rhs, p, S.R, F, dev)
          IN IF r.u THEN UndefSt(S)
             ELSE Deliver([S EXCEPT !.R.g[s.i] = r.g, !.e = @ + r.e], s.rhs, r.p)

StepAdvance(S, s, F, dev) ==
  LET p == ScanKw(s.rhs, 1, KwBy).p
  IN IF s.t = 1 THEN LET r == ScanInt(s.rhs, p, S.R)
                     IN IF r.u THEN UndefSt(S)
                        ELSE Deliver([S EXCEPT !.R.c[s.i] = WrapAdd(r.v, @), !.e = @ + r.e], s.rhs, r.p)
     ELSE IF s.t = 2 THEN LET r == ScanDimen(s.rhs, p, S.R, F, FALSE, dev)
                          IN IF r.u THEN UndefSt(S)
                             ELSE Deliver([S EXCEPT !.R.d[s.i] = WrapAdd(r.v, @), !.e = @ + r.e], s.rhs, r.p)
     ELSE LET r == ScanGlue(s.rhs, p, S.R, F, dev)
          IN IF r.u THEN UndefSt(S)
             ELSE Deliver([S EXCEPT !.R.g[s.i] = GlueSum(r.g, @, dev), !.e = @ + r.e], s.rhs, r.p)

\* \multiply and \divide: scan_int, compute, "Arithmetic overflow" => one error, no change
StepMulDiv(S, s, dev) ==
  LET p == ScanKw(s.rhs, 1, KwBy).p
      k == ScanInt(s.rhs, p, S.R)
      mul == s.op = "mul"
  IN IF k.u THEN UndefSt(S)
     ELSE IF s.t = 1
     THEN LET a == IF mul THEN MulInt(S.R.c[s.i], k.v, dev) ELSE XOverN(S.R.c[s.i], k.v)
          IN IF a.u THEN UndefSt(S)
             ELSE IF a.err THEN Deliver([S EXCEPT !.e = @ + k.e + 1], s.rhs, k.p)
             ELSE Deliver([S EXCEPT !.R.c[s.i] = a.v, !.e = @ + k.e], s.rhs, k.p)
     ELSE IF s.t = 2
     THEN LET a == IF mul THEN MulDim(S.R.d[s.i], k.v) ELSE XOverN(S.R.d[s.i], k.v)
          IN IF a.u THEN UndefSt(S)
             ELSE IF a.err THEN Deliver([S EXCEPT !.e = @ + k.e + 1], s.rhs, k.p)
             ELSE Deliver([S EXCEPT !.R.d[s.i] = a.v, !.e = @ + k.e], s.rhs, k.p)
     ELSE LET g == S.R.g[s.i]
              a == IF mul THEN <<MulDim(g.w, k.v), MulDim(g.st, k.v), MulDim(g.sh, k.v)>>
                   ELSE <<XOverN(g.w, k.v), XOverN(g.st, k.v), XOverN(g.sh, k.v)>>
          IN IF AnyU(a) THEN UndefSt(S)
             ELSE IF AnyErr(a) THEN Deliver([S EXCEPT !.e = @ + k.e + 1], s.rhs, k.p)
             ELSE Deliver([S EXCEPT !.R.g[s.i] = [g EXCEPT !.w = a[1].v, !.st = a[2].v, !.sh = a[3].v],
                                    !.e = @ + k.e], s.rhs, k.p)

\* \the<register> followed by the character ; (code 59) so that outputs are delimited
StepThe(S, s) ==
  IF s.t = 1 THEN [S EXCEPT !.out = @ \o PrintInt(S.R.c[s.i]) \o <<59>>]
  ELSE IF s.t = 2 THEN IF S.R.d[s.i] = MinInt THEN UndefSt(S)
                       ELSE [S EXCEPT !.out = @ \o PrintScaled(S.R.d[s.i]) \o TxtPt \o <<59>>]
  ELSE IF ~GluePrintable(S.R.g[s.i]) THEN UndefSt(S)
       ELSE [S EXCEPT !.out = @ \o PrintGlue(S.R.g[s.i]) \o <<59>>]

Step(S, s, F, dev) ==
  IF s.op = "set" THEN StepSet(S, s, F, dev)
  ELSE IF s.op = "adv" THEN StepAdvance(S, s, F, dev)
  ELSE IF s.op = "mul" \/ s.op = "div" THEN StepMulDiv(S, s, dev)
  ELSE StepThe(S, s)

RECURSIVE RunFrom(_, _, _, _, _)
RunFrom(S, steps, k, F, dev) ==
  IF k > Len(steps) \/ S.u THEN S ELSE RunFrom(Step(S, steps[k], F, dev), steps, k + 1, F, dev)
Run(steps, F, dev) == RunFrom(St0, steps, 1, F, dev)
=============================================================================
