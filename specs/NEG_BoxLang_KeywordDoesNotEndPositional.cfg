SPECIFICATION SpecCalls
CONSTANTS
  Bug = "KeywordDoesNotEndPositional"
  N0 = 0
  N1 = 0
  N2 = 0
  L1 = 0
  L2 = 0
  MaxArgs = 2
  Fns = {"chars"}
  Rich = FALSE
  TextLen = 0
  Chars = {}
  IntParts = {}
  Sample = 1
  HiStep = 1
INVARIANTS InvPositionalFirst
CHECK_DEADLOCK FALSE
