SPECIFICATION SpecText
CONSTANTS
  Bug = "DimPrintedWithoutUnit"
  N0 = 0
  N1 = 0
  N2 = 0
  L1 = 0
  L2 = 0
  MaxArgs = 0
  Fns = {}
  Rich = FALSE
  TextLen = 3
  Chars = {49, 112, 116, 46}
  IntParts = {}
  Sample = 1
  HiStep = 1
INVARIANTS InvRelex
CHECK_DEADLOCK FALSE
