SPECIFICATION TSpec
CONSTANTS
  Keys <- TKeys
  MapKeys <- TKeys
  Vals <- TVals
  MaxDepth = 99
  Bug = ""
INVARIANTS Refines UnwindAgree SaveShape
POSTCONDITION TraceAccepted
CHECK_DEADLOCK FALSE
