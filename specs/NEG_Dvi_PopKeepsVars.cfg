SPECIFICATION Spec
CONSTANTS
  Chars <- MCChars
  Fonts <- MCFonts
  Operands <- Ops3
  VarSet = {0, 1, 2, 3}
  MaxDepth = 2
  MaxSteps = 5
  Bug = "PopKeepsVars"
INVARIANTS Preserved StackPreserved OthersVerbatim OutNoVars
VIEW View
CHECK_DEADLOCK FALSE
