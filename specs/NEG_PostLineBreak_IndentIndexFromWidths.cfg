SPECIFICATION Spec
CONSTANTS
  NodeKinds <- KindsAll
  MaxLen = 1
  Configs <- ConfigsQuick
  TexDevs <- NoDevs
  Bug = "IndentIndexFromWidths"
INVARIANTS Geometry
CHECK_DEADLOCK FALSE
