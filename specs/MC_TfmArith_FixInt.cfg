SPECIFICATION Spec
CONSTANTS
  Bug = ""
  Blocks = 2
  Run = 1
  IntParts <- IntPartsAll
INVARIANTS RoundTrip MinFixRejected Shape
CHECK_DEADLOCK FALSE
