SPECIFICATION Spec
CONSTANTS
  Threshold = 1
  MaxRedirect = 65535
  MaxHeader = 255
  Deviations = {}
  Bug = "KernIndexBeforeDedupe"
  Mode = "lk"
  NC = 2
  MaxBody = 3
  MaxPrefix = 0
  SkipBytes = {0, 128}
  Variants = {2}
  DimVals = {0, 3}
  MaxW = 2
  MaxE = 2
  MaxH = 1
  DomT = 1
  PadK = 0
  Waive = {}
INVARIANTS SameChains SameFont
CHECK_DEADLOCK FALSE
