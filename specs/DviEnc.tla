------------------------------- MODULE DviEnc -------------------------------
(* The byte encoding of DVI operations (TeX.2021.585-591, dvitype.web 15-16  *)
(* and 75-77 `first_par`): for each op of dvi::Op the opcode, the width of    *)
(* the operand form and the operand bytes; and the decoder, including the     *)
(* two documented errors of dvi::InvalidDviData.                              *)
(*                                                                            *)
(* Value representation (TLC integers are 32-bit signed, overflow is an       *)
(* error, so 2^32 is never formed):                                           *)
(*   signed 32-bit operands  -- plain integers in -2^31 .. 2^31-1;            *)
(*   unsigned 32-bit operands -- pairs <<hi, lo>> of 16-bit halves;           *)
(*   strings and `xxx` payloads -- sequences of bytes.                        *)
(* Ops are records [k |-> kind, ...] shared with module Dvi:                  *)
(*   char(c:U, mv) rule(ht, wd, mv) nop bop(p:10 x i32, prev) eop push pop    *)
(*   right(d) down(d) move(var) setvar(var, d) font(n:U) xxx(data)            *)
(*   fontdef(n, ck, at, ds : U, area, name) pre(fmt, num, den, mag : U,       *)
(*   comment) post(last, num, den, mag, ht, wd : U, depth, pages : u16)       *)
(*   postpost(post, fmt, n223)                                                *)
EXTENDS Integers, Sequences

CONSTANTS Bug   \* "" or the name of a seeded design error (negative controls)

Last(s, k) == SubSeq(s, Len(s) - k + 1, Len(s))

-----------------------------------------------------------------------------
(* numbers -> bytes (big endian, two's complement by floor division) *)
BytesU(u)   == <<u[1] \div 256, u[1] % 256, u[2] \div 256, u[2] % 256>>
BytesI(i)   == <<(i \div 16777216) % 256, (i \div 65536) % 256, (i \div 256) % 256, i % 256>>
BytesU16(x) == <<x \div 256, x % 256>>

\* least number of bytes that hold the value
WidthU(u) == IF u[1] >= 256 THEN 4 ELSE IF u[1] > 0 THEN 3 ELSE IF u[2] >= 256 THEN 2 ELSE 1
WidthI(i) == IF -128 <= i /\ i < 128 THEN 1
             ELSE IF -32768 <= i /\ i < 32768 THEN 2
             ELSE IF -8388608 <= i /\ (IF Bug = "I24Boundary" THEN i <= 8388608 ELSE i < 8388608) THEN 3
             ELSE 4

\* k-byte operand form of a command family whose 1-byte form has opcode `base`
VarU(base, u, k) == <<base + k - 1>> \o Last(BytesU(u), k)
VarI(base, i, k) == <<base + k - 1>> \o Last(BytesI(i), k)

SmallU(u, bound) == u[1] = 0 /\ u[2] < bound     \* value below `bound` (<= 65536)
VarBase(var) == CASE var = 0 -> 148 [] var = 1 -> 153 [] var = 2 -> 162 [] var = 3 -> 167
Str(s) == <<Len(s)>> \o s

RECURSIVE Flat(_)
Flat(ss) == IF ss = <<>> THEN <<>> ELSE Head(ss) \o Flat(Tail(ss))

\* The operand widths in which `o` can be written at all; 0 stands for the operand-free forms
\* set_char_i (i < 128) and fnt_num_i (i < 64).  Ops without a choice have the single width 0.
Widths(o) ==
  CASE o.k = "char"    -> {k \in 1..4 : k >= WidthU(o.c)} \cup (IF o.mv /\ SmallU(o.c, 128) THEN {0} ELSE {})
    [] o.k = "font"    -> {k \in 1..4 : k >= WidthU(o.n)}
                          \cup (IF SmallU(o.n, IF Bug = "FntNum64" THEN 65 ELSE 64) THEN {0} ELSE {})
    [] o.k \in {"right", "down", "setvar"} -> {k \in 1..4 : k >= WidthI(o.d)}
    [] o.k = "xxx"     -> {k \in 1..4 : k >= WidthU(<<Len(o.data) \div 65536, Len(o.data) % 65536>>)}
    [] o.k = "fontdef" -> {k \in 1..4 : k >= WidthU(o.n)}
    [] OTHER           -> {0}

\* The width dvi::serialize chooses: the operand-free form when there is one, else the least
\* width (pinned by the repository's serde tests op_code_128 .. op_code_160, op_code_171 .. 238).
MinWidth(o) == CHOOSE k \in Widths(o) : \A j \in Widths(o) : k <= j

EncW(o, k) ==
  CASE o.k = "char"     -> IF k = 0 THEN <<o.c[2]>> ELSE VarU(IF o.mv THEN 128 ELSE 133, o.c, k)
    [] o.k = "rule"     -> <<IF o.mv THEN 132 ELSE 137>> \o BytesI(o.ht) \o BytesI(o.wd)
    [] o.k = "nop"      -> <<138>>
    [] o.k = "bop"      -> <<139>> \o Flat([i \in 1..10 |-> BytesI(o.p[i])]) \o BytesI(o.prev)
    [] o.k = "eop"      -> <<140>>
    [] o.k = "push"     -> <<141>>
    [] o.k = "pop"      -> <<142>>
    [] o.k = "right"    -> VarI(143, o.d, k)
    [] o.k = "move"     -> <<VarBase(o.var) - 1>>
    [] o.k = "setvar"   -> VarI(VarBase(o.var), o.d, k)
    [] o.k = "down"     -> VarI(157, o.d, k)
    [] o.k = "font"     -> IF k = 0 THEN <<171 + o.n[2]>> ELSE VarU(235, o.n, k)
    [] o.k = "xxx"      -> VarU(239, <<Len(o.data) \div 65536, Len(o.data) % 65536>>, k) \o o.data
    [] o.k = "fontdef"  -> VarU(243, o.n, k) \o BytesU(o.ck) \o BytesU(o.at) \o BytesU(o.ds)
                           \o <<Len(o.area), Len(o.name)>> \o o.area \o o.name
    [] o.k = "pre"      -> <<247, o.fmt>> \o BytesU(o.num) \o BytesU(o.den) \o BytesU(o.mag) \o Str(o.comment)
    [] o.k = "post"     -> <<248>> \o BytesI(o.last) \o BytesU(o.num) \o BytesU(o.den) \o BytesU(o.mag)
                           \o BytesU(o.ht) \o BytesU(o.wd) \o BytesU16(o.depth) \o BytesU16(o.pages)
    [] o.k = "postpost" -> <<249, o.fmt>> \o BytesI(o.post) \o [i \in 1..o.n223 |-> 223]

Enc(o) == EncW(o, MinWidth(o))
EncSeq(ops) == Flat([i \in 1..Len(ops) |-> Enc(ops[i])])

-----------------------------------------------------------------------------
(* bytes -> numbers *)
\* unsigned k-byte number at b[i..i+k-1] as <<hi, lo>>
ReadU(b, i, k) ==
  LET z == [j \in 1..(4 - k) |-> 0] \o SubSeq(b, i, i + k - 1) IN <<z[1] * 256 + z[2], z[3] * 256 + z[4]>>
\* signed k-byte number: the first byte carries the sign (never forms 2^31)
Signed8(x) == IF x >= 128 /\ Bug # "NoSignExtend" THEN x - 256 ELSE x
ReadI(b, i, k) ==
  CASE k = 1 -> Signed8(b[i])
    [] k = 2 -> Signed8(b[i]) * 256 + b[i + 1]
    [] k = 3 -> Signed8(b[i]) * 65536 + b[i + 1] * 256 + b[i + 2]
    [] k = 4 -> (IF b[i] >= 128 THEN b[i] - 256 ELSE b[i]) * 16777216 + b[i + 1] * 65536 + b[i + 2] * 256 + b[i + 3]
ReadU16(b, i) == b[i] * 256 + b[i + 1]

Ok(o, next) == [ok |-> TRUE, op |-> o, next |-> next]
Truncated(c) == [ok |-> FALSE, err |-> <<"truncated", c>>]
Invalid(c)   == [ok |-> FALSE, err |-> <<"invalid", c>>]

\* number of bytes 223 starting at position i
RECURSIVE Run223(_, _)
Run223(b, i) == IF i <= Len(b) /\ b[i] = 223 THEN 1 + Run223(b, i + 1) ELSE 0

\* does a payload of length <<hi, lo>> starting at position i fit?
Fits(b, i, len) == len[1] < 32768 /\ len[1] * 65536 + len[2] <= Len(b) - i + 1

(* One command starting at b[i] (i <= Len(b)); c is its opcode, p the position after it. *)
DecodeAt(b, i) ==
  LET c == b[i]
      p == i + 1
      Has(k) == p + k - 1 <= Len(b)
      VarIOp(base, mk(_)) ==          \* right1-4, down1-4, w1-4 ...
        LET k == c - base + 1 IN IF Has(k) THEN Ok(mk(ReadI(b, p, k)), p + k) ELSE Truncated(c)
      VarUOp(base, mk(_)) ==          \* set1-4, put1-4, fnt1-4
        LET k == c - base + 1 IN IF Has(k) THEN Ok(mk(ReadU(b, p, k)), p + k) ELSE Truncated(c)
      Rule(mv) == IF Has(8) THEN Ok([k |-> "rule", ht |-> ReadI(b, p, 4), wd |-> ReadI(b, p + 4, 4), mv |-> mv], p + 8)
                  ELSE Truncated(c)
      Char(mv, u) == [k |-> "char", c |-> u, mv |-> mv]
      SetV(var, d) == [k |-> "setvar", var |-> var, d |-> d]
  IN
  CASE c < 128 -> Ok(Char(TRUE, <<0, c>>), p)
    [] c \in 128..131 -> VarUOp(128, LAMBDA u : Char(TRUE, u))
    [] c = 132 -> Rule(TRUE)
    [] c \in 133..136 -> VarUOp(133, LAMBDA u : Char(FALSE, u))
    [] c = 137 -> Rule(FALSE)
    [] c = 138 -> Ok([k |-> "nop"], p)
    [] c = 139 -> IF Has(44)
                  THEN Ok([k |-> "bop", p |-> [j \in 1..10 |-> ReadI(b, p + 4 * (j - 1), 4)],
                           prev |-> ReadI(b, p + 40, 4)], p + 44)
                  ELSE Truncated(c)
    [] c = 140 -> Ok([k |-> "eop"], p)
    [] c = 141 -> Ok([k |-> "push"], p)
    [] c = 142 -> Ok([k |-> "pop"], p)
    [] c \in 143..146 -> VarIOp(143, LAMBDA d : [k |-> "right", d |-> d])
    [] c = 147 -> Ok([k |-> "move", var |-> 0], p)
    [] c \in 148..151 -> VarIOp(148, LAMBDA d : SetV(0, d))
    [] c = 152 -> Ok([k |-> "move", var |-> 1], p)
    [] c \in 153..156 -> VarIOp(153, LAMBDA d : SetV(1, d))
    [] c \in 157..160 -> VarIOp(157, LAMBDA d : [k |-> "down", d |-> d])
    [] c = 161 -> Ok([k |-> "move", var |-> 2], p)
    [] c \in 162..165 -> VarIOp(162, LAMBDA d : SetV(2, d))
    [] c = 166 -> Ok([k |-> "move", var |-> 3], p)
    [] c \in 167..170 -> VarIOp(167, LAMBDA d : SetV(3, d))
    [] c \in 171..234 -> Ok([k |-> "font", n |-> <<0, c - 171>>], p)
    [] c \in 235..238 -> VarUOp(235, LAMBDA u : [k |-> "font", n |-> u])
    [] c \in 239..242 ->
         LET k == c - 238 IN
         IF ~Has(k) THEN Truncated(c)
         ELSE LET len == ReadU(b, p, k) IN
              IF ~Fits(b, p + k, len) THEN Truncated(c)
              ELSE LET m == len[1] * 65536 + len[2] IN
                   Ok([k |-> "xxx", data |-> SubSeq(b, p + k, p + k + m - 1)], p + k + m)
    [] c \in 243..246 ->
         LET k == c - 242 IN
         IF ~Has(k + 14) THEN Truncated(c)
         ELSE LET q == p + k
                  al == b[q + 12]
                  nl == b[q + 13] IN
              IF q + 14 + al + nl - 1 > Len(b) THEN Truncated(c)
              ELSE Ok([k |-> "fontdef", n |-> ReadU(b, p, k), ck |-> ReadU(b, q, 4), at |-> ReadU(b, q + 4, 4),
                       ds |-> ReadU(b, q + 8, 4), area |-> SubSeq(b, q + 14, q + 13 + al),
                       name |-> SubSeq(b, q + 14 + al, q + 13 + al + nl)], q + 14 + al + nl)
    [] c = 247 ->
         IF ~Has(14) THEN Truncated(c)
         ELSE LET cl == b[p + 13] IN
              IF p + 14 + cl - 1 > Len(b) THEN Truncated(c)
              ELSE Ok([k |-> "pre", fmt |-> b[p], num |-> ReadU(b, p + 1, 4), den |-> ReadU(b, p + 5, 4),
                       mag |-> ReadU(b, p + 9, 4), comment |-> SubSeq(b, p + 14, p + 13 + cl)], p + 14 + cl)
    [] c = 248 ->
         IF ~Has(28) THEN Truncated(c)
         ELSE Ok([k |-> "post", last |-> ReadI(b, p, 4), num |-> ReadU(b, p + 4, 4), den |-> ReadU(b, p + 8, 4),
                  mag |-> ReadU(b, p + 12, 4), ht |-> ReadU(b, p + 16, 4), wd |-> ReadU(b, p + 20, 4),
                  depth |-> ReadU16(b, p + 24), pages |-> ReadU16(b, p + 26)], p + 28)
    [] c = 249 ->
         IF ~Has(5) THEN Truncated(c)
         ELSE LET r == IF Bug = "No223Run" THEN 0 ELSE Run223(b, p + 5) IN
              Ok([k |-> "postpost", post |-> ReadI(b, p + 1, 4), fmt |-> b[p], n223 |-> r], p + 5 + r)
    [] OTHER -> Invalid(c)          \* 250 .. 255 are undefined

\* Decode a whole byte string: the ops before the first error, the error (or <<"ok">>), and the
\* number of bytes left unconsumed when decoding stopped (0 unless there is an error).
RECURSIVE DecFrom(_, _, _)
DecFrom(b, i, acc) ==
  IF i > Len(b) THEN [ops |-> acc, err |-> <<"ok">>, rest |-> 0]
  ELSE LET r == DecodeAt(b, i) IN
       IF r.ok THEN DecFrom(b, r.next, Append(acc, r.op))
       ELSE [ops |-> acc, err |-> r.err, rest |-> Len(b) - i + 1]
Dec(b) == DecFrom(b, 1, <<>>)

-----------------------------------------------------------------------------
(* The one place where concatenating encodings is ambiguous: post_post is followed by a run of *)
(* bytes 223, and 223 is also the opcode fnt_num_52.  A valid DVI file ends with post_post.    *)
StartsWith223(o) == Enc(o)[1] = 223
Separable(ops) == \A i \in 1..(Len(ops) - 1) : ~(ops[i].k = "postpost" /\ StartsWith223(ops[i + 1]))

-----------------------------------------------------------------------------
(* Round-trip model: a short op sequence, each op written in any width that can hold it. *)
CONSTANTS FirstOps, Followers, MaxOps
VARIABLES ops, bytes
vars == <<ops, bytes>>

Init == ops = <<>> /\ bytes = <<>>
Emit == /\ Len(ops) < MaxOps
        /\ \E o \in (IF ops = <<>> THEN FirstOps ELSE Followers) : \E k \in Widths(o) :
             /\ ops' = Append(ops, o)
             /\ bytes' = bytes \o EncW(o, k)
Next == Emit
Spec == Init /\ [][Next]_vars

\* C16, first sentence: decoding what was encoded returns the same ops and consumes every byte
RoundTrip == (Separable(ops) \/ Bug = "IgnoreSeparability") => Dec(bytes) = [ops |-> ops, err |-> <<"ok">>, rest |-> 0]
\* every proper prefix of a valid stream decodes to a prefix of the ops and "ok" or "truncated" --
\* never "invalid", and (spec level) never an undefined value
TruncationLaw ==
  Separable(ops) =>
  \A k \in 0..(Len(bytes) - 1) :
    LET r == Dec(SubSeq(bytes, 1, k)) IN
      /\ r.err[1] \in {"ok", "truncated"}
      /\ Len(r.ops) <= Len(ops)
      /\ \A j \in 1..Len(r.ops) :
            \/ r.ops[j] = ops[j]
            \/ /\ j = Len(r.ops) /\ ops[j].k = "postpost"      \* cut inside the run of 223s
               /\ r.ops[j] = [ops[j] EXCEPT !.n223 = r.ops[j].n223] /\ r.ops[j].n223 < ops[j].n223
\* the width dvi::serialize must choose is the shortest of the possible encodings
MinimalIsLeast == \A i \in 1..Len(ops) : \A k \in Widths(ops[i]) : Len(Enc(ops[i])) <= Len(EncW(ops[i], k))
=============================================================================
