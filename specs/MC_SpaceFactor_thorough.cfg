SPECIFICATION Spec
CONSTANTS
  Codes <- CodesThorough
  MaxLen = 5
  Settings <- SettingsThorough
  TexDevs <- NoDevs
  Bug = ""
INVARIANTS SfLaw CapitalRule SfBounds GlueLaws MachineIsFunction CodeIsTexPlusDeviations DeviationIsLocal
CHECK_DEADLOCK FALSE
