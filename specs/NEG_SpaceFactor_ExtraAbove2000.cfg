SPECIFICATION Spec
CONSTANTS
  Codes <- CodesQuick
  MaxLen = 4
  Settings <- SettingsQuick
  TexDevs <- NoDevs
  Bug = "ExtraAbove2000"
INVARIANTS GlueLaws
CHECK_DEADLOCK FALSE
