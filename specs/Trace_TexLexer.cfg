SPECIFICATION TSpec
CONSTANTS
  Bug = ""
  Deviations = {}
POSTCONDITION TraceAccepted
CHECK_DEADLOCK FALSE
