--------------------------- MODULE Trace_LigKern ---------------------------
(* Binding F for C05.  Each line is one event of harness/src/c05.rs: a raw   *)
(* lig/kern program, the loop errors CompiledProgram::compile reported and   *)
(* the items CompiledProgram::run produced for a batch of words.  The event  *)
(* is accepted iff                                                           *)
(*   - a loop is reported exactly when some pair with an instruction has an  *)
(*     undefined f (LoopPairs), and every reported pair is such a pair;      *)
(*   - for every word on which TeX's main loop terminates, the items equal   *)
(*     the nodes the reference machine of LigKern.tla appends (characters,   *)
(*     ligature character + originals, kern amounts, in order);              *)
(*   - the originals of the reported items spell the word.                   *)
(* Runs on which the reference diverges are skipped and counted (SKIP).      *)
EXTENDS LigKern, TLC, Json, IOUtils
Rec == ndJsonDeserialize(IOEnv.TRACE)
VARIABLE l

EffBc(P, r) == IF r.ro # 256 THEN r.ro ELSE P.rbc

RunVerdict(P, LP, r) ==
  IF "panic" \in DOMAIN r THEN [k |-> "panic", want |-> <<>>]
  ELSE LET s == RefRun(P, LP, r.w, r.nl, EffBc(P, r)) IN
       IF s.pc = "diverges" THEN [k |-> "skip", want |-> <<>>]
       ELSE IF s.pc # "done" THEN [k |-> "spec-fuel", want |-> <<>>]
       ELSE IF ~SameItems(s.out, r.out) THEN [k |-> "mismatch", want |-> s.out]
       ELSE IF Originals(r.out) # r.w THEN [k |-> "spelling", want |-> s.out]
       ELSE [k |-> "ok", want |-> <<>>]

SetToSeq(S) == LET RECURSIVE F(_)
                   F(T) == IF T = {} THEN <<>> ELSE LET x == CHOOSE y \in T : TRUE IN <<x>> \o F(T \ {x})
               IN F(S)

Check(e, ln) ==
  LET P  == e.p
      LP == LoopPairs(P)
      rv == [j \in 1..Len(e.runs) |-> RunVerdict(P, LP, e.runs[j])]
      bad == {j \in 1..Len(e.runs) : rv[j].k \notin {"ok", "skip"}}
      nskip == Cardinality({j \in 1..Len(e.runs) : rv[j].k = "skip"})
      loopKey == IF "panic" \in DOMAIN e THEN "panic"
                 ELSE IF LP # {} /\ Len(e.errs) = 0 THEN "loop-missed"
                 ELSE IF LP = {} /\ Len(e.errs) > 0 THEN "loop-spurious"
                 ELSE IF \E j \in 1..Len(e.errs) : <<e.errs[j][1], e.errs[j][2]>> \notin LP THEN "loop-pair"
                 ELSE "ok"
  IN /\ IF loopKey = "ok" THEN TRUE
        ELSE PrintT(<<"VERDICT", ToJson([l |-> ln, key |-> loopKey, r |-> 0, want |-> SetToSeq(LP)])>>)
     /\ IF bad = {} THEN TRUE
        ELSE LET j == CHOOSE x \in bad : \A y \in bad : x <= y IN
             PrintT(<<"VERDICT", ToJson([l |-> ln, key |-> rv[j].k, r |-> j, want |-> rv[j].want,
                                         nbad |-> Cardinality(bad)])>>)
     /\ IF nskip = 0 THEN TRUE ELSE PrintT(<<"SKIP", ln, nskip>>)

TInit == l = 1
TStep == /\ l <= Len(Rec) /\ l' = l + 1
         /\ Check(Rec[l], l)
TSpec == TInit /\ [][TStep]_l
Matched == TLCGet("stats").diameter - 1
TraceAccepted == \/ Matched = Len(Rec)
                 \/ PrintT(<<"MATCHED", Matched>>) /\ FALSE
=============================================================================
