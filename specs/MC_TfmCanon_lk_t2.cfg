SPECIFICATION Spec
CONSTANTS
  Threshold = 2
  MaxRedirect = 65535
  MaxHeader = 255
  Deviations = {}
  Bug = ""
  Mode = "lk"
  NC = 2
  MaxBody = 3
  MaxPrefix = 1
  SkipBytes = {1, 128}
  Variants = {2}
  DimVals = {0, 3}
  MaxW = 2
  MaxE = 2
  MaxH = 1
  DomT = 2
  PadK = 0
  Waive = {}
INVARIANTS Idempotent SameFont SameChains Fits Closed MainLoopSame PlWellFormed
CHECK_DEADLOCK FALSE
