SPECIFICATION Spec
CONSTANTS
  Alphabet <- AlphaQuick
  MaxLen = 3
  Tails <- OnlyParTail
  WidthSeqs <- W7
  ParSets <- P_tol200
  Devs <- NoDevs
  Bug = "DeactivateAboveThreshold"
INVARIANTS Refines
CHECK_DEADLOCK FALSE
