SPECIFICATION Spec
CONSTANTS
  N = 5
  Bug = "OrAnyDepth"
  Deviations = {}
INVARIANT AgreeInv
CHECK_DEADLOCK FALSE
