SPECIFICATION TSpec
CONSTANTS
  Bug = ""
  Fix = FALSE
  PatTexts = {}
  ExcTexts = {}
  ExcListTexts = {}
  Words = {}
  Lc = 0
  MaxP = 0
  MaxE = 0
  Deviations = {}
POSTCONDITION TraceAccepted
CHECK_DEADLOCK FALSE
