SPECIFICATION Spec
CONSTANTS
  FirstOps <- MCFirst
  Followers <- MCFollow
  MaxOps = 2
  Bug = "I24Boundary"
INVARIANTS RoundTrip TruncationLaw MinimalIsLeast
CHECK_DEADLOCK FALSE
