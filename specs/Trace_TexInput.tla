--------------------------- MODULE Trace_TexInput ---------------------------
(* Binding F for C19 part A: one event per file tree run on the real VM with   *)
(* an in-memory file system: {"files": [...], "out": [tokens], "err": ""}.     *)
(* Accepted iff the delivery equals Inline(files) (textual substitution).      *)
EXTENDS TexInput, TLC, Json, IOUtils
Rec == ndJsonDeserialize(IOEnv.TRACE)
VARIABLE l
NoFiles == <<>>
Judge(e) ==
  LET r == Inline(e.files) m == Run(e.files) IN
  IF ~Same(r, m) THEN "design-disagreement"
  ELSE IF r.err # "" THEN (IF e.err # "" THEN "ok" ELSE "mismatch-no-error")
  ELSE IF e.err # "" THEN "mismatch-error"
  ELSE IF e.out = r.out THEN "ok" ELSE "mismatch-tokens"
TInit == l = 1 /\ SInit
TStep == /\ l <= Len(Rec) /\ l' = l + 1 /\ UNCHANGED svars
         /\ LET e == Rec[l] j == Judge(e) IN
            IF j = "ok" THEN TRUE
            ELSE PrintT(<<"VERDICT", ToJson([l |-> l, key |-> j, want |-> Inline(e.files)])>>)
TSpec == TInit /\ [][TStep]_<<l, svars>>
Matched == TLCGet("stats").diameter - 1
TraceAccepted == \/ Matched = Len(Rec)
                 \/ PrintT(<<"MATCHED", Matched>>) /\ FALSE
=============================================================================
