SPECIFICATION TSpec
CONSTANTS
  Codes <- NoCodes
  MaxLen = 0
  Settings <- NoSettings
  TexDevs <- WithDev
  Bug = ""
POSTCONDITION TraceAccepted
CHECK_DEADLOCK FALSE
