SPECIFICATION Spec
CONSTANTS
  MaxHn = 3
  Bug = ""
  Alphabet <- AlphabetQuick
  MaxLen = 4
  LH = 1
  RH = 1
  Devs <- NoDevs
INVARIANTS MachineIsDefinition EveryGlueSearched SearchStaysBeforeNextGlue CollectInv WordsAreRuns
CHECK_DEADLOCK FALSE
