SPECIFICATION TSpec
CONSTANTS
  Codes <- NoCodes
  MaxLen = 0
  Settings <- NoSettings
  TexDevs <- NoDevs
  Bug = ""
POSTCONDITION TraceAccepted
CHECK_DEADLOCK FALSE
