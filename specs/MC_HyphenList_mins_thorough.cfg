SPECIFICATION Spec
CONSTANTS
  MaxHn = 4
  Bug = ""
  Alphabet <- AlphabetQuick
  MaxLen = 5
  LH = 2
  RH = 0
  Devs <- NoDevs
INVARIANTS MachineIsDefinition EveryGlueSearched SearchStaysBeforeNextGlue CollectInv WordsAreRuns
CHECK_DEADLOCK FALSE
