SPECIFICATION Spec
CONSTANTS
  Chars <- MCChars
  Fonts <- LtsFonts
  Operands <- Ops2
  VarSet = {1, 2}
  MaxDepth = 3
  MaxSteps = 1000000
  Bug = ""
ACTION_CONSTRAINT Emit
VIEW AbsView
CHECK_DEADLOCK FALSE
