SPECIFICATION TSpec
POSTCONDITION TraceAccepted
CHECK_DEADLOCK FALSE
