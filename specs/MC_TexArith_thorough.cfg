SPECIFICATION Spec
CONSTANTS
  Bug = ""
  FracStep = 1
  IntParts = {0, 1, 9, 10, 99, 100, 9999, 16383}
  Phases = {"frac", "trip", "mul", "div", "xnd", "unit", "int", "glue", "wrap"}
INVARIANTS FracLaw TripLaw MulLaw DivLaw XndLaw UnitLaw IntLaw GlueLaw WrapLaw
CHECK_DEADLOCK FALSE
