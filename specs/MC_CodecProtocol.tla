------------------------- MODULE MC_CodecProtocol -------------------------
(* Exhaustive model of CodecProtocol over a finite family of files: each    *)
(* base header with at most one word replaced by a boundary value, at the   *)
(* lengths 4*lf-1, 4*lf, 4*lf+4, and short prefixes of the base headers.    *)
EXTENDS CodecProtocol

BaseMin   == <<12, 2, 1, 0, 1, 1, 1, 1, 0, 0, 0, 0>>
BaseFull  == <<37, 18, 65, 65, 2, 2, 2, 2, 1, 1, 1, 2>>
BaseWide  == <<274, 2, 0, 255, 1, 1, 1, 1, 0, 0, 256, 6>>
Vals == {0, 1, 5, 256, 257, 32767, 32768}
Bytes(w) == [i \in 1..24 |-> IF i % 2 = 1 THEN w[(i + 1) \div 2] \div 256 ELSE w[i \div 2] % 256]
Headers == {BaseMin, BaseFull, BaseWide} \cup
           {[base EXCEPT ![k] = v] : base \in {BaseMin, BaseFull, BaseWide}, k \in 1..12, v \in Vals}
Min2(x, y) == IF x < y THEN x ELSE y
FileOf(w, l) == [len |-> l, hdr |-> SubSeq(Bytes(w), 1, Min2(l, 24))]
Files == {FileOf(w, l) : w \in {BaseMin, BaseFull, BaseWide}, l \in {0, 1, 2, 3, 16, 20}} \cup
         {FileOf(w, 4 * w[1] + d) : w \in {x \in Headers : x[1] > 0}, d \in {-1, 0, 4}}

Outcomes == H!Kinds \cup {H!PanicExpect24, H!PanicAddOverflow}

CNext == \/ \E f \in Files : CallTfmToPl(f) \/ RetPlToTfm(f)
         \/ \E o \in Outcomes : \E jk \in BOOLEAN : RetTfmToPl(o, jk)
         \/ CallPlToTfm
CSpec == CInit /\ [][CNext]_cvars
=============================================================================
