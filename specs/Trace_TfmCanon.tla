-------------------------- MODULE Trace_TfmCanon --------------------------
(* Binding F for C11.  One line = one font b0 that harness/src/c11.rs took   *)
(* through the real converters twice:                                        *)
(*   b1 = pl_to_tfm(tfm_to_pl(b0)),   b2 = pl_to_tfm(tfm_to_pl(b1))          *)
(* recorded as                                                               *)
(*   f0, f1 (f2 when b2 # b1)  the files cut into sections (raw shape)       *)
(*   w1, w2   <<messages of tfm_to_pl, messages of pl_to_tfm>> per trip      *)
(*   eq       1 iff b2 = b1 byte for byte; diff: first differing offset      *)
(*   pairs    the (left | 256, right | 256) pairs on which lig/kern          *)
(*            behaviour is compared (all pairs of a small font; for a big    *)
(*            one every pair with an instruction + a seeded sample)          *)
(*   runs     what CompiledProgram::compile_from_tfm_file of b0 and of b1    *)
(*            yield on the words of those pairs                              *)
(* A font whose first trip raises a warning is outside the quantifier        *)
(* (key skip-warnings).  Otherwise the event is accepted iff                 *)
(*   idempotent     b2 = b1 and the second trip is silent                    *)
(*   same font      Same(f0, f1) of TfmCanon.tla: header, parameters, every  *)
(*                  character's dimensions and tag, and on every recorded    *)
(*                  pair the instruction TeX selects (LigKern.tla, 1039)     *)
(*                  and TFtoPL's f(x,y); the compiled programs agree         *)
(*   canonical      where the design covers f0 (InScope): f1 = Canon(f0),    *)
(*                  and Canon(f1) = f1                                       *)
(* With a named deviation enabled (known finding) an event that shows the    *)
(* deviation's feature is accepted iff the deviant design predicts exactly   *)
(* the recorded files.                                                       *)
EXTENDS TfmCanon, Json, IOUtils

Rec == ndJsonDeserialize(IOEnv.TRACE)
VARIABLE l

Has(e, k) == k \in DOMAIN e
NWarn(e, k) == Len(e[k][1]) + Len(e[k][2])
IsFont(x) == DOMAIN x = {"hd", "bc", "ec", "ci", "w", "h", "d", "i", "lk", "k", "e", "p"}
Shaped(F) == /\ LH(F) >= 2 /\ Len(F.ci) = F.ec - F.bc + 1
             /\ Len(F.w) >= 1 /\ Len(F.h) >= 1 /\ Len(F.d) >= 1 /\ Len(F.i) >= 1

PairSet(e) == {<<e.pairs[j][1], e.pairs[j][2]>> : j \in 1 .. Len(e.pairs)}

\* the seven-bit-safe flag of the written file is the converter's own finding (PLtoTF 110-112);
\* it is compared through HeaderSame (a claim is kept) and left out of the literal comparison
Mask(F) == IF LH(F) >= 18 THEN [F EXCEPT !.hd[18] = <<0, 0, 0, F.hd[18][4]>>] ELSE F

Waived == (IF "StopInChainLost" \in Deviations THEN {"stops"} ELSE {})
          \cup (IF "OrphanLigLabelKept" \in Deviations THEN {"orphans"} ELSE {})
          \cup (IF "HeaderWordsBeyond255Dropped" \in Deviations THEN {"longheader"} ELSE {})
\* loops are reported by tfm_to_pl itself (w1), not looked for again
Covered(F) == InScopeBut(F, Waived \cup {"loops"})

DiffFields(a, b) == LET ks == {"hd", "bc", "ec", "ci", "w", "h", "d", "i", "lk", "k", "e", "p"}
                    IN SetToSeq({k \in ks : a[k] # b[k]})

RedirectsNeeded(F) == Len(PackLig(ParseLig(LigItems(F)), Rbc(F)).red)
OrphanLig(F) == \E c \in OrphanTags(F) : Tag(F, c) = 1 /\ ~InRange(F, c)

\* does the event show what the enabled deviation is about?
Feature(f0, f1) ==
  \/ "StopInChainLost" \in Deviations /\ ~NoStopInChain(f0)
  \/ "OrphanLigLabelKept" \in Deviations /\ (OrphanLig(f0) \/ OrphanLig(f1))
  \/ "HeaderWordsBeyond255Dropped" \in Deviations /\ LH(f0) > MaxHeader + 1
  \/ "OffsetSaturates" \in Deviations /\ RedirectsNeeded(f0) > Threshold

Explained(e, f0, f1) ==
  /\ Deviations # {}
  /\ NWarn(e, "w2") = 0
  /\ Feature(f0, f1)
  /\ Covered(f0) /\ Mask(f1) = Mask(Canon(f0))
  /\ \/ e.eq = 1
     \/ /\ Has(e, "f2") /\ IsFont(e.f2) /\ Shaped(e.f2)
        /\ Covered(f1) /\ Mask(e.f2) = Mask(Canon(f1))

SameParts(f0, f1, pairs) ==
  (IF HeaderSame(f0, f1) THEN <<>> ELSE <<"header">>)
  \o (IF f0.p = f1.p THEN <<>> ELSE <<"params">>)
  \o (IF CharsSame(f0, f1) THEN <<>> ELSE <<"chars">>)
  \o (IF LigSame(f0, f1, pairs) THEN <<>> ELSE <<"ligkern">>)

\* CompiledProgram::compile executes a stop word it meets as if it were a step (C05's recorded finding
\* redirect-phantom-ligature, LigKern.tla deviation PhantomLigature).  A run on which that reading differs
\* from TeX's in either file says nothing about the conversion and is not compared.
LKP == INSTANCE LigKern WITH Deviations <- {"PhantomLigature"}, Bug <- ""
RunWord(r) == IF r.l = 256 THEN <<r.r>> ELSE IF r.r = 256 THEN <<r.l>> ELSE <<r.l, r.r>>
RunNl(r)   == IF r.l = 256 THEN 0 ELSE 1
Phantom(P, r) == LK!RefRun(P, {}, RunWord(r), RunNl(r), P.rbc).out # LKP!RefRun(P, {}, RunWord(r), RunNl(r), P.rbc).out
BadRuns(e) ==
  LET cand == {j \in 1 .. Len(e.runs) : e.runs[j].o0 # e.runs[j].o1} IN
  IF cand = {} THEN {}
  ELSE LET P0 == Prog(e.f0)   P1 == Prog(e.f1) IN
       {j \in cand : ~Phantom(P0, e.runs[j]) /\ ~Phantom(P1, e.runs[j])}

Strict(e, f0, f1) ==
  LET idem  == e.eq = 1 /\ NWarn(e, "w2") = 0
      parts == SameParts(f0, f1, PairSet(e))
      bad   == BadRuns(e)
      cov   == Covered(f0)
      can   == IF cov THEN Canon(f0) ELSE f1
      cov1  == Covered(f1)
  IN IF ~idem THEN [key |-> "not-idempotent", info |-> IF Has(e, "diff") THEN <<e.diff.section>> ELSE e.w2[1] \o e.w2[2]]
     ELSE IF parts # <<>> THEN [key |-> "font-changed", info |-> parts]
     ELSE IF bad # {} THEN [key |-> "compiled-behaviour-differs",
                            info |-> LET j == CHOOSE x \in bad : TRUE IN <<e.runs[j].l, e.runs[j].r>>]
     ELSE IF Has(e, "compile_err") THEN [key |-> "compile-error", info |-> <<>>]
     ELSE IF cov /\ Mask(can) # Mask(f1) THEN [key |-> "canon-mismatch", info |-> DiffFields(Mask(can), Mask(f1)), want |-> can]
     ELSE IF cov1 /\ Mask(Canon(f1)) # Mask(f1) THEN [key |-> "output-not-canonical", info |-> DiffFields(Mask(Canon(f1)), Mask(f1))]
     ELSE IF ~cov THEN [key |-> "skip-uncovered", info |-> <<>>]
     ELSE [key |-> "", info |-> <<>>]

Verdict(e) ==
  IF Has(e, "panic") THEN [key |-> "panic", info |-> e.panic]
  ELSE IF /\ Len(e.w1[1]) = 0 /\ e.w1[2] = <<"The font is not really seven-bit-safe!">>
          /\ IsFont(e.f0) /\ Shaped(e.f0) /\ SbsOf(e.f0) /\ SevenBitSafe(e.f0)
       THEN \* the font claims to be seven-bit safe, it is (PLtoTF 110-112 as TfmCanon!SevenBitSafe transcribes it), and
            \* the way back says it is not: a warning about a warning-free font (a false claim is outside the
            \* quantifier and falls through to skip-warnings)
            [key |-> "spurious-seven-bit-warning", info |-> <<>>]
  ELSE IF NWarn(e, "w1") > 0 THEN [key |-> "skip-warnings", info |-> <<>>]
  ELSE IF ~IsFont(e.f0) THEN [key |-> "skip-unreadable", info |-> <<>>]
  ELSE IF ~Has(e, "f1") \/ ~IsFont(e.f1) \/ ~Has(e, "eq") THEN [key |-> "no-output", info |-> <<>>]
  ELSE IF ~Shaped(e.f0) THEN [key |-> "skip-unreadable", info |-> <<>>]
  ELSE IF ~Shaped(e.f1) THEN [key |-> "malformed-output", info |-> <<>>]
  ELSE IF Explained(e, e.f0, e.f1) THEN [key |-> "", info |-> <<>>]
  ELSE Strict(e, e.f0, e.f1)

TInit == l = 1
TStep == /\ l <= Len(Rec) /\ l' = l + 1
         /\ LET v == Verdict(Rec[l]) IN
            IF v.key = "" THEN TRUE ELSE PrintT(<<"VERDICT", ToJson([l |-> l] @@ v)>>)
TSpec == TInit /\ [][TStep]_l
Matched == TLCGet("stats").diameter - 1
TraceAccepted == \/ Matched = Len(Rec)
                 \/ PrintT(<<"MATCHED", Matched>>) /\ FALSE
=============================================================================
