SPECIFICATION TSpec
CONSTANTS
  Deviations = {"PanicShortHeader", "PanicSumOverflowsI16", "NeLimit255", "EmptyRangeSkipsEc"}
  ContractBug = ""
INVARIANTS CTypeOK ObligationIsReadable DischargeIsReadable
POSTCONDITION TraceAccepted
CHECK_DEADLOCK FALSE
