------------------------- MODULE Trace_PostLineBreak -------------------------
(* Binding F: each event is one call of the real                             *)
(* boxworks_knuthplass::LineBreaker::break_line.                             *)
(*   orig    the horizontal list handed to break_line                        *)
(*   list    the same Vec afterwards: the list that was broken (816 applied, *)
(*           hyphenated when the second pass ran)                            *)
(*   hyph    1 when a real hyphenator was installed, 0 for the no-op one     *)
(*   P       [ls, rs, pfs, ilp, club, widow, broken, widths, indents]        *)
(*   bps     the breakpoints break_line_all_attempts chose (0-based element  *)
(*           indices into list, the last one is Len(list)), as reported      *)
(*           through debug::Logger                                           *)
(*   v       the vertical list produced: hbox [w, s, list], penalty [p],     *)
(*           vglue (the baseline-skip glue; outside the property, ignored)   *)
(*   words   (lists made by add_text) the words of the text                  *)
(*   panic   [source file, message] instead of list/bps/v                    *)
(*   tex     (golden paragraphs of the repository) the vertical list real    *)
(*           TeX made of the same paragraph.  There the specification is on  *)
(*           trial: PLB(list, bps, P, {}) must be TeX's list too.            *)
(* Clauses, in this order (the key of the verdict names the first that       *)
(* fails):                                                                   *)
(*   par_end   list = ParEnd(orig) (816); with a hyphenator: the same once   *)
(*             ligatures are spelled out and font kerns / discretionaries    *)
(*             are left aside (what hyphenation may rebuild -- its own       *)
(*             correctness is property C14)                                  *)
(*   spelling  the characters and ligature originals of list, split at the   *)
(*             glue, are the words                                           *)
(*   lines     v = PLB(list, bps, P, TexDevs): TeX's post_line_break, node   *)
(*             for node and in order (TexDevs = {} is TeX)                   *)
EXTENDS PostLineBreak, TLC, Json, IOUtils
Rec == ndJsonDeserialize(IOEnv.TRACE)
VARIABLE l

RECURSIVE Flatten(_)
Flatten(ss) == IF ss = <<>> THEN <<>> ELSE Head(ss) \o Flatten(Tail(ss))

\* ---- par_end
CharNode(c, f) == [k |-> "char", c |-> c, f |-> f]
FlatNode(x) == IF x.k = "lig" THEN [j \in 1..Len(x.o) |-> CharNode(x.o[j], x.f)]
               ELSE IF x.k = "disc" \/ (x.k = "kern" /\ x.kk = 0) THEN <<>>
               ELSE <<x>>
Flat(ns) == Flatten([j \in 1..Len(ns) |-> FlatNode(ns[j])])

ParEndOk(e) == IF e.hyph = 0 THEN e.list = ParEnd(e.orig, e.P)
               ELSE Flat(e.list) = Flat(ParEnd(e.orig, e.P))

\* ---- spelling
GluePos(ns) == SelectSeq([j \in 1..Len(ns) |-> j], LAMBDA j : ns[j].k = "glue")
Segments(ns) == LET g == GluePos(ns) m == Len(g) IN
                [j \in 1..(m + 1) |-> SubSeq(ns, IF j = 1 THEN 1 ELSE g[j - 1] + 1,
                                                 IF j = m + 1 THEN Len(ns) ELSE g[j] - 1)]
SpellNode(x) == IF x.k = "char" THEN <<x.c>> ELSE IF x.k = "lig" THEN x.o ELSE <<>>
Spell(seg) == Flatten([j \in 1..Len(seg) |-> SpellNode(seg[j])])
SpellWords(ns) == LET s == Segments(ns) IN [j \in 1..Len(s) |-> Spell(s[j])]
\* the list ends with \parfillskip: one empty segment after the last word
SpellingOk(e) == "words" \in DOMAIN e => SpellWords(e.list) = Append(e.words, <<>>)

\* ---- lines
Proj(v) == LET keep == SelectSeq(v, LAMBDA x : x.k # "vglue") IN
           [j \in 1..Len(keep) |->
              IF keep[j].k = "hbox" THEN [k |-> "hbox", w |-> keep[j].w, s |-> keep[j].s, list |-> keep[j].list]
              ELSE keep[j]]
Breaks(e) == [j \in 1..Len(e.bps) |-> e.bps[j] + 1]
LinesOk(e, D) == LET r == PLB(e.list, Breaks(e), e.P, D) IN r.ok /\ Proj(e.v) = r.v

\* the same paragraph appended to a vertical list that is not empty (the one its first run made): the same boxes
\* and penalties again - TeX 890 counts the lines of the paragraph, not the items of the list - behind the
\* interline glue that now precedes its first line too (Proj leaves interline glue out)
AgainOk(e) == ("v_again" \in DOMAIN e /\ e.v # <<>>) =>
                 /\ e.v_again # <<>> /\ e.v_again[1].k = "vglue"
                 /\ Proj(e.v_again) = Proj(e.v)
Clause(e, D) ==
  IF "panic" \in DOMAIN e THEN "panic"
  ELSE IF ~ParEndOk(e) THEN "par_end"
  ELSE IF ~SpellingOk(e) THEN "spelling"
  ELSE IF ~LinesOk(e, D) THEN "lines"
  ELSE IF ~AgainOk(e) THEN "appended_paragraph_differs"
  ELSE ""

\* the first line on which TeX and the code differ (diagnostic only)
FirstDiff(a, b) == IF \E j \in 1..Len(a) : j > Len(b) \/ a[j] # b[j]
                   THEN CHOOSE j \in 1..Len(a) : (j > Len(b) \/ a[j] # b[j]) /\ \A j2 \in 1..(j - 1) : a[j2] = b[j2]
                   ELSE Len(a) + 1
Diag(e, c) ==
  IF c = "lines" THEN
    LET r == PLB(e.list, Breaks(e), e.P, {}) got == Proj(e.v) IN
    IF ~r.ok THEN [breakpoints_unusable |-> TRUE]
    ELSE LET rd == PLB(e.list, Breaks(e), e.P, AllDevs)
             \* shown against TeX plus the recorded deviations when that still differs (the new defect),
             \* else against TeX
             w == IF rd.ok /\ rd.v # got THEN rd.v ELSE r.v
             j == FirstDiff(w, got)
         IN [at |-> j, with_recorded_deviations |-> (w # r.v),
             tex |-> IF j <= Len(w) THEN <<w[j]>> ELSE <<>>, got |-> IF j <= Len(got) THEN <<got[j]>> ELSE <<>>]
  ELSE IF c = "par_end" THEN [tex |-> ParEnd(e.orig, e.P)]
  ELSE IF c \in {"differs_from_tex_golden", "spec_disagrees_with_tex_golden"} THEN [file |-> e.file]
  ELSE [clause |-> c]

TInit == /\ l = 1 /\ L0 = <<>> /\ L = <<>> /\ B = <<>> /\ P = 0 /\ phase = "trace"
         /\ i = 0 /\ post = <<>> /\ pos = 1 /\ out = <<>> /\ hist = <<>>
\* Golden paragraphs.  When the code made exactly what real TeX made, the specification is on trial:
\* it must accept (strictly).  When the code made something else, the code is on trial as usual, and
\* if every clause holds nevertheless (the list itself differs from TeX's) the difference is the verdict.
Key(e, D) ==
  LET c == Clause(e, D) IN
  IF "tex" \in DOMAIN e /\ "panic" \notin DOMAIN e
  THEN IF Proj(e.v) = Proj(e.tex)
       THEN \* the appended copy is not part of what TeX set: it stays a clause about the code
            (IF Clause(e, {}) = "" THEN "" ELSE IF Clause(e, {}) = "appended_paragraph_differs" THEN "appended_paragraph_differs"
             ELSE "spec_disagrees_with_tex_golden")
       ELSE IF c # "" THEN c ELSE "differs_from_tex_golden"
  ELSE c

TStep == /\ l <= Len(Rec) /\ l' = l + 1 /\ UNCHANGED vars
         /\ LET e == Rec[l] c == Key(e, TexDevs) IN
            IF c = "" THEN TRUE
            ELSE PrintT(<<"VERDICT", ToJson([l |-> l, key |-> c, diag |-> Diag(e, c)])>>)
TSpec == TInit /\ [][TStep]_<<vars, l>>
Matched == TLCGet("stats").diameter - 1
TraceAccepted == \/ Matched = Len(Rec)
                 \/ PrintT(<<"MATCHED", Matched>>) /\ FALSE

NoKinds == {}
NoConfigs == {}
NoDevs == {}
WithDev == {DevNoPrune}
=============================================================================
