SPECIFICATION Spec
CONSTANTS
  MaxOverrides = 2
  ValsAt <- ValsAtQuick
  Bases <- BasesQuick
  Lens <- LensQuick
  ImplDeviations = {"NeLimit255"}
  ImplBug = ""
INVARIANTS ImplAgrees
CHECK_DEADLOCK FALSE
