SPECIFICATION Spec
CONSTANTS
  FirstOps <- MCFirst
  Followers <- MCFollow
  MaxOps = 2
  Bug = ""
INVARIANTS RoundTrip TruncationLaw MinimalIsLeast
CHECK_DEADLOCK FALSE
