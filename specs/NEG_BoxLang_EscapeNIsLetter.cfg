SPECIFICATION SpecStr
CONSTANTS
  Bug = "EscapeNIsLetter"
  N0 = 0
  N1 = 0
  N2 = 0
  L1 = 0
  L2 = 0
  MaxArgs = 0
  Fns = {}
  Rich = FALSE
  TextLen = 3
  Chars = {}
  IntParts = {}
  Sample = 1
  HiStep = 1
INVARIANTS InvStrRoundTrip
CHECK_DEADLOCK FALSE
