------------------------------ MODULE VmProtocol ------------------------------
(***************************************************************************)
(* The run protocol of the interpreter (property C09).                     *)
(*                                                                         *)
(* A run starts in an interaction mode, may report recoverable errors and  *)
(* ends exactly once: with success or with a structured error that carries *)
(* a source location and renders to text.  How a recoverable error is      *)
(* treated depends on the interaction mode *at that moment* (errormode.rs, *)
(* TeX.2021.73): in errorstop mode it is fatal, in scroll, nonstop and     *)
(* batch mode the run continues.  Once the shutdown status has been set    *)
(* (vm/mod.rs ShutdownStatus: None -> Normal | Error, exactly one          *)
(* transition) nothing but the return may follow.                          *)
(* A run cut off by the step budget is not a verdict (Cutoff).             *)
(* There is no action for a panic: a trace containing one is rejected.     *)
(***************************************************************************)
EXTENDS Naturals

Modes == {"ErrorStop", "Scroll", "NonStop", "Batch"}

VARIABLES status,    \* "idle" | "running" | "failing" (shutdown status = Error, return pending) | "done"
          nrec       \* recoverable errors survived in this run
vars == <<status, nrec>>

Init == status = "idle" /\ nrec = 0

Start == /\ status \in {"idle", "done"} /\ status' = "running" /\ nrec' = 0

\* a recoverable error: continue iff the mode is not errorstop; every error is located
Rec(mode, cont, located) ==
  /\ status = "running" /\ mode \in Modes /\ located
  /\ cont = (mode # "ErrorStop")
  /\ status' = IF cont THEN "running" ELSE "failing"
  /\ nrec' = IF cont THEN nrec + 1 ELSE nrec

Return(kind, located, renders) ==
  /\ \/ status = "running" /\ kind \in {"ok", "err"}
     \/ status = "failing" /\ kind = "err"
  /\ (kind = "err" => located /\ renders)
  /\ status' = "done" /\ UNCHANGED nrec

Cutoff == status \in {"running", "failing"} /\ status' = "idle" /\ UNCHANGED nrec

Next == \/ Start \/ Cutoff
        \/ \E m \in Modes, c \in BOOLEAN, l \in BOOLEAN : Rec(m, c, l)
        \/ \E k \in {"ok", "err"}, l \in BOOLEAN, r \in BOOLEAN : Return(k, l, r)
Spec == Init /\ [][Next]_vars /\ WF_vars(Next)

TypeOK == status \in {"idle", "running", "failing", "done"}
\* a run that is failing can only return an error: there is no way back to "running"
NoSecondTransition == [][status = "failing" => status' \in {"done", "idle"}]_vars
\* every run ends (given that the VM keeps taking steps)
Terminates == (status = "running") ~> (status \in {"done", "idle"})
==============================================================================
