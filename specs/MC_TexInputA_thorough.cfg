SPECIFICATION Spec
CONSTANTS
  MaxLines2 = 2
  Limit = 3
  Deviations = {}
  Streams = {1}
  RFiles <- NoFiles
INVARIANT MachineIsInline
CHECK_DEADLOCK FALSE
