SPECIFICATION Spec
CONSTANTS
  Codes <- CodesQuick
  MaxLen = 4
  Settings <- SettingsQuick
  TexDevs <- WithDev
  Bug = ""
INVARIANTS GlueLaws
CHECK_DEADLOCK FALSE
