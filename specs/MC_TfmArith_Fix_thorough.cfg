SPECIFICATION Spec
CONSTANTS
  Bug = ""
  Blocks = 1024
  Run = 1024
  IntParts <- IntPartsCore
INVARIANTS RoundTrip MinFixRejected Shape
CHECK_DEADLOCK FALSE
