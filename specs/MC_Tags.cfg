SPECIFICATION Spec
CONSTANTS
  Threads = {1, 2, 3}
  N = 2
  UseLock = TRUE
INVARIANTS Distinct StaticSingle MutexOK
PROPERTY AllDone
CHECK_DEADLOCK FALSE
