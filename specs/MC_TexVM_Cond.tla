--------------------------- MODULE MC_TexVM_Cond ---------------------------
(* Consistency of the composed model with the component it subsumes: on every  *)
(* list of conditional tokens, plain characters and braces up to length N that *)
(* TexCond calls well formed (and whose delivered braces balance), TexVM - the *)
(* whole interpreter, with its own expansion loop, scanners and skipping by    *)
(* current meaning - delivers exactly TexCond's reference Deliver(toks).       *)
(* So a TexVM verdict on a whole program and a TexCond verdict on its          *)
(* conditional skeleton can never contradict each other.                       *)
EXTENDS Integers, Sequences, TLC

CONSTANT N

C == INSTANCE TexCond WITH Bug <- "", Deviations <- {}
V == INSTANCE TexVM WITH Deviations <- {}

T(t, kind, a) == [t |-> t, kind |-> kind, a |-> a, rel |-> "", b |-> 0, c |-> 0]
Alphabet == { [t |-> "x", kind |-> "", a |-> 0, rel |-> "", b |-> 0, c |-> 1], T("lb", "", 0), T("rb", "", 0),
              T("if", "iftrue", 0), T("if", "iffalse", 0), T("if", "ifodd", -3), T("if", "ifodd", 2),
              [t |-> "if", kind |-> "ifnum", a |-> 1, rel |-> "<", b |-> 2, c |-> 0],
              [t |-> "if", kind |-> "ifnum", a |-> 3, rel |-> "=", b |-> -3, c |-> 0],
              T("case", "", -1), T("case", "", 0), T("case", "", 1), T("case", "", 2),
              T("or", "", 0), T("else", "", 0), T("fi", "", 0) }

Cs(n) == V!Tok("cs", V!PrimId(n))
Num(n) == V!Digits(n) \o << V!SP >>
Map(tok) ==
  CASE tok.t = "x"    -> << V!Tok("ch", 120) >>
    [] tok.t = "lb"   -> << V!Tok("lb", 0) >>
    [] tok.t = "rb"   -> << V!Tok("rb", 0) >>
    [] tok.t = "or"   -> << Cs("or") >>
    [] tok.t = "else" -> << Cs("else") >>
    [] tok.t = "fi"   -> << Cs("fi") >>
    [] tok.t = "case" -> << Cs("ifcase") >> \o Num(tok.a)
    [] tok.kind = "iftrue"  -> << Cs("iftrue") >>
    [] tok.kind = "iffalse" -> << Cs("iffalse") >>
    [] tok.kind = "ifodd"   -> << Cs("ifodd") >> \o Num(tok.a)
    [] tok.kind = "ifnum"   -> << Cs("ifnum") >> \o Num(tok.a)
                               \o << V!Tok("ch", CASE tok.rel = "<" -> 60 [] tok.rel = "=" -> 61 [] OTHER -> 62) >> \o Num(tok.b)
RECURSIVE Flat(_)
Flat(s) == IF s = << >> THEN << >> ELSE Map(Head(s)) \o Flat(Tail(s))

VARIABLE toks
Init == toks = << >>
Next == Len(toks) < N /\ \E a \in Alphabet : toks' = Append(toks, a)
Spec == Init /\ [][Next]_toks

Agrees ==
  LET d == C!Deliver(toks) IN
  (C!WellFormed(toks) /\ C!BraceDepthOK(d, 0)) =>
     LET R == V!Result(Flat(toks), 4000)
         p == C!Plain(d) IN
     /\ R.err = "" /\ R.skip = ""
     /\ R.out = [i \in 1..Len(p) |-> 120]
     /\ R.conds = << >> /\ R.saves = << >>
\* vacuity guards: lists with a conditional that are well formed exist, and some deliver something
SomeWellFormed == ~(Len(toks) = N /\ C!WellFormed(toks) /\ C!IsIf(toks[1]) /\ C!Plain(C!Deliver(toks)) # << >>)
==============================================================================
