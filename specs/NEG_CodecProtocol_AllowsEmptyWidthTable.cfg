SPECIFICATION CSpec
CONSTANTS
  Deviations = {}
  ContractBug = "AllowsEmptyWidthTable"
INVARIANTS CTypeOK
CHECK_DEADLOCK TRUE
