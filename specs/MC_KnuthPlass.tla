---------------------------- MODULE MC_KnuthPlass ----------------------------
(* Exhaustive model of KnuthPlass: every well-formed list of at most MaxLen   *)
(* items over a small alphabet, with and without TeX's paragraph tail         *)
(* (\penalty10000 \parfillskip), broken to every line-width sequence under    *)
(* every parameter set below.  The alphabet has one item of every kind the    *)
(* breaker distinguishes; widths are chosen so that badness values fall on    *)
(* both sides of the fitness thresholds (t=1,s=2 -> 12; t=2,s=3 -> 30;        *)
(* t=1,s=1 -> 100) and lines can be overfull, perfect and underfull.          *)
EXTENDS KnuthPlass

B(w)              == [k |-> "box", w |-> w]
G(w, st, sto, sh) == [k |-> "glue", w |-> w, st |-> st, sto |-> sto, sh |-> sh]
P(p)              == [k |-> "pen", p |-> p]
KX(w)             == [k |-> "kern", w |-> w, x |-> 1]
KF(w)             == [k |-> "kern", w |-> w, x |-> 0]
DC(pre, npre, post, npost, rep) ==
  [k |-> "disc", pre |-> pre, npre |-> npre, post |-> post, npost |-> npost, rep |-> rep]

ParTail == <<P(10000), G(0, 1, 1, 0)>>       \* 816: \penalty10000 \parfillskip
BothTails == {<<>>, ParTail}
OnlyParTail == {ParTail}

Par(tol, adj, loose, final) ==
  [tol |-> tol, final |-> final, bg |-> Zero6, lp |-> 10, hp |-> 50, ehp |-> 30,
   dhd |-> 10000, fhd |-> 5000, adj |-> adj, loose |-> loose]

AlphaQuick == { B(3), B(2), G(1, 2, 0, 1), P(-10000), DC(1, 1, 0, 0, 0), KX(1) }
AlphaFull  == AlphaQuick \cup { P(50), DC(1, 1, 1, 1, 1), G(1, -1, 0, 0), KF(-2) }
AlphaNeg   == AlphaQuick \cup { KF(-2), P(50) }     \* negative widths: non-monotone lists exist
AlphaRun   == { B(3), B(2), DC(0, 0, 0, 0, 2), KX(2), G(0, 0, 0, 0) }   \* replacement runs with an explicit kern

WidthsQuick == { <<7>>, <<5, 7>>, <<7, 5, 4>> }
WidthsFull  == WidthsQuick \cup { <<4, 9>> }

ParsQuick == { Par(10000, 10000, 0, FALSE), Par(200, 500, 0, FALSE), Par(10000, 10000, 1, FALSE) }
\* line_penalty 0 and adj_demerits 0: many sequences tie at the fewest demerits (looseness ties)
ParTies   == [Par(10000, 0, -1, FALSE) EXCEPT !.lp = 0, !.hp = 0, !.ehp = 0]
ParsFull  == ParsQuick \cup { Par(10000, 0, -1, TRUE), Par(99, -3000, 0, FALSE), Par(10000, 10000, -1, FALSE), ParTies }

ParsCap   == { Par(10001, 10000, 0, FALSE) }
\* single-point models for the negative controls
W7 == { <<7>> }
W57 == { <<5, 7>> }
W754 == { <<7, 5, 4>> }
P_plain == { Par(10000, 10000, 0, FALSE) }
P_tol200 == { Par(200, 500, 0, FALSE) }
P_loose1 == { Par(10000, 10000, 1, FALSE) }

NoDevs   == {}
OnlyKern == {DevKernSign}
OnlyKeep == {DevNoDiscard}
OnlyCap  == {DevNoCap}
OnlyScan == {DevScanRun}
W8 == { <<8>> }
=============================================================================
