----------------------------- MODULE MC_LigKern -----------------------------
(***************************************************************************)
(* Exhaustive model of C05 over a small alphabet.                          *)
(*                                                                         *)
(* Init picks every program of at most MaxRules rules on distinct pairs    *)
(* (left in Letters + left boundary, right in Letters; kern or one of the  *)
(* eight ligature forms inserting a letter), laid out as one SKIP-0 chain  *)
(* per left character, with and without the largest letter doubling as     *)
(* right boundary character; every word of length 1..MaxLen; with and      *)
(* without left boundary processing.  The behaviour is then the run of the *)
(* reference machine (TeX's main loop), one label per step.                *)
(*                                                                         *)
(* Checked:                                                                *)
(*  Spelling        every state of TeX's loop spells the input word        *)
(*  RefinesCursor   at `done` the items RunIter yields from the compiled   *)
(*                  table (LigKernImpl) are the nodes TeX appended         *)
(*  NoHitIfDone, HitIfBound, PairExact, LoopReportExact                    *)
(*                  a run fails to terminate iff the cursor comes to stand *)
(*                  between a pair whose f(x,y) is undefined (TFtoPL), for *)
(*                  the two-character configuration of a pair iff that     *)
(*                  pair's own f is undefined, and those are exactly the   *)
(*                  pairs the compiler cannot finish (reports)             *)
(*                                                                         *)
(* Termination bound.  While f(x,y) is defined no pair is entered again    *)
(* while pending, so the evaluation tree of one top-level pair has depth   *)
(* <= MaxRules (only pairs with an instruction have children), at most two *)
(* children per node: < 2^(MaxRules+1) instruction lookups.  A word of n   *)
(* characters starts at most n+1 top-level pairs (left boundary, n-1       *)
(* inner, right boundary) and every lookup is followed by at most four     *)
(* other labels.  A run longer than Bound therefore never terminates.      *)
(***************************************************************************)
EXTENDS LigKernImpl, TLC

CONSTANTS Letters, MaxRules, MaxLen,
          Ops,            \* op bytes the programs may use (ValidOps + KernOp = all)
          StopAtHit,      \* TRUE: a run that meets a looping pair is cut there (except pair configurations)
          CheckFlags      \* TRUE: RefinesCursor also compares the two boundary flags of ligatures

VARIABLES prog, word, nl, lp, st, n, hit
vars == <<prog, word, nl, lp, st, n, hit>>

Bound == 5 * (2 ^ (MaxRules + 1)) * (MaxLen + 2)

-----------------------------------------------------------------------------
(* the space of programs *)
MaxLetter == CHOOSE x \in Letters : \A y \in Letters : y <= x
MinLetter == CHOOSE x \in Letters : \A y \in Letters : x <= y
Pairs == (Letters \cup {NonChar}) \X Letters
Acts  == (IF KernOp \in Ops THEN {<<KernOp, 0>>} ELSE {}) \cup ((ValidOps \cap Ops) \X Letters)

RECURSIVE SortInts(_)
SortInts(S) == IF S = {} THEN <<>>
               ELSE LET m == CHOOSE x \in S : \A y \in S : x <= y IN <<m>> \o SortInts(S \ {m})

LeftKey(x) == IF x = NonChar THEN -1 ELSE x      \* the boundary's chain comes first

\* rules S (set of pairs) with actions a (function on S): one chain per left character
Layout(S, a, rb) ==
  LET keys  == SortInts({LeftKey(p[1]) : p \in S})
      lefts == [j \in 1..Len(keys) |-> IF keys[j] = -1 THEN NonChar ELSE keys[j]]
      group(l) == LET rs == SortInts({p[2] : p \in {q \in S : q[1] = l}})
                  IN [j \in 1..Len(rs) |-> <<IF j = Len(rs) THEN -1 ELSE 0, rs[j], a[<<l, rs[j]>>][1], a[<<l, rs[j]>>][2]>>]
      RECURSIVE Build(_, _, _, _)
      Build(j, ins, ep, lbe) ==
        IF j > Len(lefts) THEN [ins |-> ins, ep |-> ep, lbe |-> lbe]
        ELSE LET l == lefts[j] IN
             IF l = NonChar THEN Build(j + 1, ins \o group(l), ep, Len(ins))
             ELSE Build(j + 1, ins \o group(l), Append(ep, <<l, Len(ins)>>), lbe)
      b == Build(1, <<>>, <<>>, -1)
  IN [ins |-> [j \in 1..Len(b.ins) |-> IF b.ins[j][3] = KernOp THEN <<b.ins[j][1], b.ins[j][2], KernOp, j>> ELSE b.ins[j]],
      ep |-> b.ep, packed |-> 0, lbe |-> b.lbe, rbc |-> rb]

Words == UNION {[1..k -> Letters] : k \in 1..MaxLen}

-----------------------------------------------------------------------------
Init == /\ \E S \in SUBSET Pairs :
             /\ Cardinality(S) <= MaxRules
             /\ \E a \in [S -> Acts] : \E rb \in {NonChar, MaxLetter} : prog = Layout(S, a, rb)
        /\ word \in Words
        /\ nl \in {0, 1}
        /\ lp = LoopPairs(prog)
        /\ st = TeXInit(prog, word, nl, prog.rbc)
        /\ n = 0
        /\ hit = FALSE

\* the two-character configuration of one pair: nothing but the pair itself can be looked up
IsPairConfig == /\ prog.rbc = NonChar
                /\ \/ Len(word) = 2 /\ nl = 1
                   \/ Len(word) = 1 /\ nl = 0 /\ prog.lbe >= 0
ThePair == IF Len(word) = 2 THEN <<word[1], word[2]>> ELSE <<NonChar, word[1]>>

AtLoopingPair == st.pc = "main_lig_loop" /\ <<st.cl, st.cr>> \in lp

StepCursor == /\ st.pc \notin {"done", "diverges"} /\ n < Bound
              /\ ~(AtLoopingPair /\ StopAtHit /\ ~IsPairConfig)
              /\ st' = TeXStep(prog, st) /\ n' = n + 1 /\ hit' = (hit \/ AtLoopingPair)
              /\ UNCHANGED <<prog, word, nl, lp>>

StopDiverging == /\ st.pc \notin {"done", "diverges"} /\ n < Bound
                 /\ AtLoopingPair /\ StopAtHit /\ ~IsPairConfig
                 /\ st' = [st EXCEPT !.pc = "diverges"] /\ hit' = TRUE
                 /\ UNCHANGED <<prog, word, nl, lp, n>>

Next == StepCursor \/ StopDiverging
Spec == Init /\ [][Next]_vars

-----------------------------------------------------------------------------
Spelling == Spelled(st) = word

RefinesCursor ==
  st.pc = "done" =>
    LET im == ImplRun(prog, word, nl, NonChar) IN
    /\ im.fin
    /\ IF CheckFlags THEN im.out = st.out ELSE SameItems(st.out, im.out)

NoHitIfDone == st.pc = "done" => ~hit
HitIfBound  == (n = Bound /\ st.pc # "done") => hit
PairExact   == (IsPairConfig /\ hit) => ThePair \in lp
\* evaluated once per program
LoopReportExact == (n = 0 /\ nl = 0 /\ word = <<MinLetter>>) => BlockedPairs(prog) = lp
=============================================================================
