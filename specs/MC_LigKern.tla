----------------------------- MODULE MC_LigKern -----------------------------
(***************************************************************************)
(* Exhaustive model of C05 over a small alphabet.                          *)
(*                                                                         *)
(* Init/Setup pick every program of at most MaxRules rules on distinct pairs *)
(* (left in Letters + left boundary, right in Letters; kern or one of the  *)
(* eight ligature forms inserting a letter), laid out as one SKIP-0 chain  *)
(* per left character, with and without the largest letter doubling as     *)
(* right boundary character; every word of length 1..MaxLen; with and      *)
(* without left boundary processing.  The behaviour is then the run of the *)
(* reference machine (TeX's main loop); one step of the model leads from   *)
(* one instruction lookup (main_lig_loop) to the next, through the labels  *)
(* in between (TeXStep is one label).                                      *)
(*                                                                         *)
(* Checked:                                                                *)
(*  Spelling        every lookup state of TeX's loop spells the input word *)
(*  RefinesCursor   at `done` the items RunIter yields from the compiled   *)
(*                  table (LigKernImpl) are the nodes TeX appended         *)
(*  NoHitIfDone, HitIfBound, PairExact, LoopReportExact                    *)
(*                  a run fails to terminate iff the cursor comes to stand *)
(*                  between a pair whose f(x,y) is undefined (TFtoPL), for *)
(*                  the two-character configuration of a pair iff that     *)
(*                  pair's own f is undefined, and those are exactly the   *)
(*                  pairs the compiler cannot finish (reports)             *)
(*                                                                         *)
(* Termination bound.  While f(x,y) is defined no pair is entered again    *)
(* while pending, so the evaluation tree of one top-level pair has depth   *)
(* <= MaxRules (only pairs with an instruction have children), at most two *)
(* children per node: < 2^(MaxRules+1) instruction lookups.  A word of n   *)
(* characters starts at most n+1 top-level pairs (left boundary, n-1       *)
(* inner, right boundary), plus one for slack.  A run with more than Bound *)
(* lookups therefore never terminates.                                     *)
(***************************************************************************)
EXTENDS LigKernSpace, TLC

CONSTANTS MaxLen,
          StopAtHit,      \* TRUE: a run that meets a looping pair is cut there (except pair configurations)
          CheckFlags      \* TRUE: RefinesCursor also compares the two boundary flags of ligatures

VARIABLES rules,   \* the set of pairs that have a rule (chosen by Init)
          prog, word, nl, lp, st, n, hit
vars == <<rules, prog, word, nl, lp, st, n, hit>>

Bound == (2 ^ (MaxRules + 1)) * (MaxLen + 2)

\* from one label to the next instruction lookup (or the end of the word)
RECURSIVE ToLookup(_, _)
ToLookup(P, s) == IF s.pc \in {"main_lig_loop", "done"} THEN s ELSE ToLookup(P, TeXStep(P, s))

-----------------------------------------------------------------------------
Words == UNION {[1..k -> Letters] : k \in 1..MaxLen}

-----------------------------------------------------------------------------
\* The instance (program, word, flags) is chosen in two steps so that TLC's workers share the
\* enumeration: Init fixes the pairs that have a rule, Setup picks everything else.
Init == /\ rules \in RuleSets
        /\ prog = <<>> /\ word = <<>> /\ nl = 0 /\ lp = {} /\ n = 0 /\ hit = FALSE
        /\ st = [pc |-> "setup"]

Setup == /\ st.pc = "setup"
         /\ \E a \in [rules -> Acts] : \E rb \in {NonChar, MaxLetter} : prog' = Layout(rules, a, rb)
         /\ word' \in Words
         \* without a left boundary program TeX's two entries coincide (main_k = non_address);
         \* RefinesCursor then checks the implementation for both settings in the same state
         /\ nl' \in (IF prog'.lbe >= 0 THEN {0, 1} ELSE {0})
         /\ lp' = LoopPairs(prog')
         /\ st' = ToLookup(prog', TeXInit(prog', word', nl', prog'.rbc))
         /\ UNCHANGED <<rules, n, hit>>

\* the two-character configuration of one pair: nothing but the pair itself can be looked up
IsPairConfig == /\ prog.rbc = NonChar
                /\ \/ Len(word) = 2 /\ nl = 1
                   \/ Len(word) = 2 /\ prog.lbe < 0
                   \/ Len(word) = 1 /\ nl = 0 /\ prog.lbe >= 0
ThePair == IF Len(word) = 2 THEN <<word[1], word[2]>> ELSE <<NonChar, word[1]>>

AtLoopingPair == st.pc = "main_lig_loop" /\ <<st.cl, st.cr>> \in lp

StepCursor == /\ st.pc \notin {"setup", "done", "diverges"} /\ n < Bound
              /\ ~(AtLoopingPair /\ StopAtHit /\ ~IsPairConfig)
              /\ st' = ToLookup(prog, TeXStep(prog, st)) /\ n' = n + 1 /\ hit' = (hit \/ AtLoopingPair)
              /\ UNCHANGED <<rules, prog, word, nl, lp>>

StopDiverging == /\ st.pc \notin {"setup", "done", "diverges"} /\ n < Bound
                 /\ AtLoopingPair /\ StopAtHit /\ ~IsPairConfig
                 /\ st' = [st EXCEPT !.pc = "diverges"] /\ hit' = TRUE
                 /\ UNCHANGED <<rules, prog, word, nl, lp, n>>

Next == Setup \/ StepCursor \/ StopDiverging
Spec == Init /\ [][Next]_vars

-----------------------------------------------------------------------------
Running == st.pc # "setup"
Spelling == Running => Spelled(st) = word

RefinesCursor ==
  st.pc = "done" =>
    \A nlx \in (IF prog.lbe >= 0 THEN {nl} ELSE {0, 1}) :
      LET im == ImplRun(prog, word, nlx, NonChar) IN
      /\ im.fin
      /\ IF CheckFlags THEN im.out = st.out ELSE SameItems(st.out, im.out)

NoHitIfDone == st.pc = "done" => ~hit
HitIfBound  == (Running /\ n = Bound /\ st.pc # "done") => (hit \/ AtLoopingPair)
PairExact   == (Running /\ IsPairConfig /\ (hit \/ AtLoopingPair)) => ThePair \in lp
\* evaluated once per program
LoopReportExact == (Running /\ n = 0 /\ nl = 0 /\ word = <<MinLetter>>) => BlockedPairs(prog) = lp
=============================================================================
