------------------------------ MODULE TexInput ------------------------------
(***************************************************************************)
(* \input, \endinput and \read (property C19).                             *)
(*                                                                         *)
(* Part A - files as lines standing in place.  A file is a sequence of     *)
(* lines, a line a sequence of items: [t |-> "x", c] (a character token),  *)
(* [t |-> "in", c |-> g] (\input of file g, its name terminated by a space *)
(* or by the end of the line), [t |-> "ei", c |-> 0] (\endinput) and       *)
(* [t |-> "m", c |-> 0, body |-> items] - a call of a parameterless macro  *)
(* whose replacement text is `body` (characters, \input, \endinput): the   *)
(* rest of the body is *pending expansion* while a file it \inputs is read. *)
(* The end of a line contributes what TeX's scanner makes of the end-line  *)
(* character: \par for an empty line, a space after a character, nothing   *)
(* after a control word or when it terminated a file name.                 *)
(*   Reference layer (Inline): textual substitution - the lines of g stand *)
(*   where the file name ended, the rest of the \input line resumes after  *)
(*   them; \endinput stops a file after the current line has been read to  *)
(*   its end (TeX.2021.362 force_eof); more than Limit open sources is an  *)
(*   error.                                                                *)
(*   Implementation layer (Machine): vm/mod.rs - a stack of sources, each  *)
(*   a cursor (file, line, item, ended); \input pushes, exhaustion pops.   *)
(*                                                                         *)
(* Part B - read streams: \openin, \read, \ifeof, \closein as a state      *)
(* machine over stream states (TeX.2021.480-486).                          *)
(***************************************************************************)
EXTENDS Integers, Sequences, FiniteSets

CONSTANTS Deviations, Limit

X(c) == [t |-> "x", c |-> c]
SPACE == [t |-> "sp", c |-> 0]
PAR == [t |-> "par", c |-> 0]

\* what the end of a line delivers, given the items of the line (as far as they were read)
EolTokens(line) == IF line = <<>> THEN <<PAR>>
                   ELSE IF line[Len(line)].t \in {"x", "lb", "rb"} THEN <<SPACE>> ELSE <<>>

\* textual substitution of macro calls
RECURSIVE Flatten(_)
Flatten(line) == IF line = <<>> THEN <<>>
                 ELSE (IF Head(line).t = "m" THEN Head(line).body ELSE <<Head(line)>>) \o Flatten(Tail(line))

ItemHasEi(it) == it.t = "ei" \/ (it.t = "m" /\ \E j \in 1..Len(it.body) : it.body[j].t = "ei")
HasEi(line) == \E i \in 1..Len(line) : ItemHasEi(line[i])

\* Deviation (known finding C19/endinput-drops-rest-of-line): texlang's \endinput ends the lexer's
\* current line at once, so the rest of the line *text* (and its end-line token) is lost.  Tokens that
\* are already pending - the rest of the macro body that contained the \endinput - are still read
\* (the repository's test end_input_in_second_file pins exactly this).
CutAtEndinput(line) ==
  IF "EndinputDropsRestOfLine" \notin Deviations THEN line
  ELSE LET eis == { i \in 1..Len(line) : ItemHasEi(line[i]) } IN
       IF eis = {} THEN line ELSE SubSeq(line, 1, CHOOSE i \in eis : \A j \in eis : i <= j)

------------------------------------------------------------------------------
(* Reference layer.  Result: [out, err] ; depth = number of open sources.     *)
RECURSIVE InlineFile(_, _, _, _)
RECURSIVE InlineItems(_, _, _, _)
InlineItems(files, items, k, depth) ==
  IF k > Len(items) THEN [out |-> <<>>, err |-> ""]
  ELSE LET it == items[k] IN
    IF it.t = "x" THEN LET r == InlineItems(files, items, k + 1, depth) IN [out |-> <<it>> \o r.out, err |-> r.err]
    ELSE IF it.t = "ei" THEN InlineItems(files, items, k + 1, depth)
    ELSE \* \input g
         IF depth + 1 > Limit THEN [out |-> <<>>, err |-> "too many input levels"]
         ELSE LET f == InlineFile(files, it.c, 1, depth + 1) IN
              IF f.err # "" THEN f
              ELSE LET r == InlineItems(files, items, k + 1, depth) IN [out |-> f.out \o r.out, err |-> r.err]

InlineFile(files, g, ln, depth) ==
  IF ln > Len(files[g]) THEN [out |-> <<>>, err |-> ""]
  ELSE LET line == CutAtEndinput(files[g][ln])
           r == InlineItems(files, Flatten(line), 1, depth)
       IN IF r.err # "" THEN r
          ELSE LET eol == IF HasEi(files[g][ln]) /\ "EndinputDropsRestOfLine" \in Deviations THEN <<>> ELSE EolTokens(line)
                   rest == IF HasEi(files[g][ln]) THEN [out |-> <<>>, err |-> ""] ELSE InlineFile(files, g, ln + 1, depth)
               IN [out |-> r.out \o eol \o rest.out, err |-> rest.err]

Inline(files) == InlineFile(files, 1, 1, 1)

------------------------------------------------------------------------------
(* Implementation layer: a stack of cursors [f, ln, k, ended, pend]; top = last element.   *)
(* pend = the pending expansion tokens of that source (vm/mod.rs Source.expansions).       *)
RECURSIVE Machine(_, _, _)
Machine(files, stack, out) ==
  IF stack = <<>> THEN [out |-> out, err |-> ""]
  ELSE LET n == Len(stack)
           cur == stack[n]
           below == SubSeq(stack, 1, n - 1)
       IN
    IF cur.ln > Len(files[cur.f]) THEN Machine(files, below, out)           \* source exhausted: pop
    ELSE LET full == files[cur.f][cur.ln]
             line == CutAtEndinput(full) IN
      IF cur.k > Len(line) /\ cur.pend = <<>>
      THEN \* end of the line: end-line token, then next line or (after \endinput) end of file
           LET eol == IF cur.ended /\ "EndinputDropsRestOfLine" \in Deviations THEN <<>> ELSE EolTokens(line)
               nxt == IF cur.ended THEN below
                      ELSE Append(below, [f |-> cur.f, ln |-> cur.ln + 1, k |-> 1, ended |-> FALSE, pend |-> <<>>])
           IN Machine(files, nxt, out \o eol)
      ELSE LET it == IF cur.pend # <<>> THEN Head(cur.pend) ELSE line[cur.k]
               adv == IF cur.pend # <<>> THEN [cur EXCEPT !.pend = Tail(cur.pend)] ELSE [cur EXCEPT !.k = cur.k + 1] IN
           IF it.t = "m" THEN Machine(files, Append(below, [adv EXCEPT !.pend = it.body]), out)
           ELSE IF it.t = "x" THEN Machine(files, Append(below, adv), Append(out, it))
           ELSE IF it.t = "ei" THEN Machine(files, Append(below, [adv EXCEPT !.ended = TRUE]), out)
           ELSE IF n + 1 > Limit THEN [out |-> out, err |-> "too many input levels"]
                ELSE Machine(files, Append(Append(below, adv), [f |-> it.c, ln |-> 1, k |-> 1, ended |-> FALSE, pend |-> <<>>]), out)

Run(files) == Machine(files, <<[f |-> 1, ln |-> 1, k |-> 1, ended |-> FALSE, pend |-> <<>>]>>, <<>>)

\* the output delivered before an error is not compared (the VM stops with a located error)
Same(a, b) == a.err = b.err /\ (a.err = "" => a.out = b.out)

------------------------------------------------------------------------------
(* Part B: read streams.  A stream is Closed or [f |-> file, ln |-> next line].           *)
(* Read-file lines are sequences of tokens "x", "lb", "rb", optionally ended by "cm" (a   *)
(* comment: a line that is not blank and yet delivers nothing).                           *)
Closed == [f |-> 0, ln |-> 0]
Delta(tk) == IF tk.t = "lb" THEN 1 ELSE IF tk.t = "rb" THEN -1 ELSE 0

\* tokens of one line as \read sees them: up to an unmatched } (rest of the line dropped),
\* then the end-line token.  Returns [toks, depth, cut]
RECURSIVE ReadLine(_, _, _, _)
ReadLine(line, k, depth, acc) ==
  IF k > Len(line) THEN [toks |-> acc \o EolTokens(line), depth |-> depth, cut |-> FALSE]
  ELSE IF line[k].t = "rb" /\ depth = 0 THEN [toks |-> acc, depth |-> 0, cut |-> TRUE]
  ELSE IF line[k].t = "cm" THEN ReadLine(line, k + 1, depth, acc)     \* a comment (last item of its line): no token,
                                                                      \* and no end-line token either (EolTokens)
  ELSE ReadLine(line, k + 1, depth + Delta(line[k]), Append(acc, line[k]))

\* \read on an open stream: lines are taken until braces balance.  TeX.2021.483-486: when no line
\* is left, the stream is closed and the (empty) line still yields \par; ending inside a group is
\* an error.  Deviation (known finding C19/ifeof-one-read-early): texlang closes the stream with the
\* read that returns the last real line and never delivers the final \par.
RECURSIVE ReadFrom(_, _, _, _)
ReadFrom(lines, ln, depth, acc) ==
  IF ln > Len(lines)
  THEN IF depth > 0 THEN [toks |-> acc, st |-> 0, err |-> "file ended within read"]
       ELSE [toks |-> acc \o <<PAR>>, st |-> 0, err |-> ""]
  ELSE LET r == ReadLine(lines[ln], 1, depth, acc) IN
       IF r.depth > 0 /\ ~r.cut THEN ReadFrom(lines, ln + 1, r.depth, r.toks)
       ELSE [toks |-> r.toks, st |-> ln + 1, err |-> ""]

ReadStream(rfiles, s) ==
  LET lines == rfiles[s.f]
      r == ReadFrom(lines, s.ln, 0, <<>>) IN
  IF "ReadOfLastLineClosesStream" \notin Deviations
  THEN [toks |-> r.toks, s |-> IF r.st = 0 THEN Closed ELSE [f |-> s.f, ln |-> r.st], err |-> r.err]
  ELSE \* texlang: an empty file yields \par and closes (as TeX); otherwise the stream closes as soon
       \* as the lexer reports end of input, i.e. with the read that consumed the last line
       IF lines = <<>> THEN [toks |-> <<PAR>>, s |-> Closed, err |-> ""]
       ELSE IF r.err # "" THEN [toks |-> r.toks, s |-> Closed, err |-> r.err]
       ELSE [toks |-> r.toks, s |-> IF r.st = 0 \/ r.st > Len(lines) THEN Closed ELSE [f |-> s.f, ln |-> r.st],
             err |-> ""]

CONSTANTS Streams, RFiles     \* stream numbers; rfiles = sequence of read files (0 = nonexistent handled by Open)
VARIABLES str, op, dead
svars == <<str, op, dead>>

SInit == str = [n \in Streams |-> Closed] /\ op = [k |-> "init"] /\ dead = FALSE

Open(n, f) == /\ ~dead /\ str' = [str EXCEPT ![n] = IF f = 0 THEN Closed ELSE [f |-> f, ln |-> 1]]
              /\ op' = [k |-> "open", n |-> n, f |-> f, res |-> TRUE] /\ UNCHANGED dead
Close(n) == /\ ~dead /\ str' = [str EXCEPT ![n] = Closed]
            /\ op' = [k |-> "close", n |-> n, res |-> TRUE] /\ UNCHANGED dead
IfEof(n) == /\ ~dead /\ UNCHANGED <<str, dead>>
            /\ op' = [k |-> "ifeof", n |-> n, res |-> (str[n] = Closed)]
Read(n) == /\ ~dead
           /\ IF str[n] = Closed
              THEN \* a closed stream reads from the terminal; the harness's terminal has no lines
                   /\ dead' = TRUE /\ UNCHANGED str
                   /\ op' = [k |-> "read", n |-> n, res |-> [toks |-> <<>>, err |-> "terminal"]]
              ELSE LET r == ReadStream(RFiles, str[n]) IN
                   /\ str' = [str EXCEPT ![n] = r.s]
                   /\ dead' = (r.err # "")
                   /\ op' = [k |-> "read", n |-> n, res |-> [toks |-> r.toks, err |-> r.err]]

SNext == \E n \in Streams : \/ Close(n) \/ IfEof(n) \/ Read(n)
                            \/ \E f \in 0..Len(RFiles) : Open(n, f)
SSpec == SInit /\ [][SNext]_svars
SView == <<str, dead>>
\* \ifeof is true exactly for closed streams; a stream never points past its file
StreamsOK == \A n \in Streams : str[n] # Closed => str[n].ln \in 1..(Len(RFiles[str[n].f]) + 1)
==============================================================================
