SPECIFICATION Spec
CONSTANTS
  NodeKinds <- KindsAll
  MaxLen = 2
  Configs <- ConfigsQuick
  TexDevs <- NoDevs
  Bug = "ReplacedNodesKept"
INVARIANTS DropsOnlyDiscardables
CHECK_DEADLOCK FALSE
