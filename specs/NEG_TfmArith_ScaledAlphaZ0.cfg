SPECIFICATION Spec
CONSTANTS
  Bug = "ScaledAlphaZ0"
INVARIANTS MatchesExact Rejects Continuous Identities
CHECK_DEADLOCK FALSE
