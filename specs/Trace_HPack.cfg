SPECIFICATION TSpec
CONSTANTS
  Alphabet <- NoItems
  MaxLen = 0
  Targets <- NoTargets
  TexDevs <- NoDevs
  Bug = ""
POSTCONDITION TraceAccepted
CHECK_DEADLOCK FALSE
