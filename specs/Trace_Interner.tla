--------------------------- MODULE Trace_Interner ---------------------------
(* Binding T: recorded call sequences of the real interner (constant hasher, *)
(* hundreds of strings, serde round trips interleaved) must be behaviours of *)
(* Interner.                                                                 *)
EXTENDS Interner, TLC, Json, IOUtils
Rec == ndJsonDeserialize(IOEnv.TRACE)
VARIABLE l
tvars == <<tab, op, l>>
TStr == 1..2000
E == Rec[l]
TInit == Init /\ l = 1
TStep == /\ l <= Len(Rec) /\ l' = l + 1
         /\ \/ E.ev = "reset" /\ tab' = <<>> /\ op' = [k |-> "init"]
            \/ E.ev = "intern" /\ Intern(E.s) /\ op'.res = E.res
            \/ E.ev = "get" /\ Get(E.s) /\ op'.res = E.res
            \/ E.ev = "resolve" /\ Resolve(E.key) /\ op'.res = E.res
            \/ E.ev = "serde" /\ Serde
TSpec == TInit /\ [][TStep]_tvars
Matched == TLCGet("stats").diameter - 1
TraceAccepted == \/ Matched = Len(Rec)
                 \/ PrintT(<<"MATCHED", Matched>>) /\ FALSE
=============================================================================
