SPECIFICATION Spec
CONSTANTS
  Bug = ""
  Fix = FALSE
  Sigma = {97, 98}
  PatLens = {1, 2}
  Dg = {1, 7, 8}
  MaxDigits = 1
  WordAlphabet = {97, 98, 65}
  MaxWordLen = 4
  MaxMixedLen = 2
  MaxExcLen = 2
  CodecWordLens = {3}
  NSlices = 1
  Slice = 0
  MaxP = 1
  MaxE = 1
  Deviations = {"ExceptionAsScore67", "LaterPatternReplacesException"}
  PatTexts <- MCPatTexts
  ExcTexts <- MCExcTextsA
  ExcListTexts <- MCExcListsSmall
  Words <- MCWordsMixed
  Lc <- MCLc
INVARIANTS StateIsBuild Refines CodecRoundTrip
CHECK_DEADLOCK FALSE
