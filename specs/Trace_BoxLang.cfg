SPECIFICATION TSpec
CONSTANTS
  Bug = ""
POSTCONDITION TraceAccepted
CHECK_DEADLOCK FALSE
