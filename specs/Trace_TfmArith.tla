---------------------------- MODULE Trace_TfmArith ----------------------------
(* Binding F for C17: every line of the trace is one call of the real code    *)
(* (tfm crate) with its result; the specification recomputes / judges it.     *)
(*   print     FixWord Display                      = PrintFix                *)
(*   rt        PL writer (AST lowering) then PL reader: text = PrintFixData,  *)
(*             value read back = GetFix(text) and = the original pattern      *)
(*   parse     PL reader on an arbitrary decimal    = GetFix                  *)
(*   scaled    FixWord::to_scaled                   = StoreScaled             *)
(*   compress  tfm::compress                        meets Contract with the   *)
(*             least tolerance                                                *)
(*   nl        NextLargerProgram::new / get         = Chain(Cut(links))       *)
(*   nltags    list tags left by tfm::File::validate_and_fix (TFtoPL) and by  *)
(*             pl::File::from_pl_source_code (PLtoTF) = Cut(links)            *)
(* A line that is not accepted produces a VERDICT naming the clause.          *)
EXTENDS TfmArith, TLC, Json, IOUtils, SequencesExt
Rec == ndJsonDeserialize(IOEnv.TRACE)
VARIABLE l

Verdict(key, want) == PrintT(<<"VERDICT", ToJson([l |-> l, key |-> key, want |-> want])>>)
Judge(ok, key, want) == IF ok THEN TRUE ELSE Verdict(key, want)

-----------------------------------------------------------------------------
CheckPrint(e) == LET w == PrintFix(e.v) IN Judge(e.s = w, "print", w)

CheckRt(e) ==
  LET w == PrintFixData(e.v)
      b == GetFix(w)
  IN IF e.s # w THEN Verdict("print", w)
     ELSE IF e.back # b.v \/ (e.err = 1) # (b.err # 0) THEN Verdict("parse", b)
     ELSE Judge(e.v = MinFix \/ (e.back = e.v /\ e.err = 0), "roundtrip", e.v)

(* a whole pl::File written and read back: only the value is observed *)
CheckRtFile(e) ==
  LET b == GetFix(PrintFixData(e.v))
  IN IF e.back # b.v THEN Verdict("parse", b)
     ELSE Judge(e.v = MinFix \/ (e.back = e.v /\ e.err = 0), "roundtrip", e.v)

(* The PL reader on arbitrary decimals.  Two recorded deviations of the real  *)
(* reader are named here (DESIGN.md section 3: deviations are named):         *)
(*  JunkAfterSeventhDigit  the reader stops after 7 fraction digits and       *)
(*      reports the rest as junk; PLtoTF 66 consumes every digit silently     *)
(*  TooBigSignLost  after "Real constants must be less than 2048" with        *)
(*      integer part 2047 get_fix returns -acc for a negative number; the     *)
(*      reader returns +1.0                                                    *)
CheckParse(e) ==
  LET b == GetFix(e.s)
      Acc(dj, dsg) ==
        /\ e.back = (IF dsg /\ b.err = 1 /\ b.v < 0 THEN -b.v ELSE b.v)
        /\ e.junk = (IF dj /\ b.fd > 7 THEN 1 ELSE 0)
        /\ e.toobig = (IF b.err = 1 THEN 1 ELSE 0)
        /\ e.other = (IF b.err = 2 THEN 1 ELSE 0)
  IN IF Acc(FALSE, FALSE) THEN TRUE
     ELSE IF Acc(TRUE, FALSE) THEN Verdict("parse-junk-after-7-digits", b)
     ELSE IF Acc(FALSE, TRUE) THEN Verdict("parse-toobig-sign-lost", b)
     ELSE IF Acc(TRUE, TRUE) THEN Verdict("parse-junk-after-7-digits+parse-toobig-sign-lost", b)
     ELSE Verdict("parse", b)

CheckScaled(e) ==
  LET w == StoreScaled(e.v, e.ds) IN Judge(w.ok /\ e.r = w.sw, "scaled", w)

-----------------------------------------------------------------------------
(* compress.  vals: the input in call order; sv: its distinct values sorted   *)
(* by the harness (checked here); cls[i]: index the returned map gives sv[i]  *)
(* (0 = missing); res: the returned table, res[1] is the reserved zero.       *)
StrictlyIncreasing(s) == \A i \in 1 .. (Len(s) - 1) : s[i] < s[i + 1]

RECURSIVE RunWidth(_, _, _, _, _)    \* classes that are runs: one pass, widest class
RunWidth(sv, cls, i, first, w) ==
  IF i > Len(sv) THEN w
  ELSE LET f == IF i = 1 \/ cls[i] # cls[i - 1] THEN sv[i] ELSE first
       IN RunWidth(sv, cls, i + 1, f, Max2(w, sv[i] - f))
AnyWidth(sv, cls) ==                 \* classes of any shape
  LET K == { cls[i] : i \in 1 .. Len(sv) }
      W(k) == LET M == { sv[i] : i \in { j \in 1 .. Len(sv) : cls[j] = k } }
              IN (CHOOSE x \in M : \A y \in M : y <= x) - (CHOOSE x \in M : \A y \in M : y >= x)
  IN IF K = {} THEN 0 ELSE LET ws == { W(k) : k \in K } IN CHOOSE x \in ws : \A y \in ws : y <= x
IsRuns(cls) == \A i \in 1 .. (Len(cls) - 1) : cls[i] <= cls[i + 1]
WidestClass(sv, cls) == IF IsRuns(cls) THEN RunWidth(sv, cls, 1, 0, 0) ELSE AnyWidth(sv, cls)

(* Accepted results are also compared with what PLtoTF 77 (set_indices) would  *)
(* store.  That is not part of the contract: PLtoTF stops merging as soon as    *)
(* `excess` values have been removed, compress merges every class fully.  The   *)
(* difference is only counted (INFO line), never judged.                        *)
Pltotf(e, sv, rep) ==
  LET k == SetIndices(sv, e.m)
      Info(key) == PrintT(<<"INFO", ToJson([l |-> l, key |-> key])>>)
  IN IF k.cls # e.cls THEN Info("differs-from-pltotf-classes")            \* the `excess` rule
     ELSE IF k.rep # rep THEN Info("differs-from-pltotf-midpoint-rounding") \* l+(h-l) div 2 vs (l+h)/2, negative odd sums
     ELSE TRUE

CheckCompress(e) ==
  LET sv  == e.sv
      n   == Len(sv)
      rep == Tail(e.res)
  IN IF ~(StrictlyIncreasing(sv) /\ { sv[i] : i \in 1 .. n } = { e.vals[i] : i \in 1 .. Len(e.vals) } /\ Len(e.cls) = n)
     THEN Verdict("harness-sorted-values", 0)
     ELSE IF e.res = <<>> \/ e.res[1] # 0 THEN Verdict("compress-zero-entry", 0)
     ELSE IF Len(rep) > e.m THEN Verdict("compress-too-many-classes", e.m)
     ELSE IF \E i \in 1 .. n : e.cls[i] \notin 1 .. Len(rep) THEN Verdict("compress-map", 0)
     ELSE LET d == WidestClass(sv, e.cls)
          IN IF ~IsLeast(sv, e.m, d)
             THEN Verdict("compress-tolerance-not-least", [got |-> d, least |-> Shorten(sv, e.m)])
             ELSE IF \E i \in 1 .. n : Abs(sv[i] - rep[e.cls[i]]) > HalfUp(d)
                  THEN Verdict("compress-representative", [d |-> d, half |-> HalfUp(d)])
                  ELSE Pltotf(e, sv, rep)


-----------------------------------------------------------------------------
(* next larger.  edges: the links (a functional graph); absent: characters    *)
(* for which character_exists is false; drop: drop_non_existent_characters;   *)
(* probe/chains: get(c) for every probed c; loops/nonex: the warnings.        *)
PairSet(s) == { <<s[i][1], s[i][2]>> : i \in 1 .. Len(s) }
CheckNl(e) ==
  LET E    == PairSet(e.edges)
      dom  == { p[1] : p \in E }
      g0   == [c \in dom |-> (CHOOSE p \in E : p[1] = c)[2]]
      abs  == { e.absent[i] : i \in 1 .. Len(e.absent) }
      kept == IF e.drop = 1 THEN [c \in { x \in dom : g0[x] \notin abs } |-> g0[c]] ELSE g0
      cs   == CutSet(kept)
      h    == [c \in (DOMAIN kept) \ cs |-> kept[c]]
      bound == Cardinality(DOMAIN kept) + 1
      wl   == { <<c, kept[c]>> : c \in cs }
      wn   == { <<c, g0[c]>> : c \in { x \in dom : g0[x] \in abs } }
      bad  == { k \in 1 .. Len(e.probe) : e.chains[k] # Chain(h, e.probe[k], bound) }
  IN IF Cardinality(E) # Len(e.edges) \/ Cardinality(dom) # Cardinality(E) THEN Verdict("harness-not-functional", 0)
     ELSE IF bad # {} THEN LET k == CHOOSE k \in bad : TRUE
                           IN Verdict("nl-chain", [c |-> e.probe[k], chain |-> Chain(h, e.probe[k], bound)])
     ELSE IF PairSet(e.loops) # wl \/ Len(e.loops) # Cardinality(wl) THEN Verdict("nl-cycle-warnings", wl)
     ELSE Judge(PairSet(e.nonex) = wn /\ Len(e.nonex) = Cardinality(wn), "nl-nonexistent-warnings", wn)

(* the list tags that survive in a tfm::File (links to missing characters are   *)
(* dropped first) or in a pl::File (missing characters are created)             *)
CheckNlTags(e) ==
  LET E    == PairSet(e.edges)
      dom  == { p[1] : p \in E }
      g0   == [c \in dom |-> (CHOOSE p \in E : p[1] = c)[2]]
      abs  == { e.absent[i] : i \in 1 .. Len(e.absent) }
      kept == IF e.path = "tfm" THEN [c \in { x \in dom : g0[x] \notin abs } |-> g0[c]] ELSE g0
      h    == Cut(kept)
      want == { <<c, h[c]>> : c \in DOMAIN h }
  IN IF Cardinality(dom) # Len(e.edges) THEN Verdict("harness-not-functional", 0)
     ELSE Judge(PairSet(e.tags) = want /\ Len(e.tags) = Cardinality(want), "nl-tags", want)

-----------------------------------------------------------------------------
Check(e) ==
  IF "panic" \in DOMAIN e THEN Verdict("panic", e.panic)
  ELSE CASE e.fn = "print"    -> CheckPrint(e)
         [] e.fn = "rt"       -> CheckRt(e)
         [] e.fn = "rtfile"   -> CheckRtFile(e)
         [] e.fn = "parse"    -> CheckParse(e)
         [] e.fn = "scaled"   -> CheckScaled(e)
         [] e.fn = "compress" -> CheckCompress(e)
         [] e.fn = "nl"       -> CheckNl(e)
         [] e.fn = "nltags"   -> CheckNlTags(e)
         [] OTHER             -> Verdict("unknown-event", 0)

TInit == l = 1
TStep == l <= Len(Rec) /\ l' = l + 1 /\ Check(Rec[l])
TSpec == TInit /\ [][TStep]_l
Matched == TLCGet("stats").diameter - 1
TraceAccepted == \/ Matched = Len(Rec)
                 \/ PrintT(<<"MATCHED", Matched>>) /\ FALSE
=============================================================================
