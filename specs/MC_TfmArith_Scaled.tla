-------------------------- MODULE MC_TfmArith_Scaled --------------------------
(* TeX 571-572 (store_scaled) against the exact product.                      *)
(* Knuth multiplies byte by byte with three truncating divisions so that no   *)
(* intermediate result exceeds 31 bits.  The reference below computes the     *)
(* same quantity in a different way: the exact 47-bit product z'*w of the     *)
(* normalised size z' (< 2^23) and the low 24 bits w of the fix_word, by      *)
(* schoolbook multiplication in base 2^12, floor-divided once by 2^(20-k);    *)
(* for a negative fix_word (first byte 255) 16*2^k*z' is subtracted.          *)
(* TLC checks StoreScaled = Exact on a grid of boundary and scattered values  *)
(* (all |v| < 16, design sizes 16*2^-20 .. 2048), plus continuity across the  *)
(* sign change and the identities for 0 and +-1.0.                            *)
EXTENDS TfmArith, TLC
VARIABLES v, ds
vars == <<v, ds>>

Pow2(n) == IF n = 0 THEN 1 ELSE 2 ^ n
Near(n) == { Pow2(n) - 1, Pow2(n), Pow2(n) + 1 }
Scatter(mult, modulus, n) == { (k * mult) % modulus : k \in 1 .. n }

VPos == (UNION { Near(n) : n \in 0 .. 23 }) \cup {0, Two24 - 1} \cup Scatter(7654321, Two24, 60)
VSet == { x \in VPos : x < Two24 } \cup { -x : x \in VPos } \cup { -Two24 }
        \cup { Two24, Two24 + 1, (-Two24) - 1, 1073741824, MaxInt, MinFix }   \* not legal: TeX aborts
DSet == { d \in (UNION { Near(n) : n \in 4 .. 30 }) \cup {MaxInt, 10 * Unity, 12 * Unity + 12345}
                 \cup { 16 + ((k * 98765432) % (MaxInt - 16)) : k \in 1 .. 20 } : d >= 16 }

Init == v \in VSet /\ ds \in DSet
Next == UNCHANGED vars
Spec == Init /\ [][Next]_vars

(* exact reference *)
T12 == 4096
Exact(x, d) ==
  LET n   == Norm(d \div 16, 16)
      z   == n.z                                   \* z' < 2^23
      k16 == n.alpha                               \* 16 * 2^k
      sh  == (Unity * 16) \div k16                 \* 2^(20-k), between 2^16 and 2^20
      w   == Low24(x)
      wh  == w \div T12   wl == w % T12
      zh  == z \div T12   zl == z % T12
      mid == wh * zl + wl * zh                     \* < 2^25
      t   == wl * zl + (mid % T12) * T12           \* < 2^25
      plo == t % Two24                             \* product = phi * 2^24 + plo
      phi == wh * zh + (mid \div T12) + (t \div Two24)
      q   == phi * (Two24 \div sh) + (plo \div sh) \* floor(product / 2^(20-k))
  IN IF B0(x) = 0 THEN q ELSE q - k16 * z

Legal == B0(v) = 0 \/ B0(v) = 255
MatchesExact == Legal => StoreScaled(v, ds) = [ok |-> TRUE, sw |-> Exact(v, ds)]
Rejects == ~Legal => ~StoreScaled(v, ds).ok
(* neighbouring fix_words differ by at most ceil(z/2^20) scaled points, also  *)
(* from -1 to 0 where the first byte changes from 255 to 0                    *)
Continuous == (v >= -Two24 /\ v < Two24 - 1) =>
   LET a == StoreScaled(v, ds).sw
       b == StoreScaled(v + 1, ds).sw
   IN b >= a /\ b - a <= ((ds \div 16) \div Unity) + 1
Identities == /\ StoreScaled(0, ds).sw = 0
              /\ LET n == Norm(ds \div 16, 16) IN
                   /\ StoreScaled(Unity, ds).sw = n.z * (n.alpha \div 16)
                   /\ StoreScaled(-Unity, ds).sw = -(n.z * (n.alpha \div 16))
=============================================================================
