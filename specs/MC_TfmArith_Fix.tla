--------------------------- MODULE MC_TfmArith_Fix ---------------------------
(* TLC checks the print/parse round trip of fix_words on its own:            *)
(*   for every fraction f explored and every integer part ip in IntParts,    *)
(*   the pattern ip*2^20+f prints (TFtoPL 40-43) as text that get_fix        *)
(*   (PLtoTF 62-66) reads back as the same pattern.                          *)
(* Fractions: Blocks runs of Run consecutive values, the runs spread evenly  *)
(* over 0..2^20-1 and shifted by OFFSET (environment; seeded by the driver). *)
(* Blocks*Run = 2^20 is the exhaustive configuration.                        *)
EXTENDS TfmArith, TLC, IOUtils
CONSTANTS Blocks, Run, IntParts
VARIABLES f, left
vars == <<f, left>>

Offset == atoi(IOEnv.OFFSET) % Unity
IntPartsSample == {0, 1, 9, 10, 999, 2047, -1, -2, -10, -11, -2047, -2048}
IntPartsCore == {0, -1, 2047, -2048}
IntPartsAll == (-2048) .. 2047

Init == /\ f \in { ((b * (Unity \div Blocks)) + Offset) % Unity : b \in 0 .. (Blocks - 1) }
                \cup {0, 1, Half, Unity - 1}             \* the fractions at which TFtoPL 41 branches, always
        /\ left = Run - 1
Step == /\ left > 0
        /\ f' = (f + 1) % Unity
        /\ left' = left - 1
Spec == Init /\ [][Step]_vars

Pattern(ip) == ip * Unity + f

RoundTrip == \A ip \in IntParts : Pattern(ip) = MinFix \/ RoundTrips(Pattern(ip))

(* -2048.0 is the only pattern that does not come back: get_fix reports      *)
(* "Real constants must be less than 2048".                                  *)
MinFixRejected == LET b == GetFix(PrintFixData(MinFix)) IN b.v = 0 /\ b.err = 1

(* Shape of the text: optional "-", 1..4 integer digits, ".", 1..7 fraction  *)
(* digits; the integer digits do not depend on the fraction except through   *)
(* f>0 for negative numbers, the fraction digits do not depend on the        *)
(* integer part except through its sign (TFtoPL 41).  This is what lets the  *)
(* exhaustive sweep of all 2^32 patterns index a table by (integer part,     *)
(* f>0) and by (sign, fraction).                                             *)
DotAt(s) == CHOOSE i \in 1 .. Len(s) : s[i] = 46
Prefix(s) == SubSeq(s, 1, DotAt(s))
Suffix(s) == SubSeq(s, DotAt(s) + 1, Len(s))
Shape ==
  \A ip \in IntParts :
    LET s == PrintFix(Pattern(ip))
    IN /\ Len(Suffix(s)) \in 1 .. 7
       /\ Suffix(s) = Suffix(PrintFix(IF ip < 0 THEN f - Unity ELSE f))
       /\ Prefix(s) = Prefix(PrintFix(ip * Unity + (IF f > 0 THEN 1 ELSE 0)))
=============================================================================
