SPECIFICATION Spec
CONSTANTS
  Alphabet <- AlphabetQuick
  MaxLen = 4
  Targets <- TargetsQuick
  TexDevs <- NoDevs
  Bug = ""
INVARIANTS LoopInv TopOrderIsHighestNonZero TexBoxLaws TexIsFunction CodeTotalsInv CodeIsTexPlusDeviations DeviationsAreLocal
CHECK_DEADLOCK FALSE
