SPECIFICATION TSpec
CONSTANTS
  Deviations = {"DecideC07"}
POSTCONDITION TraceAccepted
CHECK_DEADLOCK FALSE
