--------------------------- MODULE Trace_VmProtocol ---------------------------
(* Binding T for C09: one trace per (program, interaction mode) run on the VM. *)
EXTENDS VmProtocol, TLC, Json, IOUtils, Sequences
Rec_ == ndJsonDeserialize(IOEnv.TRACE)
VARIABLES l, skipping
tvars == <<status, nrec, l, skipping>>
E == Rec_[l]
TInit == Init /\ l = 1 /\ skipping = FALSE
Match == \/ E.ev = "reset" /\ status' = "idle" /\ nrec' = 0
         \/ E.ev = "start" /\ Start
         \/ E.ev = "rec" /\ Rec(E.mode, E.cont, E.located)
         \/ E.ev = "return" /\ Return(E.kind, E.located, E.renders)
         \/ E.ev = "cutoff" /\ Cutoff
TStep == /\ l <= Len(Rec_) /\ l' = l + 1
         /\ IF skipping /\ E.ev # "reset" THEN UNCHANGED <<status, nrec, skipping>>
            ELSE IF ENABLED Match THEN Match /\ skipping' = FALSE
            ELSE /\ PrintT(<<"VERDICT", ToJson([l |-> l, key |-> "unmatched"])>>)
                 /\ skipping' = TRUE /\ UNCHANGED <<status, nrec>>
TSpec == TInit /\ [][TStep]_tvars
Matched == TLCGet("stats").diameter - 1
TraceAccepted == \/ Matched = Len(Rec_)
                 \/ PrintT(<<"MATCHED", Matched>>) /\ FALSE
==============================================================================
