SPECIFICATION Spec
CONSTANTS
  Bug = "NoRound"
  FracStep = 256
  IntParts = {0, 1, 16383}
  Phases = {"frac"}
INVARIANTS FracLaw TripLaw MulLaw DivLaw XndLaw UnitLaw IntLaw GlueLaw WrapLaw
CHECK_DEADLOCK FALSE
