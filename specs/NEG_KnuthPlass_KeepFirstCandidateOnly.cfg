SPECIFICATION Spec
CONSTANTS
  Alphabet <- AlphaQuick
  MaxLen = 3
  Tails <- OnlyParTail
  WidthSeqs <- W754
  ParSets <- P_plain
  Devs <- NoDevs
  Bug = "KeepFirstCandidateOnly"
INVARIANTS Refines
CHECK_DEADLOCK FALSE
