SPECIFICATION Spec
CONSTANTS
  Threshold = 255
  MaxRedirect = 65535
  MaxHeader = 255
  Deviations = {}
  Bug = ""
  Mode = "lk"
  NC = 2
  MaxBody = 2
  MaxPrefix = 2
  SkipBytes = {0, 128}
  Variants = {0}
  DimVals = {0, 3}
  MaxW = 2
  MaxE = 2
  MaxH = 1
  DomT = 1
  PadK = 254
  Waive = {}
CONSTRAINT FirstTripOnly
INVARIANTS EmitCase
CHECK_DEADLOCK FALSE
