--------------------------- MODULE MC_TfmHeader ---------------------------
(* Exhaustive model of TfmHeader over boundary-valued files.                *)
(* A file is a base header with at most MaxOverrides of its twelve 16-bit   *)
(* words replaced by a value from Vals, at the lengths 4*lf-1, 4*lf, 4*lf+4;*)
(* plus every short/odd length against every boundary value of lf.          *)
EXTENDS TfmHeader

CONSTANTS MaxOverrides,   \* how many words are overridden at once
          ValsAt(_),      \* boundary values for an overridden word, by word number 1..12
          Bases,          \* base headers (12 words each)
          ImplDeviations, \* deviation set of the implementation-shaped layer under test
          Lens,           \* short / odd file lengths (family B)
          ImplBug         \* seeded bug of the implementation-shaped layer (negative controls)

\* minimal valid file (lf=12: header of 2 words, no characters, one word per dimension table),
\* the 24-byte "header only" file of the repository's unit tests, a one-character font with
\* every table present, and the largest legal character range
BaseMin   == <<12, 2, 1, 0, 1, 1, 1, 1, 0, 0, 0, 0>>
BaseSix   == << 6, 2, 1, 0, 1, 1, 1, 1, 0, 0, 0, 0>>
BaseFull  == <<37, 18, 65, 65, 2, 2, 2, 2, 1, 1, 1, 2>>
BaseWide  == <<274, 2, 0, 255, 1, 1, 1, 1, 0, 0, 256, 6>>
BasesQuick    == {BaseMin, BaseSix, BaseFull}
BasesThorough == {BaseMin, BaseSix, BaseFull, BaseWide}
\* per-word boundary values (lf lh bc ec nw nh nd ni nl nk ne np)
ValsAtQuick(k) ==
  <<{0, 1, 5, 6, 12, 13, 32767, 32768}, {0, 1, 2, 3, 32767, 32768}, {0, 1, 2, 256, 257, 32767},
    {0, 1, 255, 256, 32767, 32768}, {0, 1, 2, 32767}, {0, 1, 32768}, {0, 1, 65535}, {0, 1, 32767},
    {0, 1, 32767}, {0, 32767, 65535}, {0, 255, 256, 257}, {0, 1, 32767, 32768}>>[k]
ValsWide == {0, 1, 2, 3, 4, 5, 6, 12, 127, 128, 255, 256, 257, 32766, 32767, 32768, 65535}
ValsAtWide(k) == ValsWide
LensQuick    == {0, 1, 2, 3, 4, 8, 12, 15, 16, 17, 20, 23, 24, 25, 28, 48}
LensThorough == 0..52
ValsAtWrap(k) == {2, 32767}

Bytes(w) == [i \in 1..24 |-> IF i % 2 = 1 THEN w[(i + 1) \div 2] \div 256 ELSE w[i \div 2] % 256]
Override(base, P, f) == [k \in 1..12 |-> IF k \in P THEN f[k] ELSE base[k]]
\* family A: every combination of overrides, at the lengths around the declared 4*lf;
\* family B: every short/odd length, against every declared lf (other words from the base)
LfVals == ValsAt(1) \cup {2, 3, 4, 5, 6, 7}
RECURSIVE Funs(_)
Funs(Q) == IF Q = {} THEN {<<>>}
           ELSE LET k == CHOOSE x \in Q : TRUE IN
                {(k :> v) @@ g : v \in ValsAt(k), g \in Funs(Q \ {k})}
Init ==
  \E base \in Bases :
    \/ \E P \in {Q \in SUBSET (1..12) : Cardinality(Q) <= MaxOverrides} :
         \E f \in Funs(P) :
           LET w == Override(base, P, f) IN
           \E l \in {x \in {4 * w[1] - 1, 4 * w[1], 4 * w[1] + 4} : x >= 0} :
              MachineInit(l, SubSeq(Bytes(w), 1, Min(l, 24)))
    \/ \E v \in LfVals : \E l \in Lens :
         LET w == [base EXCEPT ![1] = v] IN MachineInit(l, SubSeq(Bytes(w), 1, Min(l, 24)))

Spec == Init /\ [][KnuthNext]_vars

TypeOK == /\ WellFormedFile(len, b)
          /\ pc \in {"s20_first", "s20_lf", "s20_rest", "s21_eval", "s21_tests", "done"}
          /\ out \in Kinds \cup {""}
          /\ (out = "") = (pc # "done")

\* ---- implementation-shaped layer against the reference --------------------------------
ImplOutcome == ClassifyImpl(len, b, ImplDeviations, ImplBug)
\* with the proposed fixes (ImplDeviations = {}) the Rust-shaped procedure is the table
\* (properties of the file alone are evaluated once per file, in its final state, so that TLC's workers share them)
AtStart == pc = "done"
ImplAgrees == AtStart => Accepts(Classify(len, b), ImplOutcome)
\* whatever the implementation accepts can be sliced (no index past the end, no negative size)
ImplOkIsSliceable ==
  AtStart /\ ImplOutcome = "Ok" =>
    LET p == <<6, W(b, LH), W(b, EC) - W(b, BC) + 1, W(b, NW), W(b, NH), W(b, ND),
               W(b, NI), W(b, NL), W(b, NK), W(b, NE), W(b, NP)>> IN
    Len(b) = 24 /\ \A i \in 1..11 : p[i] >= 0 /\ p[i] <= 32767 /\ 4 * PartSum(p, i) <= len
\* today's code (all four deviations) leaves the reference only inside the named classes,
\* and every such outcome is explained by a set of named deviations
TodayOutcome == ClassifyImpl(len, b, DeviationNames, "")
TodayDeviatesOnlyInClasses ==
  AtStart /\ ~Accepts(Classify(len, b), TodayOutcome) =>
     /\ \E d \in DeviationNames : DevClass(d, len, b)
     /\ \A D \in Explains(len, b, TodayOutcome) : \A d \in D : DevClass(d, len, b)
TableIsPartitionAtStart == AtStart => TableIsPartition
OkIsSliceSafeAtStart == AtStart => OkIsSliceSafe
=============================================================================
