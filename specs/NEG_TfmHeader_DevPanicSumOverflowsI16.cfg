SPECIFICATION Spec
CONSTANTS
  MaxOverrides = 2
  ValsAt <- ValsAtQuick
  Bases <- BasesQuick
  Lens <- LensQuick
  ImplDeviations = {"PanicSumOverflowsI16"}
  ImplBug = ""
INVARIANTS ImplAgrees
CHECK_DEADLOCK FALSE
