------------------------------ MODULE LigKern ------------------------------
(***************************************************************************)
(* Ligature/kern programs of TFM fonts.                                    *)
(*                                                                         *)
(* REFERENCE LAYER.  TeX's main loop (tex.web sections 1034-1040) for one  *)
(* word set in one font: the registers cur_l, cur_r, lig_stack,            *)
(* ligature_present, lft_hit, rt_hit, bchar, the nodes appended so far and *)
(* the characters appended after cur_q.  One label of the Pascal program   *)
(* is one value of `pc`; TeXStep is the code between two labels.           *)
(* Instruction lookup (section 1039) follows SKIP/STOP chains from the     *)
(* entry point of cur_l (lig_kern_start / lig_kern_restart), or from       *)
(* bchar_label when the cursor is at the left boundary.                    *)
(*                                                                         *)
(* PAIR LAYER.  TFtoPL's function f(x,y) (tftopl.web sections 88-95): the  *)
(* character left of the cursor when it first moves past y.  f is          *)
(* undefined exactly when a pair is re-entered while its own evaluation is *)
(* pending; that is the definition of "the instructions for the pair never *)
(* terminate" used for the loop report.  MC_LigKern checks that it agrees  *)
(* with non-termination of the cursor machine.                             *)
(*                                                                         *)
(* Representation (shared with the harness, see harness/src/c05.rs):       *)
(*   P.ins[i] = <<skip, next_char, op, rem>>                               *)
(*        skip: -1 = STOP, n >= 0 = SKIP n                                 *)
(*        op  : TeX's op_byte 0 =:  1 =:|  2 |=:  3 |=:|  5 =:|>  6 |=:>   *)
(*              7 |=:|>  11 |=:|>>; 128 = kern; 255 = skip_byte > 128      *)
(*        rem : inserted character | kern amount | redirect target         *)
(*   P.ep = <<<<char, index>>, ...>> entry points (0-based indices),       *)
(*   P.packed = 1 when they are raw TFM remainders (restart rule applies)  *)
(*   P.lbe = bchar_label (0-based) or -1;  P.rbc = font bchar or 256       *)
(*   P.lbf (optional) = the left-boundary entry field of an in-memory      *)
(*   converted program, see Deviations                                     *)
(* Items of the output: <<0, c>> character, <<1, c, originals, lft, rt>>   *)
(* ligature, <<2, amount>> kern.                                           *)
(***************************************************************************)
EXTENDS Integers, Sequences, FiniteSets

\* Named deviations of the implementation from TeX (known findings).  {} = TeX.
\*  "PhantomLigature": an instruction with skip_byte > 128 that is reached through a chain (or sits
\*      at an unpacked entry point) is executed as if its op_byte/remainder were a command
\*      (compiler.rs: "reimplements the phantom ligature bug in tftopl"); TeX never executes it.
\*  "StaleLeftBoundaryEntry": a program that went through Program::pack_entrypoints in memory keeps
\*      its left-boundary entry point field at the index it had before the instructions were
\*      rotated; compile starts the left-boundary program there (P.lbf) and not at bchar_label.
CONSTANT Deviations

\* Seeded defects for the negative controls ("" = none); see NEG_LigKern_*.cfg
CONSTANT Bug

NonChar == 256          \* TeX's non_char; also "no boundary character"
KernOp  == 128          \* op_byte >= kern_flag
StopOp  == 255          \* an instruction whose skip_byte exceeds stop_flag
Undef   == -1

B(b) == IF b THEN 1 ELSE 0

-----------------------------------------------------------------------------
(* Instruction lookup: TeX82 section 1039 *)

EpIndex(P, c) == LET S == {j \in 1..Len(P.ep) : P.ep[j][1] = c}
                 IN IF S = {} THEN -1 ELSE P.ep[CHOOSE j \in S : TRUE][2]

\* lig_kern_start, and lig_kern_restart when the first instruction has skip_byte > 128
Start(P, c) ==
  IF c = NonChar
  THEN IF "StaleLeftBoundaryEntry" \in Deviations /\ "lbf" \in DOMAIN P THEN P.lbf ELSE P.lbe
  ELSE LET e == EpIndex(P, c) IN
       IF e < 0 \/ e >= Len(P.ins) THEN -1
       ELSE IF P.packed = 1 /\ P.ins[e + 1][3] = StopOp THEN P.ins[e + 1][4] ELSE e

\* the instruction at 1-based index j as the machine sees it
ValidOps == {0, 1, 2, 3, 5, 6, 7, 11}
Ins(P, j) ==
  LET i == P.ins[j] IN
  IF i[3] = StopOp /\ "PhantomLigature" \in Deviations
  THEN LET ob == i[4] \div 256   rb == i[4] % 256 IN
       IF ob >= KernOp THEN <<i[1], i[2], KernOp, 0>>
       ELSE <<i[1], i[2], IF ob \in ValidOps THEN ob ELSE 0, rb>>
  ELSE i

RECURSIVE Walk(_, _, _)
\* 1-based index of the first instruction of the chain at k (0-based) that applies to r; 0 if none.
\* An instruction with skip_byte > 128 never applies and ends the chain (the two tests
\* "skip_byte(main_j)<=stop_flag" and ">=stop_flag" of section 1039).
Walk(P, k, r) ==
  IF k < 0 \/ k >= Len(P.ins) THEN 0
  ELSE LET i == Ins(P, k + 1) IN
       IF i[3] = StopOp THEN 0
       ELSE IF i[2] = r THEN k + 1
       ELSE IF i[1] < 0 THEN 0
       ELSE Walk(P, k + i[1] + 1, r)

Lookup(P, l, r) == IF r = NonChar THEN 0 ELSE Walk(P, Start(P, l), r)

\* right characters mentioned along the chain that starts at k
RECURSIVE ChainRcs(_, _)
ChainRcs(P, k) ==
  IF k < 0 \/ k >= Len(P.ins) THEN {}
  ELSE LET i == Ins(P, k + 1) IN
       IF i[3] = StopOp THEN {}
       ELSE {i[2]} \cup (IF i[1] < 0 THEN {} ELSE ChainRcs(P, k + i[1] + 1))

Lefts(P) == {P.ep[j][1] : j \in 1..Len(P.ep)} \cup (IF Start(P, NonChar) >= 0 THEN {NonChar} ELSE {})

\* every pair that has a lig/kern instruction
RulePairs(P) == UNION { { <<l, r>> : r \in ChainRcs(P, Start(P, l)) } : l \in Lefts(P) }

-----------------------------------------------------------------------------
(* Reference layer: the registers of TeX's main loop *)

CharNode(c)   == [ch |-> c, lig |-> FALSE, orig |-> c]
LigItem(c, o) == [ch |-> c, lig |-> TRUE,  orig |-> o]    \* o = NonChar: lig_ptr = null

\* wrapup(z) with pack_lig (section 1035).  Afterwards TeX always executes cur_q:=tail before
\* anything else is appended, so the characters after cur_q (acc) are moved to `out` here.
Wrap(s, z) ==
  IF s.cl = NonChar THEN s
  ELSE IF s.lp
       THEN LET rt == z /\ s.stk = <<>> IN
            [s EXCEPT !.out = Append(@, <<1, s.cl, s.acc, B(s.lh), B(rt)>>), !.acc = <<>>,
                      !.lh = FALSE, !.rh = IF rt THEN FALSE ELSE @, !.lp = FALSE]
       ELSE [s EXCEPT !.out = @ \o [j \in 1..Len(s.acc) |-> <<0, s.acc[j]>>], !.acc = <<>>]

\* section 1034: main_loop.  w non-empty; nl = 1: no left boundary processing (cancel_boundary);
\* bc: the right boundary character in effect (NonChar: none)
TeXInit(P, w, nl, bc) ==
  LET base == [pc |-> "main_loop_move_1", out |-> <<>>, acc |-> <<>>, cl |-> w[1], cr |-> NonChar,
               stk |-> <<CharNode(w[1])>>, lp |-> FALSE, lh |-> FALSE, rh |-> FALSE,
               bc |-> bc, rest |-> Tail(w)]
  IN IF nl = 0 /\ Start(P, NonChar) >= 0
     THEN [base EXCEPT !.cr = w[1], !.cl = NonChar, !.pc = "main_lig_loop"]
     ELSE base

\* section 1040: do ligature or kern command
DoCommand(s, ins) ==
  LET op == ins[3]   rem == ins[4] IN
  IF op >= KernOp
  THEN [Wrap(s, s.rh) EXCEPT !.out = Append(@, <<2, rem>>), !.pc = "main_loop_move"]
  ELSE
    LET s0 == [s EXCEPT !.lh = IF s.cl = NonChar THEN TRUE ELSE @,
                        !.rh = IF s.cl # NonChar /\ s.stk = <<>> THEN TRUE ELSE @]
        after ==
          CASE op \in {1, 5} -> [s0 EXCEPT !.cl = rem, !.lp = TRUE]                          \* =:|  =:|>
            [] op \in {2, 6} ->                                                                \* |=:  |=:>
                 IF s0.stk = <<>>         \* right boundary character is being consumed
                 THEN [s0 EXCEPT !.cr = rem, !.stk = <<LigItem(rem, NonChar)>>, !.bc = NonChar]
                 ELSE IF ~s0.stk[1].lig
                 THEN [s0 EXCEPT !.cr = rem, !.stk = <<LigItem(rem, s0.stk[1].ch)>>]
                 ELSE [s0 EXCEPT !.cr = rem, !.stk[1].ch = rem]
            [] op = 3 -> [s0 EXCEPT !.cr = rem, !.stk = <<LigItem(rem, NonChar)>> \o @]       \* |=:|
            [] op \in {7, 11} -> [Wrap(s0, FALSE) EXCEPT !.cl = rem, !.lp = TRUE]              \* |=:|> |=:|>>
            [] OTHER -> [s0 EXCEPT !.cl = rem, !.lp = TRUE,                                    \* =:
                                  !.pc = IF s0.stk = <<>> THEN "main_loop_wrapup" ELSE "main_loop_move_1"]
    IN IF op \notin {1, 2, 3, 5, 6, 7, 11} THEN after
       ELSE IF op > 4 /\ op # 7 THEN [after EXCEPT !.pc = "main_loop_wrapup"]
       ELSE [after EXCEPT !.pc = "main_lig_loop"]

TeXStep(P, s) ==
  CASE s.pc = "main_lig_loop" ->                                       \* section 1039
         LET i == Lookup(P, s.cl, s.cr) IN
         IF i = 0 THEN [s EXCEPT !.pc = "main_loop_wrapup"] ELSE DoCommand(s, Ins(P, i))
    [] s.pc = "main_loop_wrapup" ->                                    \* section 1035
         [Wrap(s, s.rh) EXCEPT !.pc = "main_loop_move"]
    [] s.pc = "main_loop_move" ->                                      \* section 1036
         IF s.stk = <<>> THEN [s EXCEPT !.pc = "done"]
         ELSE [s EXCEPT !.cl = s.stk[1].ch, !.pc = "main_loop_move_1"]
    [] s.pc = "main_loop_move_1" ->
         LET top == s.stk[1] IN
         IF top.lig
         THEN \* main_loop_move_lig, section 1037
              LET s1 == [s EXCEPT !.acc = IF top.orig # NonChar /\ Bug # "DropOriginal" THEN Append(@, top.orig) ELSE @,
                                  !.stk = Tail(@), !.lp = TRUE]
              IN IF s1.stk = <<>>
                 THEN IF top.orig # NonChar THEN [s1 EXCEPT !.pc = "main_loop_lookahead"]
                      ELSE [s1 EXCEPT !.cr = s.bc, !.pc = "main_lig_loop"]
                 ELSE [s1 EXCEPT !.cr = s1.stk[1].ch, !.pc = "main_lig_loop"]
         ELSE \* main_loop_move+2: the character node is appended to the list
              [s EXCEPT !.acc = Append(@, top.ch), !.stk = <<>>, !.pc = "main_loop_lookahead"]
    [] s.pc = "main_loop_lookahead" ->                                 \* section 1038
         IF s.rest # <<>>
         THEN [s EXCEPT !.stk = <<CharNode(Head(s.rest))>>, !.cr = Head(s.rest), !.rest = Tail(@),
                        !.pc = "main_lig_loop"]
         ELSE [s EXCEPT !.cr = s.bc, !.stk = <<>>, !.pc = "main_lig_loop"]
    [] OTHER -> s

-----------------------------------------------------------------------------
(* What a state spells: every character of the input word is in exactly one place *)

RECURSIVE Flat(_)
Flat(ss) == IF ss = <<>> THEN <<>> ELSE Head(ss) \o Flat(Tail(ss))

ItemOriginals(it) == IF it[1] = 0 THEN <<it[2]>> ELSE IF it[1] = 1 THEN it[3] ELSE <<>>
Originals(items) == Flat([j \in 1..Len(items) |-> ItemOriginals(items[j])])
StackOriginals(stk) == Flat([j \in 1..Len(stk) |-> IF stk[j].orig = NonChar THEN <<>> ELSE <<stk[j].orig>>])
Spelled(s) == Originals(s.out) \o s.acc \o StackOriginals(s.stk) \o s.rest

\* compared projection of an item: kind, character, originals | kind, amount (boundary flags dropped)
SameItem(a, b) == /\ a[1] = b[1]
                  /\ a[2] = b[2]
                  /\ a[1] = 1 => a[3] = b[3]
SameItems(x, y) == Len(x) = Len(y) /\ \A j \in 1..Len(x) : SameItem(x[j], y[j])

-----------------------------------------------------------------------------
(* Pair layer: TFtoPL sections 88-95 *)

RECURSIVE EvalF(_, _, _, _)
\* f(x,y); Undef when a pair is entered again while pending (TFtoPL 95, class `pending`)
EvalF(P, x, y, pend) ==
  LET i == Lookup(P, x, y) IN
  IF i = 0 THEN y
  ELSE IF <<x, y>> \in pend THEN Undef
  ELSE LET op == Ins(P, i)[3]   z == Ins(P, i)[4]   pd == pend \cup {<<x, y>>} IN
       IF op >= KernOp THEN y                         \* simple
       ELSE CASE op \in {5, 11} \/ (op = 7 /\ Bug = "ClassOfOp7") -> y          \* LIG/>  /LIG/>>  simple
              [] op \in {1, 7}  -> EvalF(P, z, y, pd) \* LIG/   /LIG/>      left_z
              [] op = 2         -> EvalF(P, x, z, pd) \* /LIG               right_z
              [] op = 3         -> LET m == EvalF(P, x, z, pd) IN            \* /LIG/  both_z
                                   IF m = Undef THEN Undef ELSE EvalF(P, m, y, pd)
              [] OTHER          -> z                  \* LIG    /LIG>       simple

PairLoops(P, x, y) == EvalF(P, x, y, {}) = Undef
LoopPairs(P) == {pr \in RulePairs(P) : PairLoops(P, pr[1], pr[2])}

-----------------------------------------------------------------------------
(* Running a word to completion (used by the trace specification).  The run  *)
(* diverges as soon as the cursor stands between a pair of LP (= LoopPairs). *)

RECURSIVE Iterate(_, _, _, _)
Iterate(P, LP, s, fuel) ==
  IF s.pc = "done" THEN s
  ELSE IF s.pc = "main_lig_loop" /\ <<s.cl, s.cr>> \in LP THEN [s EXCEPT !.pc = "diverges"]
  ELSE IF fuel = 0 THEN [s EXCEPT !.pc = "fuel"]
  ELSE Iterate(P, LP, TeXStep(P, s), fuel - 1)

RefRun(P, LP, w, nl, bc) == Iterate(P, LP, TeXInit(P, w, nl, bc), 100000)
=============================================================================
