SPECIFICATION TSpec
CONSTANTS
  Threshold = 255
  MaxRedirect = 65535
  MaxHeader = 255
  Deviations = {"OffsetSaturates"}
  Bug = ""
POSTCONDITION TraceAccepted
CHECK_DEADLOCK FALSE
