------------------------------ MODULE TfmArith ------------------------------
(* Font-metric arithmetic of TeX / TFtoPL / PLtoTF (property C17).          *)
(*                                                                          *)
(* Literal transcriptions, as TLA+ operators over 32-bit integers (TLC's    *)
(* arithmetic; an overflow is a TLC error, exactly as Knuth intends):       *)
(*   PrintFix     TFtoPL  sections 40-43  (out_fix)                         *)
(*   GetFix       PLtoTF  sections 62-66  (get_fix)                         *)
(*   StoreScaled  TeX     sections 568, 571-572                             *)
(*   MinCover / Shorten / SetIndices   PLtoTF sections 75-78                *)
(*   BinShorten   the binary search over tolerances that tfm::compress uses *)
(*   ListScan     TFtoPL section 84 = PLtoTF section 113 (charlist cycles)  *)
(* and the *definitions* they have to meet (reference layer):               *)
(*   MinClasses / LeastD / Contract     lossy compression                   *)
(*   CutSet / Cut / Chain               next-larger chains                  *)
(* The MC_TfmArith_* modules let TLC check implementation layer against     *)
(* reference layer; Trace_TfmArith validates call events of the real code.  *)
(*                                                                          *)
(* Text is a sequence of ASCII codes ("-" 45, "." 46, "0" 48, " " 32,       *)
(* "+" 43, "R" 82, "D" 68, ")" 41).                                         *)
EXTENDS Integers, Sequences, FiniteSets

CONSTANT Bug            \* "" = the specification; otherwise a seeded mutant (negative controls)

Unity  == 1048576       \* @'4000000 = 2^20, the fix_word 1.0
Half   == 524288        \* @'2000000
Two21  == 2097152       \* @'10000000
Two23  == 8388608       \* @'40000000
Two24  == 16777216
MaxInt == 2147483647
MinFix == (-MaxInt) - 1 \* the bit pattern "80000000

Max2(a, b) == IF a >= b THEN a ELSE b
Min2(a, b) == IF a <= b THEN a ELSE b
Abs(a) == IF a < 0 THEN -a ELSE a

-----------------------------------------------------------------------------
(* The four bytes tfm[k..k+3] of a fix_word given as a signed 32-bit integer. *)
U31(v)   == (v + MaxInt) + 1                       \* v + 2^31 for v < 0, no overflow
B0(v)    == IF v >= 0 THEN v \div Two24 ELSE 128 + (U31(v) \div Two24)
Low24(v) == IF v >= 0 THEN v % Two24 ELSE U31(v) % Two24
B1(v)    == Low24(v) \div 65536
B2(v)    == (Low24(v) \div 256) % 256
B3(v)    == Low24(v) % 256

-----------------------------------------------------------------------------
(* TFtoPL 40-43: out_fix.  The text after " R ".                            *)

RECURSIVE IntDigs(_)      \* section 42: dig[j]:=a mod 10 ... until a=0; out_digs(j)
IntDigs(a) == IF a < 10 THEN <<48 + a>> ELSE IntDigs(a \div 10) \o <<48 + (a % 10)>>

RECURSIVE FracLoop(_, _)  \* section 43: repeat ... until f<=delta
FracLoop(f, delta) ==
  LET f1 == IF (IF Bug = "PrintDeltaGeq" THEN delta >= 1000000 ELSE delta > Unity)
            THEN f + (IF Bug = "PrintNoHalf" THEN 0 ELSE Half) - (delta \div 2) ELSE f
      f2 == 10 * (f1 % Unity)
      d2 == delta * 10
  IN <<48 + (f1 \div Unity)>> \o (IF f2 <= d2 THEN <<>> ELSE FracLoop(f2, d2))

FracText(f) == FracLoop(10 * f + (IF Bug = "PrintNoRound" THEN 0 ELSE 5), 10)   \* f:=10*f+5; delta:=10

PrintFix(v) ==
  LET a0  == B0(v) * 16 + (B1(v) \div 16)                 \* section 40
      f0  == (((B1(v) % 16) * 256) + B2(v)) * 256 + B3(v)
      neg == a0 > 2047                                    \* a>@'3777
      a1  == IF neg THEN 4096 - a0 ELSE a0                \* section 41
      f   == IF neg /\ f0 > 0 THEN Unity - f0 ELSE f0
      a   == IF neg /\ f0 > 0 THEN a1 - 1 ELSE a1
  IN (IF neg THEN <<45>> ELSE <<>>) \o IntDigs(a) \o <<46>> \o FracText(f)

PrintFixData(v) == <<82, 32>> \o PrintFix(v)              \* "R " and the number

-----------------------------------------------------------------------------
(* PLtoTF 62-66: get_fix.  `s` is the data of the property ("R 1.5"); past   *)
(* its end get_next delivers the closing parenthesis.                       *)
Ch(s, i) == IF i <= Len(s) THEN s[i] ELSE 41
IsDigit(c) == c >= 48 /\ c <= 57

RECURSIVE SkipBlanks(_, _)        \* repeat get_next until cur_char<>" "
SkipBlanks(s, i) == IF Ch(s, i) = 32 THEN SkipBlanks(s, i + 1) ELSE i

RECURSIVE Signs(_, _, _)          \* section 63
Signs(s, i, neg) ==
  IF Ch(s, i) = 45 THEN Signs(s, i + 1, TRUE)
  ELSE IF Ch(s, i) = 43 \/ Ch(s, i) = 32 THEN Signs(s, i + 1, neg)
  ELSE [i |-> i, neg |-> neg]

RECURSIVE IntPart(_, _, _)        \* section 62 loop with section 64
IntPart(s, i, acc) ==
  IF IsDigit(Ch(s, i))
  THEN LET a == acc * 10 + (Ch(s, i) - 48)
       IN IF a >= 2048 THEN [err |-> TRUE, i |-> i, acc |-> 0]    \* skip_error; acc:=0; cur_char:=" "
          ELSE IntPart(s, i + 1, a)
  ELSE [err |-> FALSE, i |-> i, acc |-> acc]

RECURSIVE FracDigits(_, _, _)     \* section 66, first loop: at most 7 places are stored
FracDigits(s, i, ds) ==
  IF IsDigit(Ch(s, i))
  THEN FracDigits(s, i + 1, IF Len(ds) < 7 THEN Append(ds, Ch(s, i) - 48) ELSE ds)
  ELSE [i |-> i, ds |-> ds]

RECURSIVE FracAcc(_, _, _)        \* while j>0 do acc:=fraction_digits[j]+(acc div 10)
FracAcc(ds, j, acc) == IF j = 0 THEN acc ELSE FracAcc(ds, j - 1, Two21 * ds[j] + (acc \div 10))

RoundC == IF Bug = "GetRound9" THEN 9 ELSE IF Bug = "GetRound11" THEN 11 ELSE 10
FracValue(ds) == (FracAcc(ds, Len(ds), 0) + RoundC) \div 20       \* acc:=(acc+10) div 20

(* Result: v = the value, err = 0 (none), 1 ("Real constants must be less     *)
(* than 2048") or 2 ("An R or D value is needed here"), fd = the number of    *)
(* fraction digits present in the text (all are consumed, 7 are stored).      *)
GetFix(s) ==
  LET i0 == SkipBlanks(s, 1)
  IN IF Ch(s, i0) # 82 /\ Ch(s, i0) # 68
     THEN [v |-> 0, err |-> 2, fd |-> 0]
     ELSE
       LET sg == Signs(s, i0 + 1, FALSE)
           ip == IntPart(s, sg.i, 0)
       IN IF ip.err THEN [v |-> 0, err |-> 1, fd |-> 0]   \* skip_error; acc=0 and no fraction is scanned
          ELSE
            LET dot    == Ch(s, ip.i) = 46
                fdg    == IF dot THEN FracDigits(s, ip.i + 1, <<>>) ELSE [i |-> ip.i + 1, ds |-> <<>>]
                fr     == FracValue(fdg.ds)
                toobig == fr >= Unity /\ ip.acc = 2047
                acc    == IF toobig THEN fr ELSE ip.acc * Unity + fr      \* after the error acc is left as it is
            IN [v |-> IF sg.neg THEN -acc ELSE acc, err |-> IF toobig THEN 1 ELSE 0, fd |-> fdg.i - (ip.i + 1)]

(* The law of the property: every bit pattern prints as text that reads back *)
(* as the same pattern.  "80000000 prints as -2048.0, which get_fix rejects  *)
(* (in Knuth's programs as well), so it is the one pattern excluded.         *)
RoundTrips(v) == LET b == GetFix(PrintFixData(v)) IN b.v = v /\ b.err = 0

-----------------------------------------------------------------------------
(* TeX 568, 571, 572: store_scaled.  v = the fix_word, ds = the design size  *)
(* as a fix_word (TeX 568 keeps its top 28 bits: z in scaled points).        *)
RECURSIVE Norm(_, _)              \* 572: while z>=@'40000000 do z:=z div 2; alpha:=alpha+alpha
Norm(z, alpha) == IF z >= Two23 THEN Norm(z \div 2, alpha + alpha) ELSE [z |-> z, alpha |-> alpha]

StoreScaled(v, ds) ==
  LET n     == Norm(ds \div 16, 16)
      z     == n.z
      beta  == IF Bug = "ScaledBeta16" THEN 16 ELSE 256 \div n.alpha
      alpha == IF Bug = "ScaledAlphaZ0" THEN n.alpha * (ds \div 16) ELSE n.alpha * z
      sw    == (((((B3(v) * z) \div 256) + (B2(v) * z)) \div 256) + (B1(v) * z)) \div beta
  IN IF B0(v) = 0 THEN [ok |-> TRUE, sw |-> sw]
     ELSE IF B0(v) = 255 THEN [ok |-> TRUE, sw |-> sw - alpha]
     ELSE [ok |-> FALSE, sw |-> 0]                \* abort: the font is rejected

-----------------------------------------------------------------------------
(* Lossy compression, reference layer.  S is a strictly increasing sequence. *)
(* A class is a set of values whose extremes differ by at most d; because S  *)
(* is sorted an optimal partition can be taken to consist of runs.           *)
Width(S, i, j) == S[j] - S[i]

Cuts(S) == SUBSET (1 .. (Len(S) - 1))             \* a cut after position c
RunsOk(S, C, d) ==
  \A i \in 1 .. Len(S) : \A j \in i .. Len(S) :
     ((\A c \in C : c < i \/ c >= j)) => Width(S, i, j) <= d
MinClasses(S, d) ==                               \* brute force, small S only
  LET ok == { C \in Cuts(S) : RunsOk(S, C, d) }
  IN CHOOSE k \in 1 .. Len(S) : (\E C \in ok : Cardinality(C) + 1 = k)
                                 /\ (\A C \in ok : Cardinality(C) + 1 >= k)
LeastD(S, m) ==                                   \* the smallest tolerance admitting <= m classes
  IF Len(S) <= m THEN 0
  ELSE LET mc == [d \in 0 .. Width(S, 1, Len(S)) |-> MinClasses(S, d)]
       IN CHOOSE d \in DOMAIN mc : mc[d] <= m /\ \A e \in 0 .. (d - 1) : mc[e] > m

(* What a compression result must satisfy.  cls[i] = class of S[i] (1..n),  *)
(* rep[k] = representative of class k, d = LeastD(S, m).  Half a tolerance   *)
(* is taken up to the unit of the representation: ceil(d/2).                 *)
HalfUp(d) == (d + 1) \div 2
Contract(S, m, d, cls, rep) ==
  /\ Len(rep) <= m
  /\ \A i \in 1 .. Len(S) : cls[i] \in 1 .. Len(rep)
  /\ \A i, j \in 1 .. Len(S) : cls[i] = cls[j] => Abs(S[i] - S[j]) <= d
  /\ \A i \in 1 .. Len(S) : Abs(S[i] - rep[cls[i]]) <= HalfUp(d)

-----------------------------------------------------------------------------
(* PLtoTF 75: min_cover(h,d) with its side result next_d.  memory[0] is     *)
(* `infinity`; any sentinel larger than every difference serves (Knuth's    *)
(* 2^31-1 overflows memory[0]-l for negative l, so the model uses 2^30-1).  *)
Infinity == 1073741823
Mem(S, p) == IF p > Len(S) THEN Infinity ELSE S[p]

RECURSIVE Extend(_, _, _)         \* while memory[link[p]]<=l+d do p:=link[p]
Extend(S, p, lim) == IF Mem(S, p + 1) <= lim THEN Extend(S, p + 1, lim) ELSE p

RECURSIVE MCLoop(_, _, _, _, _)
MCLoop(S, d, p, k, nd) ==
  IF p > Len(S) THEN [k |-> k, nd |-> nd]
  ELSE LET l  == S[p]
           p2 == Extend(S, p, l + d) + 1
           g  == Mem(S, p2) - l
       IN MCLoop(S, d, p2, k + 1, IF g < nd THEN g ELSE nd)
MinCover(S, d) == MCLoop(S, d, 1, 0, Infinity)
Cover(S, d) == MinCover(S, d).k

(* PLtoTF 76: shorten(h,m) *)
RECURSIVE Ascend(_, _, _)         \* repeat d:=d+d; k:=min_cover(h,d) until k<=m
Ascend(S, m, d) == LET d2 == d + d IN IF Cover(S, d2) <= m THEN d2 ELSE Ascend(S, m, d2)
RECURSIVE Steps(_, _, _)          \* while k>m do d:=next_d; k:=min_cover(h,d)
Steps(S, m, d) == LET r == MinCover(S, d) IN IF r.k > m THEN Steps(S, m, r.nd) ELSE d
Shorten(S, m) ==
  IF Len(S) > m
  THEN LET d0 == MinCover(S, 0).nd                \* now the answer is at least d
           d1 == Ascend(S, m, d0)
       IN Steps(S, m, IF Bug = "ShortenNoHalve" THEN d1 ELSE d1 \div 2)
  ELSE 0

(* PLtoTF 77: set_indices(h,d), with the global `excess` set by shorten.    *)
(* Result: cls (class of each S[i]) and rep (the rounded list).             *)
RECURSIVE SIInner(_, _, _, _, _, _)   \* the inner while: returns new p, d, excess and the members
SIInner(S, p, l, d, ex, mem) ==
  IF Mem(S, p + 1) <= l + d
  THEN LET ex2 == ex - 1 IN SIInner(S, p + 1, l, IF ex2 = 0 THEN 0 ELSE d, ex2, mem + 1)
  ELSE [p |-> p, d |-> d, ex |-> ex, n |-> mem]
RECURSIVE SILoop(_, _, _, _, _, _)
SILoop(S, p, d, ex, cls, rep) ==
  IF p > Len(S) THEN [cls |-> cls, rep |-> rep]
  ELSE LET l == S[p]
           r == SIInner(S, p, l, d, ex, 1)
           m == Len(rep) + 1
       IN SILoop(S, r.p + 1, r.d, r.ex,
                 cls \o [i \in 1 .. r.n |-> m],
                 Append(rep, l + ((S[r.p] - l) \div 2)))      \* memory[p]:=l+(memory[p]-l) div 2
SetIndices(S, m) ==
  IF Len(S) > m THEN SILoop(S, 1, Shorten(S, m), Len(S) - m, <<>>, <<>>)
  ELSE [cls |-> [i \in 1 .. Len(S) |-> i], rep |-> S]

(* tfm::compress: binary search over the tolerance.  One probe classifies    *)
(* greedily with tolerance delta and narrows [lower, upper] to the nearest   *)
(* tolerances at which the classification changes.                           *)
RECURSIVE Probe(_, _, _, _, _, _, _, _)
Probe(S, m, delta, i, start, n, dlo, dup) ==       \* n = classes closed so far
  IF i > Len(S) THEN [sol |-> (IF Bug = "BinCountOff" THEN n + 1 < m ELSE n + 1 <= m), dlo |-> dlo, dup |-> dup]
  ELSE LET gap == S[i] - start
       IN IF gap > delta
          THEN IF n + 1 >= m                       \* early exit: already too many
               THEN [sol |-> FALSE, dlo |-> dlo, dup |-> Min2(gap, dup)]
               ELSE Probe(S, m, delta, i + 1, S[i], n + 1, dlo, Min2(gap, dup))
          ELSE Probe(S, m, delta, i + 1, start, n, Max2(gap, dlo), dup)
RECURSIVE BinLoop(_, _, _, _)
BinLoop(S, m, lower, upper) ==
  IF lower < upper
  THEN LET delta == lower + ((upper - lower) \div 2)
           r == Probe(S, m, delta, 1, S[1], 0, 0, Width(S, 1, Len(S)))
       IN IF r.sol THEN BinLoop(S, m, lower, r.dlo)
          ELSE BinLoop(S, m, IF Bug = "BinLowerPastDup" THEN Min2(r.dup + 1, upper) ELSE r.dup, upper)
  ELSE upper
BinShorten(S, m) == IF Len(S) > m THEN BinLoop(S, m, 0, Width(S, 1, Len(S))) ELSE 0

(* Full greedy classing with tolerance d, midpoint representatives: what     *)
(* compress returns for the tolerance found.                                 *)
RECURSIVE GreedyLoop(_, _, _, _, _)
GreedyLoop(S, d, p, cls, rep) ==
  IF p > Len(S) THEN [cls |-> cls, rep |-> rep]
  ELSE LET q == Extend(S, p, S[p] + d)
           m == Len(rep) + 1
       IN GreedyLoop(S, d, q + 1, cls \o [i \in 1 .. (q - p + 1) |-> m], Append(rep, S[p] + ((S[q] - S[p]) \div 2)))
Greedy(S, d) == GreedyLoop(S, d, 1, <<>>, <<>>)

(* The cheap characterisation of LeastD used on recorded calls: d is the     *)
(* least tolerance iff the greedy cover with d has <= m classes and the one  *)
(* with d-1 has more (Cover is optimal and monotone -- checked by TLC).      *)
IsLeast(S, m, d) ==
  IF Len(S) <= m THEN d = 0
  ELSE d >= 0 /\ Cover(S, d) <= m /\ (d = 0 \/ Cover(S, d - 1) > m)

-----------------------------------------------------------------------------
(* Next-larger chains.  g: a function from a finite set of character codes   *)
(* to character codes (the list tags of a font).                             *)
RECURSIVE Walk(_, _, _, _)        \* does the chain from x return to c through characters <= c ?
Walk(g, c, x, n) ==
  IF x = c THEN TRUE
  ELSE IF n = 0 \/ x \notin DOMAIN g \/ x > c THEN FALSE
  ELSE Walk(g, c, g[x], n - 1)
(* c is the largest character of a cycle of g *)
LargestOfCycle(g, c) == c \in DOMAIN g /\ Walk(g, c, g[c], Cardinality(DOMAIN g))
CutSet(g) == { c \in DOMAIN g : LargestOfCycle(g, c) }
Cut(g) == [c \in (DOMAIN g) \ CutSet(g) |-> g[c]]

(* The same set, stated declaratively (used by TLC on small graphs). *)
RECURSIVE Iter(_, _, _)
Iter(g, c, n) == IF n = 0 THEN c ELSE IF c \in DOMAIN g THEN Iter(g, g[c], n - 1) ELSE -1
OnCycle(g, c) == \E n \in 1 .. Cardinality(DOMAIN g) : Iter(g, c, n) = c
Members(g, c) == { Iter(g, c, n) : n \in 0 .. Cardinality(DOMAIN g) }
CutSetDef(g) == { c \in DOMAIN g : OnCycle(g, c) /\ \A x \in Members(g, c) : x <= c }

RECURSIVE Chain(_, _, _)          \* the next-larger sequence of c; n bounds the recursion
Chain(h, c, n) == IF c \in DOMAIN h /\ n > 0 THEN <<h[c]>> \o Chain(h, h[c], n - 1) ELSE <<>>
Acyclic(h) == \A c \in DOMAIN h : Len(Chain(h, c, Cardinality(DOMAIN h) + 1)) <= Cardinality(DOMAIN h)

(* TFtoPL 84 / PLtoTF 113: for c:=0 to 255, follow the list while r<c; the   *)
(* tag of c is reset if the walk returns to c.                               *)
RECURSIVE Follow(_, _, _, _)     \* while (r<c)and(tag(r)=list_tag) do r:=remainder(r)
Follow(t, c, r, n) ==            \* n only bounds the walk of the mutant that drops r<c
  IF n > 0 /\ (Bug = "ListNoBound" \/ r < c) /\ r # c /\ r \in DOMAIN t THEN Follow(t, c, t[r], n - 1) ELSE r
RECURSIVE ListScan(_, _, _)
ListScan(t, c, maxc) ==
  IF c > maxc THEN t
  ELSE IF c \in DOMAIN t /\ Follow(t, c, t[c], 300) = c
       THEN ListScan([x \in (DOMAIN t) \ {c} |-> t[x]], c + 1, maxc)
       ELSE ListScan(t, c + 1, maxc)
=============================================================================
