SPECIFICATION Spec
CONSTANTS
  Threshold = 1
  MaxRedirect = 65535
  MaxHeader = 20
  Deviations = {"HeaderWordsBeyond255Dropped"}
  Bug = ""
  Mode = "hdr"
  NC = 2
  MaxBody = 3
  MaxPrefix = 2
  SkipBytes = {0, 1, 128}
  Variants = {0, 2}
  DimVals = {0, 3}
  MaxW = 2
  MaxE = 2
  MaxH = 1
  DomT = 1
  PadK = 0
  Waive = {"longheader"}
INVARIANTS Idempotent SameFont SameChains Fits Closed MainLoopSame PlWellFormed
CHECK_DEADLOCK FALSE
